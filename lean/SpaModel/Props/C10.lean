/-
C10 — parse and populate evaluate pointer expressions in the vocabulary's algebra.
Property theorems only (model: SpaModel/Basic/C10.lean).  Everything is for an arbitrary
algebra record `A : Algebra K V`, arbitrary vocabulary states (entries, strictness,
similarity bound, scripted candidate stream), arbitrary expression trees, populate
strings, attempt limits and stream lengths.
-/
import SpaModel.Basic.C10

namespace C10
open Impl Spec

variable {K V : Type}

/-! ## 1. `create_pointer`: which candidate is selected -/

section CreatePointer

variable (lt : K → K → Bool) (bound : K) (sim : V → K) (f : V → V)

/-- order reasoning used by the loop invariant -/
theorem lt_of_lt_of_not_lt {lt : K → K → Bool} (h : StrictTotal lt) {a b c : K}
    (hab : lt a b = true) (hcb : lt c b = false) : lt a c = true := by
  cases hac : lt a c with
  | true => rfl
  | false =>
    cases hca : lt c a with
    | true => rw [h.trans c a b hca hab] at hcb; cases hcb
    | false =>
      have := h.conn a c hac hca
      subst this
      rw [hab] at hcb; cases hcb

/-- `c` is the first of the least similar members of `xs`: everything before it is strictly
more similar, nothing after it is strictly less similar. -/
def Spec.IsFirstLeast (lt : K → K → Bool) (sim : V → K) (xs : List V) (c : V) : Prop :=
  ∃ pre suf, xs = pre ++ c :: suf ∧ (∀ x ∈ pre, lt (sim c) (sim x) = true) ∧
    (∀ x ∈ suf, lt (sim x) (sim c) = false)

/-- a first-least member is a least member: no member is strictly less similar -/
theorem Spec.IsFirstLeast.least {lt : K → K → Bool} (h : StrictTotal lt) {sim : V → K}
    {xs : List V} {c : V} (hc : Spec.IsFirstLeast lt sim xs c) :
    c ∈ xs ∧ ∀ x ∈ xs, lt (sim x) (sim c) = false := by
  obtain ⟨pre, suf, rfl, hpre, hsuf⟩ := hc
  refine ⟨by simp, ?_⟩
  intro x hx
  simp only [List.mem_append, List.mem_cons] at hx
  rcases hx with hx | rfl | hx
  · cases hxc : lt (sim x) (sim c) with
    | false => rfl
    | true =>
      have := h.trans _ _ _ hxc (hpre x hx)
      rw [h.irrefl] at this; cases this
  · exact h.irrefl _
  · exact hsuf x hx

/-- **First qualifying candidate.**  Non-empty vocabulary: if the candidate at position
`pre.length < attempts` is the first whose (transformed) maximum similarity is below the
bound, the loop returns it, without warning, having consumed exactly the candidates up to
it — whatever state `(best_p, best_sim)` the earlier, non-qualifying candidates left. -/
theorem cpLoop_first_below (h : StrictTotal lt) (pre : List V) (c : V) (post : List V) :
    ∀ (n : Nat) (best : Option V) (bs : Option K), pre.length < n →
      (∀ x ∈ pre, lt (sim (f x)) bound = false) → lt (sim (f c)) bound = true →
      (∀ b, bs = some b → lt b bound = false) →
      cpLoop lt bound false sim (fun x => .ok (f x)) n (pre ++ c :: post) best bs
        = .done (some (f c)) false post := by
  induction pre with
  | nil =>
    intro n best bs hn _ hc hbs
    cases n with
    | zero => cases hn
    | succ n =>
      have hlt : ltInf lt (sim (f c)) bs = true := by
        cases bs with
        | none => rfl
        | some b => exact lt_of_lt_of_not_lt h hc (hbs b rfl)
      simp [cpLoop, hlt, hc]
  | cons x pre ih =>
    intro n best bs hn hpre hc hbs
    cases n with
    | zero => cases hn
    | succ n =>
      have hx : lt (sim (f x)) bound = false := hpre x (by simp)
      have hn' : pre.length < n := by simp at hn; omega
      have hpre' : ∀ y ∈ pre, lt (sim (f y)) bound = false := fun y hy => hpre y (by simp [hy])
      simp only [List.cons_append, cpLoop, Bool.false_eq_true, if_false, hx]
      split
      · exact ih n _ _ hn' hpre' hc (by intro b hb; cases hb; exact hx)
      · exact ih n _ _ hn' hpre' hc hbs

/-- loop invariant for the non-qualifying case, started from a state that is the first-least
member of the already processed candidates -/
theorem cpLoop_none_below_aux (h : StrictTotal lt) (post : List V) :
    ∀ (xs done : List V) (b : V), Spec.IsFirstLeast lt sim done b →
      (∀ x ∈ xs, lt (sim (f x)) bound = false) →
      ∃ c, cpLoop lt bound false sim (fun x => .ok (f x)) xs.length (xs ++ post) (some b)
            (some (sim b)) = .done (some c) true post ∧
        Spec.IsFirstLeast lt sim (done ++ xs.map f) c := by
  intro xs
  induction xs with
  | nil =>
    intro done b hb _
    exact ⟨b, by simp [cpLoop], by simpa using hb⟩
  | cons x xs ih =>
    intro done b hb hxs
    have hx : lt (sim (f x)) bound = false := hxs x (by simp)
    have hxs' : ∀ y ∈ xs, lt (sim (f y)) bound = false := fun y hy => hxs y (by simp [hy])
    simp only [List.length_cons, List.cons_append, cpLoop, Bool.false_eq_true, if_false, hx, ltInf]
    obtain ⟨pre, suf, hdone, hpre, hsuf⟩ := hb
    cases hlt : lt (sim (f x)) (sim b) with
    | true =>
      -- the new candidate is strictly less similar than everything seen so far
      have hnew : Spec.IsFirstLeast lt sim (done ++ [f x]) (f x) := by
        refine ⟨done, [], by simp, ?_, by simp⟩
        intro y hy
        rw [hdone] at hy
        simp only [List.mem_append, List.mem_cons] at hy
        rcases hy with hy | rfl | hy
        · exact h.trans _ _ _ hlt (hpre y hy)
        · exact hlt
        · exact lt_of_lt_of_not_lt h hlt (hsuf y hy)
      obtain ⟨c, hc1, hc2⟩ := ih (done ++ [f x]) (f x) hnew hxs'
      refine ⟨c, by simpa using hc1, ?_⟩
      simpa [List.append_assoc] using hc2
    | false =>
      have hkeep : Spec.IsFirstLeast lt sim (done ++ [f x]) b := by
        refine ⟨pre, suf ++ [f x], by simp [hdone], hpre, ?_⟩
        intro y hy
        simp only [List.mem_append, List.mem_singleton] at hy
        rcases hy with hy | rfl
        · exact hsuf y hy
        · exact hlt
      obtain ⟨c, hc1, hc2⟩ := ih (done ++ [f x]) b hkeep hxs'
      refine ⟨c, by simpa using hc1, ?_⟩
      simpa [List.append_assoc] using hc2

/-- **No qualifying candidate.**  Non-empty vocabulary, `attempts = xs.length > 0`, none of the
first `attempts` candidates is below the bound: the loop consumes exactly these, issues
the warning, and returns the first of the least similar (transformed) candidates. -/
theorem cpLoop_none_below (h : StrictTotal lt) (x : V) (xs post : List V)
    (hxs : ∀ y ∈ x :: xs, lt (sim (f y)) bound = false) :
    ∃ c, cpLoop lt bound false sim (fun x => .ok (f x)) (x :: xs).length (x :: xs ++ post)
          none none = .done (some c) true post ∧
      Spec.IsFirstLeast lt sim ((x :: xs).map f) c := by
  have hx : lt (sim (f x)) bound = false := hxs x (by simp)
  have h1 : Spec.IsFirstLeast lt sim [f x] (f x) := ⟨[], [], by simp, by simp, by simp⟩
  obtain ⟨c, hc1, hc2⟩ := cpLoop_none_below_aux lt bound sim f h post xs [f x] (f x) h1
    (fun y hy => hxs y (by simp [hy]))
  refine ⟨c, ?_, by simpa using hc2⟩
  simp only [List.length_cons, List.cons_append, cpLoop, Bool.false_eq_true, if_false, hx, ltInf]
  simpa using hc1

/-- `attempts = 0`: nothing is drawn, `None` is returned and the `for … else` warning is
issued (the loop body never breaks) — for any vocabulary, empty or not. -/
theorem cpLoop_zero_attempts (isEmpty : Bool) (tr : V → Except Err V) (gen : List V) :
    cpLoop lt bound isEmpty sim tr 0 gen none none = .done none true gen := rfl

/-- empty vocabulary: the first candidate is taken, no similarity test, no warning -/
theorem cpLoop_empty_vocab (n : Nat) (c : V) (gen : List V) (best : Option V) (bs : Option K) :
    cpLoop lt bound true sim (fun x => .ok (f x)) (n + 1) (c :: gen) best bs
      = .done (some (f c)) false gen := by
  simp [cpLoop]

/-- exhausted generator: when the stream ends before a candidate qualified and before the
attempts are used up, the `StopIteration` of `next()` escapes -/
theorem cpLoop_exhausted (isEmpty : Bool) :
    ∀ (xs : List V) (n : Nat) (best : Option V) (bs : Option K), xs.length < n →
      (isEmpty = true → xs = []) →
      (∀ x ∈ xs, lt (sim (f x)) bound = false) →
      cpLoop lt bound isEmpty sim (fun x => .ok (f x)) n xs best bs = .raised .stopIteration [] := by
  intro xs
  induction xs with
  | nil =>
    intro n best bs hn _ _
    cases n with
    | zero => cases hn
    | succ n => simp [cpLoop]
  | cons x xs ih =>
    intro n best bs hn he hxs
    cases n with
    | zero => cases hn
    | succ n =>
      have hemp : isEmpty = false := by
        cases isEmpty with
        | false => rfl
        | true => cases he rfl
      subst hemp
      have hx : lt (sim (f x)) bound = false := hxs x (by simp)
      have hn' : xs.length < n := by simp at hn; omega
      have hxs' : ∀ y ∈ xs, lt (sim (f y)) bound = false := fun y hy => hxs y (by simp [hy])
      simp only [cpLoop, Bool.false_eq_true, if_false, hx]
      split
      · exact ih n _ _ hn' (by intro h; cases h) hxs'
      · exact ih n _ _ hn' (by intro h; cases h) hxs'

/-- a failing transform aborts with its exception after the candidate was drawn -/
theorem cpLoop_transform_error (isEmpty : Bool) (tr : V → Except Err V) (n : Nat) (c : V)
    (gen : List V) (e : Err) (he : tr c = .error e) (best : Option V) (bs : Option K) :
    cpLoop lt bound isEmpty sim tr (n + 1) (c :: gen) best bs = .raised e gen := by
  simp [cpLoop, he]

theorem exists_first {α : Type} (p : α → Bool) :
    ∀ l : List α, (∃ x ∈ l, p x = true) →
      ∃ pre c post, l = pre ++ c :: post ∧ (∀ x ∈ pre, p x = false) ∧ p c = true := by
  intro l
  induction l with
  | nil => rintro ⟨x, hx, _⟩; cases hx
  | cons a l ih =>
    rintro ⟨x, hx, hp⟩
    cases ha : p a with
    | true => exact ⟨[], a, l, by simp, by simp, ha⟩
    | false =>
      have : ∃ x ∈ l, p x = true := by
        simp only [List.mem_cons] at hx
        rcases hx with rfl | hx
        · rw [ha] at hp; cases hp
        · exact ⟨x, hx, hp⟩
      obtain ⟨pre, c, post, rfl, h1, h2⟩ := ih this
      refine ⟨a :: pre, c, post, by simp, ?_, h2⟩
      intro y hy
      simp only [List.mem_cons] at hy
      rcases hy with rfl | hy
      · exact ha
      · exact h1 y hy

/-- **`createPointer_spec`** (the loop, all candidate streams, all attempt limits, all bounds).
For a non-empty vocabulary and a stream that holds at least `attempts` candidates:

* if some candidate among the first `attempts` has maximum similarity below the bound, the
  result is the FIRST such candidate, no warning, and exactly the candidates up to it are
  consumed;
* otherwise (and `attempts > 0`) the result is the first of the least similar ones among the
  first `attempts`, the warning is issued, and exactly `attempts` candidates are consumed.

In particular the warning flag is set iff no candidate qualified.  (`attempts = 0`,
the empty vocabulary, an exhausted stream and a failing transform are
`cpLoop_zero_attempts`, `cpLoop_empty_vocab`, `cpLoop_exhausted`, `cpLoop_transform_error`.) -/
theorem createPointer_spec (h : StrictTotal lt) (attempts : Nat) (gen : List V)
    (hlen : attempts ≤ gen.length) :
    ((∃ x ∈ gen.take attempts, lt (sim (f x)) bound = true) →
      ∃ pre c post, gen = pre ++ c :: post ∧ pre.length < attempts ∧
        (∀ x ∈ pre, lt (sim (f x)) bound = false) ∧ lt (sim (f c)) bound = true ∧
        cpLoop lt bound false sim (fun x => .ok (f x)) attempts gen none none
          = .done (some (f c)) false post) ∧
    ((∀ x ∈ gen.take attempts, lt (sim (f x)) bound = false) → 0 < attempts →
      ∃ c, Spec.IsFirstLeast lt sim ((gen.take attempts).map f) c ∧
        cpLoop lt bound false sim (fun x => .ok (f x)) attempts gen none none
          = .done (some c) true (gen.drop attempts)) := by
  constructor
  · intro hex
    obtain ⟨pre, c, post, htake, hpre, hc⟩ :=
      exists_first (fun x => lt (sim (f x)) bound) (gen.take attempts) hex
    have hgen : gen = pre ++ c :: (post ++ gen.drop attempts) := by
      conv => lhs; rw [← List.take_append_drop attempts gen, htake]
      simp
    have hlen' : pre.length < attempts := by
      have := congrArg List.length htake
      simp at this
      omega
    refine ⟨pre, c, post ++ gen.drop attempts, hgen, hlen', hpre, hc, ?_⟩
    have hcp := cpLoop_first_below lt bound sim f h pre c (post ++ gen.drop attempts) attempts
      none none hlen' hpre hc (by intro b hb; cases hb)
    rw [← hgen] at hcp
    exact hcp
  · intro hall hpos
    cases htk : gen.take attempts with
    | nil =>
      have h0 : (gen.take attempts).length = 0 := by rw [htk]; rfl
      rw [List.length_take] at h0
      omega
    | cons x xs =>
      have hl : (x :: xs).length = attempts := by
        rw [← htk, List.length_take]
        omega
      obtain ⟨c, hc1, hc2⟩ := cpLoop_none_below lt bound sim f h x xs (gen.drop attempts)
        (by rw [← htk]; exact hall)
      refine ⟨c, hc2, ?_⟩
      rw [hl] at hc1
      have hg : x :: xs ++ gen.drop attempts = gen := by
        rw [← htk]; exact List.take_append_drop attempts gen
      rw [hg] at hc1
      exact hc1

/-- the warning is issued iff no candidate among the first `attempts` qualified -/
theorem createPointer_warn_iff (h : StrictTotal lt) (attempts : Nat) (gen : List V)
    (hlen : attempts ≤ gen.length) (hpos : 0 < attempts) :
    (∃ best rest, cpLoop lt bound false sim (fun x => .ok (f x)) attempts gen none none
        = .done best true rest) ↔
      (∀ x ∈ gen.take attempts, lt (sim (f x)) bound = false) := by
  have hs := createPointer_spec lt bound sim f h attempts gen hlen
  constructor
  · rintro ⟨best, rest, hr⟩ x hx
    cases hq : lt (sim (f x)) bound with
    | false => rfl
    | true =>
      obtain ⟨_, _, _, _, _, _, _, hr'⟩ := hs.1 ⟨x, hx, hq⟩
      rw [hr'] at hr
      cases hr
  · intro hall
    obtain ⟨c, _, hr⟩ := hs.2 hall hpos
    exact ⟨_, _, hr⟩

end CreatePointer

/-- the vocabulary-level wrapper: the selected candidate is returned, the generator is
advanced past the consumed candidates, the warning is counted, entries are untouched -/
theorem createPointer_state (A : Algebra K V) (attempts : Nat) (tr : V → Except Err V)
    (vc : Vocab K V) :
    (createPointer A attempts tr vc).2.entries = vc.entries ∧
    (createPointer A attempts tr vc).2.strict = vc.strict ∧
    (createPointer A attempts tr vc).2.maxSim = vc.maxSim := by
  unfold createPointer
  split <;> simp

/-! ### the similarity is the largest one; vocabulary-level statement -/

/-- the fold of `np.max`: the result is one of the values and no value exceeds it -/
theorem foldMax_spec {lt : K → K → Bool} (h : StrictTotal lt) (d : V → K) :
    ∀ (es : List V) (m : K),
      let r := es.foldl (fun m x => if lt m (d x) then d x else m) m
      (r = m ∨ ∃ x ∈ es, r = d x) ∧ lt r m = false ∧ ∀ x ∈ es, lt r (d x) = false := by
  intro es
  induction es with
  | nil => intro m; simp [h.irrefl]
  | cons x es ih =>
    intro m
    simp only [List.foldl_cons]
    obtain ⟨h1, h2, h3⟩ := ih (if lt m (d x) then d x else m)
    cases hx : lt m (d x) with
    | true =>
      simp only [hx, if_true] at h1 h2 h3 ⊢
      refine ⟨?_, ?_, ?_⟩
      · rcases h1 with h1 | ⟨y, hy, h1⟩
        · exact .inr ⟨x, by simp, h1⟩
        · exact .inr ⟨y, by simp [hy], h1⟩
      · cases hr : lt (List.foldl (fun m x => if lt m (d x) = true then d x else m) (d x) es) m with
        | false => rfl
        | true => rw [h.trans _ _ _ hr hx] at h2; cases h2
      · intro y hy
        simp only [List.mem_cons] at hy
        rcases hy with rfl | hy
        · exact h2
        · exact h3 y hy
    | false =>
      simp only [hx, Bool.false_eq_true, if_false] at h1 h2 h3 ⊢
      refine ⟨?_, h2, ?_⟩
      · rcases h1 with h1 | ⟨y, hy, h1⟩
        · exact .inl h1
        · exact .inr ⟨y, by simp [hy], h1⟩
      · intro y hy
        simp only [List.mem_cons] at hy
        rcases hy with rfl | hy
        · cases hr : lt (List.foldl (fun m x => if lt m (d x) = true then d x else m) m es) (d y) with
          | false => rfl
          | true => rw [lt_of_lt_of_not_lt h hr hx] at h2; cases h2
        · exact h3 y hy

/-- **The similarity the loop compares is the LARGEST similarity to the existing entries**: it is
attained by some entry and no entry is strictly more similar. -/
theorem maxSimTo_is_max (A : Algebra K V) (h : StrictTotal A.kLt) (e : V) (es : List V) (p : V) :
    (∃ x ∈ e :: es, maxSimTo A (e :: es) p = A.dot x p) ∧
    ∀ x ∈ e :: es, A.kLt (maxSimTo A (e :: es) p) (A.dot x p) = false := by
  obtain ⟨h1, h2, h3⟩ := foldMax_spec h (fun x => A.dot x p) es (A.dot e p)
  refine ⟨?_, ?_⟩
  · rcases h1 with h1 | ⟨y, hy, h1⟩
    · exact ⟨e, by simp, h1⟩
    · exact ⟨y, by simp [hy], h1⟩
  · intro x hx
    simp only [List.mem_cons] at hx
    rcases hx with rfl | hx
    · exact h2
    · exact h3 x hx

/-- vocabulary level: a non-empty vocabulary whose generator yields `pre ++ c :: post`, `c` being
the first candidate with largest similarity below `max_similarity` and at a position below
`attempts`: `create_pointer` returns `c`, consumes exactly `pre ++ [c]`, no warning, no
entry is touched. -/
theorem createPointer_vocab_first_below (A : Algebra K V) (h : StrictTotal A.kLt) (vc : Vocab K V)
    (pre : List V) (c : V) (post : List V) (attempts : Nat)
    (hne : vc.entries.isEmpty = false) (hgen : vc.gen = pre ++ c :: post)
    (hlen : pre.length < attempts)
    (hpre : ∀ x ∈ pre, A.kLt (maxSimTo A (vc.entries.map (·.2)) x) vc.maxSim = false)
    (hc : A.kLt (maxSimTo A (vc.entries.map (·.2)) c) vc.maxSim = true) :
    createPointer A attempts .ok vc = (.ok (some c), { vc with gen := post }) := by
  have := cpLoop_first_below A.kLt vc.maxSim (maxSimTo A (vc.entries.map (·.2))) id h pre c post
    attempts none none hlen hpre hc (by intro b hb; cases hb)
  simp only [id] at this
  simp [createPointer, hne, hgen, this]
/-! ## 2. `parse`: the value of an expression -/

/-- the run-time value a denotation corresponds to; pointers belong to the vocabulary -/
def embed : SVal K V → Val K V
  | .p v => .ptr v true
  | .n x => .num x

theorem special_identity (A : Algebra K V) : special A "Identity" = some (.ok A.identity) := by
  simp [special]

theorem special_zero (A : Algebra K V) : special A "Zero" = some (.ok A.zero) := by
  simp [special]

theorem special_absorbing_some (A : Algebra K V) {a : V} (h : A.absorbing = some a) :
    special A "AbsorbingElement" = some (.ok a) := by
  simp [special, h]

theorem special_absorbing_none (A : Algebra K V) (h : A.absorbing = none) :
    special A "AbsorbingElement" = some (.error .notImplemented) := by
  simp [special, h]

/-- **`special_names_own_algebra`.**  `Identity`, `Zero`, `AbsorbingElement` denote the special
elements of the vocabulary's OWN algebra and belong to the vocabulary — whatever the entries,
the strictness and the generator are (they cannot be shadowed), and looking them up changes
nothing.  An algebra without absorbing element raises `NotImplementedError`. -/
theorem special_names_own_algebra (A : Algebra K V) (vc : Vocab K V) :
    evalM A (.name "Identity") vc = (.ok (.ptr A.identity true), vc) ∧
    evalM A (.name "Zero") vc = (.ok (.ptr A.zero true), vc) ∧
    (∀ a, A.absorbing = some a →
      evalM A (.name "AbsorbingElement") vc = (.ok (.ptr a true), vc)) ∧
    (A.absorbing = none →
      evalM A (.name "AbsorbingElement") vc = (.error .notImplemented, vc)) := by
  refine ⟨?_, ?_, ?_, ?_⟩
  · simp [evalM, lookup, special_identity]
  · simp [evalM, lookup, special_zero]
  · intro a ha; simp [evalM, lookup, special_absorbing_some A ha]
  · intro ha; simp [evalM, lookup, special_absorbing_none A ha]

/-- evaluation of a denoting expression: the implementation's dispatch computes exactly the
denotation and leaves the vocabulary unchanged (strict or not: all names are present) -/
theorem evalM_eq_den (A : Algebra K V) (vc : Vocab K V) {e : Expr K} {sv : SVal K V}
    (h : Den A (findEntry vc.entries) e sv) : evalM A e vc = (.ok (embed sv), vc) := by
  induction h with
  | identity => exact (special_names_own_algebra A vc).1
  | zero => exact (special_names_own_algebra A vc).2.1
  | absorbing ha => exact (special_names_own_algebra A vc).2.2.1 _ ha
  | entry hs hv => simp [evalM, lookup, hs, hv, embed]
  | lit x => simp [evalM, embed]
  | addP _ _ iha ihb => simp [evalM, bin, iha, ihb, embed, opAdd]
  | subP _ _ iha ihb => simp [evalM, bin, iha, ihb, embed, opSub]
  | bind _ _ iha ihb => simp [evalM, bin, iha, ihb, embed, opMul]
  | scaleR _ _ iha ihb => simp [evalM, bin, iha, ihb, embed, opMul]
  | scaleL _ _ iha ihb => simp [evalM, bin, iha, ihb, embed, opMul]
  | divP _ _ hz iha ihb => simp [evalM, bin, iha, ihb, embed, opDiv, hz]
  | negP _ iha => simp [evalM, un, iha, embed, opNeg]
  | invP _ iha => simp [evalM, un, iha, embed, opInv]
  | powP n _ iha => simp [evalM, un, iha, embed, opPow]
  | dot _ _ iha ihb => simp [evalM, bin, un, dotRecv, iha, ihb, embed, opDot]
  | addN _ _ iha ihb => simp [evalM, bin, iha, ihb, embed, opAdd]
  | subN _ _ iha ihb => simp [evalM, bin, iha, ihb, embed, opSub]
  | mulN _ _ iha ihb => simp [evalM, bin, iha, ihb, embed, opMul]
  | divN _ _ hr iha ihb => simp [evalM, bin, iha, ihb, embed, opDiv, hr, Except.map]
  | negN _ iha => simp [evalM, un, iha, embed, opNeg]
  | invN _ hr iha => simp [evalM, un, iha, embed, opInv, hr, Except.map]
  | powN n _ hr iha => simp [evalM, un, iha, embed, opPow, hr, Except.map]

/-- **`parse_eq_eval`.**  For every expression of the operator grammar that denotes a value
(`Den`: entries, special names, numbers, `+ - * / ~ **`, unary minus, `.dot`), `parse`
returns exactly that value computed with the operations of the vocabulary's algebra — a
pointer of this vocabulary — and does not touch the vocabulary. -/
theorem parse_eq_eval (A : Algebra K V) (vc : Vocab K V) {e : Expr K} {sv : SVal K V}
    (h : Den A (findEntry vc.entries) e sv) :
    parseValue A e vc = (.ok (.ptr (toPointer A sv) true), vc) := by
  rw [parseValue, evalM_eq_den A vc h]
  cases sv <;> simp [un, embed, finish, toPointer]

/-- the same through the text interface, `parser` being CPython's -/
theorem parse_text_eq_eval (A : Algebra K V) (vc : Vocab K V) (parser : List Char → Option (Expr K))
    {text : List Char} {e : Expr K} {sv : SVal K V} (hp : parser text = some e)
    (h : Den A (findEntry vc.entries) e sv) :
    parse A parser text vc = (.ok (.ptr (toPointer A sv) true), vc) := by
  simp [parse, hp, parse_eq_eval A vc h]

/-- **`parse_scalar_is_vocab_identity`.**  An expression denoting the number `x` parses to `x`
times the identity element OF THE VOCABULARY'S ALGEBRA, as a pointer of the vocabulary. -/
theorem parse_scalar_is_vocab_identity (A : Algebra K V) (vc : Vocab K V) {e : Expr K} {x : Num K}
    (h : Den A (findEntry vc.entries) e (.n x)) :
    parseValue A e vc = (.ok (.ptr (A.smul (Num.toK A x) A.identity) true), vc) :=
  parse_eq_eval A vc h

/-- a bare numeric literal -/
theorem parse_literal (A : Algebra K V) (vc : Vocab K V) (x : Num K) :
    parseValue A (.lit x) vc = (.ok (.ptr (A.smul (Num.toK A x) A.identity) true), vc) :=
  parse_scalar_is_vocab_identity A vc (.lit x)

/-- a syntax error of CPython's parser surfaces as such and changes nothing -/
theorem parse_syntax_error (A : Algebra K V) (vc : Vocab K V) (parser : List Char → Option (Expr K))
    {text : List Char} (hp : parser text = none) :
    parse A parser text vc = (.error .syntaxError, vc) := by
  simp [parse, hp]

/-- **Unknown names, strict vocabulary.**  If evaluation (operands left to right) reaches a
name that is neither special nor an entry before any other error, `parse` raises
`SpaParseError` and the vocabulary is unchanged. -/
theorem parse_unknown_name_strict (A : Algebra K V) (vc : Vocab K V) (hs : vc.strict = true)
    {e : Expr K} (h : HitsUnknown A (findEntry vc.entries) e) :
    parseValue A e vc = (.error .parseError, vc) := by
  have key : evalM A e vc = (.error .parseError, vc) := by
    induction h with
    | name h1 h2 => simp [evalM, lookup, h1, h2, hs]
    | addL _ ih => simp [evalM, bin, ih]
    | addR hd _ ih => simp [evalM, bin, evalM_eq_den A vc hd, ih]
    | subL _ ih => simp [evalM, bin, ih]
    | subR hd _ ih => simp [evalM, bin, evalM_eq_den A vc hd, ih]
    | mulL _ ih => simp [evalM, bin, ih]
    | mulR hd _ ih => simp [evalM, bin, evalM_eq_den A vc hd, ih]
    | divL _ ih => simp [evalM, bin, ih]
    | divR hd _ ih => simp [evalM, bin, evalM_eq_den A vc hd, ih]
    | dotL _ ih => simp [evalM, bin, un, ih]
    | dotR hd _ ih => simp [evalM, bin, un, dotRecv, embed, evalM_eq_den A vc hd, ih]
    | neg _ ih => simp [evalM, un, ih]
    | inv _ ih => simp [evalM, un, ih]
    | pow n _ ih => simp [evalM, un, ih]
    | attrV _ ih => simp [evalM, un, ih]
  simp [parseValue, key, un]

/-- **Non-pointer results.**  Whenever evaluation yields something that is neither a number nor
a Semantic Pointer, `parse` raises `SpaParseError`. -/
theorem parse_nonpointer (A : Algebra K V) (vc vc' : Vocab K V) (e : Expr K)
    (h : evalM A e vc = (.ok .none, vc') ∨ evalM A e vc = (.ok .arr, vc')) :
    parseValue A e vc = (.error .parseError, vc') := by
  rcases h with h | h <;> simp [parseValue, h, un, finish]

/-- `None`, `X.v` and `X.dot(2)` for an entry `X` are such results -/
theorem parse_nonpointer_instances (A : Algebra K V) (vc : Vocab K V) (s : String) (v : V)
    (h1 : special A s = none) (h2 : findEntry vc.entries s = some v) (x : Num K) :
    parseValue A .noneC vc = (.error .parseError, vc) ∧
    parseValue A (.attrV (.name s)) vc = (.error .parseError, vc) ∧
    parseValue A (.dot (.name s) (.lit x)) vc = (.error .parseError, vc) := by
  refine ⟨?_, ?_, ?_⟩
  · exact parse_nonpointer A vc vc _ (.inl (by simp [evalM]))
  · exact parse_nonpointer A vc vc _ (.inr (by simp [evalM, un, lookup, h1, h2, opAttrV]))
  · exact parse_nonpointer A vc vc _ (.inr (by simp [evalM, bin, un, dotRecv, lookup, h1, h2, opDot]))

/-- every pointer value belongs to the vocabulary -/
def Owned : Val K V → Prop
  | .ptr _ o => o = true
  | _ => True

theorem opAdd_owned (A : Algebra K V) (x y z : Val K V) (hx : Owned x) (hy : Owned y)
    (hz : opAdd A x y = .ok z) : Owned z := by
  cases x <;> cases y <;> simp only [opAdd, reduceCtorEq, Except.ok.injEq] at hz <;> subst hz
  · trivial
  · simp only [Owned] at hx hy ⊢; simp [hx]
theorem opSub_owned (A : Algebra K V) (x y z : Val K V) (hx : Owned x) (hy : Owned y)
    (hz : opSub A x y = .ok z) : Owned z := by
  cases x <;> cases y <;> simp only [opSub, reduceCtorEq, Except.ok.injEq] at hz <;> subst hz
  · trivial
  · simp only [Owned] at hx hy ⊢; simp [hx]
theorem opMul_owned (A : Algebra K V) (x y z : Val K V) (hx : Owned x) (hy : Owned y)
    (hz : opMul A x y = .ok z) : Owned z := by
  cases x <;> cases y <;> simp only [opMul, reduceCtorEq, Except.ok.injEq] at hz <;> subst hz
  · trivial
  · exact hy
  · exact hx
  · simp only [Owned] at hx hy ⊢; simp [hx]
theorem opDiv_owned (A : Algebra K V) (x y z : Val K V) (hx : Owned x) (hy : Owned y)
    (hz : opDiv A x y = .ok z) : Owned z := by
  cases x <;> cases y <;> simp only [opDiv, reduceCtorEq] at hz
  · rename_i c d
    cases hd : numDiv A c d <;> simp [hd, Except.map] at hz
    subst hz; trivial
  · split at hz
    · cases hz
    · simp at hz; subst hz; exact hx
theorem opNeg_owned (A : Algebra K V) (x z : Val K V) (hx : Owned x)
    (hz : opNeg A x = .ok z) : Owned z := by
  cases x <;> simp only [opNeg, reduceCtorEq, Except.ok.injEq] at hz <;> subst hz
  · trivial
  · exact hx
theorem opInv_owned (A : Algebra K V) (x z : Val K V) (hx : Owned x)
    (hz : opInv A x = .ok z) : Owned z := by
  cases x <;> simp only [opInv, reduceCtorEq, Except.ok.injEq] at hz
  · rename_i c
    cases hd : numInv c <;> simp [hd, Except.map] at hz
    subst hz; trivial
  · subst hz; exact hx
theorem opPow_owned (A : Algebra K V) (n : Int) (x z : Val K V) (hx : Owned x)
    (hz : opPow A n x = .ok z) : Owned z := by
  cases x <;> simp only [opPow, reduceCtorEq, Except.ok.injEq] at hz
  · rename_i c
    cases hd : numPow A c n <;> simp [hd, Except.map] at hz
    subst hz; trivial
  · subst hz; exact hx
theorem opDot_owned (A : Algebra K V) (x y z : Val K V)
    (hz : opDot A x y = .ok z) : Owned z := by
  cases x <;> cases y <;> simp only [opDot, reduceCtorEq, Except.ok.injEq] at hz <;> subst hz <;> trivial
theorem opAttrV_owned (x z : Val K V)
    (hz : opAttrV x = .ok z) : Owned z := by
  cases x <;> simp only [opAttrV, reduceCtorEq, Except.ok.injEq] at hz <;> subst hz <;> trivial
theorem lookup_owned (A : Algebra K V) (s : String) (vc vc' : Vocab K V) (x : Val K V)
    (h : lookup A s vc = (.ok x, vc')) : Owned x := by
  unfold lookup at h
  split at h
  · cases h; rfl
  · cases h
  · split at h
    · cases h; rfl
    · split at h
      · cases h
      · split at h
        · cases h
        · cases h
        · split at h
          · cases h
          · cases h; rfl

theorem evalM_owned (A : Algebra K V) (e : Expr K) :
    ∀ (vc vc' : Vocab K V) (x : Val K V), evalM A e vc = (.ok x, vc') → Owned x := by
  have hbin : ∀ (ra rb : Vocab K V → Res K V) (f : Val K V → Val K V → Except Err (Val K V)),
      (∀ vc vc' x, ra vc = (.ok x, vc') → Owned x) →
      (∀ vc vc' x, rb vc = (.ok x, vc') → Owned x) →
      (∀ x y z, Owned x → Owned y → f x y = .ok z → Owned z) →
      ∀ vc vc' z, bin (ra vc) rb f = (.ok z, vc') → Owned z := by
    intro ra rb f iha ihb hf vc vc' z h
    unfold bin at h
    split at h
    · cases h
    · next x vc1 hx =>
      split at h
      · cases h
      · next y vc2 hy =>
        have h' : f x y = .ok z := by
          have := congrArg Prod.fst h
          simpa using this
        exact hf x y z (iha _ _ _ hx) (ihb _ _ _ hy) h'
  have hun : ∀ (a : Expr K) (f : Val K V → Except Err (Val K V)),
      (∀ vc vc' x, evalM A a vc = (.ok x, vc') → Owned x) →
      (∀ x z, Owned x → f x = .ok z → Owned z) →
      ∀ vc vc' z, un (evalM A a vc) f = (.ok z, vc') → Owned z := by
    intro a f iha hf vc vc' z h
    unfold un at h
    split at h
    · cases h
    · next x vc1 hx =>
      have h' : f x = .ok z := by
        have := congrArg Prod.fst h
        simpa using this
      exact hf x z (iha _ _ _ hx) h'
  induction e with
  | name s => intro vc vc' x h; exact lookup_owned A s vc vc' x (by simpa [evalM] using h)
  | lit n => intro vc vc' x h; simp [evalM] at h; rw [← h.1]; trivial
  | noneC => intro vc vc' x h; simp [evalM] at h; rw [← h.1]; trivial
  | add a b iha ihb =>
    intro vc vc' z h
    exact hbin (evalM A a) (evalM A b) (opAdd A) iha ihb (opAdd_owned A) vc vc' z (by simpa [evalM] using h)
  | sub a b iha ihb =>
    intro vc vc' z h
    exact hbin (evalM A a) (evalM A b) (opSub A) iha ihb (opSub_owned A) vc vc' z (by simpa [evalM] using h)
  | mul a b iha ihb =>
    intro vc vc' z h
    exact hbin (evalM A a) (evalM A b) (opMul A) iha ihb (opMul_owned A) vc vc' z (by simpa [evalM] using h)
  | div a b iha ihb =>
    intro vc vc' z h
    exact hbin (evalM A a) (evalM A b) (opDiv A) iha ihb (opDiv_owned A) vc vc' z (by simpa [evalM] using h)
  | neg a iha =>
    intro vc vc' z h
    exact hun a (opNeg A) iha (opNeg_owned A) vc vc' z (by simpa [evalM] using h)
  | inv a iha =>
    intro vc vc' z h
    exact hun a (opInv A) iha (opInv_owned A) vc vc' z (by simpa [evalM] using h)
  | pow a n iha =>
    intro vc vc' z h
    exact hun a (opPow A n) iha (opPow_owned A n) vc vc' z (by simpa [evalM] using h)
  | dot a b iha ihb =>
    intro vc vc' z h
    exact hbin (fun vc => un (evalM A a vc) dotRecv) (evalM A b) (opDot A)
      (fun vc vc' x hx => hun a dotRecv iha
        (fun x z hx hz => by cases x <;> simp [dotRecv] at hz <;> subst hz; exact hx) vc vc' x hx)
      ihb (fun x y z _ _ hz => opDot_owned A x y z hz) vc vc' z (by simpa [evalM] using h)
  | attrV a iha =>
    intro vc vc' z h
    exact hun a opAttrV iha (fun x z _ hz => opAttrV_owned x z hz) vc vc' z
      (by simpa [evalM] using h)

/-- **Every successful `parse` returns a pointer of the vocabulary** (`.vocab is vocab`, hence
`.algebra is vocab.algebra`) — for every expression tree, strict or not. -/
theorem parse_result_owned (A : Algebra K V) (e : Expr K) (vc vc' : Vocab K V) (x : Val K V)
    (h : parseValue A e vc = (.ok x, vc')) : ∃ v, x = .ptr v true := by
  unfold parseValue un at h
  split at h
  · cases h
  · next y vc1 hy =>
    have ho := evalM_owned A e _ _ _ hy
    have h' : finish A y = .ok x := by
      have := congrArg Prod.fst h
      simpa using this
    cases y with
    | num n => simp [finish] at h'; exact ⟨_, h'.symm⟩
    | ptr v o =>
      simp [finish] at h'
      simp [Owned] at ho
      subst ho
      exact ⟨v, h'.symm⟩
    | none => simp [finish] at h'
    | arr => simp [finish] at h'

/-! ## 3. the vocabulary only grows; a strict vocabulary is not changed by `parse` -/

/-- `vc'` extends `vc`: same configuration, the entries of `vc` are a prefix -/
def Extends (vc vc' : Vocab K V) : Prop :=
  vc'.strict = vc.strict ∧ vc'.maxSim = vc.maxSim ∧ ∃ l, vc'.entries = vc.entries ++ l

theorem Extends.refl (vc : Vocab K V) : Extends vc vc := ⟨rfl, rfl, [], by simp⟩

theorem Extends.trans {a b c : Vocab K V} (h1 : Extends a b) (h2 : Extends b c) : Extends a c := by
  obtain ⟨s1, m1, l1, e1⟩ := h1
  obtain ⟨s2, m2, l2, e2⟩ := h2
  exact ⟨s2.trans s1, m2.trans m1, l1 ++ l2, by rw [e2, e1, List.append_assoc]⟩

theorem createPointer_extends (A : Algebra K V) (n : Nat) (tr : V → Except Err V) (vc : Vocab K V) :
    Extends vc (createPointer A n tr vc).2 := by
  obtain ⟨h1, h2, h3⟩ := createPointer_state A n tr vc
  exact ⟨h2, h3, [], by simp [h1]⟩

theorem addEntry_extends (s : String) (v : V) (vc vc' : Vocab K V)
    (h : addEntry s v vc = .ok vc') : Extends vc vc' := by
  unfold addEntry at h
  split at h
  · cases h
  · split at h
    · cases h
    · cases h; exact ⟨rfl, rfl, [(s, v)], rfl⟩

theorem lookup_extends (A : Algebra K V) (s : String) (vc : Vocab K V) :
    Extends vc (lookup A s vc).2 := by
  unfold lookup
  split
  · exact Extends.refl vc
  · exact Extends.refl vc
  · split
    · exact Extends.refl vc
    · split
      · exact Extends.refl vc
      · have hcp := createPointer_extends A 100 .ok vc
        split
        · next h => rw [h] at hcp; exact hcp
        · next h => rw [h] at hcp; exact hcp
        · next c vc' h =>
          rw [h] at hcp
          split
          · exact hcp
          · next vc'' h2 => exact hcp.trans (addEntry_extends s c vc' vc'' h2)

theorem un_snd (r : Res K V) (f : Val K V → Except Err (Val K V)) : (un r f).2 = r.2 := by
  unfold un; split <;> rfl

theorem evalM_extends (A : Algebra K V) (e : Expr K) :
    ∀ vc : Vocab K V, Extends vc (evalM A e vc).2 := by
  have hbin : ∀ (ra rb : Vocab K V → Res K V) (f : Val K V → Val K V → Except Err (Val K V)),
      (∀ vc, Extends vc (ra vc).2) → (∀ vc, Extends vc (rb vc).2) →
      ∀ vc, Extends vc (bin (ra vc) rb f).2 := by
    intro ra rb f iha ihb vc
    have ha := iha vc
    unfold bin
    split
    · next e vc1 h => rw [h] at ha; exact ha
    · next x vc1 h =>
      rw [h] at ha
      have hb := ihb vc1
      split
      · next e vc2 h2 => rw [h2] at hb; exact ha.trans hb
      · next y vc2 h2 => rw [h2] at hb; exact ha.trans hb
  induction e with
  | name s => intro vc; exact lookup_extends A s vc
  | lit n => intro vc; exact Extends.refl vc
  | noneC => intro vc; exact Extends.refl vc
  | add a b iha ihb => intro vc; exact hbin (evalM A a) (evalM A b) _ iha ihb vc
  | sub a b iha ihb => intro vc; exact hbin (evalM A a) (evalM A b) _ iha ihb vc
  | mul a b iha ihb => intro vc; exact hbin (evalM A a) (evalM A b) _ iha ihb vc
  | div a b iha ihb => intro vc; exact hbin (evalM A a) (evalM A b) _ iha ihb vc
  | dot a b iha ihb =>
    intro vc
    exact hbin (fun vc => un (evalM A a vc) dotRecv) (evalM A b) _
      (fun vc => by simp only [un_snd]; exact iha vc) ihb vc
  | neg a iha => intro vc; simp only [evalM, un_snd]; exact iha vc
  | inv a iha => intro vc; simp only [evalM, un_snd]; exact iha vc
  | pow a n iha => intro vc; simp only [evalM, un_snd]; exact iha vc
  | attrV a iha => intro vc; simp only [evalM, un_snd]; exact iha vc

theorem parse_extends (A : Algebra K V) (parser : List Char → Option (Expr K)) (text : List Char)
    (vc : Vocab K V) : Extends vc (parse A parser text vc).2 := by
  unfold parse
  split
  · exact Extends.refl vc
  · simp only [parseValue, un_snd]; exact evalM_extends A _ vc

/-- a strict vocabulary is never modified by evaluating an expression (no entry is created,
no candidate is drawn, no warning is issued), whether evaluation succeeds or fails -/
theorem evalM_strict_unchanged (A : Algebra K V) (e : Expr K) :
    ∀ vc : Vocab K V, vc.strict = true → (evalM A e vc).2 = vc := by
  have hbin : ∀ (ra rb : Vocab K V → Res K V) (f : Val K V → Val K V → Except Err (Val K V)),
      (∀ vc, vc.strict = true → (ra vc).2 = vc) →
      (∀ vc, vc.strict = true → (rb vc).2 = vc) →
      ∀ vc, vc.strict = true → (bin (ra vc) rb f).2 = vc := by
    intro ra rb f iha ihb vc hs
    have ha := iha vc hs
    unfold bin
    split
    · next e vc1 h => rw [h] at ha; exact ha
    · next x vc1 h =>
      rw [h] at ha
      simp only at ha
      subst ha
      have hb := ihb vc1 hs
      split
      · next e vc2 h2 => rw [h2] at hb; exact hb
      · next y vc2 h2 => rw [h2] at hb; exact hb
  induction e with
  | name s =>
    intro vc hs
    simp only [evalM]
    unfold lookup
    split
    · rfl
    · rfl
    · split
      · rfl
      · simp [hs]
  | lit n => intro vc _; rfl
  | noneC => intro vc _; rfl
  | add a b iha ihb => intro vc hs; exact hbin (evalM A a) (evalM A b) _ iha ihb vc hs
  | sub a b iha ihb => intro vc hs; exact hbin (evalM A a) (evalM A b) _ iha ihb vc hs
  | mul a b iha ihb => intro vc hs; exact hbin (evalM A a) (evalM A b) _ iha ihb vc hs
  | div a b iha ihb => intro vc hs; exact hbin (evalM A a) (evalM A b) _ iha ihb vc hs
  | dot a b iha ihb =>
    intro vc hs
    exact hbin (fun vc => un (evalM A a vc) dotRecv) (evalM A b) _
      (fun vc hs => by simp only [un_snd]; exact iha vc hs) ihb vc hs
  | neg a iha => intro vc hs; simp only [evalM, un_snd]; exact iha vc hs
  | inv a iha => intro vc hs; simp only [evalM, un_snd]; exact iha vc hs
  | pow a n iha => intro vc hs; simp only [evalM, un_snd]; exact iha vc hs
  | attrV a iha => intro vc hs; simp only [evalM, un_snd]; exact iha vc hs

/-- **Non-strict vocabulary.**  Looking up a valid name that is absent stores the pointer that
`create_pointer()` selects (section 1) under that name and yields it; an invalid name fails
with `SpaParseError` after the candidate was drawn. -/
theorem lookup_nonstrict (A : Algebra K V) (s : String) (vc vc' : Vocab K V) (c : V)
    (hsp : special A s = none) (habs : findEntry vc.entries s = none) (hns : vc.strict = false)
    (hcp : createPointer A 100 .ok vc = (.ok (some c), vc')) :
    (validName s = true →
      lookup A s vc = (.ok (.ptr c true), { vc' with entries := vc'.entries ++ [(s, c)] })) ∧
    (validName s = false → lookup A s vc = (.error .parseError, vc')) := by
  have hent : vc'.entries = vc.entries := by
    have := (createPointer_state A 100 .ok vc).1
    rw [hcp] at this; exact this
  constructor
  · intro hv
    simp [lookup, hsp, habs, hns, hcp, addEntry, hv, hent]
  · intro hv
    simp [lookup, hsp, habs, hns, hcp, addEntry, hv]

/-! ## 4. `populate` -/

section Populate

variable (A : Algebra K V) (parser : List Char → Option (Expr K))
  (trans : List Char → V → Except Err V)

theorem splitFirst_none (sep : Char) : ∀ l : List Char, sep ∉ l → splitFirst sep l = none := by
  intro l
  induction l with
  | nil => intro _; rfl
  | cons c cs ih =>
    intro h
    simp only [List.mem_cons, not_or] at h
    have : ¬ c = sep := fun e => h.1 e.symm
    simp [splitFirst, this, ih h.2]

theorem splitFirst_append (sep : Char) :
    ∀ (n e : List Char), sep ∉ n → splitFirst sep (n ++ sep :: e) = some (n, e) := by
  intro n
  induction n with
  | nil => intro e _; simp [splitFirst]
  | cons c cs ih =>
    intro e h
    simp only [List.mem_cons, not_or] at h
    have : ¬ c = sep := fun e => h.1 e.symm
    simp [splitFirst, this, ih e h.2]

/-- `Name = expr`: the first `=` splits, whatever follows (`.`, further `=`) -/
theorem classify_assign (n e : List Char) (h : '=' ∉ n) :
    classify (n ++ '=' :: e) = .assign n (strip e) := by
  simp [classify, splitFirst_append '=' n e h]

/-- `Name.method()`: no `=` anywhere, the first `.` splits -/
theorem classify_method (n t : List Char) (h1 : '=' ∉ n ++ '.' :: t) (h2 : '.' ∉ n) :
    classify (n ++ '.' :: t) = .method n t := by
  simp [classify, splitFirst_none '=' _ h1, splitFirst_append '.' n t h2]

theorem classify_bare (n : List Char) (h1 : '=' ∉ n) (h2 : '.' ∉ n) : classify n = .bare n := by
  simp [classify, splitFirst_none '=' _ h1, splitFirst_none '.' _ h2]

theorem splitAll_ne_nil (sep : Char) (l : List Char) : splitAll sep l ≠ [] := by
  induction l with
  | nil => simp [splitAll]
  | cons c cs ih =>
    simp only [splitAll]
    split
    · simp
    · split
      · simp
      · simp

theorem splitAll_no_sep (sep : Char) : ∀ l : List Char, sep ∉ l → splitAll sep l = [l] := by
  intro l
  induction l with
  | nil => intro _; rfl
  | cons c cs ih =>
    intro h
    simp only [List.mem_cons, not_or] at h
    have : ¬ c = sep := fun e => h.1 e.symm
    simp [splitAll, this, ih h.2]

theorem splitAll_append (sep : Char) :
    ∀ (w rest : List Char), sep ∉ w → splitAll sep (w ++ sep :: rest) = w :: splitAll sep rest := by
  intro w
  induction w with
  | nil => intro rest _; simp [splitAll]
  | cons c cs ih =>
    intro rest h
    simp only [List.mem_cons, not_or] at h
    have : ¬ c = sep := fun e => h.1 e.symm
    simp [splitAll, this, ih rest h.2]

/-- the text `item₀;item₁;…;itemₙ` (items without `;`) splits into exactly these items, in
order -/
theorem splitAll_join (sep : Char) :
    ∀ (w : List Char) (ws : List (List Char)), (∀ x ∈ w :: ws, sep ∉ x) →
      splitAll sep (ws.foldl (fun acc x => acc ++ sep :: x) w) = w :: ws := by
  intro w ws
  induction ws generalizing w with
  | nil => intro h; exact splitAll_no_sep sep w (h w (by simp))
  | cons x xs ih =>
    intro h
    -- foldl with accumulator: rewrite as w ++ sep :: (join of x :: xs)
    have hjoin : ∀ (acc : List Char) (l : List (List Char)) (y : List Char),
        l.foldl (fun acc x => acc ++ sep :: x) (acc ++ sep :: y)
          = acc ++ sep :: l.foldl (fun acc x => acc ++ sep :: x) y := by
      intro acc l
      induction l with
      | nil => intro y; rfl
      | cons z zs ihz =>
        intro y
        simp only [List.foldl_cons]
        have := ihz (y ++ sep :: z)
        rw [← this]
        simp [List.append_assoc]
    simp only [List.foldl_cons]
    rw [hjoin, splitAll_append sep w _ (h w (by simp))]
    rw [ih x (fun y hy => h y (by simp at hy ⊢; right; exact hy))]

/-- **`populate_left_to_right`.**  The items are processed strictly in order: the state after
`xs ++ ys` is the state after `ys` started from the state after `xs` (so item `k` sees exactly
the entries stored by the items before it), and the first failing item aborts. -/
theorem populate_left_to_right (xs ys : List (List Char)) (vc : Vocab K V) :
    populateItems A parser trans (xs ++ ys) vc =
      match populateItems A parser trans xs vc with
      | (.ok (), vc') => populateItems A parser trans ys vc'
      | (.error e, vc') => (.error e, vc') := by
  induction xs generalizing vc with
  | nil => simp [populateItems]
  | cons x xs ih =>
    simp only [List.cons_append, populateItems]
    split
    · next vc' h => exact ih vc'
    · rfl

/-- `populate` is this fold over the `;`-separated pieces of the text (blank text: no-op) -/
theorem populate_eq_items (text : List Char) (vc : Vocab K V) :
    populate A parser trans text vc =
      if (strip text).isEmpty then (.ok (), vc)
      else populateItems A parser trans (splitAll ';' text) vc := rfl

/-- **`populate_assign_eq_parse`.**  `Name = expr` stores exactly the value `parse(expr)` returns
(numbers included: a multiple of the vocabulary's identity), under the stripped name, after
whatever `parse` itself did to a non-strict vocabulary. -/
theorem populate_assign_eq_parse (n e : List Char) (vc vc' : Vocab K V) (v : V) (o : Bool)
    (hn : '=' ∉ n) (hp : parse A parser (strip e) vc = (.ok (.ptr v o), vc'))
    (hvalid : validName (String.ofList (strip n)) = true)
    (hfresh : findEntry vc'.entries (String.ofList (strip n)) = none) :
    populateItem A parser trans (n ++ '=' :: e) vc =
      (.ok (), { vc' with entries := vc'.entries ++ [(String.ofList (strip n), v)] }) := by
  simp [populateItem, classify_assign n e hn, hp, addR, addEntry, hvalid, hfresh]

/-- errors of the right-hand side are those of `parse` (unknown name in a strict vocabulary:
`SpaParseError`, not a bare `NameError`); nothing is stored -/
theorem populate_assign_error (n e : List Char) (vc vc' : Vocab K V) (err : Err)
    (hn : '=' ∉ n) (hp : parse A parser (strip e) vc = (.error err, vc')) :
    populateItem A parser trans (n ++ '=' :: e) vc = (.error err, vc') := by
  simp [populateItem, classify_assign n e hn, hp]

/-- a bare name stores the pointer selected by `create_pointer()` -/
theorem populate_bare (n : List Char) (vc vc' : Vocab K V) (c : V)
    (h1 : '=' ∉ n) (h2 : '.' ∉ n) (hcp : createPointer A 100 .ok vc = (.ok (some c), vc'))
    (hvalid : validName (String.ofList (strip n)) = true)
    (hfresh : findEntry vc.entries (String.ofList (strip n)) = none) :
    populateItem A parser trans n vc =
      (.ok (), { vc' with entries := vc'.entries ++ [(String.ofList (strip n), c)] }) := by
  have hent : vc'.entries = vc.entries := by
    have := (createPointer_state A 100 .ok vc).1
    rw [hcp] at this; exact this
  simp [populateItem, classify_bare n h1 h2, hcp, addR, addEntry, hvalid, hent, hfresh]

/-- `Name.method()` stores the pointer selected by `create_pointer(transform=method())`: the
candidates are transformed before their similarity is measured, and the transformed one is
stored -/
theorem populate_method (n t : List Char) (vc vc' : Vocab K V) (c : V)
    (h1 : '=' ∉ n ++ '.' :: t) (h2 : '.' ∉ n)
    (hcp : createPointer A 100 (trans t) vc = (.ok (some c), vc'))
    (hvalid : validName (String.ofList (strip n)) = true)
    (hfresh : findEntry vc.entries (String.ofList (strip n)) = none) :
    populateItem A parser trans (n ++ '.' :: t) vc =
      (.ok (), { vc' with entries := vc'.entries ++ [(String.ofList (strip n), c)] }) := by
  have hent : vc'.entries = vc.entries := by
    have := (createPointer_state A 100 (trans t) vc).1
    rw [hcp] at this; exact this
  simp [populateItem, classify_method n t h1 h2, hcp, addR, addEntry, hvalid, hent, hfresh]

theorem addR_extends (s : List Char) (v : Option V) (vc : Vocab K V) :
    Extends vc (addR s v vc).2 := by
  unfold addR
  split
  · exact Extends.refl vc
  · split
    · exact Extends.refl vc
    · next vc' h => exact addEntry_extends _ _ _ _ h

theorem populateItem_extends (item : List Char) (vc : Vocab K V) :
    Extends vc (populateItem A parser trans item vc).2 := by
  unfold populateItem
  split
  · next n e _ =>
    have hp := parse_extends A parser e vc
    split
    · next v o vc' h => rw [h] at hp; exact hp.trans (addR_extends n (some v) vc')
    · next x vc' hx h => rw [h] at hp; exact hp
    · next err vc' h => rw [h] at hp; exact hp
  · next n t _ =>
    have hc := createPointer_extends A 100 (trans t) vc
    split
    · next best vc' h => rw [h] at hc; exact hc.trans (addR_extends n best vc')
    · next err vc' h => rw [h] at hc; exact hc
  · next n _ =>
    have hc := createPointer_extends A 100 .ok vc
    split
    · next best vc' h => rw [h] at hc; exact hc.trans (addR_extends n best vc')
    · next err vc' h => rw [h] at hc; exact hc

theorem populateItems_extends (items : List (List Char)) (vc : Vocab K V) :
    Extends vc (populateItems A parser trans items vc).2 := by
  induction items generalizing vc with
  | nil => exact Extends.refl vc
  | cons x xs ih =>
    have hx := populateItem_extends A parser trans x vc
    simp only [populateItems]
    split
    · next vc' h => rw [h] at hx; exact hx.trans (ih vc')
    · next e vc' h => rw [h] at hx; exact hx

/-- **`populate_failure_keeps_prefix`.**  When item `it` fails after the items `xs` succeeded,
`populate` raises that item's error, the later items `ys` are never looked at, and everything
the earlier items stored is still there, in order, as a prefix of the final entries. -/
theorem populate_failure_keeps_prefix (xs ys : List (List Char)) (it : List Char)
    (vc vc1 vc2 : Vocab K V) (e : Err)
    (hxs : populateItems A parser trans xs vc = (.ok (), vc1))
    (hit : populateItem A parser trans it vc1 = (.error e, vc2)) :
    populateItems A parser trans (xs ++ it :: ys) vc = (.error e, vc2) ∧
    Extends vc vc1 ∧ Extends vc1 vc2 := by
  refine ⟨?_, ?_, ?_⟩
  · rw [populate_left_to_right, hxs]
    simp [populateItems, hit]
  · have := populateItems_extends A parser trans xs vc
    rw [hxs] at this; exact this
  · have := populateItem_extends A parser trans it vc1
    rw [hit] at this; exact this

end Populate

/-! ## 5. non-vacuity: a concrete algebra and concrete runs -/

namespace Example

/-- one-dimensional toy algebra over the integers (vectors are numbers, binding is
multiplication; `kInv` is irrelevant here) -/
def A : Algebra Int Int where
  kOfInt := id
  kAdd := (· + ·)
  kMul := (· * ·)
  kNeg := (- ·)
  kInv := id
  kIsZero := (· == 0)
  kLt := fun a b => decide (a < b)
  add := (· + ·)
  neg := (- ·)
  smul := (· * ·)
  bind := (· * ·)
  invert := id
  pow := fun v n => v ^ n.natAbs
  dot := (· * ·)
  identity := 1
  zero := 0
  absorbing := none

theorem intLt_strictTotal : StrictTotal (fun a b : Int => decide (a < b)) where
  irrefl := by intro a; simp
  trans := by intro a b c h1 h2; simp at *; omega
  conn := by intro a b h1 h2; simp at *; omega

def vc : Vocab Int Int := { strict := true, maxSim := 5, entries := [("A", 2), ("B", 3)],
                            gen := [9, 4, 7, 1, 8, -1], warns := 0 }

/-- `2 * A + B * ~2` denotes `2·2 + 3·(-3)` -/
example : Den A (findEntry vc.entries)
    (.add (.mul (.lit (.int 2)) (.name "A")) (.mul (.name "B") (.inv (.lit (.int 2)))))
    (.p (A.add (A.smul 2 2) (A.smul (-3) 3))) := by
  have hA : Den A (findEntry vc.entries) (.name "A") (.p 2) := .entry (by decide) rfl
  have hB : Den A (findEntry vc.entries) (.name "B") (.p 3) := .entry (by decide) rfl
  have h2 : Den A (findEntry vc.entries) (.lit (.int 2)) (.n (.int 2)) := .lit _
  have hi : Den A (findEntry vc.entries) (.inv (.lit (.int 2))) (.n (.int (-3))) := .invN h2 rfl
  exact .addP (.scaleL h2 hA) (.scaleR hB hi)

example : HitsUnknown A (findEntry vc.entries) (.add (.name "A") (.name "Q")) := by
  have hA : Den A (findEntry vc.entries) (.name "A") (.p 2) := .entry (by decide) rfl
  exact .addR hA (.name (by decide) rfl)

/-- similarities to the entries {2, 3} are `max(2c, 3c)`: candidates 9, 4, 7 give 27, 12, 21
(not below 5), candidate 1 gives 3 < 5: the fourth candidate is selected, no warning -/
example : createPointer A 100 .ok vc = (.ok (some 1), { vc with gen := [8, -1] }) := by rfl

/-- with 3 attempts nothing qualifies: the least similar of the first three (4) and a warning -/
example : createPointer A 3 .ok vc = (.ok (some 4), { vc with gen := [1, 8, -1], warns := 1 }) := by
  rfl

example : createPointer A 0 .ok vc = (.ok none, { vc with warns := 1 }) := by rfl

example : (populate A (fun _ => some (.mul (.name "A") (.name "B"))) (fun _ => .ok)
    "C = A * B; D".toList vc).2.entries = [("A", 2), ("B", 3), ("C", 6), ("D", -1)] := by decide

end Example

end C10

/-
C15 — Associative memories map each stored key to its paired output only.
Property theorems only (model: SpaModel/Basic/C15.lean, helpers: SpaModel/Lemmas/C15.lean).

Everything is proved for mappings of every size, every input/output
dimensionality, every input vector and every parse function, over an arbitrary
commutative ring (sections A–C) resp. an arbitrary linearly ordered field
(sections D–E).

SPLIT OF THE PROPERTY
* PROVED (sections A–C): mapping normalisation and its rejections, the pairing of
  key rows with value rows, the linear read-out formula, its independence of the
  dict iteration order, the clean-key law for orthonormal keys, the wiring of the
  default output.  Tied to the real modules exactly (Direct mode).
* PROVED ABOUT THE IDEAL SELECTION SEMANTICS ONLY (sections D–E, names carry
  `ideal_`): what the module emits *if* the selection network computes the
  documented ideal function (`Impl.selThreshold`, `Impl.selWTA`, `Impl.selIA`,
  `Impl.defaultGate`).  That the neural networks of `selection.py` approximate these
  functions (threshold sharpness, lateral inhibition, accumulator dynamics) is NOT
  proved here; it is validated by seeded simulations only (harness/c15.py part b).
-/
import SpaModel.Lemmas.C15
import Mathlib.Algebra.BigOperators.Fin

set_option linter.unusedSectionVars false

namespace C15
open Impl Lemmas

/-! ## A. mapping normalisation and rejection -/

/-- no mapping (auto-associative call): `TypeError` -/
theorem reject_missing_mapping (vk : List Key) :
    normalise .none vk false = .error .missingMapping := rfl

/-- an output vocabulary requires an explicit mapping: `ValidationError` -/
theorem reject_output_vocab_without_mapping (vk : List Key) :
    normalise .none vk true = .error .outputVocabWithoutMapping := rfl

/-- a string other than `'by-key'` is rejected -/
theorem reject_other_string (vk : List Key) (hasOut : Bool) :
    normalise .otherStr vk hasOut = .error .badString := by
  cases hasOut <;> rfl

/-- empty mappings are rejected, in each of the three forms -/
theorem reject_empty_dict (vk : List Key) (hasOut : Bool) :
    normalise (.dict []) vk hasOut = .error .emptyMapping := by
  cases hasOut <;> rfl

theorem reject_empty_key_list (vk : List Key) (hasOut : Bool) :
    normalise (.keyList []) vk hasOut = .error .emptyMapping := by
  cases hasOut <;> rfl

theorem reject_by_key_of_empty_vocabulary (hasOut : Bool) :
    normalise .byKey [] hasOut = .error .emptyMapping := by
  cases hasOut <;> rfl

/-- whatever is accepted has at least one item -/
theorem accepted_nonempty (m : MappingArg) (vk : List Key) (hasOut : Bool)
    (pairs : List (Key × Key)) (h : normalise m vk hasOut = .ok pairs) : pairs ≠ [] := by
  have hfin : ∀ d, finish d = .ok pairs → pairs ≠ [] := by
    intro d hd
    unfold finish at hd
    split at hd
    · cases hd
    · next hlen =>
      have := lookupAll_ok_length d _ pairs hd
      intro hp
      subst hp
      simp at this
      simp [this] at hlen
  unfold normalise at h
  split at h
  · cases h
  · cases m with
    | none => cases h
    | otherStr => cases h
    | byKey => exact hfin _ h
    | keyList l => exact hfin _ h
    | dict d => exact hfin _ h

/-- a non-empty dict (a Python dict has distinct keys) is taken as it is: item `k`
of the result is `(key_k, mapping[key_k])`, in iteration order -/
theorem normalise_dict (d : List (Key × Key)) (vk : List Key) (hasOut : Bool)
    (hne : d ≠ []) (hd : (d.map Prod.fst).Nodup) :
    normalise (.dict d) vk hasOut = .ok d := by
  have : ¬ d.length < 1 := by
    cases d with
    | nil => exact absurd rfl hne
    | cons a t => simp
  have hf : finish d = .ok d := by
    unfold finish
    rw [if_neg this]
    exact lookupAll_of_forall d d (lookup_of_mem_nodup d hd)
  cases hasOut <;> exact hf

/-- `mapping[k]` never raises for the keys of the mapping itself -/
theorem normalise_never_keyError (m : MappingArg) (vk : List Key) (hasOut : Bool) (k : Key)
    (hd : ∀ d, m = .dict d → (d.map Prod.fst).Nodup) :
    normalise m vk hasOut ≠ .error (.keyError k) := by
  have hfin : ∀ d, (d.map Prod.fst).Nodup → finish d ≠ .error (.keyError k) := by
    intro d hdn h
    unfold finish at h
    split at h
    · cases h
    · rw [lookupAll_of_forall d d (lookup_of_mem_nodup d hdn)] at h
      cases h
  have hdiag : ∀ l, ((dictOfKeys l).map Prod.fst).Nodup := fun l =>
    (foldl_dictSet l [] ⟨by simp, by simp⟩).1.1
  intro h
  unfold normalise at h
  split at h
  · cases h
  · cases m with
    | none => cases h
    | otherStr => cases h
    | byKey => exact hfin _ (hdiag _) h
    | keyList l => exact hfin _ (hdiag _) h
    | dict d => exact hfin _ (hd d rfl) h

/-- a key list makes an auto-associative mapping: every accepted item is `(k, k)`,
the keys are distinct, and they are exactly the listed keys -/
theorem normalise_keyList (l : List Key) (vk : List Key) (hasOut : Bool)
    (pairs : List (Key × Key)) (h : normalise (.keyList l) vk hasOut = .ok pairs) :
    (pairs.map Prod.fst).Nodup ∧ (∀ p ∈ pairs, p.2 = p.1) ∧
      ∀ k, k ∈ pairs.map Prod.fst ↔ k ∈ l := by
  have hinv : Diag (dictOfKeys l) ∧ ∀ k', k' ∈ (dictOfKeys l).map Prod.fst ↔
      (k' ∈ ([] : List (Key × Key)).map Prod.fst ∨ k' ∈ l) := foldl_dictSet l [] ⟨by simp, by simp⟩
  have hf : finish (dictOfKeys l) = .ok pairs := by
    cases hasOut <;> exact h
  unfold finish at hf
  split at hf
  · cases hf
  · rw [lookupAll_of_forall _ _ (lookup_of_mem_nodup _ hinv.1.1)] at hf
    injection hf with hf
    subst hf
    exact ⟨hinv.1.1, hinv.1.2, fun k => by simpa using hinv.2 k⟩

/-- … and for a list without repetitions (in particular `input_vocab.keys()`) the
order is the order of the list -/
theorem normalise_keyList_nodup (l : List Key) (vk : List Key) (hasOut : Bool)
    (hne : l ≠ []) (hl : l.Nodup) :
    normalise (.keyList l) vk hasOut = .ok (l.map fun k => (k, k)) := by
  have hd : dictOfKeys l = l.map fun k => (k, k) := by
    have := foldl_dictSet_nodup l [] ⟨by simp, by simp⟩ (by simp) hl
    simpa [dictOfKeys] using this
  have hnodup : ((l.map fun k => (k, k)).map Prod.fst).Nodup := by
    simpa [List.map_map, Function.comp_def] using hl
  have hf : finish (dictOfKeys l) = .ok (l.map fun k => (k, k)) := by
    rw [hd]
    unfold finish
    have : ¬ (l.map fun k => (k, k)).length < 1 := by
      cases l with
      | nil => exact absurd rfl hne
      | cons a t => simp
    rw [if_neg this]
    exact lookupAll_of_forall _ _ (lookup_of_mem_nodup _ hnodup)
  cases hasOut <;> exact hf

/-- `'by-key'` is the key list of the input vocabulary -/
theorem normalise_byKey (vk : List Key) (hasOut : Bool) :
    normalise .byKey vk hasOut = normalise (.keyList vk) vk hasOut := by
  cases hasOut <;> rfl

/-- a rejected mapping is a rejected constructor call, with the same exception -/
theorem create_rejected_of_normalise {R : Type*} {dIn dOut : ℕ} (m : MappingArg) (vk : List Key)
    (hasOut : Bool) (pin : Key → Option (Vec dIn R)) (pout : Key → Option (Vec dOut R)) (e : Err)
    (h : normalise m vk hasOut = .error e) : create m vk hasOut pin pout = .error e := by
  unfold create
  rw [h]

/-! ## B. the key matrix and the value matrix are paired row by row -/

section pairing
variable {R : Type*} {dIn dOut : ℕ}

theorem denotes_unique (pin : Key → Option (Vec dIn R)) (pout : Key → Option (Vec dOut R))
    (pairs : List (Key × Key)) (e₁ e₂ : List (Spec.Entry R dIn dOut))
    (h₁ : Spec.Denotes pin pout pairs e₁) (h₂ : Spec.Denotes pin pout pairs e₂) : e₁ = e₂ :=
  List.map_injective_iff.2 (Option.some_injective _) (h₁.symm.trans h₂)

/-- `build` succeeds exactly when every key and every output expression parses, and
then row `k` of the key matrix is the vector of the `k`-th input key and row `k` of
the value matrix is the vector of the output *paired with that key* -/
theorem build_ok_iff (pin : Key → Option (Vec dIn R)) (pout : Key → Option (Vec dOut R))
    (pairs : List (Key × Key)) (entries : List (Spec.Entry R dIn dOut)) :
    build pin pout pairs = .ok (Spec.memOf entries) ↔ Spec.Denotes pin pout pairs entries := by
  unfold build Spec.Denotes Spec.memOf
  constructor
  · intro h
    cases h1 : parseAll pin (pairs.map Prod.fst) with
    | error e => simp [h1] at h
    | ok iv =>
      cases h2 : parseAll pout (pairs.map Prod.snd) with
      | error e => simp [h1, h2] at h
      | ok ov =>
        simp only [h1, h2] at h
        injection h with h
        injection h with hk hv
        subst hk; subst hv
        rw [parseAll_ok_iff] at h1 h2
        simp only [List.map_map] at h1 h2
        induction pairs generalizing entries with
        | nil => cases entries <;> simp_all
        | cons p t ih =>
          cases entries with
          | nil => simp at h1
          | cons e es =>
            simp only [List.map_cons, List.cons.injEq, Function.comp] at h1 h2 ⊢
            refine ⟨?_, ih es h1.2 h2.2⟩
            simp [Spec.entry, h1.1, h2.1]
  · intro h
    have h1 : parseAll pin (pairs.map Prod.fst) = .ok (entries.map Prod.fst) := by
      rw [parseAll_ok_iff]
      induction pairs generalizing entries with
      | nil => cases entries <;> simp_all
      | cons p t ih =>
        cases entries with
        | nil => simp at h
        | cons e es =>
          simp only [List.map_cons, List.cons.injEq] at h ⊢
          refine ⟨?_, ih es h.2⟩
          have := h.1
          unfold Spec.entry at this
          split at this
          · next a b ha hb => simp at this; rw [ha, ← this]
          · cases this
    have h2 : parseAll pout (pairs.map Prod.snd) = .ok (entries.map Prod.snd) := by
      rw [parseAll_ok_iff]
      clear * - h
      induction pairs generalizing entries with
      | nil => cases entries <;> simp_all
      | cons p t ih =>
        cases entries with
        | nil => simp at h
        | cons e es =>
          simp only [List.map_cons, List.cons.injEq] at h ⊢
          refine ⟨?_, ih es h.2⟩
          have := h.1
          unfold Spec.entry at this
          split at this
          · next a b ha hb => simp at this; rw [hb, ← this]
          · cases this
    simp [h1, h2]

/-- every successfully built memory is `memOf` of the parsed items: the two lists have
the length of the mapping and are in matching order -/
theorem build_paired (pin : Key → Option (Vec dIn R)) (pout : Key → Option (Vec dOut R))
    (pairs : List (Key × Key)) (mem : Memory R dIn dOut) (h : build pin pout pairs = .ok mem) :
    ∃ entries, Spec.Denotes pin pout pairs entries ∧ mem = Spec.memOf entries ∧
      mem.keys.length = pairs.length ∧ mem.vals.length = pairs.length := by
  have h' := h
  unfold build at h
  cases h1 : parseAll pin (pairs.map Prod.fst) with
  | error e => simp [h1] at h
  | ok iv =>
    cases h2 : parseAll pout (pairs.map Prod.snd) with
    | error e => simp [h1, h2] at h
    | ok ov =>
      simp only [h1, h2] at h
      injection h with h
      subst h
      have l1 : iv.length = pairs.length := by
        have := congrArg List.length ((parseAll_ok_iff _ _ _).1 h1); simpa using this.symm
      have l2 : ov.length = pairs.length := by
        have := congrArg List.length ((parseAll_ok_iff _ _ _).1 h2); simpa using this.symm
      have hm : (⟨iv, ov⟩ : Memory R dIn dOut) = Spec.memOf (iv.zip ov) := by
        unfold Spec.memOf
        rw [← List.unzip_fst, ← List.unzip_snd, List.unzip_zip (by rw [l1, l2])]
      refine ⟨iv.zip ov, ?_, hm, l1, l2⟩
      rw [← build_ok_iff, ← hm]
      exact h'

/-- it fails exactly with the `SpaParseError` of a key that does not parse -/
theorem build_error (pin : Key → Option (Vec dIn R)) (pout : Key → Option (Vec dOut R))
    (pairs : List (Key × Key)) (e : Err) (h : build pin pout pairs = .error e) :
    ∃ p ∈ pairs, (pin p.1 = none ∧ e = .parse p.1) ∨ (pout p.2 = none ∧ e = .parse p.2) := by
  unfold build at h
  cases h1 : parseAll pin (pairs.map Prod.fst) with
  | error e1 =>
    simp only [h1] at h
    injection h with h
    subst h
    obtain ⟨k, hk, hn, he⟩ := parseAll_error _ _ _ h1
    obtain ⟨p, hp, rfl⟩ := List.mem_map.1 hk
    exact ⟨p, hp, Or.inl ⟨hn, he⟩⟩
  | ok iv =>
    cases h2 : parseAll pout (pairs.map Prod.snd) with
    | error e2 =>
      simp only [h1, h2] at h
      injection h with h
      subst h
      obtain ⟨k, hk, hn, he⟩ := parseAll_error _ _ _ h2
      obtain ⟨p, hp, rfl⟩ := List.mem_map.1 hk
      exact ⟨p, hp, Or.inr ⟨hn, he⟩⟩
    | ok ov => simp [h1, h2] at h

end pairing

/-! ## C. linear read-out (PROVED, tied exactly in Direct mode) -/

section linear
variable {R : Type*} [CommRing R] {dIn dOut : ℕ}

/-- read-out of a selection output that is a function `f` of each similarity -/
theorem readOut_map (f : R → R) (entries : List (Spec.Entry R dIn dOut)) (x : Vec dIn R) :
    readOut (entries.map Prod.snd) ((selInput (entries.map Prod.fst) x).map f) =
      Spec.readoutWith f entries x := by
  induction entries with
  | nil => rfl
  | cons e t ih =>
    simp only [selInput, List.map_cons, readOut, Spec.readoutWith, List.sum_cons] at ih ⊢
    rw [ih]

/-- **linear read-out**: input transform `K` followed by output transform `Vᵀ` is
`x ↦ Σ_k ⟨key_k, x⟩ • out_k`, with `out_k` the output paired with key `k` -/
theorem linear_readout_wiring (entries : List (Spec.Entry R dIn dOut)) (x : Vec dIn R) :
    readOut (Spec.memOf entries).vals (selInput (Spec.memOf entries).keys x) =
      Spec.readout entries x := by
  have := readOut_map id entries x
  simpa [Spec.readoutWith, Spec.readout, Spec.memOf] using this

/-- the formula is indifferent to the order of the items … -/
theorem readout_perm (e₁ e₂ : List (Spec.Entry R dIn dOut)) (h : e₁.Perm e₂) (x : Vec dIn R) :
    Spec.readout e₁ x = Spec.readout e₂ x :=
  (h.map _).sum_eq

theorem readoutWith_perm (f : R → R) (e₁ e₂ : List (Spec.Entry R dIn dOut)) (h : e₁.Perm e₂)
    (x : Vec dIn R) : Spec.readoutWith f e₁ x = Spec.readoutWith f e₂ x :=
  (h.map _).sum_eq

/-- … so two memories built from the same items in different (dict iteration) orders
compute the same function: the pairing is all that matters -/
theorem wiring_independent_of_mapping_order
    (pin : Key → Option (Vec dIn R)) (pout : Key → Option (Vec dOut R))
    (p₁ p₂ : List (Key × Key)) (hperm : p₁.Perm p₂) (m₁ m₂ : Memory R dIn dOut)
    (h₁ : build pin pout p₁ = .ok m₁) (h₂ : build pin pout p₂ = .ok m₂) (x : Vec dIn R) :
    readOut m₁.vals (selInput m₁.keys x) = readOut m₂.vals (selInput m₂.keys x) := by
  obtain ⟨e₁, hd₁, rfl, -, -⟩ := build_paired pin pout p₁ m₁ h₁
  obtain ⟨e₂, hd₂, rfl, -, -⟩ := build_paired pin pout p₂ m₂ h₂
  rw [linear_readout_wiring, linear_readout_wiring]
  apply readout_perm
  have h := (hperm.map (Spec.entry pin pout)).filterMap id
  unfold Spec.Denotes at hd₁ hd₂
  rw [hd₁, hd₂] at h
  simpa [List.filterMap_map] using h

/-- the read-out is additive and homogeneous in the input -/
theorem readout_add (entries : List (Spec.Entry R dIn dOut)) (x y : Vec dIn R) :
    Spec.readout entries (x + y) = Spec.readout entries x + Spec.readout entries y := by
  induction entries with
  | nil => simp [Spec.readout]
  | cons e t ih =>
    simp only [Spec.readout, List.map_cons, List.sum_cons] at ih ⊢
    rw [ih, dotProduct_add, add_smul, add_add_add_comm]

theorem readout_smul (entries : List (Spec.Entry R dIn dOut)) (c : R) (x : Vec dIn R) :
    Spec.readout entries (c • x) = c • Spec.readout entries x := by
  induction entries with
  | nil => simp [Spec.readout]
  | cons e t ih =>
    simp only [Spec.readout, List.map_cons, List.sum_cons] at ih ⊢
    rw [ih, dotProduct_smul, smul_add, smul_smul, smul_eq_mul]

/-- the input transform is the key matrix: entry `k` of the selection input is
`(K x)_k` … -/
theorem selInput_eq_mulVec (keys : List (Vec dIn R)) (x : Vec dIn R) :
    selInput keys x = List.ofFn ((rowsMat keys).mulVec x) := by
  apply List.ext_get
  · simp [selInput]
  · intro n h₁ h₂
    simp [selInput, rowsMat, Matrix.mulVec]

/-- … and the output transform is the *transposed* value matrix -/
theorem readOut_eq_transpose_mulVec (vals : List (Vec dOut R)) (s : Fin vals.length → R) :
    readOut vals (List.ofFn s) = (rowsMat vals).transpose.mulVec s := by
  induction vals with
  | nil =>
    funext j
    simp [readOut, Matrix.mulVec, dotProduct]
  | cons v t ih =>
    funext j
    have := congrFun (ih (fun k => s k.succ)) j
    simp only [List.length_cons, List.ofFn_succ, readOut, Pi.add_apply, Pi.smul_apply,
      smul_eq_mul, Matrix.mulVec, dotProduct, Matrix.transpose_apply, Fin.sum_univ_succ] at this ⊢
    rw [this]
    simp only [rowsMat, Matrix.of_apply, List.get_eq_getElem, Fin.val_zero, Fin.val_succ,
      List.getElem_cons_succ, List.length_cons, mul_comm]
    congr 1
    exact mul_comm _ _

/-- a vector orthogonal to every key reads out nothing -/
theorem readout_orthogonal (entries : List (Spec.Entry R dIn dOut)) (x : Vec dIn R)
    (h : ∀ e ∈ entries, e.1 ⬝ᵥ x = 0) : Spec.readout entries x = 0 := by
  apply sum_map_zero
  intro e he
  rw [h e he, zero_smul]

/-- **clean key, orthonormal keys**: presenting a stored key yields exactly its own
paired output -/
theorem orthonormal_clean_key (entries : List (Spec.Entry R dIn dOut))
    (ho : Spec.Orthonormal entries) (e : Spec.Entry R dIn dOut) (he : e ∈ entries) :
    Spec.readout entries e.1 = e.2 := by
  obtain ⟨pre, post, rfl⟩ := List.append_of_mem he
  have hz := orthonormal_split pre post e ho
  unfold Spec.readout
  rw [sum_map_single (fun e' : Spec.Entry R dIn dOut => (e'.1 ⬝ᵥ e.1) • e'.2) pre post e
    (fun e' he' => by simp only [hz e' he', zero_smul]), ho.1 e he, one_smul]

end linear

section direct
variable {R : Type*} [Field R] {dIn dOut : ℕ}

/-- Direct mode without default output is the linear read-out -/
theorem direct_linear_readout (entries : List (Spec.Entry R dIn dOut)) (x : Vec dIn R) :
    outputDirect (Spec.memOf entries) none x = Spec.readout entries x := by
  simp only [outputDirect, output, id]
  exact linear_readout_wiring entries x

/-- from the mapping to the output: whatever `create` accepts computes the pairing
formula of the parsed items -/
theorem create_linear_readout (m : MappingArg) (vk : List Key) (hasOut : Bool)
    (pin : Key → Option (Vec dIn R)) (pout : Key → Option (Vec dOut R))
    (mem : Memory R dIn dOut) (h : create m vk hasOut pin pout = .ok mem) :
    ∃ pairs entries, normalise m vk hasOut = .ok pairs ∧ pairs ≠ [] ∧
      Spec.Denotes pin pout pairs entries ∧
      ∀ x, outputDirect mem none x = Spec.readout entries x := by
  unfold create at h
  cases hn : normalise m vk hasOut with
  | error e => simp [hn] at h
  | ok pairs =>
    simp only [hn] at h
    obtain ⟨entries, hd, rfl, -, -⟩ := build_paired pin pout pairs mem h
    exact ⟨pairs, entries, rfl, accepted_nonempty m vk hasOut pairs hn, hd,
      direct_linear_readout entries⟩

/-- Direct mode with a default output: the bare wiring adds
`(1 − Σ_k ⟨key_k,x⟩ / min_activation_value)` times the default vector -/
theorem direct_with_default (entries : List (Spec.Entry R dIn dOut)) (df : Default R dOut)
    (x : Vec dIn R) :
    outputDirect (Spec.memOf entries) (some df) x =
      Spec.readout entries x +
        (1 - (entries.map fun e => e.1 ⬝ᵥ x).sum / df.minAct) • df.vec := by
  simp only [outputDirect, output, id, defaultDrive]
  rw [linear_readout_wiring]
  simp [Spec.memOf, selInput, List.map_map, Function.comp_def]

end direct

/-! ## D. ideal selection semantics (the selection functions are the documented ideal
behaviour; the neural dynamics are validated by simulation only) -/

section ideal
variable {R : Type*} [Field R] [LinearOrder R] [IsStrictOrderedRing R] {dIn dOut : ℕ}

/-- ideal thresholding: exactly the keys whose similarity exceeds the threshold
contribute, each with its own paired output -/
theorem ideal_threshold_readout (θ : R) (entries : List (Spec.Entry R dIn dOut)) (x : Vec dIn R) :
    outputThreshold θ (Spec.memOf entries) none x =
      Spec.readout (entries.filter fun e => θ < e.1 ⬝ᵥ x) x := by
  have key : outputThreshold θ (Spec.memOf entries) none x =
      Spec.readoutWith (fun a => if θ < a then a else 0) entries x := readOut_map _ entries x
  rw [key]
  clear key
  unfold Spec.readoutWith Spec.readout
  induction entries with
  | nil => rfl
  | cons e t ih =>
    by_cases h : θ < e.1 ⬝ᵥ x
    · rw [List.filter_cons_of_pos (by simpa using h), List.map_cons, List.map_cons,
        List.sum_cons, List.sum_cons, ih]
      simp only [h, if_true]
    · rw [List.filter_cons_of_neg (by simpa using h), List.map_cons, List.sum_cons, ih]
      simp only [h, if_false, zero_smul, zero_add]

/-- ideal thresholding: similarity to every key at or below the threshold → nothing -/
theorem ideal_threshold_below (θ : R) (entries : List (Spec.Entry R dIn dOut)) (x : Vec dIn R)
    (h : ∀ e ∈ entries, e.1 ⬝ᵥ x ≤ θ) : outputThreshold θ (Spec.memOf entries) none x = 0 := by
  rw [ideal_threshold_readout]
  have : (entries.filter fun e => θ < e.1 ⬝ᵥ x) = [] := by
    rw [List.filter_eq_nil_iff]
    intro e he
    simpa using h e he
  rw [this]
  rfl

/-- ideal thresholding, clean key: orthonormal keys and a threshold below 1 → the
paired output alone -/
theorem ideal_threshold_clean_key (θ : R) (hθ : θ < 1) (entries : List (Spec.Entry R dIn dOut))
    (ho : Spec.Orthonormal entries) (e : Spec.Entry R dIn dOut) (he : e ∈ entries) :
    outputThreshold θ (Spec.memOf entries) none e.1 = e.2 := by
  have key : outputThreshold θ (Spec.memOf entries) none e.1 =
      Spec.readoutWith (fun a => if θ < a then a else 0) entries e.1 := readOut_map _ entries e.1
  rw [key]
  obtain ⟨pre, post, rfl⟩ := List.append_of_mem he
  have hz := orthonormal_split pre post e ho
  unfold Spec.readoutWith
  rw [sum_map_single (fun e' : Spec.Entry R dIn dOut =>
      (if θ < e'.1 ⬝ᵥ e.1 then e'.1 ⬝ᵥ e.1 else 0) • e'.2) pre post e
    (fun e' he' => by simp only [hz e' he', ite_self, zero_smul]), ho.1 e he, if_pos hθ, one_smul]

/-- ideal winner-take-all: when one key is strictly more similar to the input than
every other key and exceeds the threshold, the output is that key's paired output
alone (scaled by the similarity) — "only the clearly stronger of two competing keys" -/
theorem ideal_wta_winner (θ : R) (pre post : List (Spec.Entry R dIn dOut))
    (e : Spec.Entry R dIn dOut) (x : Vec dIn R) (hθ : θ < e.1 ⬝ᵥ x)
    (hmax : ∀ e' ∈ pre ++ post, e'.1 ⬝ᵥ x < e.1 ⬝ᵥ x) :
    outputWTA θ (Spec.memOf (pre ++ e :: post)) none x = (e.1 ⬝ᵥ x) • e.2 := by
  have key : outputWTA θ (Spec.memOf (pre ++ e :: post)) none x =
      Spec.readoutWith (fun a => if θ < a ∧
        IsWinner (selInput ((pre ++ e :: post).map Prod.fst) x) a then a else 0)
        (pre ++ e :: post) x := readOut_map _ _ x
  rw [key]
  unfold Spec.readoutWith
  have hs : selInput ((pre ++ e :: post).map Prod.fst) x =
      (pre.map fun e' => e'.1 ⬝ᵥ x) ++ (e.1 ⬝ᵥ x) :: (post.map fun e' => e'.1 ⬝ᵥ x) := by
    simp [selInput, List.map_map, Function.comp_def]
  have hw : IsWinner (selInput ((pre ++ e :: post).map Prod.fst) x) (e.1 ⬝ᵥ x) := by
    rw [hs]
    apply isWinner_of_strict_max
    intro b hb
    rw [← List.map_append, List.mem_map] at hb
    obtain ⟨e', he', rfl⟩ := hb
    exact hmax e' he'
  rw [sum_map_single _ pre post e]
  · beta_reduce
    rw [if_pos ⟨hθ, hw⟩]
  intro e' he'
  have hnw : ¬ IsWinner (selInput ((pre ++ e :: post).map Prod.fst) x) (e'.1 ⬝ᵥ x) := by
    apply not_isWinner_of_lt _ _ (e.1 ⬝ᵥ x) _ (hmax e' he')
    rw [hs]; simp
  simp only [hnw, and_false, if_false, zero_smul]

/-- the two-competitor instance, in both positions -/
theorem ideal_wta_stronger_of_two (θ : R) (e₁ e₂ : Spec.Entry R dIn dOut) (x : Vec dIn R)
    (hθ : θ < e₁.1 ⬝ᵥ x) (hlt : e₂.1 ⬝ᵥ x < e₁.1 ⬝ᵥ x) :
    outputWTA θ (Spec.memOf [e₁, e₂]) none x = (e₁.1 ⬝ᵥ x) • e₁.2 ∧
    outputWTA θ (Spec.memOf [e₂, e₁]) none x = (e₁.1 ⬝ᵥ x) • e₁.2 := by
  constructor
  · exact ideal_wta_winner θ [] [e₂] e₁ x hθ (by simpa using hlt)
  · exact ideal_wta_winner θ [e₂] [] e₁ x hθ (by simpa using hlt)

/-- ideal winner-take-all: everything at or below the threshold → nothing -/
theorem ideal_wta_below (θ : R) (entries : List (Spec.Entry R dIn dOut)) (x : Vec dIn R)
    (h : ∀ e ∈ entries, e.1 ⬝ᵥ x ≤ θ) : outputWTA θ (Spec.memOf entries) none x = 0 := by
  have key : outputWTA θ (Spec.memOf entries) none x =
      Spec.readoutWith (fun a => if θ < a ∧
        IsWinner (selInput (entries.map Prod.fst) x) a then a else 0) entries x :=
    readOut_map _ _ x
  rw [key]
  apply sum_map_zero
  intro e he
  have : ¬ θ < e.1 ⬝ᵥ x := not_lt.2 (h e he)
  simp only [this, false_and, if_false, zero_smul]

/-- ideal winner-take-all, clean key -/
theorem ideal_wta_clean_key (θ : R) (hθ : θ < 1) (entries : List (Spec.Entry R dIn dOut))
    (ho : Spec.Orthonormal entries) (e : Spec.Entry R dIn dOut) (he : e ∈ entries) :
    outputWTA θ (Spec.memOf entries) none e.1 = e.2 := by
  obtain ⟨pre, post, rfl⟩ := List.append_of_mem he
  have hz := orthonormal_split pre post e ho
  have h1 := ho.1 e he
  rw [ideal_wta_winner θ pre post e e.1 (by rw [h1]; exact hθ)
    (fun e' he' => by rw [hz e' he', h1]; exact zero_lt_one), h1, one_smul]

/-- ideal accumulator network: the key with the strictly largest positive similarity
is reported with activation 1 — its paired output alone -/
theorem ideal_ia_winner (pre post : List (Spec.Entry R dIn dOut))
    (e : Spec.Entry R dIn dOut) (x : Vec dIn R) (hpos : 0 < e.1 ⬝ᵥ x)
    (hmax : ∀ e' ∈ pre ++ post, e'.1 ⬝ᵥ x < e.1 ⬝ᵥ x) :
    outputIA (Spec.memOf (pre ++ e :: post)) none x = e.2 := by
  have key : outputIA (Spec.memOf (pre ++ e :: post)) none x =
      Spec.readoutWith (fun a => if 0 < a ∧
        IsWinner (selInput ((pre ++ e :: post).map Prod.fst) x) a then 1 else 0)
        (pre ++ e :: post) x := readOut_map _ _ x
  rw [key]
  unfold Spec.readoutWith
  have hs : selInput ((pre ++ e :: post).map Prod.fst) x =
      (pre.map fun e' => e'.1 ⬝ᵥ x) ++ (e.1 ⬝ᵥ x) :: (post.map fun e' => e'.1 ⬝ᵥ x) := by
    simp [selInput, List.map_map, Function.comp_def]
  have hw : IsWinner (selInput ((pre ++ e :: post).map Prod.fst) x) (e.1 ⬝ᵥ x) := by
    rw [hs]
    apply isWinner_of_strict_max
    intro b hb
    rw [← List.map_append, List.mem_map] at hb
    obtain ⟨e', he', rfl⟩ := hb
    exact hmax e' he'
  rw [sum_map_single _ pre post e]
  · beta_reduce
    rw [if_pos ⟨hpos, hw⟩, one_smul]
  intro e' he'
  have hnw : ¬ IsWinner (selInput ((pre ++ e :: post).map Prod.fst) x) (e'.1 ⬝ᵥ x) := by
    apply not_isWinner_of_lt _ _ (e.1 ⬝ᵥ x) _ (hmax e' he')
    rw [hs]; simp
  simp only [hnw, and_false, if_false, zero_smul]

theorem ideal_ia_clean_key (entries : List (Spec.Entry R dIn dOut))
    (ho : Spec.Orthonormal entries) (e : Spec.Entry R dIn dOut) (he : e ∈ entries) :
    outputIA (Spec.memOf entries) none e.1 = e.2 := by
  obtain ⟨pre, post, rfl⟩ := List.append_of_mem he
  have hz := orthonormal_split pre post e ho
  have h1 := ho.1 e he
  exact ideal_ia_winner pre post e e.1 (by rw [h1]; exact zero_lt_one)
    (fun e' he' => by rw [hz e' he', h1]; exact zero_lt_one)

/-! ## E. default output (wiring proved; rectification = ideal semantics) -/

/-- the default ensemble is driven above zero exactly while the summed selection
activity is below `min_activation_value` -/
theorem ideal_default_active_iff (minAct : R) (hm : 0 < minAct) (s : List R) :
    0 < defaultGate (defaultDrive minAct s) ↔ s.sum < minAct := by
  unfold defaultGate defaultDrive
  rw [lt_max_iff, sub_pos, div_lt_one hm]
  simp

/-- it is silent exactly when the summed activity reaches `min_activation_value` -/
theorem ideal_default_silent_iff (minAct : R) (hm : 0 < minAct) (s : List R) :
    defaultGate (defaultDrive minAct s) = 0 ↔ minAct ≤ s.sum := by
  unfold defaultGate defaultDrive
  rw [max_eq_left_iff, sub_nonpos, one_le_div hm]

/-- with non-negative selection activities (thresholded outputs are) the default
output is fully on exactly when no stored key is active -/
theorem ideal_default_full_iff_no_key_active (minAct : R) (hm : 0 < minAct) (s : List R)
    (hs : ∀ a ∈ s, 0 ≤ a) :
    defaultGate (defaultDrive minAct s) = 1 ↔ ∀ a ∈ s, a = 0 := by
  unfold defaultGate defaultDrive
  have hsum : 0 ≤ s.sum := List.sum_nonneg hs
  constructor
  · intro h
    have h1 : 1 - s.sum / minAct = 1 := by
      rcases max_cases 0 (1 - s.sum / minAct) with ⟨h2, -⟩ | ⟨h2, -⟩
      · rw [h2] at h; exact absurd h zero_ne_one
      · rw [h2] at h; exact h
    have h2 : s.sum = 0 := by
      have : s.sum / minAct = 0 := by linarith
      rcases div_eq_zero_iff.1 this with h3 | h3
      · exact h3
      · exact absurd h3 hm.ne'
    exact sum_eq_zero_of_nonneg s hs h2
  · intro h
    have : s.sum = 0 := by
      rw [← List.map_id s]
      exact sum_map_zero id s h
    rw [this, zero_div, sub_zero]
    exact max_eq_right zero_le_one

/-- for every selection function: the output with a default is the output without plus
the gated default vector, the gate being driven by `1 − Σ sel / min_activation_value`
(so the three `ideal_default_*` laws apply to all three classes) -/
theorem default_output_decomposition (selF : List R → List R) (gateF : R → R)
    (mem : Memory R dIn dOut) (df : Default R dOut) (x : Vec dIn R) :
    output selF gateF mem (some df) x =
      output selF gateF mem none x +
        gateF (defaultDrive df.minAct (selF (selInput mem.keys x))) • df.vec := rfl

/-- ideal winner-take-all with default output: nothing above the threshold → the default -/
theorem ideal_wta_default_when_inactive (θ : R) (entries : List (Spec.Entry R dIn dOut))
    (df : Default R dOut) (x : Vec dIn R) (h : ∀ e ∈ entries, e.1 ⬝ᵥ x ≤ θ) :
    outputWTA θ (Spec.memOf entries) (some df) x = df.vec := by
  have h0 := ideal_wta_below θ entries x h
  unfold outputWTA at h0 ⊢
  rw [default_output_decomposition, h0]
  have hs : (selWTA θ (selInput (Spec.memOf entries).keys x)).sum = 0 := by
    unfold selWTA
    apply sum_map_zero
    intro a ha
    simp only [selInput, Spec.memOf, List.mem_map] at ha
    obtain ⟨k, ⟨e, he, rfl⟩, rfl⟩ := ha
    have : ¬ θ < e.1 ⬝ᵥ x := not_lt.2 (h e he)
    simp only [this, false_and, if_false]
  simp only [defaultDrive, hs, zero_div, sub_zero, defaultGate]
  rw [max_eq_right zero_le_one, one_smul, zero_add]

/-- ideal thresholding with default output: nothing above the threshold → the
default vector, and nothing else -/
theorem ideal_threshold_default_when_inactive (θ : R) (entries : List (Spec.Entry R dIn dOut))
    (df : Default R dOut) (x : Vec dIn R) (h : ∀ e ∈ entries, e.1 ⬝ᵥ x ≤ θ) :
    outputThreshold θ (Spec.memOf entries) (some df) x = df.vec := by
  have h0 := ideal_threshold_below θ entries x h
  simp only [outputThreshold, output] at h0 ⊢
  rw [h0]
  have hs : (selThreshold θ (selInput (Spec.memOf entries).keys x)).sum = 0 := by
    simp only [selThreshold, selInput, Spec.memOf, List.map_map]
    apply sum_map_zero
    intro e he
    have : ¬ θ < e.1 ⬝ᵥ x := not_lt.2 (h e he)
    simp [this]
  simp only [defaultDrive, hs, zero_div, sub_zero, defaultGate]
  rw [max_eq_right zero_le_one, one_smul, zero_add]

/-- ideal thresholding with default output, clean key: orthonormal keys, threshold
below 1 and `min_activation_value ≤ 1` → the paired output alone, no default -/
theorem ideal_threshold_default_suppressed_by_clean_key (θ : R) (hθ : θ < 1)
    (entries : List (Spec.Entry R dIn dOut)) (ho : Spec.Orthonormal entries)
    (df : Default R dOut) (hm : 0 < df.minAct) (hm1 : df.minAct ≤ 1)
    (e : Spec.Entry R dIn dOut) (he : e ∈ entries) :
    outputThreshold θ (Spec.memOf entries) (some df) e.1 = e.2 := by
  have h0 := ideal_threshold_clean_key θ hθ entries ho e he
  simp only [outputThreshold, output] at h0 ⊢
  rw [h0]
  have hs : (selThreshold θ (selInput (Spec.memOf entries).keys e.1)).sum = 1 := by
    obtain ⟨pre, post, rfl⟩ := List.append_of_mem he
    have hz := orthonormal_split pre post e ho
    simp only [selThreshold, selInput, Spec.memOf, List.map_map]
    rw [sum_map_single _ pre post e]
    · simp [ho.1 e he, hθ]
    · intro e' he'
      simp [hz e' he']
  have hg : defaultGate (defaultDrive df.minAct
      (selThreshold θ (selInput (Spec.memOf entries).keys e.1))) = 0 := by
    rw [ideal_default_silent_iff _ hm, hs]
    exact hm1
  rw [hg, zero_smul, add_zero]

/-- thresholded activities are non-negative for a non-negative threshold (the
hypothesis of `ideal_default_full_iff_no_key_active`) -/
theorem selThreshold_nonneg (θ : R) (hθ : 0 ≤ θ) (s : List R) :
    ∀ a ∈ selThreshold θ s, 0 ≤ a := by
  intro a ha
  simp only [selThreshold, List.mem_map] at ha
  obtain ⟨b, -, rfl⟩ := ha
  split
  · next h => exact (hθ.trans_lt h).le
  · exact le_rfl

end ideal

/-! ## non-vacuity: concrete instances (ℚ, input dimension 2, output dimension 3) -/

section examples

def exA : Vec 2 ℚ := ![1, 0]
def exB : Vec 2 ℚ := ![0, 1]
def exX : Vec 3 ℚ := ![1, 0, 0]
def exY : Vec 3 ℚ := ![0, 1, 0]
def exW : Vec 3 ℚ := ![0, 0, 1]
def exPin : Key → Option (Vec 2 ℚ) := fun k => if k = "A" then some exA else if k = "B" then some exB else none
def exPout : Key → Option (Vec 3 ℚ) := fun k => if k = "X" then some exX else if k = "Y" then some exY else none
/-- hetero-associative, value order different from key order -/
def exEntries : List (Spec.Entry ℚ 2 3) := [(exA, exY), (exB, exX)]

example : normalise (.dict [("A", "Y"), ("B", "X")]) ["A", "B"] true = .ok [("A", "Y"), ("B", "X")] := by
  decide
example : normalise (.keyList ["A", "B", "A"]) [] false = .ok [("A", "A"), ("B", "B")] := by decide
example : normalise .byKey ["A", "B"] false = .ok [("A", "A"), ("B", "B")] := by decide
example : Spec.Denotes exPin exPout [("A", "Y"), ("B", "X")] exEntries := by
  simp [Spec.Denotes, Spec.entry, exPin, exPout, exEntries]
example : Spec.Orthonormal exEntries := by
  refine ⟨?_, ?_⟩ <;> simp [exEntries, exA, exB, dotProduct]
example : Spec.readout exEntries exA = exY :=
  orthonormal_clean_key exEntries (by refine ⟨?_, ?_⟩ <;> simp [exEntries, exA, exB, dotProduct])
    (exA, exY) (by simp [exEntries])

/-- the hypotheses of the ideal-selection theorems are satisfiable: 1.0·A + 0.6·B into a
winner-take-all memory with threshold 0.3 -/
example : outputWTA (3/10 : ℚ) (Spec.memOf exEntries) none (exA + (3/5 : ℚ) • exB) = exY := by
  have h := ideal_wta_winner (3/10 : ℚ) [] [(exB, exX)] (exA, exY) (exA + (3/5 : ℚ) • exB)
    (by simp [exA, exB, dotProduct, Fin.sum_univ_two]; norm_num)
    (by simp [exA, exB, dotProduct, Fin.sum_univ_two]; norm_num)
  have h1 : (exA ⬝ᵥ (exA + (3/5 : ℚ) • exB)) = 1 := by
    simp [exA, exB, dotProduct, Fin.sum_univ_two]
  simpa [exEntries, h1] using h

example : outputThreshold (3/10 : ℚ) (Spec.memOf exEntries) (some ⟨exW, 1/2⟩) ((1/10 : ℚ) • exA) = exW :=
  ideal_threshold_default_when_inactive _ _ _ _ (by
    intro e he
    simp only [exEntries, List.mem_cons, List.not_mem_nil, or_false] at he
    rcases he with rfl | rfl <;> simp [exA, exB, dotProduct, Fin.sum_univ_two] <;> norm_num)

end examples

end C15

/-
C04 — only the effects of the highest-utility action reach their targets.
Property theorems only (model: SpaModel/Basic/C04.lean, lemmas: Lemmas/C04.lean).

PROVED here, for all rule sets (any number of actions, any number of effects of
any of the four kinds into shared or distinct targets), all thalamus parameters
that are `Spec.Admissible`, all channel configurations, all winners `k`, all
environments (current values of the dynamic sources), all targets and
components:

* `index_alignment`   utility i ↦ BG input i ↦ thalamus unit i ↦ the gates, the
                      channels and the fixed connections of action i;
* `route_onehot`      with thalamus output `e_k` every target receives exactly
                      the sum of the effects of action k aimed at it;
* `losers_silent` / `winner_exact`  each single effect of another action
                      delivers 0, each effect of action k its declared value;
* `route_follows`     for any sequence of winners the delivered values are those
                      of the phase's winner (routing is stateless);
* `ifmax_handle`      input sent to the handle returned by the i-th `ifmax`
                      adds to utility i / BG input i and to no other;
* `generated_defaults_admissible`  the defaults found in the source tree are
                      admissible.

NOT proved (validated by seeded simulation in harness/c04.py, part (b)):
that basal ganglia and thalamus converge to a thalamus output near `e_k` when
utility k leads by a clear margin, and that `-route_inhibit` on every neuron
silences a channel.  `thalamus_onehot_fixpoint_idealised` only shows that `e_k`
is a fixed point of the idealised thalamus map; it says nothing about
convergence.
-/
import SpaModel.Lemmas.C04

namespace C04
open Impl

/-! ### what "the wiring of effect `e` of action `index`" means -/

namespace Spec

def chanMatches (c : Channel) : Src → Prop
  | .dynPointer id d => c.kind = .state d ∧ c.source = id
  | .dynScalar id => c.kind = .scalar ∧ c.source = id
  | _ => False

/-- `w` is the wiring of effect `e` as an effect of action number `index`:
a fixed effect is a connection from thalamus unit `index` with the effect's
value as transform; a dynamic effect is a gate driven by `bias − actions[index]`
with threshold `threshold_gate`, which is the very gate that inhibits, with
weight `−route_inhibit` on every neuron, a channel from the effect's source to
the effect's target. -/
def Realises (P : Params) (index : Nat) (e : Effect) : EW → Prop
  | .fixed u t col => isFixed e.src = true ∧ u = index ∧ t = e.target ∧ col = transformOf e.src
  | .gated g c =>
      g.unit = index ∧ g.label = index ∧ g.biasW = 1 ∧ g.unitW = -1 ∧
      g.threshold = P.thresholdGate ∧ c.gate = g ∧ c.target = e.target ∧ chanMatches c e.src ∧
      c.inhibit = List.replicate c.sizeIn (-P.routeInhibit) ∧
      c.slices = slicesFrom 0 c.ensembles ∧ c.ensembles.sum = c.sizeIn

def EffectsAligned (P : Params) (index : Nat) : List Effect → List EW → Prop
  | [], [] => True
  | e :: es, w :: ws => Realises P index e w ∧ EffectsAligned P index es ws
  | _, _ => False

/-- action number `i0 + j` of the block is realised by the `j`-th group of wiring elements -/
def AlignedFrom (P : Params) : Nat → List Action → List (List EW) → Prop
  | _, [], [] => True
  | i, a :: as, w :: ws => EffectsAligned P i a w ∧ AlignedFrom P (i + 1) as ws
  | _, _, _ => False

end Spec

open Spec

/-! ### `build` succeeds and aligns every index -/

theorem buildEffect_spec (P : Params) (cfg : ChanCfg) (index : Nat) (st : Thal) (e : Effect)
    (hi : index < st.actionCount) (hs : 0 < cfg.sub)
    (hd : ∀ id d, e.src = .dynPointer id d → 0 < d ∧ d % cfg.sub = 0) :
    ∃ w st', buildEffect P cfg index st e = .ok (w, st') ∧ st'.actionCount = st.actionCount ∧
      Realises P index e w ∧
      (∀ g c, w = .gated g c → g.gid = st.created ∧ st'.created = st.created + 1) ∧
      (isFixed e.src = true → st' = st) := by
  obtain ⟨src, tgt⟩ := e
  cases src with
  | fixedPointer v =>
    refine ⟨.fixed index tgt v, st, ?_, rfl, ?_, ?_, ?_⟩
    · simp [buildEffect, hi, transformOf]
    · simp [Realises, isFixed, transformOf]
    · intro g c h; cases h
    · intro _; rfl
  | fixedScalar x =>
    refine ⟨.fixed index tgt [x], st, ?_, rfl, ?_, ?_, ?_⟩
    · simp [buildEffect, hi, transformOf]
    · simp [Realises, isFixed, transformOf]
    · intro g c h; cases h
    · intro _; rfl
  | dynPointer id d =>
    obtain ⟨hd0, hdm⟩ := hd id d rfl
    have hens := stateEnsembles_ok cfg d hs hdm
    generalize hE : (if cfg.ccIdentity then
        [cfg.npd] ++ (if cfg.sub > 1 then [cfg.npd * (cfg.sub - 1)] else [])
          ++ (if d > cfg.sub then List.replicate (d / cfg.sub - 1) (cfg.npd * cfg.sub) else [])
      else List.replicate (d / cfg.sub) (cfg.npd * cfg.sub)) = ens at hens
    have hsum := stateEnsembles_sum cfg d ens hs hd0 hdm hens
    refine ⟨.gated (mkGate P index st)
        { kind := .state d, source := id, target := tgt, ensembles := ens,
          sizeIn := neuronInputSize cfg d, slices := slicesFrom 0 ens,
          inhibit := List.replicate (neuronInputSize cfg d) (-P.routeInhibit),
          gate := mkGate P index st }, stAfter P index st, ?_, ?_, ?_, ?_, ?_⟩
    · simp only [buildEffect, constructGate_ok P index st hi, constructChannel, hens]
      simp [stAfter, lookupGate_head]
    · rfl
    · simp [Realises, chanMatches, hsum, mkGate]
    · intro g c h; cases h; exact ⟨rfl, rfl⟩  -- fresh gate
    · intro h; simp [isFixed] at h
  | dynScalar id =>
    refine ⟨.gated (mkGate P index st)
        { kind := .scalar, source := id, target := tgt, ensembles := [cfg.scalarNeurons],
          sizeIn := cfg.scalarNeurons, slices := slicesFrom 0 [cfg.scalarNeurons],
          inhibit := List.replicate cfg.scalarNeurons (-P.routeInhibit),
          gate := mkGate P index st }, stAfter P index st, ?_, ?_, ?_, ?_, ?_⟩
    · simp only [buildEffect, constructGate_ok P index st hi, constructChannel]
      simp [stAfter, lookupGate_head]
    · rfl
    · simp [Realises, chanMatches, mkGate]
    · intro g c h; cases h; exact ⟨rfl, rfl⟩  -- fresh gate
    · intro h; simp [isFixed] at h

theorem buildEffects_spec (P : Params) (cfg : ChanCfg) (index : Nat) (hs : 0 < cfg.sub) :
    ∀ (act : List Effect) (st : Thal), index < st.actionCount →
      (∀ e ∈ act, ∀ id d, e.src = .dynPointer id d → 0 < d ∧ d % cfg.sub = 0) →
      ∃ ws st', buildEffects P cfg index st act = .ok (ws, st') ∧
        st'.actionCount = st.actionCount ∧ EffectsAligned P index act ws := by
  intro act
  induction act with
  | nil => intro st _ _; exact ⟨[], st, rfl, rfl, trivial⟩
  | cons e rest ih =>
    intro st hi hd
    obtain ⟨w, st1, h1, hc1, hr, _, _⟩ :=
      buildEffect_spec P cfg index st e hi hs (hd e (by simp))
    obtain ⟨ws, st2, h2, hc2, hal⟩ :=
      ih st1 (by omega) (fun e' he' => hd e' (by simp [he']))
    refine ⟨w :: ws, st2, ?_, by omega, ⟨hr, hal⟩⟩
    simp [buildEffects, h1, h2]

theorem buildActions_spec (P : Params) (cfg : ChanCfg) (hs : 0 < cfg.sub) :
    ∀ (rules : List Action) (index : Nat) (st : Thal), index + rules.length ≤ st.actionCount →
      (∀ act ∈ rules, ∀ e ∈ act, ∀ id d, e.src = .dynPointer id d → 0 < d ∧ d % cfg.sub = 0) →
      ∃ wss st', buildActions P cfg index st rules = .ok (wss, st') ∧
        st'.actionCount = st.actionCount ∧ AlignedFrom P index rules wss := by
  intro rules
  induction rules with
  | nil => intro index st _ _; exact ⟨[], st, rfl, rfl, trivial⟩
  | cons a rest ih =>
    intro index st hi hd
    simp only [List.length_cons] at hi
    obtain ⟨ws, st1, h1, hc1, hal1⟩ :=
      buildEffects_spec P cfg index hs a st (by omega) (hd a (by simp))
    obtain ⟨wss, st2, h2, hc2, hal2⟩ :=
      ih (index + 1) st1 (by omega) (fun a' ha' => hd a' (by simp [ha']))
    refine ⟨ws :: wss, st2, ?_, by omega, ⟨hal1, hal2⟩⟩
    simp [buildActions, h1, h2]

theorem connectInputs_spec {α : Type} (n : Nat) :
    ∀ (l : List α) (i : Nat), i + l.length ≤ n →
      connectInputs n i l = .ok ((List.range' i l.length).map (fun j => (j, j))) := by
  intro l
  induction l with
  | nil => intro i _; rfl
  | cons x rest ih =>
    intro i h
    simp only [List.length_cons] at h
    have hi : i < n := by omega
    simp [connectInputs, hi, ih (i + 1) (by omega), List.range'_succ]

/-- the wiring record of a non-empty well-formed block: sizes and BG inputs
follow the position of the action, and every effect of action `i` is realised
with index `i` -/
structure Spec.Aligned (P : Params) (rules : Rules) (w : Wiring) : Prop where
  count : w.actionCount = rules.length
  bg : w.bgInputs = (List.range' 0 rules.length).map (fun j => (j, j))
  effects : AlignedFrom P 0 rules w.effects

/-- **index_alignment** (and: `_build` never raises on a well-formed block).
Utility `i` is connected to `bg.input[i]`, basal ganglia and thalamus have one
channel/unit per action, and every gate, channel and fixed connection made for
an effect of action `i` hangs on thalamus unit `i`. -/
theorem index_alignment (P : Params) (cfg : ChanCfg) (rules : Rules) (hne : rules ≠ [])
    (hw : WellFormed cfg rules) :
    ∃ w, build P cfg rules = .ok (some w) ∧ Spec.Aligned P rules w := by
  obtain ⟨hs, hd⟩ := hw
  have hlen : rules.length ≠ 0 := by
    cases rules with
    | nil => exact absurd rfl hne
    | cons a r => simp
  obtain ⟨wss, st', h2, _, hal⟩ := buildActions_spec P cfg hs rules 0
    { actionCount := rules.length, gates := [], created := 0 } (by simp) hd
  have h1 := connectInputs_spec (α := Action) rules.length rules 0 (by omega)
  refine ⟨{ actionCount := rules.length,
            bgInputs := (List.range' 0 rules.length).map (fun j => (j, j)),
            effects := wss, gatesDict := st'.gates }, ?_, ⟨rfl, rfl, hal⟩⟩
  simp [build, hlen, h1, h2]

/-- an empty block builds nothing (`_build` returns before creating BG/thalamus) -/
theorem build_empty (P : Params) (cfg : ChanCfg) : build P cfg [] = .ok none := rfl

/-- index form of the alignment: effect `j` of action `i` ↔ element `[i][j]` -/
theorem effectsAligned_get (P : Params) (index : Nat) :
    ∀ (act : List Effect) (ws : List EW), EffectsAligned P index act ws →
      act.length = ws.length ∧
      ∀ j (h1 : j < act.length) (h2 : j < ws.length), Realises P index act[j] ws[j] := by
  intro act
  induction act with
  | nil =>
    intro ws h
    cases ws with
    | nil => exact ⟨rfl, fun j h1 => absurd h1 (by simp)⟩
    | cons w r => exact absurd h (by simp [EffectsAligned])
  | cons e rest ih =>
    intro ws h
    cases ws with
    | nil => exact absurd h (by simp [EffectsAligned])
    | cons w r =>
      obtain ⟨hr, hal⟩ := h
      obtain ⟨hl, hg⟩ := ih r hal
      refine ⟨by simp [hl], ?_⟩
      intro j h1 h2
      cases j with
      | zero => exact hr
      | succ j => exact hg j (by simpa using h1) (by simpa using h2)

theorem alignedFrom_get (P : Params) :
    ∀ (rules : List Action) (wss : List (List EW)) (i0 : Nat), AlignedFrom P i0 rules wss →
      rules.length = wss.length ∧
      ∀ i (h1 : i < rules.length) (h2 : i < wss.length),
        EffectsAligned P (i0 + i) rules[i] wss[i] := by
  intro rules
  induction rules with
  | nil =>
    intro wss i0 h
    cases wss with
    | nil => exact ⟨rfl, fun i h1 => absurd h1 (by simp)⟩
    | cons w r => exact absurd h (by simp [AlignedFrom])
  | cons a rest ih =>
    intro wss i0 h
    cases wss with
    | nil => exact absurd h (by simp [AlignedFrom])
    | cons w r =>
      obtain ⟨hr, hal⟩ := h
      obtain ⟨hl, hg⟩ := ih r (i0 + 1) hal
      refine ⟨by simp [hl], ?_⟩
      intro i h1 h2
      cases i with
      | zero => exact hr
      | succ i =>
        have := hg i (by simpa using h1) (by simpa using h2)
        have e : i0 + 1 + i = i0 + (i + 1) := by omega
        rw [e] at this
        exact this

/-- **index_alignment**, spelled out: in the wiring of a well-formed block the
element made for effect `j` of action `i` carries index `i`. -/
theorem index_alignment_get (P : Params) (cfg : ChanCfg) (rules : Rules) (hne : rules ≠ [])
    (hw : WellFormed cfg rules) :
    ∃ w, build P cfg rules = .ok (some w) ∧ w.actionCount = rules.length ∧
      (∀ i (h : i < w.bgInputs.length), w.bgInputs[i] = (i, i)) ∧
      w.bgInputs.length = rules.length ∧
      w.effects.length = rules.length ∧
      ∀ i (h1 : i < rules.length) (h2 : i < w.effects.length),
        rules[i].length = w.effects[i].length ∧
        ∀ j (h3 : j < rules[i].length) (h4 : j < w.effects[i].length),
          Realises P i rules[i][j] w.effects[i][j] := by
  obtain ⟨w, hb, hc, hbg, hal⟩ := index_alignment P cfg rules hne hw
  obtain ⟨hl, hg⟩ := alignedFrom_get P rules w.effects 0 hal
  refine ⟨w, hb, hc, ?_, by simp [hbg], hl.symm, ?_⟩
  · intro i h
    simp [hbg]
  · intro i h1 h2
    have := hg i h1 h2
    rw [Nat.zero_add] at this
    exact effectsAligned_get P i _ _ this

/-! ### semantics of an aligned wiring under one-hot selection -/

theorem chanPass_eq_value (env : Nat → Nat → Rat) (comp : Nat) (c : Channel) (s : Src)
    (h : chanMatches c s) : chanPass env comp c = Spec.value env comp s := by
  cases s with
  | fixedPointer v => exact absurd h (by simp [chanMatches])
  | fixedScalar x => exact absurd h (by simp [chanMatches])
  | dynPointer id d => obtain ⟨h1, h2⟩ := h; simp [chanPass, Spec.value, h1, h2]
  | dynScalar id => obtain ⟨h1, h2⟩ := h; simp [chanPass, Spec.value, h1, h2]

theorem transform_eq_value (env : Nat → Nat → Rat) (comp : Nat) (s : Src) (h : isFixed s = true) :
    (transformOf s).getD comp 0 = Spec.value env comp s := by
  cases s with
  | fixedPointer v => simp [transformOf, Spec.value]
  | fixedScalar x =>
    cases comp with
    | zero => simp [transformOf, Spec.value]
    | succ n => simp [transformOf, Spec.value]
  | dynPointer id d => simp [isFixed] at h
  | dynScalar id => simp [isFixed] at h

/-- one effect: its wiring aims at the effect's target and, with thalamus
output `e_k`, delivers the declared value if it belongs to action `k` and 0
otherwise -/
theorem realises_onehot (P : Params) (hP : Admissible P) (index : Nat) (e : Effect) (w : EW)
    (h : Realises P index e w) (k : Nat) (env : Nat → Nat → Rat) (comp : Nat) :
    ewTarget w = e.target ∧
    ewOut (onehot k) env comp w = if index = k then Spec.value env comp e.src else 0 := by
  obtain ⟨h0, h1, h2⟩ := hP
  cases w with
  | fixed u t col =>
    obtain ⟨hf, hu, ht, hc⟩ := h
    refine ⟨ht, ?_⟩
    subst hu hc
    simp only [ewOut, onehot, transform_eq_value env comp e.src hf]
    split <;> grind
  | gated g c =>
    obtain ⟨hu, _, hb, hw, hth, hg, ht, hm, hin, hsl, hsum⟩ := h
    refine ⟨ht, ?_⟩
    have hfull : fullyInhibits c = true :=
      fullyInhibits_of c (-P.routeInhibit) (by grind) hin hsl (by omega)
    simp only [ewOut, chanOut, gateActive, hg, hb, hw, hth, hu, onehot, hfull, Bool.and_true]
    by_cases hk : index = k
    · simp [hk, chanPass_eq_value env comp c e.src hm]
      intro h
      exact absurd h (by grind)
    · simp [hk]
      intro h
      exact absurd (show P.thresholdGate < 1 + 0 by grind) h

theorem effects_onehot (P : Params) (hP : Admissible P) (index k : Nat)
    (env : Nat → Nat → Rat) (t comp : Nat) :
    ∀ (act : List Effect) (ws : List EW), EffectsAligned P index act ws →
      actionInto (onehot k) env t comp ws =
        if index = k then Spec.actionSum env t comp act else 0 := by
  intro act
  induction act with
  | nil =>
    intro ws h
    cases ws with
    | nil => simp [actionInto, Spec.actionSum]
    | cons w r => exact absurd h (by simp [EffectsAligned])
  | cons e rest ih =>
    intro ws h
    cases ws with
    | nil => exact absurd h (by simp [EffectsAligned])
    | cons w r =>
      obtain ⟨hr, hal⟩ := h
      obtain ⟨ht, ho⟩ := realises_onehot P hP index e w hr k env comp
      have ih' := ih r hal
      simp only [actionInto, Spec.actionSum, List.map_cons, List.sum_cons] at ih' ⊢
      rw [ih']
      simp only [ewInto, ht, ho]
      by_cases hk : index = k <;> by_cases htt : e.target = t <;> simp [hk, htt] <;> grind

theorem deliver_aligned (P : Params) (hP : Admissible P) (k : Nat)
    (env : Nat → Nat → Rat) (t comp : Nat) :
    ∀ (rules : List Action) (wss : List (List EW)) (i0 : Nat), AlignedFrom P i0 rules wss →
      deliver (onehot k) env t comp wss =
        if i0 ≤ k then Spec.actionSum env t comp (rules.getD (k - i0) []) else 0 := by
  intro rules
  induction rules with
  | nil =>
    intro wss i0 h
    cases wss with
    | nil => simp [deliver, Spec.actionSum]
    | cons w r => exact absurd h (by simp [AlignedFrom])
  | cons a rest ih =>
    intro wss i0 h
    cases wss with
    | nil => exact absurd h (by simp [AlignedFrom])
    | cons w r =>
      obtain ⟨hr, hal⟩ := h
      have h1 := effects_onehot P hP i0 k env t comp a w hr
      have h2 := ih r (i0 + 1) hal
      simp only [deliver, List.map_cons, List.sum_cons] at h2 ⊢
      rw [h1, h2]
      by_cases hk : i0 = k
      · subst hk
        have : ¬ (i0 + 1 ≤ i0) := by omega
        simp [this]
        grind
      · by_cases hle : i0 ≤ k
        · have h3 : i0 + 1 ≤ k := by omega
          have h4 : k - i0 = (k - (i0 + 1)) + 1 := by omega
          simp only [hk, hle, h3, if_true, if_false]
          rw [h4, List.getD_cons_succ]
          grind
        · have h3 : ¬ (i0 + 1 ≤ k) := by omega
          simp only [hk, hle, h3, if_false]
          grind

/-- **route_onehot.**  For every well-formed rule set, every admissible
parameter set, every winner `k`, every environment, target and component: the
block builds, and with thalamus output `e_k` the target receives exactly the
sum of the effects of action `k` aimed at it — nothing from any other action —
for all four effect kinds and shared or distinct targets. -/
theorem route_onehot (P : Params) (hP : Admissible P) (cfg : ChanCfg) (rules : Rules)
    (hne : rules ≠ []) (hw : WellFormed cfg rules) :
    ∃ w, build P cfg rules = .ok (some w) ∧
      ∀ (k : Nat) (env : Nat → Nat → Rat) (t comp : Nat),
        deliver (onehot k) env t comp w.effects = Spec.routed rules env k t comp := by
  obtain ⟨w, hb, _, _, hal⟩ := index_alignment P cfg rules hne hw
  refine ⟨w, hb, ?_⟩
  intro k env t comp
  rw [deliver_aligned P hP k env t comp rules w.effects 0 hal]
  simp [Spec.routed]

/-- **losers_silent.**  Not only the sum: every single wiring element of an
action other than the winner delivers 0 in every component. -/
theorem losers_silent (P : Params) (hP : Admissible P) (cfg : ChanCfg) (rules : Rules)
    (hne : rules ≠ []) (hw : WellFormed cfg rules) :
    ∃ w, build P cfg rules = .ok (some w) ∧
      ∀ (k i : Nat) (h1 : i < w.effects.length), i ≠ k →
        ∀ x ∈ w.effects[i], ∀ (env : Nat → Nat → Rat) (comp : Nat),
          ewOut (onehot k) env comp x = 0 := by
  obtain ⟨w, hb, _, _, hal⟩ := index_alignment P cfg rules hne hw
  refine ⟨w, hb, ?_⟩
  intro k i h1 hik x hx env comp
  obtain ⟨hl, hg⟩ := alignedFrom_get P rules w.effects 0 hal
  have hi : i < rules.length := by omega
  have hea := hg i hi h1
  rw [Nat.zero_add] at hea
  obtain ⟨hl2, hg2⟩ := effectsAligned_get P i _ _ hea
  obtain ⟨j, hj, rfl⟩ := List.getElem_of_mem hx
  have := (realises_onehot P hP i _ _ (hg2 j (by omega) hj) k env comp).2
  simp [hik] at this
  exact this

/-- **winner_exact.**  Every single effect of the winner delivers its declared value. -/
theorem winner_exact (P : Params) (hP : Admissible P) (cfg : ChanCfg) (rules : Rules)
    (hne : rules ≠ []) (hw : WellFormed cfg rules) :
    ∃ w, build P cfg rules = .ok (some w) ∧
      ∀ (k : Nat) (h1 : k < rules.length) (h2 : k < w.effects.length)
        (j : Nat) (h3 : j < rules[k].length) (h4 : j < w.effects[k].length)
        (env : Nat → Nat → Rat) (comp : Nat),
          ewTarget w.effects[k][j] = rules[k][j].target ∧
          ewOut (onehot k) env comp w.effects[k][j] = Spec.value env comp rules[k][j].src := by
  obtain ⟨w, hb, _, _, hal⟩ := index_alignment P cfg rules hne hw
  refine ⟨w, hb, ?_⟩
  intro k h1 h2 j h3 h4 env comp
  obtain ⟨_, hg⟩ := alignedFrom_get P rules w.effects 0 hal
  have hea := hg k h1 h2
  rw [Nat.zero_add] at hea
  obtain ⟨_, hg2⟩ := effectsAligned_get P k _ _ hea
  have := realises_onehot P hP k _ _ (hg2 j h3 h4) k env comp
  simpa using this

/-- **route_follows.**  Routing has no state: over any history of phases
(winner, current values of the dynamic sources) the value delivered in each
phase is the one the rule set prescribes for that phase's winner, whatever the
earlier winners were. -/
theorem route_follows (P : Params) (hP : Admissible P) (cfg : ChanCfg) (rules : Rules)
    (hne : rules ≠ []) (hw : WellFormed cfg rules) :
    ∃ w, build P cfg rules = .ok (some w) ∧
      ∀ (phases : List (Nat × (Nat → Nat → Rat))) (t comp : Nat),
        phases.map (fun ph => deliver (onehot ph.1) ph.2 t comp w.effects) =
        phases.map (fun ph => Spec.routed rules ph.2 ph.1 t comp) := by
  obtain ⟨w, hb, h⟩ := route_onehot P hP cfg rules hne hw
  refine ⟨w, hb, ?_⟩
  intro phases t comp
  apply List.map_congr_left
  intro ph _
  exact h ph.1 ph.2 t comp

/-! ### the handle returned by `ifmax` -/

/-- a block declared by `ifmax` calls with the given conditions, and the handles returned -/
def declare : Block → List Rat → Block × List Nat
  | b, [] => (b, [])
  | b, c :: cs =>
    let r := declare (ifmax b c).1 cs
    (r.1, (ifmax b c).2 :: r.2)

theorem declare_spec : ∀ (conds : List Rat) (b : Block),
    (declare b conds).1.utilInputs = b.utilInputs ++ conds.map (fun c => [c]) ∧
    (declare b conds).2 = List.range' b.utilInputs.length conds.length := by
  intro conds
  induction conds with
  | nil => intro b; simp [declare]
  | cons c cs ih =>
    intro b
    obtain ⟨h1, h2⟩ := ih (ifmax b c).1
    simp only [declare]
    rw [h1, h2]
    simp [ifmax, List.range'_succ]

/-- the handle returned by the i-th `ifmax` of a block is utility node i -/
theorem ifmax_handle_index (conds : List Rat) :
    (declare ⟨[]⟩ conds).2 = List.range' 0 conds.length ∧
    (declare ⟨[]⟩ conds).1.utilInputs.length = conds.length := by
  obtain ⟨h1, h2⟩ := declare_spec conds ⟨[]⟩
  exact ⟨by simpa using h2, by simp [h1]⟩

theorem sendTo_utility (b : Block) (h : Nat) (x : Rat) (hh : h < b.utilInputs.length) (i : Nat) :
    utility (sendTo b h x) i = utility b i + if i = h then x else 0 := by
  unfold utility sendTo
  by_cases hi : i = h
  · subst hi
    simp [List.getD_eq_getElem?_getD, List.getElem?_modify, hh]
    grind
  · have : h ≠ i := fun e => hi e.symm
    simp [List.getD_eq_getElem?_getD, List.getElem?_modify, this, hi]
    grind

theorem bgInput_range (b : Block) (j : Nat) : ∀ (len i : Nat),
    bgInput b ((List.range' i len).map (fun q => (q, q))) j =
      if i ≤ j ∧ j < i + len then utility b j else 0 := by
  intro len
  induction len with
  | zero => intro i; simp [bgInput]; intro h1 h2; omega
  | succ n ih =>
    intro i
    have ih' := ih (i + 1)
    unfold bgInput at ih' ⊢
    simp only [List.range'_succ, List.map_cons, List.filter_cons]
    by_cases hij : i = j
    · subst hij
      simp only [if_true, List.map_cons, List.sum_cons, ih']
      have : ¬ (i + 1 ≤ i ∧ i < i + 1 + n) := by omega
      have h2 : i ≤ i ∧ i < i + (n + 1) := by omega
      simp [this, h2]
      grind
    · simp only [hij]
      rw [show (decide False) = false from rfl]
      simp only [Bool.false_eq_true, if_false, ih']
      by_cases hc : i + 1 ≤ j ∧ j < i + 1 + n
      · have : i ≤ j ∧ j < i + (n + 1) := by omega
        simp [hc, this]
      · have : ¬ (i ≤ j ∧ j < i + (n + 1)) := by omega
        simp [hc, this]

/-- **ifmax_handle.**  With the BG inputs `build` makes, input `x` sent to the
handle `h` of an existing action adds `x` to what arrives at `bg.input[h]` and
leaves every other BG input unchanged. -/
theorem ifmax_handle (b : Block) (n h : Nat) (x : Rat) (hn : n = b.utilInputs.length)
    (hh : h < n) (j : Nat) :
    bgInput (sendTo b h x) ((List.range' 0 n).map (fun q => (q, q))) j =
      bgInput b ((List.range' 0 n).map (fun q => (q, q))) j + if j = h then x else 0 := by
  rw [bgInput_range, bgInput_range, sendTo_utility b h x (by omega) j]
  by_cases hj : j < n
  · simp [hj]
  · have : j ≠ h := by omega
    simp [hj, this]
    grind

/-- BG input `j` of a built block is utility `j` (no other utility reaches it) -/
theorem bgInput_is_utility (b : Block) (n j : Nat) (hj : j < n) :
    bgInput b ((List.range' 0 n).map (fun q => (q, q))) j = utility b j := by
  rw [bgInput_range]; simp [hj]

/-! ### parameters -/

/-- the thalamus defaults found in the source tree make the idealised gate
separate "selected" from "not selected", and the mutual inhibition / action
threshold satisfy the hypotheses of the fixed-point statement below -/
theorem generated_defaults_admissible :
    ∃ P, defaultParams = some P ∧ Admissible P ∧ 1 ≤ P.mutualInhibit ∧
      0 < P.thresholdAction ∧ P.thresholdAction ≤ 1 := by
  have h : defaultParams.map (fun P =>
      decide (0 ≤ P.thresholdGate) && decide (P.thresholdGate < 1) && decide (0 < P.routeInhibit)
      && decide (1 ≤ P.mutualInhibit) && decide (0 < P.thresholdAction)
      && decide (P.thresholdAction ≤ 1)) = some true := by decide +kernel
  cases hp : defaultParams with
  | none => simp [hp] at h
  | some P =>
    simp only [hp, Option.map_some, Option.some.injEq, Bool.and_eq_true, decide_eq_true_eq] at h
    obtain ⟨⟨⟨⟨⟨a, b⟩, c⟩, d⟩, e⟩, f⟩ := h
    exact ⟨P, rfl, ⟨a, b, c⟩, d, e, f⟩

/-! ### idealised thalamus (fixed point only — NOT a convergence statement) -/

theorem sumOthers_onehot (k i : Nat) : ∀ n,
    sumOthers (onehot k) i n = if k < n ∧ k ≠ i then 1 else 0 := by
  intro n
  induction n with
  | zero => simp [sumOthers]
  | succ n ih =>
    simp only [sumOthers, ih, onehot]
    by_cases h1 : n = i <;> by_cases h2 : n = k <;> by_cases h3 : k < n <;>
      by_cases h4 : k = i <;> simp_all <;> first | omega | grind

/-- If the basal ganglia output is 0 for action `k` and ≤ 0 for the others,
`mutual_inhibit ≥ 1` and `0 < threshold_action ≤ 1`, then `e_k` is a fixed
point of the idealised thalamus map.  (Validation-only territory: whether the
neural dynamics converge to it is checked by simulation.) -/
theorem thalamus_onehot_fixpoint_idealised (P : Params) (n k : Nat) (bg : Nat → Rat)
    (hk : k < n) (hbk : bg k = 0) (hbo : ∀ j, j ≠ k → bg j ≤ 0)
    (hm : 1 ≤ P.mutualInhibit) (ht0 : 0 < P.thresholdAction) (ht1 : P.thresholdAction ≤ 1)
    (i : Nat) (_hi : i < n) :
    thalStep P n bg (onehot k) i = onehot k i := by
  unfold thalStep rect
  rw [sumOthers_onehot]
  by_cases hik : i = k
  · subst hik
    simp [hbk, onehot]
    grind
  · have hb := hbo i hik
    have hki : k ≠ i := fun e => hik e.symm
    simp [hk, hki, onehot, hik]
    grind

/-! ### non-vacuity -/

def exP : Params := { thresholdGate := 3/10, routeInhibit := 3, mutualInhibit := 1, thresholdAction := 1/5 }
def exCfg : ChanCfg := { npd := 50, sub := 16, ccIdentity := true, scalarNeurons := 50 }
/-- three actions: (fixed pointer → 0, dynamic pointer → 1, fixed scalar → 2),
(dynamic scalar → 2, dynamic pointer → 0), () -/
def exRules : Rules :=
  [[⟨.fixedPointer [1, 0, 1/2], 0⟩, ⟨.dynPointer 7 32, 1⟩, ⟨.fixedScalar (7/10), 2⟩],
   [⟨.dynScalar 8, 2⟩, ⟨.dynPointer 9 32, 0⟩],
   []]
def exEnv : Nat → Nat → Rat := fun id comp => (id : Rat) + (comp : Rat) / 10

example : Admissible exP := ⟨by decide +kernel, by decide +kernel, by decide +kernel⟩
example : WellFormed exCfg exRules := by
  refine ⟨by decide, ?_⟩
  intro act ha e he id d h
  simp [exRules] at ha
  rcases ha with rfl | rfl | rfl <;> simp at he
  · rcases he with rfl | rfl | rfl <;> simp at h
    obtain ⟨_, rfl⟩ := h; decide
  · rcases he with rfl | rfl <;> simp at h
    obtain ⟨_, rfl⟩ := h; decide
example : (build exP exCfg exRules).toOption.join.map (fun w => w.effects.map List.length) = some [3, 2, 0] := by
  decide +kernel
example : (build exP exCfg exRules).toOption.join.map
    (fun w => (deliver (onehot 1) exEnv 0 2 w.effects, deliver (onehot 0) exEnv 0 2 w.effects,
               deliver (onehot 1) exEnv 2 0 w.effects, deliver (onehot 2) exEnv 2 0 w.effects))
    = some (9 + 2/10, 1/2, 8, 0) := by
  decide +kernel
/-- a block whose `State` cannot be built raises instead of routing -/
example : (match build exP exCfg [[⟨.dynPointer 1 24, 0⟩]] with
    | .error .validation => true | _ => false) = true := by decide +kernel

end C04

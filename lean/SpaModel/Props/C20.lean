/-
C20 — similarity, text and pairs report true similarities for all input shapes.
Property theorems only (model: SpaModel/Basic/C20.lean, helper lemmas:
SpaModel/Lemmas/C20.lean).  Everything holds for vectors of every
dimensionality, vocabularies of every size, series of every length, every
minimum / maximum / threshold (also `None`, also negative), every join string.

The Euclidean norm enters through an arbitrary function `nrm`; what is assumed
of it is stated pointwise as `Spec.IsNormOf (nrm v) v`, i.e.
`0 ≤ nrm v ∧ nrm v * nrm v = v·v`.  `eps` is any positive number with
`Spec.OnGrid eps v` (every non-zero entry has magnitude ≥ eps: true of IEEE
doubles and `eps = np.nextafter(0, 1)`).  IEEE rounding is outside the model.
-/
import SpaModel.Lemmas.C20

namespace C20
open Impl

/-! ## similarity -/

/-- the accepted forms of the `vocab` argument that denote the `N × d` matrix
`rows` (in this order): a Vocabulary or a 2-D array (any `N ≥ 0`), a 1-D array
(one vector), a non-empty list of arrays / of pointers of equal length. -/
inductive DenotesMatrix : VocabArg → Nat → List Vec → Prop where
  | vocabulary (d rows) : DenotesMatrix (.vocabulary d rows) d rows
  | array2 (d rows) : DenotesMatrix (.array2 d rows) d rows
  | array1 (v) : DenotesMatrix (.array1 v) v.length [v]
  | listArrays (d rows) : rows ≠ [] → (∀ r ∈ rows, r.length = d) → DenotesMatrix (.listArrays rows) d rows
  | listPointers (d rows) : rows ≠ [] → (∀ r ∈ rows, r.length = d) → DenotesMatrix (.listPointers rows) d rows

theorem stack_ok {d : Nat} {rows : List Vec} (hne : rows ≠ []) (h : ∀ r ∈ rows, r.length = d) :
    stack rows = .ok (d, rows) := by
  cases rows with
  | nil => exact absurd rfl hne
  | cons r rs =>
    have hr : r.length = d := h r (by simp)
    simp only [stack]
    rw [if_pos]
    · rw [hr]
    · rw [List.all_eq_true]
      intro v hv
      simp [h v (by simp [hv]), hr]

/-- every accepted form is normalised to the same matrix, rows in the given order -/
theorem vectorsOf_denotes {va : VocabArg} {d : Nat} {rows : List Vec} (h : DenotesMatrix va d rows) :
    vectorsOf va = .ok (d, rows) := by
  cases h with
  | vocabulary => rfl
  | array2 => rfl
  | array1 v => rfl
  | listArrays _ _ hne hl => exact stack_ok hne hl
  | listPointers _ _ hne hl => exact stack_ok hne hl

/-- **dots_eq, single vector** (`(d,)` array or SemanticPointer): the result has
shape `(N,)`, in vocabulary order, and its `i`-th entry is the dot product
`Σ_k x[k]·v_i[k]`. -/
theorem similarity_dots_vec (nrm : Vec → Rat) (eps : Rat) {va : VocabArg} {d : Nat} {rows : List Vec}
    (h : DenotesMatrix va d rows) (x : Vec) (hx : x.length = d) :
    similarity nrm eps (.vec x) va false = .ok (.flat (rows.map fun v => Spec.dot x v)) ∧
    similarity nrm eps (.pointer x) va false = .ok (.flat (rows.map fun v => Spec.dot x v)) := by
  simp [similarity, vectorsOf_denotes h, hx, entry, dot_eq_spec]

/-- **dots_eq, series** (`(T,d)` array, `T ≥ 0`, in particular `(1,d)`): shape
`(T,N)`, entry `[t][i]` is the dot product of row `t` with vector `i`. -/
theorem similarity_dots_series (nrm : Vec → Rat) (eps : Rat) {va : VocabArg} {d : Nat} {rows : List Vec}
    (h : DenotesMatrix va d rows) (xs : List Vec) :
    similarity nrm eps (.series d xs) va false =
      .ok (.mat rows.length (xs.map fun x => rows.map fun v => Spec.dot x v)) := by
  simp [similarity, vectorsOf_denotes h, entry, dot_eq_spec]

/-- **shape** for either value of `normalize`: `(N,)` for a vector, `(T,N)` for a
series, and every row of the series result has `N` entries. -/
theorem similarity_shape (nrm : Vec → Rat) (eps : Rat) {va : VocabArg} {d : Nat} {rows : List Vec}
    (h : DenotesMatrix va d rows) (nz : Bool) :
    (∀ x : Vec, x.length = d → ∃ l, similarity nrm eps (.vec x) va nz = .ok (.flat l) ∧ l.length = rows.length) ∧
    (∀ xs : List Vec, ∃ m, similarity nrm eps (.series d xs) va nz = .ok (.mat rows.length m) ∧
      m.length = xs.length ∧ (∀ r ∈ m, r.length = rows.length) ∧
      (Out.mat rows.length m).shape = [xs.length, rows.length]) := by
  constructor
  · intro x hx
    exact ⟨_, by simp [similarity, vectorsOf_denotes h, hx]; rfl, by simp⟩
  · intro xs
    refine ⟨_, by simp [similarity, vectorsOf_denotes h]; rfl, by simp, ?_, by simp [Out.shape]⟩
    intro r hr
    simp only [List.mem_map] at hr
    obtain ⟨x, _, rfl⟩ := hr
    simp

/-- **empty vocabulary** (a Vocabulary with 0 keys or a `(0,d)` array), either
value of `normalize`: shape `(0,)` for a vector, `(T,0)` for a series — no error -/
theorem similarity_empty_vocabulary (nrm : Vec → Rat) (eps : Rat) (d : Nat) (nz : Bool) (va : VocabArg)
    (hva : va = .vocabulary d [] ∨ va = .array2 d []) :
    (∀ x : Vec, x.length = d →
      similarity nrm eps (.vec x) va nz = .ok (.flat []) ∧
      similarity nrm eps (.pointer x) va nz = .ok (.flat []) ∧ (Out.flat []).shape = [0]) ∧
    (∀ xs : List Vec, similarity nrm eps (.series d xs) va nz = .ok (.mat 0 (xs.map fun _ => [])) ∧
      (Out.mat 0 (xs.map fun _ => ([] : List Rat))).shape = [xs.length, 0]) := by
  rcases hva with rfl | rfl <;>
  · constructor
    · intro x hx; simp [similarity, vectorsOf, hx, Out.shape]
    · intro xs; simp [similarity, vectorsOf, Out.shape]

/-- the general entry of the result (both values of `normalize`, both data forms) -/
theorem similarity_entries (nrm : Vec → Rat) (eps : Rat) {va : VocabArg} {d : Nat} {rows : List Vec}
    (h : DenotesMatrix va d rows) (nz : Bool) :
    (∀ x : Vec, x.length = d →
      similarity nrm eps (.vec x) va nz = .ok (.flat (rows.map (entry nrm eps nz x)))) ∧
    (∀ xs : List Vec, similarity nrm eps (.series d xs) va nz =
      .ok (.mat rows.length (xs.map fun x => rows.map (entry nrm eps nz x)))) := by
  constructor
  · intro x hx; simp [similarity, vectorsOf_denotes h, hx]
  · intro xs; simp [similarity, vectorsOf_denotes h]

/-- the divisors `np.maximum(norm, eps)` are positive: no entry is ever `0/0` -/
theorem normalisation_never_divides_by_zero (nrm : Vec → Rat) {eps : Rat} (he : 0 < eps) (v : Vec) :
    0 < floorNorm nrm eps v := floorNorm_pos nrm he v

/-- **zero rows / zero vectors give exactly 0**, whatever `nrm` and `eps` are -/
theorem entry_zero (nrm : Vec → Rat) (eps : Rat) (nz : Bool) (x v : Vec)
    (h : Spec.IsZero x ∨ Spec.IsZero v) : entry nrm eps nz x v = 0 := by
  have hd : Impl.dot v x = 0 := by
    rcases h with h | h
    · exact dot_zero_right x v h
    · rw [dot_comm]; exact dot_zero_right v x h
  simp [entry, hd]

/-- **normalised value = cosine** `x·v / (‖x‖‖v‖)` when neither vector is zero -/
theorem entry_cosine (nrm : Vec → Rat) {eps : Rat} (he : 0 < eps) (x v : Vec)
    (hnx : Spec.IsNormOf (nrm x) x) (hnv : Spec.IsNormOf (nrm v) v)
    (hgx : Spec.OnGrid eps x) (hgv : Spec.OnGrid eps v)
    (hx : ¬ Spec.IsZero x) (hv : ¬ Spec.IsZero v) :
    entry nrm eps true x v = Spec.dot x v / (nrm x * nrm v) := by
  have h1 := floorNorm_eq_of_le nrm (eps_le_norm hnx he hgx hx)
  have h2 := floorNorm_eq_of_le nrm (eps_le_norm hnv he hgv hv)
  simp only [entry, if_true, h1, h2, dot_eq_spec]
  rw [div_div]

/-- both cases in one formula -/
theorem entry_normalized (nrm : Vec → Rat) {eps : Rat} (he : 0 < eps) (x v : Vec)
    (hnx : Spec.IsNormOf (nrm x) x) (hnv : Spec.IsNormOf (nrm v) v)
    (hgx : Spec.OnGrid eps x) (hgv : Spec.OnGrid eps v) :
    entry nrm eps true x v = Spec.cosine nrm x v := by
  unfold Spec.cosine
  by_cases hx : Spec.IsZero x
  · simp [(isZeroB_iff x).2 hx, entry_zero nrm eps true x v (Or.inl hx)]
  · by_cases hv : Spec.IsZero v
    · simp [(isZeroB_iff v).2 hv, entry_zero nrm eps true x v (Or.inr hv)]
    · have h1 : Spec.isZeroB x = false := Bool.eq_false_iff.2 (fun hb => hx ((isZeroB_iff x).1 hb))
      have h2 : Spec.isZeroB v = false := Bool.eq_false_iff.2 (fun hb => hv ((isZeroB_iff v).1 hb))
      simp [h1, h2, entry_cosine nrm he x v hnx hnv hgx hgv hx hv]

/-- **normalised similarity, single vector**: the array of cosines (0 for zero
vectors) in vocabulary order -/
theorem similarity_cosines_vec (nrm : Vec → Rat) {eps : Rat} (he : 0 < eps) {va : VocabArg} {d : Nat}
    {rows : List Vec} (h : DenotesMatrix va d rows) (x : Vec) (hx : x.length = d)
    (hn : ∀ v ∈ x :: rows, Spec.IsNormOf (nrm v) v ∧ Spec.OnGrid eps v) :
    similarity nrm eps (.vec x) va true = .ok (.flat (rows.map (Spec.cosine nrm x))) := by
  rw [(similarity_entries nrm eps h true).1 x hx]
  congr 2
  apply List.map_congr_left
  intro v hv
  exact entry_normalized nrm he x v (hn x (by simp)).1 (hn v (by simp [hv])).1
    (hn x (by simp)).2 (hn v (by simp [hv])).2

/-- **normalised similarity, series** -/
theorem similarity_cosines_series (nrm : Vec → Rat) {eps : Rat} (he : 0 < eps) {va : VocabArg} {d : Nat}
    {rows : List Vec} (h : DenotesMatrix va d rows) (xs : List Vec)
    (hn : ∀ v ∈ xs ++ rows, Spec.IsNormOf (nrm v) v ∧ Spec.OnGrid eps v) :
    similarity nrm eps (.series d xs) va true =
      .ok (.mat rows.length (xs.map fun x => rows.map (Spec.cosine nrm x))) := by
  rw [(similarity_entries nrm eps h true).2 xs]
  congr 2
  apply List.map_congr_left
  intro x hx
  apply List.map_congr_left
  intro v hv
  exact entry_normalized nrm he x v (hn x (by simp [hx])).1 (hn v (by simp [hv])).1
    (hn x (by simp [hx])).2 (hn v (by simp [hv])).2

/-- the driver's norm is the Euclidean norm wherever it answers -/
theorem nrmQ_sound {v : Vec} {r : Rat} (h : nrmQ v = some r) : Spec.IsNormOf r v := by
  unfold nrmQ at h
  simp only at h
  split at h
  · next hc =>
    injection h with h
    subst h
    exact (isNormOf_iff _ _).2 ⟨hc.2, hc.1⟩
  · cases h

/-! ## text -/

theorem zip_map_self {α β γ : Type} (f : α → β) (g : α → γ) (l : List α) :
    (l.map f).zip (l.map g) = l.map (fun a => (f a, g a)) := by
  induction l with
  | nil => rfl
  | cons a l ih => simp [ih]

theorem zip_map_left_self {α β : Type} (f : α → β) (l : List α) :
    (l.map f).zip l = l.map (fun a => (f a, a)) := by
  induction l with
  | nil => rfl
  | cons a l ih => simp [ih]

/-- `text` is the join of the formatted selected matches -/
theorem text_eq_join (nrm : Vec → Rat) (eps : Rat) (parse : String → Vec) (v : Data) (vocab : Vocab)
    (mn mx : Option Int) (thr : Option Rat) (join : String) (terms : Option (List String)) (nz : Bool) :
    text nrm eps parse v vocab mn mx thr join terms nz =
      (textMatches nrm eps parse v vocab mn mx thr terms nz).map
        (fun r => join.intercalate (r.map fmtMatch)) := by
  unfold text
  cases textMatches nrm eps parse v vocab mn mx thr terms nz <;> rfl

/-- **the candidates are the true similarities** (`terms=None`, no normalisation):
for a vocabulary of dimensionality `d` (any number of keys, 0 included) and a
vector of that length, the loop runs over the descending sort of `(x·v_key, key)`. -/
theorem textMatches_vocab (nrm : Vec → Rat) (eps : Rat) (parse : String → Vec) (x : Vec) (vocab : Vocab)
    (mn mx : Option Int) (thr : Option Rat) (hx : x.length = vocab.d) :
    textMatches nrm eps parse (.vec x) vocab mn mx thr none false =
      .ok (loop mn mx thr (sortedDesc (vocab.entries.map fun e => (Spec.dot x e.2, e.1))) []) := by
  have h : DenotesMatrix (.array2 vocab.d (vocab.entries.map (·.2))) vocab.d (vocab.entries.map (·.2)) :=
    .array2 _ _
  have hs := (similarity_dots_vec nrm eps h x hx).2
  simp only [textMatches, Bool.false_eq_true, if_false, hs, List.map_map, zip_map_self, Function.comp_def]

/-- the same with `terms=[t₁,…]` (each term parsed to a vector of length `d`) -/
theorem textMatches_terms (nrm : Vec → Rat) (eps : Rat) (parse : String → Vec) (x : Vec) (vocab : Vocab)
    (mn mx : Option Int) (thr : Option Rat) (ts : List String) (d : Nat)
    (hne : ts ≠ []) (hx : x.length = d) (hp : ∀ t ∈ ts, (parse t).length = d) :
    textMatches nrm eps parse (.vec x) vocab mn mx thr (some ts) false =
      .ok (loop mn mx thr (sortedDesc (ts.map fun t => (Spec.dot x (parse t), t))) []) := by
  have h : DenotesMatrix (.listPointers (ts.map parse)) d (ts.map parse) :=
    .listPointers _ _ (by simpa using hne) (by
      intro r hr
      simp only [List.mem_map] at hr
      obtain ⟨t, ht, rfl⟩ := hr
      exact hp t ht)
  have hs := (similarity_dots_vec nrm eps h x hx).2
  simp only [textMatches, Bool.false_eq_true, if_false, hs, List.map_map, zip_map_left_self, Function.comp_def]

/-- with `normalize=True` the similarities are those of `x / ‖x‖` (of `x` itself
for the zero vector): `text` reports `x·v / ‖x‖` -/
theorem dot_normalized (nrm : Vec → Rat) (x v : Vec) :
    Impl.dot v (normalized nrm x) = Impl.dot v x / (if nrm x ≤ 0 then 1 else nrm x) := by
  unfold normalized
  simp only
  generalize (if nrm x ≤ 0 then (1 : Rat) else nrm x) = n
  induction x generalizing v with
  | nil => simp [dot_nil_right]
  | cons a xs ih =>
    cases v with
    | nil => simp [dot_nil_left]
    | cons b vs =>
      simp only [List.map_cons, Impl.dot, ih vs]
      ring

theorem textMatches_normalize (nrm : Vec → Rat) (eps : Rat) (parse : String → Vec) (x : Vec) (vocab : Vocab)
    (mn mx : Option Int) (thr : Option Rat) (terms : Option (List String)) :
    textMatches nrm eps parse (.vec x) vocab mn mx thr terms true =
      textMatches nrm eps parse (.vec (normalized nrm x)) vocab mn mx thr terms false := by
  simp [textMatches]

/-- **empty vocabulary**: `text` of a Vocabulary with 0 keys is the empty
string, for every minimum / maximum / threshold / join / normalize -/
theorem text_empty_vocabulary (nrm : Vec → Rat) (eps : Rat) (parse : String → Vec) (x : Vec) (vocab : Vocab)
    (mn mx : Option Int) (thr : Option Rat) (join : String) (nz : Bool)
    (he : vocab.entries = []) (hx : x.length = vocab.d) :
    text nrm eps parse (.vec x) vocab mn mx thr join none nz = .ok "" ∧
    text nrm eps parse (.pointer x) vocab mn mx thr join none nz = .ok "" := by
  have key : ∀ y : Vec, y.length = vocab.d →
      text nrm eps parse (.vec y) vocab mn mx thr join none false = .ok "" := by
    intro y hy
    rw [text_eq_join, textMatches_vocab nrm eps parse y vocab mn mx thr hy, he]
    simp [sortedDesc, loop, Except.map]
  have hn : (normalized nrm x).length = vocab.d := by simp [normalized, hx]
  have hv : text nrm eps parse (.vec x) vocab mn mx thr join none nz = .ok "" := by
    cases nz
    · exact key x hx
    · rw [text_eq_join, textMatches_normalize, ← text_eq_join]; exact key _ hn
  exact ⟨hv, by rw [← hv]; rfl⟩

/-- a pointer and its array are treated alike -/
theorem textMatches_pointer (nrm : Vec → Rat) (eps : Rat) (parse : String → Vec) (x : Vec) (vocab : Vocab)
    (mn mx : Option Int) (thr : Option Rat) (terms : Option (List String)) (nz : Bool) :
    textMatches nrm eps parse (.pointer x) vocab mn mx thr terms nz =
      textMatches nrm eps parse (.vec x) vocab mn mx thr terms nz := rfl

/-! ### the selection loop, for an arbitrary candidate list `l` -/

section loop
variable (mn mx : Option Int) (thr : Option Rat) (l : List Match)

/-- the list `text` prints: the loop run over the sorted candidates -/
def selected : List Match := loop mn mx thr (sortedDesc l) []

/-- **text_prefix**: the result is a prefix of the sorted candidates -/
theorem text_prefix : ∃ k, k ≤ l.length ∧ selected mn mx thr l = (sortedDesc l).take k := by
  refine ⟨keep mn mx thr 0 (sortedDesc l), ?_, ?_⟩
  · have := keep_le mn mx thr 0 (sortedDesc l)
    rwa [(sortedDesc_perm l).length_eq] at this
  · simp [selected, loop_eq]

/-- **non-increasing**: listed similarities never increase (and equal
similarities are listed by descending key) -/
theorem text_nonincreasing :
    (selected mn mx thr l).Pairwise (fun a b => Spec.le b a) ∧
    (selected mn mx thr l).Pairwise (fun a b => b.1 ≤ a.1) := by
  obtain ⟨k, _, hk⟩ := text_prefix mn mx thr l
  have h := (sortedDesc_pairwise l).sublist (List.take_sublist k _)
  rw [← hk] at h
  exact ⟨h, h.imp spec_le_sim⟩

/-- **never omits a more similar term**: the candidates split into the listed
terms and the omitted ones, and no omitted term is more similar than a listed one -/
theorem text_never_omits :
    ∃ omitted, (selected mn mx thr l ++ omitted).Perm l ∧
      ∀ a ∈ selected mn mx thr l, ∀ b ∈ omitted, b.1 ≤ a.1 := by
  obtain ⟨k, _, hk⟩ := text_prefix mn mx thr l
  refine ⟨(sortedDesc l).drop k, ?_, ?_⟩
  · rw [hk, List.take_append_drop]; exact sortedDesc_perm l
  · intro a ha b hb
    have h := sortedDesc_pairwise l
    rw [← List.take_append_drop k (sortedDesc l), List.pairwise_append] at h
    rw [hk] at ha
    exact spec_le_sim (h.2.2 a ha b hb)

theorem selected_length : (selected mn mx thr l).length = keep mn mx thr 0 (sortedDesc l) := by
  simp [selected, loop_eq, List.length_take, Nat.min_eq_left (keep_le mn mx thr 0 (sortedDesc l))]

theorem selected_getElem (i : Nat) (h : i < (selected mn mx thr l).length) :
    ∃ h' : i < (sortedDesc l).length, (selected mn mx thr l)[i] = (sortedDesc l)[i] := by
  have hk := selected_length mn mx thr l
  have hle := keep_le mn mx thr 0 (sortedDesc l)
  refine ⟨by omega, ?_⟩
  simp [selected, loop_eq]

/-- every listed term passed the loop's test at its position: it is below the
minimum count, or the maximum is not reached and it is above the threshold -/
theorem text_listed_pass (i : Nat) (h : i < (selected mn mx thr l).length) :
    belowMin mn i = true ∨ (atMax mx i = false ∧ above thr (selected mn mx thr l)[i].1 = true) := by
  obtain ⟨h', he⟩ := selected_getElem mn mx thr l i h
  have := keep_pass mn mx thr 0 (sortedDesc l) i (by rw [← selected_length]; exact h) h'
  rw [he]
  simpa [takeCond] using this

/-- **text_beyond_min_above_threshold**: a term listed at a position `i` at or
beyond the minimum count is above the threshold -/
theorem text_beyond_min_above_threshold (i : Nat) (h : i < (selected mn mx thr l).length) (t : Rat)
    (ht : thr = some t) (hmin : ∀ m, mn = some m → m ≤ (i : Int)) :
    t < (selected mn mx thr l)[i].1 := by
  rcases text_listed_pass mn mx thr l i h with hb | ⟨_, ha⟩
  · exfalso
    cases hm : mn with
    | none => simp [belowMin, hm] at hb
    | some m =>
      have := hmin m hm
      simp [belowMin, hm] at hb
      omega
  · subst ht
    simpa [above] using ha

/-- **text_min**: at least `min(minimum, n)` terms -/
theorem text_min (m : Int) (hm : mn = some m) :
    min m (l.length : Int) ≤ ((selected mn mx thr l).length : Int) := by
  rw [selected_length, ← (sortedDesc_perm l).length_eq]
  generalize sortedDesc l = ms
  have key : ∀ (k : Nat) (ms : List Match),
      min m ((k + ms.length : Nat) : Int) ≤ ((k + keep mn mx thr k ms : Nat) : Int) := by
    intro k ms
    induction ms generalizing k with
    | nil => simp [keep]
    | cons a ms ih =>
      simp only [keep]
      by_cases hb : belowMin mn k = true
      · have hc : takeCond mn mx thr k a = true := by simp [takeCond, hb]
        rw [if_pos hc]
        have := ih (k + 1)
        simp only [List.length_cons]
        have e1 : k + 1 + ms.length = k + (ms.length + 1) := by omega
        have e2 : k + 1 + keep mn mx thr (k + 1) ms = k + (keep mn mx thr (k + 1) ms + 1) := by omega
        rw [e1, e2] at this
        exact this
      · have hk : m ≤ (k : Int) := by
          simp [belowMin, hm] at hb
          exact hb
        by_cases hc : takeCond mn mx thr k a = true
        · rw [if_pos hc]; simp only [List.length_cons]; omega
        · rw [if_neg hc]; simp only [List.length_cons]; omega
  simpa using key 0 ms

/-- **text_max**: never more than the maximum, for `minimum ≤ maximum` (or no minimum) -/
theorem text_max (M : Int) (hM : mx = some M) (h0 : 0 ≤ M) (hmin : ∀ m, mn = some m → m ≤ M) :
    ((selected mn mx thr l).length : Int) ≤ M := by
  rw [selected_length]
  generalize sortedDesc l = ms
  have key : ∀ (k : Nat) (ms : List Match), (k : Int) ≤ M →
      ((k + keep mn mx thr k ms : Nat) : Int) ≤ M := by
    intro k ms
    induction ms generalizing k with
    | nil => intro hk; simpa [keep] using hk
    | cons a ms ih =>
      intro hk
      simp only [keep]
      by_cases hc : takeCond mn mx thr k a = true
      · rw [if_pos hc]
        have hlt : (k : Int) < M := by
          rcases lt_or_eq_of_le hk with h | h
          · exact h
          · exfalso
            have hat : atMax mx k = true := by simp [atMax, hM, h]
            have hb : belowMin mn k = false := by
              cases hm : mn with
              | none => simp [belowMin]
              | some m =>
                have := hmin m hm
                simp [belowMin]
                omega
            simp [takeCond, hat, hb] at hc
        have := ih (k + 1) (by push_cast; omega)
        have e : k + 1 + keep mn mx thr (k + 1) ms = k + (keep mn mx thr (k + 1) ms + 1) := by omega
        rw [e] at this
        exact this
      · rw [if_neg hc]; simpa using hk
  simpa using key 0 ms h0

/-- **text_maximal**: the listing stops before the end of the candidates only
when the minimum is satisfied and either the maximum is reached or the next
candidate is not above the threshold -/
theorem text_maximal (h : (selected mn mx thr l).length < l.length) :
    ∃ h' : (selected mn mx thr l).length < (sortedDesc l).length,
      belowMin mn (selected mn mx thr l).length = false ∧
      (atMax mx (selected mn mx thr l).length = true ∨
        above thr (sortedDesc l)[(selected mn mx thr l).length].1 = false) := by
  have hl : (selected mn mx thr l).length < (sortedDesc l).length := by
    rwa [(sortedDesc_perm l).length_eq]
  refine ⟨hl, ?_⟩
  have hk := selected_length mn mx thr l
  have := keep_stop mn mx thr 0 (sortedDesc l) (by rw [← hk]; exact hl)
  simp only [Nat.zero_add, takeCond, Bool.or_eq_false_iff, Bool.and_eq_false_iff,
    Bool.not_eq_false'] at this
  simp only [hk]
  exact this

/-- **None cases**: without maximum and threshold every candidate is listed … -/
theorem text_no_limits : selected mn none none l = sortedDesc l := by
  have key : ∀ (k : Nat) (ms : List Match), keep mn none none k ms = ms.length := by
    intro k ms
    induction ms generalizing k with
    | nil => rfl
    | cons a ms ih => simp [keep, takeCond, atMax, above, ih]
  simp [selected, loop_eq, key]

/-- … and without minimum and maximum exactly the candidates above the threshold -/
theorem text_threshold_only : selected none none thr l = (sortedDesc l).takeWhile (fun m => above thr m.1) := by
  have key : ∀ (k : Nat) (ms : List Match),
      ms.take (keep none none thr k ms) = ms.takeWhile (fun m => above thr m.1) := by
    intro k ms
    induction ms generalizing k with
    | nil => rfl
    | cons a ms ih =>
      simp only [keep, takeCond, belowMin, atMax, Bool.false_or, Bool.not_false, Bool.true_and,
        List.takeWhile_cons]
      split
      · simp [ih]
      · simp
  simp [selected, loop_eq, key]

/-- with `minimum=None` (or 0) and a maximum `M ≥ 0`: at most `M` terms, all above the threshold -/
theorem text_max_only (M : Int) (h0 : 0 ≤ M) :
    ((selected none (some M) thr l).length : Int) ≤ M :=
  text_max none (some M) thr l M rfl h0 (by intro m hm; cases hm)

end loop

/-! ### two decimals -/

/-- **two decimals, correctly rounded**: the printed hundredths are within half a
hundredth of the true similarity -/
theorem fmt_error (x : Rat) :
    (round2 x : Rat) / 100 - x ≤ 1 / 200 ∧ x - (round2 x : Rat) / 100 ≤ 1 / 200 := round2_error x

/-- rounding preserves the order, so the printed numbers are non-increasing too -/
theorem fmt_monotone {x y : Rat} (h : x ≤ y) : round2 x ≤ round2 y := round2_mono h

theorem fmt_exact (k : Int) : round2 ((k : Rat) / 100) = k := round2_exact k

theorem text_printed_nonincreasing (mn mx : Option Int) (thr : Option Rat) (l : List Match) :
    ((selected mn mx thr l).map fun m => round2 m.1).Pairwise (fun a b => b ≤ a) := by
  rw [List.pairwise_map]
  exact (text_nonincreasing mn mx thr l).2.imp round2_mono

/-- exact ties go to the even neighbour (`0.125 → 0.12`, `0.375 → 0.38`), a
negative value that rounds to zero keeps its sign (`-0.00`) -/
theorem fmt_ties : round2 (1 / 8) = 12 ∧ round2 (3 / 8) = 38 ∧ round2 (-1 / 8) = -12 ∧
    fmt2 (1 / 8) = "0.12" ∧ fmt2 (3 / 8) = "0.38" ∧ fmt2 (-1 / 1000) = "-0.00" ∧ fmt2 (-7 / 4) = "-1.75" := by
  decide +kernel

/-! ## pairs -/

/-- **pairs_card**: `n(n−1)/2` combinations -/
theorem pairs_length (keys : List String) :
    (pairs keys).length = keys.length * (keys.length - 1) / 2 := by
  have := combos_length keys
  simp only [pairs, List.length_map]
  omega

/-- **pairs_eq**: the result consists exactly of the strings `keys[i]*keys[j]`, `i < j` -/
theorem pairs_mem_iff (keys : List String) (s : String) : s ∈ pairs keys ↔ Spec.IsPair keys s := by
  simp only [pairs, List.mem_map, Spec.IsPair]
  constructor
  · rintro ⟨p, hp, rfl⟩
    obtain ⟨i, j, hij, hj, rfl⟩ := (combos_index keys p).1 hp
    exact ⟨i, j, hij, hj, rfl⟩
  · rintro ⟨i, j, hij, hj, rfl⟩
    exact ⟨(keys[i], keys[j]), (combos_index keys _).2 ⟨i, j, hij, hj, rfl⟩, rfl⟩

/-- for distinct keys without `*` (every valid key) the strings are pairwise
different: the returned *set* has exactly `n(n−1)/2` elements -/
theorem pairs_nodup (keys : List String) (hd : keys.Nodup) (hs : ∀ k ∈ keys, '*' ∉ k.toList) :
    (pairs keys).Nodup := by
  unfold pairs
  refine List.Nodup.map_on ?_ (combos_nodup hd)
  intro p hp q hq h
  have := star_inj (hs p.1 (combos_mem hp).1) (hs q.1 (combos_mem hq).1) h
  exact Prod.ext this.1 this.2

/-- every unordered pair of different keys is named exactly once -/
theorem pairs_unordered (keys : List String) (hd : keys.Nodup) (hs : ∀ k ∈ keys, '*' ∉ k.toList)
    (x y : String) (hx : x ∈ keys) (hy : y ∈ keys) (hne : x ≠ y) :
    (x ++ "*" ++ y ∈ pairs keys ∨ y ++ "*" ++ x ∈ pairs keys) ∧
    ¬ (x ++ "*" ++ y ∈ pairs keys ∧ y ++ "*" ++ x ∈ pairs keys) := by
  have hmem : ∀ a b : String, a ∈ keys → b ∈ keys → (a ++ "*" ++ b ∈ pairs keys ↔ (a, b) ∈ combos keys) := by
    intro a b ha hb
    simp only [pairs, List.mem_map]
    constructor
    · rintro ⟨p, hp, h⟩
      have := star_inj (hs p.1 (combos_mem hp).1) (hs a ha) h
      have e : p = (a, b) := Prod.ext this.1 this.2
      rwa [e] at hp
    · intro h; exact ⟨(a, b), h, rfl⟩
  rw [hmem x y hx hy, hmem y x hy hx]
  exact ⟨combos_complete hx hy hne, fun h => combos_not_both hd h.1 h.2⟩

/-- no key is paired with itself -/
theorem pairs_irreflexive (keys : List String) (hd : keys.Nodup) (p : String × String)
    (hp : p ∈ combos keys) : p.1 ≠ p.2 := combos_ne hd (x := p.1) (y := p.2) hp

/-! ## non-vacuity: concrete instances -/

/-- vocabulary A=(1,0,0,0), B=(0,0,0,0), C=(1/2,1/4,-1,2), x=(3,4,0,0) with the driver's norm -/
def exRows : List Vec := [[1, 0, 0, 0], [0, 0, 0, 0], [1/2, 1/4, -1, 2]]
def exNrm (v : Vec) : Rat := (nrmQ v).getD 0

example : similarity exNrm (1/1000) (.vec [3, 4, 0, 0]) (.listArrays exRows) false
    = .ok (.flat [3, 0, 5/2]) := by decide +kernel
example : similarity exNrm (1/1000) (.series 4 [[3, 4, 0, 0], [0, 0, 0, 0]]) (.vocabulary 4 [[1, 0, 0, 0], [0, 0, 0, 0]]) true
    = .ok (.mat 2 [[3/5, 0], [0, 0]]) := by decide +kernel
example : Spec.IsNormOf (exNrm [3, 4, 0, 0]) [3, 4, 0, 0] := by unfold Spec.IsNormOf; decide +kernel
example : similarity exNrm (1/1000) (.vec [1, 0]) (.listArrays []) false = .error .shape := by decide +kernel
example : similarity exNrm (1/1000) (.series 2 [[1, 0], [0, 0], [3, 4]]) (.array2 2 []) true = .ok (.mat 0 [[], [], []]) := by
  decide +kernel
example : loop (some 1) (some 2) (some (1/10)) [(3, "A"), (5/2, "D"), (5/2, "C"), (0, "B")] []
    = [(3, "A"), (5/2, "D")] := by decide +kernel
example : loop (some 3) (some 1) (some (1/10)) [(3, "A"), (5/2, "C"), (0, "B")] []
    = [(3, "A"), (5/2, "C"), (0, "B")] := by decide +kernel   -- minimum > maximum: the minimum wins
example : loop (some 1) none (some (1/10)) [(0, "B"), (-1, "A")] [] = [(0, "B")] := by decide +kernel
example : pairs ["A", "B", "C"] = ["A*B", "A*C", "B*C"] := by decide +kernel

end C20

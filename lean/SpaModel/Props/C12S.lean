/-
C12 (and the FFT clause of C02/C07), spectral stage: the code paths of `HrrAlgebra` that go through
NumPy's `rfft`/`irfft` — `bind`, `make_unitary`, `binding_power` — written on the half spectrum
(`SpaModel/Spectral/RealFFT.lean`: `rfft` = DFT coefficients 0…d/2, `irfft` = NumPy's C2R formula) and
proved equal to their meaning in the convolution ring, for EVERY dimensionality `k+1` and every real
vector.  This replaces "modelled, not path-faithful / certified per input" for these clauses:

* `bind_fft_eq`                 `irfft(rfft(a)*rfft(b), n) = a ⊛ b`                       (C02, C07)
* `makeUnitary_fft_isUnitary`    `make_unitary(v)` is unitary for ALL `v`                   (C12, C19)
* `power_fft_int`               `binding_power(v, n)` = `Alg.Hrr.Impl.zpow v n`, all `n∈ℤ`   (C12)
* `power_fft_add`               `v^a ⊛ v^b = v^(a+b)` for real `a, b ≥ 0` under the sign gate  (C12)
* `power_fft_zero/one`          `v^0 = identity`, `v^1 = v`

Trusted: NumPy's `rfft`/`irfft` compute what `Spectral.rfft`/`Spectral.irfft` state (the DFT sum, and
the documented half-spectrum inverse in which the imaginary parts of the DC and Nyquist coefficients
do not contribute), `**` on complex arrays is the principal-branch power, and IEEE rounding.
-/
import SpaModel.Props.C12
import SpaModel.Spectral.HrrFFT

set_option linter.unusedSectionVars false

namespace C12
namespace HrrFFT
open Alg.Hrr Spectral

variable {k : ℕ}

instance : NeZero (k + 1) := ⟨Nat.succ_ne_zero k⟩

/-- an HRR vector of the algebra model, read as a function on `ZMod (k+1)` (which is `Fin (k+1)` by
definition) -/
def toZ (v : Vec k ℝ) : ZMod (k + 1) → ℝ := v
def ofZ (v : ZMod (k + 1) → ℝ) : Vec k ℝ := v
@[simp] theorem ofZ_toZ (v : Vec k ℝ) : ofZ (toZ v) = v := rfl
@[simp] theorem toZ_ofZ (v : ZMod (k + 1) → ℝ) : toZ (ofZ v) = v := rfl
theorem toZ_bind (a b : Vec k ℝ) : toZ (Impl.bind a b) = Spectral.convR (toZ a) (toZ b) := rfl
theorem toZ_invert (v : Vec k ℝ) : toZ (Impl.invert v) = Spectral.revR (toZ v) := rfl
theorem toZ_identity : toZ (Impl.identity k : Vec k ℝ) = Spectral.deltaR := rfl
theorem toZ_injective {a b : Vec k ℝ} (h : toZ a = toZ b) : a = b := h

/-- `HrrAlgebra.bind`: `np.fft.irfft(np.fft.rfft(a) * np.fft.rfft(b), n=n)` -/
noncomputable def bind (a b : Vec k ℝ) : Vec k ℝ :=
  ofZ (Spectral.irfft (fun w => Spectral.rfft (toZ a) w * Spectral.rfft (toZ b) w))

/-- `HrrAlgebra.make_unitary` (half-spectrum normalisation, non-positive moduli replaced by 1) -/
noncomputable def makeUnitary (v : Vec k ℝ) : Vec k ℝ := ofZ (Spectral.makeUnitaryFFT (toZ v))

/-- `HrrAlgebra.binding_power` after the gate:
`if exponent < 0: v = self.invert(v)`; `irfft(rfft(v) ** abs(exponent), n=len(v))` -/
noncomputable def power (v : Vec k ℝ) (e : ℝ) : Vec k ℝ :=
  ofZ (Spectral.powFFT (toZ (if e < 0 then Impl.invert v else v)) |e|)

/-- the FFT path of `bind` is circular convolution -/
theorem bind_fft_eq (a b : Vec k ℝ) : bind a b = Impl.bind a b := by
  apply toZ_injective
  rw [toZ_bind]
  exact Spectral.bindFFT_eq_conv (toZ a) (toZ b)

/-- **`make_unitary` yields a unitary vector for every input** -/
theorem makeUnitary_fft_isUnitary (v : Vec k ℝ) : C12.Spec.Hrr.IsUnitary (makeUnitary v) := by
  unfold C12.Spec.Hrr.IsUnitary
  apply toZ_injective
  rw [toZ_bind, toZ_invert, toZ_identity]
  exact Spectral.makeUnitaryFFT_isUnitary (toZ v)

theorem toZ_npow (v : Vec k ℝ) (n : ℕ) : toZ (Impl.npow v n) = Spectral.npowR (toZ v) n := by
  induction n with
  | zero => rfl
  | succ n ih =>
    show toZ (Impl.bind (Impl.npow v n) v) = Spectral.convR (Spectral.npowR (toZ v) n) (toZ v)
    rw [toZ_bind, ih]

/-- **integer exponents**: the FFT path equals the modelled `zpow` (n-fold binding, the identity for
0, the power of the inverse for `n < 0`) -/
theorem power_fft_int (v : Vec k ℝ) (n : ℤ) : power v (n : ℝ) = Impl.zpow v n := by
  have habs : |(n : ℝ)| = ((n.natAbs : ℕ) : ℝ) := by
    rw [← Int.cast_abs, Int.abs_eq_natAbs]; simp
  apply toZ_injective
  unfold power Impl.zpow
  rw [toZ_ofZ, habs, Spectral.powFFT_nat]
  by_cases h : n < 0
  · have h' : (n : ℝ) < 0 := by exact_mod_cast h
    rw [if_pos h', if_pos h, toZ_npow]
  · have h' : ¬ (n : ℝ) < 0 := by exact_mod_cast h
    rw [if_neg h', if_neg h, toZ_npow]

theorem power_fft_zero (v : Vec k ℝ) : power v 0 = Impl.identity k := by
  have := power_fft_int v 0
  simpa [Impl.zpow, Impl.npow] using this

/-- the sign gate of the code (`dc_sign > 0`, Nyquist sign not negative) gives non-negative DC and
Nyquist coefficients -/
theorem nonnegSign_of_gate (v : Vec k ℝ) (hdc : 0 < Impl.dc v) (hny : (k + 1) % 2 = 0 → 0 ≤ Impl.nyq v) :
    Spectral.NonnegSign (toZ v) := by
  intro w hw
  rcases hw with rfl | hw
  · rw [Spectral.rfft_zero, Complex.ofReal_re]; exact hdc.le
  · rw [Spectral.rfft_nyquist (toZ v) w hw, Complex.ofReal_re]
    exact hny (by omega)

/-- **non-negative real exponents add** under the sign gate -/
theorem power_fft_add (v : Vec k ℝ) (hdc : 0 < Impl.dc v) (hny : (k + 1) % 2 = 0 → 0 ≤ Impl.nyq v)
    (a b : ℝ) (ha : 0 ≤ a) (hb : 0 ≤ b) :
    Impl.bind (power v a) (power v b) = power v (a + b) := by
  apply toZ_injective
  rw [toZ_bind]
  unfold power
  rw [if_neg (not_lt.2 ha), if_neg (not_lt.2 hb), if_neg (not_lt.2 (add_nonneg ha hb)),
    abs_of_nonneg ha, abs_of_nonneg hb, abs_of_nonneg (add_nonneg ha hb), toZ_ofZ, toZ_ofZ, toZ_ofZ]
  exact Spectral.powFFT_add (toZ v) (nonnegSign_of_gate v hdc hny) a b ha hb

/-! ### non-vacuity -/

/-- the gate hypotheses are met, e.g. by `[2, 1]` (DC = 3, Nyquist = 1) -/
example : 0 < Impl.dc (![2, 1] : Vec 1 ℝ) ∧ ((1 + 1) % 2 = 0 → 0 ≤ Impl.nyq (![2, 1] : Vec 1 ℝ)) := by
  constructor
  · simp [Impl.dc, Fin.sum_univ_two]; norm_num
  · intro _; simp [Impl.nyq, Fin.sum_univ_two]

end HrrFFT
end C12

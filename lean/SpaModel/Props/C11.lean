/-
C11 — Type coercion returns the least upper bound of a partial order.
Property theorems only (model: SpaModel/Basic/C11.lean).  Everything is for an
arbitrary assignment `dim` of dimensionalities to vocabulary objects, arbitrary
type names and argument lists of arbitrary length.
-/
import SpaModel.Basic.C11

namespace C11
open Impl

variable (dim : Nat → Int)

/-! ### equality -/

theorem eq_iff (a b : Ty) : eq a b = true ↔ a = b := by
  cases a <;> cases b <;> simp [eq]

/-- vocabulary types are equal only for the identical vocabulary object -/
theorem vocab_eq_iff_same_object (v w : Nat) : eq (.vocab v) (.vocab w) = true ↔ v = w := by
  simp [eq]

theorem ne_iff (a b : Ty) : ne a b = true ↔ a ≠ b := by
  simp [ne, ← eq_iff]

/-! ### the order is exactly the documented one -/

/-- `a > b` holds exactly on the documented chains
scalar < any < any-of-d < vocabulary of dimensionality d: no other relation. -/
theorem gt_iff_chain (a b : Ty) : gt dim a b = true ↔ Spec.lt dim b a := by
  constructor
  · intro h
    cases a <;> cases b <;>
      simp [gt, gtAny, gtAnyDim, gtVocab, leAnyDim, leAny, eq, scalar] at h
    all_goals first
      | (subst h; constructor)
      | constructor
      | (rcases h with h | h <;> subst h <;> constructor)
  · intro h
    cases h <;> simp [gt, gtAny, gtAnyDim, gtVocab, leAnyDim, leAny, eq, scalar]

theorem lt_iff (a b : Ty) : lt dim a b = true ↔ Spec.lt dim a b := gt_iff_chain dim b a

theorem le_iff (a b : Ty) : le dim a b = true ↔ Spec.le dim a b := by
  simp [le, Spec.le, lt_iff, eq_iff, or_comm]

theorem ge_iff (a b : Ty) : ge dim a b = true ↔ Spec.le dim b a := by
  simp only [ge, Spec.le, Bool.or_eq_true, gt_iff_chain, eq_iff]
  constructor <;> (rintro (h | h) <;> simp_all)

/-- the four derived comparisons are consistent with `>` and `==` -/
theorem derived_consistent (a b : Ty) :
    lt dim a b = gt dim b a ∧ le dim a b = ge dim b a ∧
    (le dim a b = true ↔ (lt dim a b = true ∨ a = b)) ∧ ne a b = !eq a b := by
  refine ⟨rfl, ?_, ?_, rfl⟩
  · have h1 := le_iff dim a b
    have h2 := ge_iff dim b a
    cases h : le dim a b <;> cases h' : ge dim b a <;> simp_all
  · simp [le, eq_iff]

theorem spec_lt_irrefl (a : Ty) : ¬ Spec.lt dim a a := by
  intro h; cases h

theorem spec_lt_asymm {a b : Ty} (h : Spec.lt dim a b) : ¬ Spec.lt dim b a := by
  intro h'; cases h <;> cases h'

theorem spec_lt_trans {a b c : Ty} (h : Spec.lt dim a b) (h' : Spec.lt dim b c) :
    Spec.lt dim a c := by
  cases h <;> cases h' <;> constructor

theorem le_refl (a : Ty) : le dim a a = true := by
  rw [le_iff]; exact Or.inl rfl

theorem le_antisymm {a b : Ty} (h : le dim a b = true) (h' : le dim b a = true) : a = b := by
  rw [le_iff] at h h'
  rcases h with h | h
  · exact h
  · rcases h' with h' | h'
    · exact h'.symm
    · exact absurd h' (spec_lt_asymm dim h)

theorem le_trans {a b c : Ty} (h : le dim a b = true) (h' : le dim b c = true) :
    le dim a c = true := by
  rw [le_iff] at *
  rcases h with rfl | h
  · exact h'
  · rcases h' with rfl | h'
    · exact Or.inr h
    · exact Or.inr (spec_lt_trans dim h h')

/-- `<` is the strict part of `<=` -/
theorem lt_iff_le_ne (a b : Ty) : lt dim a b = true ↔ (le dim a b = true ∧ a ≠ b) := by
  rw [lt_iff, le_iff]
  constructor
  · intro h
    exact ⟨Or.inr h, fun e => spec_lt_irrefl dim b (e ▸ h)⟩
  · rintro ⟨h | h, hne⟩
    · exact absurd h hne
    · exact h

/-! ### coercion = greatest member -/

theorem maxScan_mem (m : Ty) (l : List Ty) : maxScan dim m l ∈ m :: l := by
  induction l generalizing m with
  | nil => simp [maxScan]
  | cons x xs ih =>
    have h := ih (if gt dim x m then x else m)
    simp only [maxScan]
    simp only [List.mem_cons] at h ⊢
    rcases h with h | h
    · rw [h]; split <;> simp
    · simp [h]

/-- the left-to-right `max` scan finds the greatest member whenever one exists,
whatever the order of the arguments -/
theorem maxScan_greatest (m : Ty) (l : List Ty) (g : Ty)
    (hg : Spec.IsGreatest dim (m :: l) g) : maxScan dim m l = g := by
  induction l generalizing m with
  | nil =>
    obtain ⟨hm, _⟩ := hg
    simp at hm
    simp [maxScan, hm]
  | cons x xs ih =>
    simp only [maxScan]
    apply ih
    obtain ⟨hmem, hall⟩ := hg
    have hm : Spec.le dim m g := hall m (by simp)
    have hx : Spec.le dim x g := hall x (by simp)
    refine ⟨?_, ?_⟩
    · -- membership
      simp only [List.mem_cons] at hmem
      rcases hmem with rfl | rfl | hmem
      · -- g = m: then x ≤ m, so `x > m` is impossible
        have : gt dim x g = false := by
          cases hgt : gt dim x g
          · rfl
          · rw [gt_iff_chain] at hgt
            rcases hx with rfl | hx
            · exact absurd hgt (spec_lt_irrefl dim _)
            · exact absurd hgt (spec_lt_asymm dim hx)
        simp [this]
      · -- g = x
        cases hgt : gt dim g m
        · -- not m < x but m ≤ x, so m = x
          rcases hm with rfl | hm
          · simp
          · rw [← gt_iff_chain] at hm
            simp [hm] at hgt
        · simp
      · simp [hmem]
    · intro u hu
      simp only [List.mem_cons] at hu
      rcases hu with rfl | hu
      · split
        · exact hx
        · exact hm
      · exact hall u (by simp [hu])

theorem greatest_unique {l : List Ty} {a b : Ty}
    (ha : Spec.IsGreatest dim l a) (hb : Spec.IsGreatest dim l b) : a = b := by
  have h1 := hb.2 a ha.1
  have h2 := ha.2 b hb.1
  rw [← le_iff] at h1 h2
  exact le_antisymm dim h1 h2

/-- `coerce_types` succeeds with `r` exactly when `r` is the most specific
member, the member every argument can be cast to. -/
theorem coerce_ok_iff_greatest (t : Ty) (ts : List Ty) (r : Ty) :
    coerce dim t ts = .ok r ↔ Spec.IsGreatest dim (t :: ts) r := by
  unfold coerce verify
  constructor
  · intro h
    split at h
    · next hnone =>
      injection h with h
      subst h
      refine ⟨maxScan_mem dim t ts, ?_⟩
      intro u hu
      rw [List.find?_eq_none] at hnone
      have := hnone u hu
      simp at this
      rwa [le_iff] at this
    · cases h
  · intro hg
    have htop := maxScan_greatest dim t ts r hg
    simp only [htop]
    split
    · rfl
    · next off hsome =>
      have h1 := List.find?_some hsome
      have h2 := List.mem_of_find?_eq_some hsome
      have := hg.2 off h2
      rw [← le_iff] at this
      simp [this] at h1

/-- it raises exactly when no such member exists -/
theorem coerce_error_iff_no_greatest (t : Ty) (ts : List Ty) :
    (∃ e, coerce dim t ts = .error e) ↔ ¬ ∃ r, Spec.IsGreatest dim (t :: ts) r := by
  constructor
  · rintro ⟨e, he⟩ ⟨r, hr⟩
    rw [← coerce_ok_iff_greatest] at hr
    rw [hr] at he
    cases he
  · intro h
    cases hc : coerce dim t ts with
    | error e => exact ⟨e, rfl⟩
    | ok r => exact absurd ⟨r, (coerce_ok_iff_greatest dim t ts r).1 hc⟩ h

/-- The successful result depends only on the *set* of argument types: it is
independent of their order and of repetitions. -/
theorem coerce_order_and_repetition_independent (t t' : Ty) (ts ts' : List Ty)
    (hset : ∀ u, u ∈ t :: ts ↔ u ∈ t' :: ts') (r : Ty) :
    coerce dim t ts = .ok r ↔ coerce dim t' ts' = .ok r := by
  rw [coerce_ok_iff_greatest, coerce_ok_iff_greatest]
  unfold Spec.IsGreatest
  constructor <;> rintro ⟨h1, h2⟩
  · exact ⟨(hset r).1 h1, fun u hu => h2 u ((hset u).2 hu)⟩
  · exact ⟨(hset r).2 h1, fun u hu => h2 u ((hset u).1 hu)⟩

theorem coerce_perm (t t' : Ty) (ts ts' : List Ty) (h : (t :: ts).Perm (t' :: ts')) (r : Ty) :
    coerce dim t ts = .ok r ↔ coerce dim t' ts' = .ok r :=
  coerce_order_and_repetition_independent dim t t' ts ts' (fun _ => h.mem_iff) r

/-- and so does failure -/
theorem coerce_fails_independent (t t' : Ty) (ts ts' : List Ty)
    (hset : ∀ u, u ∈ t :: ts ↔ u ∈ t' :: ts') :
    (∃ e, coerce dim t ts = .error e) ↔ (∃ e, coerce dim t' ts' = .error e) := by
  rw [coerce_error_iff_no_greatest, coerce_error_iff_no_greatest]
  have : ∀ r, Spec.IsGreatest dim (t :: ts) r ↔ Spec.IsGreatest dim (t' :: ts') r := by
    intro r
    rw [← coerce_ok_iff_greatest, ← coerce_ok_iff_greatest]
    exact coerce_order_and_repetition_independent dim t t' ts ts' hset r
  simp [this]

/-- The reason named in the error is true of the offending pair: some argument
`u` cannot be cast to the scan result `top`, and "Different vocabularies" is
only said of two different vocabulary objects, "Dimensionality mismatch" only of
two types whose dimensionalities differ. -/
theorem reason_truthful (t : Ty) (ts : List Ty) (e : Reason)
    (h : coerce dim t ts = .error e) :
    ∃ u ∈ t :: ts, ¬ Spec.le dim u (maxScan dim t ts) ∧
      (e = .differentVocab →
        ∃ v w, u = .vocab v ∧ maxScan dim t ts = .vocab w ∧ v ≠ w) ∧
      (e = .dimMismatch →
        ∃ d d', dimsOf dim u = some d ∧ dimsOf dim (maxScan dim t ts) = some d' ∧ d ≠ d') := by
  unfold coerce verify at h
  split at h
  · cases h
  · next off hsome =>
    have h1 := List.find?_some hsome
    have h2 := List.mem_of_find?_eq_some hsome
    refine ⟨off, h2, ?_, ?_, ?_⟩
    · rw [← le_iff]; simpa using h1
    · intro he
      subst he
      injection h with h
      generalize maxScan dim t ts = top at h
      cases off <;> cases top <;> simp [reason, vocabOf, dimsOf] at h ⊢ <;> grind
    · intro he
      subst he
      injection h with h
      generalize maxScan dim t ts = top at h
      cases off <;> cases top <;> simp [reason, vocabOf, dimsOf] at h ⊢ <;> grind

/-! ### hashing -/

/-- equal types hash equally (the hash is a function of `hashKey`) … -/
theorem eq_imp_hashKey_eq (a b : Ty) (h : eq a b = true) : hashKey a = hashKey b := by
  rw [eq_iff] at h; rw [h]

/-- … and the key is defined on every type and separates the type classes. -/
theorem hashKey_eq_imp_eq_of_wellnamed (a b : Ty) (h : hashKey a = hashKey b) : a = b := by
  cases a <;> cases b <;> simp [hashKey] at h ⊢ <;> first | exact h | omega

/-! ### non-vacuity: concrete instances of the hypotheses -/

/-- two vocabularies (#0, #1) of dimensionality 16, one (#2) of 32 -/
def exDim : Nat → Int := fun v => if v = 2 then 32 else 16

example : coerce exDim scalar [.vocab 0, .any, .anyDim 16] = .ok (.vocab 0) := by decide
example : coerce exDim (.vocab 0) [.vocab 1] = .error .differentVocab := by decide
example : coerce exDim (.anyDim 16) [.vocab 2] = .error .dimMismatch := by decide
example : coerce exDim (.base "custom") [scalar] = .error .incompatible := by decide
example : Spec.IsGreatest exDim [scalar, .vocab 0, .any] (.vocab 0) :=
  ⟨by simp, by
    intro u hu
    simp at hu
    rcases hu with rfl | rfl | rfl
    · exact Or.inr (.scalar_vocab 0)
    · exact Or.inl rfl
    · exact Or.inr (.any_vocab 0)⟩

end C11

/-
C09 — a vocabulary stays a consistent, append-only mapping under any history.
Property theorems only (model: SpaModel/Basic/C09.lean, helper lemmas:
SpaModel/Lemmas/C09.lean).  Everything is for arbitrary worlds (two
vocabularies of any dimensionality, strictness, algebra, similarity bound and
candidate stream), arbitrary operations with arbitrary arguments and histories
of arbitrary length.
-/
import SpaModel.Lemmas.C09

namespace C09
open Impl Spec

/-- both vocabularies of the world are consistent -/
def WInv (w : World) : Prop := ∀ x, Inv (w.get x)

/-! ### every operation, failing or not, only appends and keeps the three components aligned -/

theorem step_moves (w : World) (op : Op) (y : Which) :
    Moves (w.get y) ((step w op).1.get y) := by
  cases op with
  | add x key d =>
    simp only [step]
    split
    · exact Moves.refl _
    · next V h => cases x <;> cases y <;> first | exact Moves.add h | exact Moves.refl _
  | populate x text =>
    have h := populate_moves x.id (w.get x) text
    simp only [step]
    split <;> next h' => (rw [h'] at h; cases x <;> cases y <;> first | exact h | exact Moves.refl _)
  | parse x text =>
    have h := parse_moves x.id (w.get x) text
    simp only [step]
    split <;> next h' => (rw [h'] at h; cases x <;> cases y <;> first | exact h | exact Moves.refl _)
  | getitem x key =>
    have h := getitem_moves x.id (w.get x) key
    simp only [step]
    split <;> next h' => (rw [h'] at h; cases x <;> cases y <;> first | exact h | exact Moves.refl _)
  | contains x key => exact Moves.refl _
  | createPointer x n t =>
    have h := createPointer_moves x.id (w.get x) n t
    simp only [step]
    split <;> next h' => (rw [h'] at h; cases x <;> cases y <;> first | exact h | exact Moves.refl _)
  | createSubset x keys =>
    have h := createSubset_moves x.id 2 (w.get x) keys
    simp only [step]
    split <;> next h' => (rw [h'] at h; cases x <;> cases y <;> first | exact h | exact Moves.refl _)
  | transformTo x keys pop order order2 =>
    have h := transformTo_moves x.id x.other.id (w.get x) (w.get x.other) keys pop order order2
    simp only [step]
    split <;> next h' =>
      (rw [h'] at h; cases x <;> cases y <;> first | exact h.1 | exact h.2)
  | mutate x => exact Moves.refl _

/-- **inv_preserved.**  `len(_keys) = len(_vectors) = len(_key2idx)`, `_key2idx[k]`
is the position of `k` in `_keys`, keys are distinct valid names and every row
has `dimensions` entries — after every operation, whether it raised or not. -/
theorem inv_preserved (w : World) (op : Op) (h : WInv w) : WInv (step w op).1 :=
  fun x => (step_moves w op x).inv (h x)

theorem run_moves (w : World) (ops : List Op) (y : Which) : Moves (w.get y) ((run w ops).get y) := by
  induction ops generalizing w with
  | nil => exact Moves.refl _
  | cons op ops ih => exact (step_moves w op y).trans (ih _)

theorem inv_run (w : World) (ops : List Op) (h : WInv w) : WInv (run w ops) :=
  fun x => (run_moves w ops x).inv (h x)

/-- a freshly constructed vocabulary is consistent -/
theorem inv_initial (V : Vocab) (hk : V.keys = []) (hi : V.key2idx = []) (hv : V.vecs = []) : Inv V :=
  ⟨by simp [hk, hv], by simp [hk, hi], by simp [hk, hi], by simp [hk], by simp [hv], by simp [hk]⟩

/-- **refines_append_only.**  The abstract state (list of (key, vector)) after an
operation is the one before followed by the pairs the operation added; settings
never change.  (`add_ok_appends`, `getitem_nonstrict_gains`, … say which pairs.) -/
theorem refines_append_only (w : World) (op : Op) (h : WInv w) (x : Which) :
    ∃ added, abs ((step w op).1.get x) = abs (w.get x) ++ added ∧
      SameSettings (w.get x) ((step w op).1.get x) := by
  obtain ⟨l, hl⟩ := (step_moves w op x).grows
  exact ⟨l, GrowsBy.abs hl (h x), hl.1⟩

/-- **stored_never_changes.**  Whatever was stored stays stored, at the same
position, with the same vector, through every later history. -/
theorem stored_never_changes (w : World) (ops : List Op) (h : WInv w) (x : Which) :
    abs (w.get x) <+: abs ((run w ops).get x) := by
  obtain ⟨l, hl⟩ := (run_moves w ops x).grows
  rw [GrowsBy.abs hl (h x)]
  exact List.prefix_append _ _

/-- … in terms of what a user sees: a stored pair is still returned by position later -/
theorem stored_pair_persists (w : World) (ops : List Op) (h : WInv w) (x : Which) (i : Nat)
    (kv : String × Vec) (hk : (abs (w.get x))[i]? = some kv) :
    (abs ((run w ops).get x))[i]? = some kv := by
  obtain ⟨t, ht⟩ := stored_never_changes w ops h x
  rw [← ht, List.getElem?_append_left]
  · exact hk
  · exact (List.getElem?_eq_some_iff.1 hk).1

/-! ### the observations agree with each other -/

/-- `len(v)`, `len(list(v))` and the number of abstract pairs coincide; `list(v)` are the abstract keys
and `v.vectors` the abstract vectors -/
theorem len_iter_vectors_agree (V : Vocab) (h : Inv V) :
    len V = (iter V).length ∧ len V = (abs V).length ∧ (abs V).map Prod.fst = iter V ∧
    (abs V).map Prod.snd = V.vecs := by
  unfold len iter Spec.abs
  refine ⟨h.len.symm, by simp [h.len], ?_, ?_⟩
  · rw [List.map_fst_zip]; exact Nat.le_of_eq h.len
  · rw [List.map_snd_zip]; exact Nat.le_of_eq h.len.symm

/-- **contains_iff.**  `k in v` ⇔ `k` is one of the always-present special names or a stored key. -/
theorem contains_iff (V : Vocab) (h : Inv V) (k : String) :
    contains V k = true ↔ (k ∈ Generated.specialNames ∨ k ∈ (abs V).map Prod.fst) := by
  rw [(len_iter_vectors_agree V h).2.2.1]
  unfold contains isSpecial iter
  rw [Bool.or_eq_true, stored_iff h, List.contains_iff_mem]

/-- special names are never stored keys (they are reserved) -/
theorem special_not_stored (V : Vocab) (h : Inv V) (k : String) (hs : isSpecial k = true) :
    k ∉ V.keys := by
  intro hk
  have := h.names k hk
  unfold nameOk at this
  have hr : Generated.reservedNames.contains k = true := by
    unfold isSpecial at hs
    have hs' := List.contains_iff_mem.1 hs
    apply List.contains_iff_mem.2
    revert hs'
    simp only [Generated.specialNames, Generated.reservedNames]
    simp only [List.mem_cons, List.not_mem_nil, or_false]
    rintro (rfl | rfl | rfl) <;> simp
  rw [hr] at this
  simp at this

theorem lookup_index (l : List (String × Nat)) (keys : List String) (s : Nat)
    (h1 : l.map Prod.fst = keys) (h2 : l.map Prod.snd = List.range' s keys.length)
    (hn : keys.Nodup) (i : Nat) (k : String) (hk : keys[i]? = some k) :
    l.lookup k = some (s + i) := by
  induction l generalizing keys s i with
  | nil => subst h1; simp at hk
  | cons e es ih =>
    obtain ⟨k0, n0⟩ := e
    subst h1
    simp only [List.map_cons, List.length_cons, List.range'_succ, List.cons.injEq] at h2
    obtain ⟨rfl, h2⟩ := h2
    simp only [List.map_cons, List.nodup_cons] at hn
    cases i with
    | zero =>
      simp at hk
      subst hk
      simp [List.lookup_cons]
    | succ j =>
      simp only [List.map_cons, List.getElem?_cons_succ] at hk
      have hne : (k == k0) = false := by
        rw [beq_eq_false_iff_ne]
        rintro rfl
        exact hn.1 (List.mem_of_getElem? hk)
      rw [List.lookup_cons, hne]
      have := ih (es.map Prod.fst) (n0 + 1) rfl (by simpa using h2) hn.2 j hk
      rw [this]; exact congrArg some (by omega)

/-- **item access agrees with the abstract state.**  The `i`-th stored pair `(k, v)` is what `v[k]`
returns — a pointer of this vocabulary carrying `v` — and the look-up changes nothing, strict or not. -/
theorem getitem_stored (id : Nat) (V : Vocab) (h : Inv V) (i : Nat) (k : String) (v : Vec)
    (hk : (abs V)[i]? = some (k, v)) :
    getitem id V k = (.ok ⟨v, some id, V.alg⟩, V) := by
  have hki : V.keys[i]? = some k ∧ V.vecs[i]? = some v := by
    unfold Spec.abs at hk
    rw [List.getElem?_zip_eq_some] at hk
    exact hk
  have hmem : k ∈ V.keys := List.mem_of_getElem? hki.1
  have hns : isSpecial k = false := by
    cases hs : isSpecial k
    · rfl
    · exact absurd hmem (special_not_stored V h k hs)
  have hnt : k ≠ "__tracebackhide__" := by
    rintro rfl
    have := h.names _ hmem
    revert this
    decide
  have hc : contains V k = true := by
    unfold contains; rw [Bool.or_eq_true, stored_iff h]; exact Or.inr hmem
  have hl : V.key2idx.lookup k = some i := by
    have := lookup_index V.key2idx V.keys 0 h.idxKeys (by rw [h.idxVals, List.range_eq_range']) h.nodup i k hki.1
    simpa using this
  unfold getitem
  simp [hnt, hns, hc, lookup, hl, hki.2]

/-! ### `add`: what is accepted, what is rejected, and that rejection changes nothing -/

/-- `add` succeeds exactly when the name is valid and not reserved, the data is a
vector of the vocabulary's dimensionality, the key is new, and the pointer (if
one was passed) belongs to no other vocabulary and to the same algebra. -/
theorem add_ok_iff (id : Nat) (V : Vocab) (key : String) (d : Data) :
    (∃ V', add id V key d = .ok V') ↔
    (nameOk key = true ∧ ∃ p, toPtr id V d = .ok p ∧ V.key2idx.any (fun e => e.1 == key) = false ∧
      p.vec.length = V.dims ∧ (p.vocab = none ∨ p.vocab = some id) ∧ p.alg = V.alg) := by
  constructor
  · rintro ⟨V', h⟩
    obtain ⟨p, hp, hn, hd, hl, hv, ha, _⟩ := add_ok h
    exact ⟨hn, p, hp, hd, hl, hv, ha⟩
  · rintro ⟨hn, p, hp, hd, hl, hv, ha⟩
    unfold add
    rcases hv with hv | hv <;> simp [hn, hp, hd, hl, hv, ha]

/-- a successful `add` appends exactly the pair (key, the vector handed in) -/
theorem add_ok_appends (id : Nat) (V V' : Vocab) (key : String) (d : Data) (h : Inv V)
    (ha : add id V key d = .ok V') :
    ∃ p, toPtr id V d = .ok p ∧ abs V' = abs V ++ [(key, p.vec)] ∧ V'.gen = V.gen := by
  obtain ⟨p, hp, hg⟩ := add_growsBy ha
  refine ⟨p, hp, GrowsBy.abs hg h, ?_⟩
  obtain ⟨_, _, _, _, _, _, _, rfl⟩ := add_ok ha
  rfl

/-- **rejects_without_change**, the six classes: invalid / keyword / reserved name → `SpaParseError`;
non-vector data, duplicate key, wrong length, pointer of another vocabulary, pointer of another algebra
→ `ValidationError`. -/
theorem add_rejects_bad_name (id : Nat) (V : Vocab) (key : String) (d : Data)
    (h : regexOk key = false ∨ key ∈ Generated.capitalKeywords ∨ key ∈ Generated.reservedNames) :
    add id V key d = .error .spaParse := by
  have : nameOk key = false := by
    unfold nameOk
    rcases h with h | h | h
    · simp [h]
    · rw [List.contains_iff_mem.2 h]; simp
    · rw [List.contains_iff_mem.2 h]; simp
  simp [add, this]

/-- The documented rule ("valid Python 2 identifiers beginning with a capital letter"). -/
def isIdent (s : String) : Bool :=
  match s.toList with
  | [] => false
  | c :: rest => c.isUpper && rest.all (fun x => x.isAlphanum || x == '_')

/-- table side conditions, re-checked against the table regenerated from the source on every run: the
accepted first characters are ASCII capitals, the later ones ASCII letters, digits or `_`, the empty
name is refused, the end anchor does not let a trailing newline through and no non-ASCII code point
is accepted (the model's `regexOk` is ASCII-only; `nameAcceptsNonAscii` is what the translator observed) -/
theorem generated_name_table_is_identifier_rule :
    Generated.nameFirstChars.toList.all (fun c => c.isUpper) = true ∧
    Generated.nameRestChars.toList.all (fun x => x.isAlphanum || x == '_') = true ∧
    Generated.nameAcceptsEmpty = false ∧ Generated.nameAcceptsTrailingNewline = false ∧
    Generated.nameAcceptsNonAscii = false := by
  decide

/-- every name `add` accepts is an identifier in the documented sense (so e.g. `"A\n"`, `"Bé"`, `""`
are refused) -/
theorem nameOk_is_identifier (key : String) (h : nameOk key = true) : isIdent key = true := by
  obtain ⟨h1, h2, h3, h4, _⟩ := generated_name_table_is_identifier_rule
  unfold nameOk at h
  simp only [Bool.and_eq_true] at h
  obtain ⟨⟨hr, _⟩, _⟩ := h
  unfold regexOk at hr
  simp only [h4, Bool.false_and, Bool.false_eq_true, if_false] at hr
  unfold isIdent
  cases hcs : key.toList with
  | nil => rw [hcs] at hr; simp [h3] at hr
  | cons c rest =>
    rw [hcs] at hr
    simp only [Bool.and_eq_true, List.all_eq_true] at hr ⊢
    obtain ⟨hc, hrest⟩ := hr
    rw [List.all_eq_true] at h1 h2
    refine ⟨h1 c (List.contains_iff_mem.1 hc), fun x hx => ?_⟩
    exact h2 x (List.contains_iff_mem.1 (hrest x hx))

/-- hence a name with a character outside the identifier alphabet is rejected without change -/
theorem add_rejects_non_identifier (id : Nat) (V : Vocab) (key : String) (d : Data)
    (h : isIdent key = false) : add id V key d = .error .spaParse := by
  have : nameOk key = false := by
    cases hn : nameOk key with
    | false => rfl
    | true => rw [nameOk_is_identifier key hn] at h; exact absurd h (by decide)
  simp [add, this]

theorem add_rejects_special (id : Nat) (V : Vocab) (key : String) (d : Data)
    (h : isSpecial key = true) : add id V key d = .error .spaParse := by
  apply add_rejects_bad_name
  right; right
  have hs' := List.contains_iff_mem.1 h
  revert hs'
  simp only [Generated.specialNames, Generated.reservedNames]
  simp only [List.mem_cons, List.not_mem_nil, or_false]
  rintro (rfl | rfl | rfl) <;> simp

theorem add_rejects_non_vector (id : Nat) (V : Vocab) (key : String) (h : nameOk key = true) :
    add id V key .bad = .error .validation := by
  simp [add, h, toPtr]

theorem add_rejects_duplicate (id : Nat) (V : Vocab) (hi : Inv V) (key : String) (d : Data)
    (h : key ∈ (abs V).map Prod.fst) : ∃ e, add id V key d = .error e := by
  rw [(len_iter_vectors_agree V hi).2.2.1] at h
  have hd := (stored_iff hi key).2 h
  unfold add
  split
  · exact ⟨_, rfl⟩
  · split
    · exact ⟨_, rfl⟩
    · simp [hd]

theorem add_rejects_wrong_length (id : Nat) (V : Vocab) (key : String) (d : Data) (p : Ptr)
    (hp : toPtr id V d = .ok p) (h : p.vec.length ≠ V.dims) : ∃ e, add id V key d = .error e := by
  unfold add
  split
  · exact ⟨_, rfl⟩
  · simp only [hp]
    split
    · exact ⟨_, rfl⟩
    · simp [h]

theorem add_rejects_foreign (id : Nat) (V : Vocab) (key : String) (p : Ptr)
    (h : (∃ j, p.vocab = some j ∧ j ≠ id) ∨ p.alg ≠ V.alg) :
    ∃ e, add id V key (.ptr p) = .error e := by
  unfold add
  split
  · exact ⟨_, rfl⟩
  · simp only [toPtr]
    split
    · exact ⟨_, rfl⟩
    · split
      · exact ⟨_, rfl⟩
      · have : ((p.vocab.isSome && p.vocab != some id) || p.alg != V.alg) = true := by
          rcases h with ⟨j, hj, hne⟩ | h
          · simp [hj, hne]
          · simp [h]
        simp [this]

/-- a failing `add` leaves the whole world as it was (all validation precedes the three updates) -/
theorem rejects_without_change (w : World) (x : Which) (key : String) (d : Data) (e : Err)
    (h : add x.id (w.get x) key d = .error e) : step w (.add x key d) = (w, .err e) := by
  simp [step, h]

/-! ### strictness gate -/

/-- **strict_lookup_pure.**  Item access, membership test, parsing and subset
creation never change a strict vocabulary — not even its generator — whatever
the name or text, and whether or not they raise. -/
theorem strict_lookup_pure (w : World) (x : Which) (hs : (w.get x).strict = true) (op : Op)
    (hop : (∃ k, op = .getitem x k) ∨ (∃ t, op = .parse x t) ∨ (∃ k, op = .contains x k) ∨
      (∃ ks, op = .createSubset x ks)) :
    (step w op).1 = w := by
  rcases hop with ⟨k, rfl⟩ | ⟨t, rfl⟩ | ⟨k, rfl⟩ | ⟨ks, rfl⟩
  · have := getitem_pure x.id (w.get x) k (Or.inl hs)
    simp only [step]
    split <;> next h => (rw [h] at this; simp only at this; subst this; cases x <;> rfl)
  · have := parse_strict x.id (w.get x) t hs
    simp only [step]
    split <;> next h => (rw [h] at this; simp only at this; subst this; cases x <;> rfl)
  · rfl
  · have := subsetLoop_strict x.id 2 (w.get x) (emptyLike (w.get x)) ks hs
    simp only [step, createSubset]
    split <;> next h => (rw [h] at this; simp only at this; subst this; cases x <;> rfl)

/-- a strict vocabulary answers a missing name with `KeyError` (item access) … -/
theorem strict_getitem_missing (id : Nat) (V : Vocab) (hs : V.strict = true) (k : String)
    (hc : contains V k = false) : getitem id V k = (.error .key, V) := by
  have hsp : isSpecial k = false := by
    unfold contains at hc; simp only [Bool.or_eq_false_iff] at hc; exact hc.1
  have hl : V.key2idx.lookup k = none := by
    unfold contains at hc
    simp only [Bool.or_eq_false_iff] at hc
    have h2 := hc.2
    clear hc
    generalize V.key2idx = l at h2 ⊢
    induction l with
    | nil => rfl
    | cons e es ih =>
      simp only [List.any_cons, Bool.or_eq_false_iff] at h2
      obtain ⟨k0, n0⟩ := e
      rw [List.lookup_cons]
      have : (k == k0) = false := by
        have := h2.1; simp only [beq_eq_false_iff_ne] at this ⊢; exact fun e => this e.symm
      rw [this]; exact ih h2.2
  unfold getitem
  by_cases ht : k = "__tracebackhide__"
  · simp [ht]
  · simp [ht, hsp, hs, lookup, hl]

/-! ### non-strict vocabularies gain exactly the missing valid names -/

/-- **nonstrict_gains_exactly_missing_valid** (item access).  Looking up a name
that is neither special nor stored in a non-strict vocabulary draws from the
generator first; then either the name is invalid / the drawing failed and
nothing is stored, or exactly the pair (name, returned vector) is appended. -/
theorem getitem_nonstrict_gains (id : Nat) (V : Vocab) (hi : Inv V) (hs : V.strict = false)
    (k : String) (hc : contains V k = false) (ht : k ≠ "__tracebackhide__") :
    (∃ e, (getitem id V k).1 = .error e ∧ abs (getitem id V k).2 = abs V) ∨
    (∃ p, (getitem id V k).1 = .ok p ∧ nameOk k = true ∧
      abs (getitem id V k).2 = abs V ++ [(k, p.vec)] ∧ p.vocab = some id ∧ p.alg = V.alg) := by
  have hsp : isSpecial k = false := by
    unfold contains at hc; simp only [Bool.or_eq_false_iff] at hc; exact hc.1
  have hE : ∀ e V1, autoCreate id V k = (.error e, V1) → getitem id V k = (.error e, V1) := by
    intro e V1 h; unfold getitem; simp [ht, hsp, hs, hc, h]
  have hO : ∀ V1, autoCreate id V k = (.ok (), V1) → getitem id V k = (lookup id V1 k, V1) := by
    intro V1 h; unfold getitem; simp [ht, hsp, hs, hc, h]
  have hcp := createPointer_snd id V 100 .none
  cases hr : createPointer id V 100 .none with
  | mk res V1 =>
  rw [hr] at hcp
  simp only at hcp
  have hV1 : Inv V1 ∧ abs V1 = abs V := by subst hcp; exact ⟨Inv.gen hi _, rfl⟩
  cases res with
  | error e =>
    left
    have : autoCreate id V k = (.error e, V1) := by unfold autoCreate; simp [hr]
    rw [hE _ _ this]; exact ⟨e, rfl, hV1.2⟩
  | ok o =>
    cases ha : add id V1 k (optData o) with
    | error e =>
      left
      have : autoCreate id V k = (.error e, V1) := by unfold autoCreate; simp [hr, ha]
      rw [hE _ _ this]; exact ⟨e, rfl, hV1.2⟩
    | ok V2 =>
      have hac : autoCreate id V k = (.ok (), V2) := by unfold autoCreate; simp [hr, ha]
      rw [hO _ hac]
      obtain ⟨p, hp, hn, hdup, hlen, hvoc, halg, hV2⟩ := add_ok ha
      have hi2 := add_inv ha hV1.1
      have habs : abs V2 = abs V1 ++ [(k, p.vec)] := by
        obtain ⟨p', hp', hg⟩ := add_growsBy ha
        rw [hp] at hp'; injection hp' with hp'; subst hp'
        exact GrowsBy.abs hg hV1.1
      have hlast : (abs V2)[V1.keys.length]? = some (k, p.vec) := by
        rw [habs]
        have : (abs V1).length = V1.keys.length := by unfold Spec.abs; simp [hV1.1.len]
        rw [List.getElem?_append_right (by omega)]
        simp [this]
      have hget := getitem_stored id V2 hi2 _ k p.vec hlast
      -- the final look-up is the stored-key path of `getitem`
      have hlook : lookup id V2 k = .ok ⟨p.vec, some id, V2.alg⟩ := by
        have hc2 : contains V2 k = true := by
          rw [contains_iff V2 hi2, habs]; right; simp
        unfold getitem at hget
        simp only [ht, hsp, hc2, if_false, Bool.not_true, Bool.and_false, Bool.false_eq_true] at hget
        exact (Prod.mk.inj hget).1
      right
      refine ⟨⟨p.vec, some id, V2.alg⟩, hlook, hn, ?_, rfl, ?_⟩
      · simp only; rw [habs, hV1.2]
      · subst hV2; subst hcp; rfl

/-! auxiliary facts for the expression version -/

theorem growsBy_of_abs {V V' : Vocab} (hi : Inv V) (hm : Moves V V') (l : List (String × Vec))
    (h : abs V' = abs V ++ l) : GrowsBy V V' l := by
  obtain ⟨l', hl'⟩ := hm.grows
  have := GrowsBy.abs hl' hi
  rw [h] at this
  have := List.append_cancel_left this
  subst this
  exact hl'

theorem contains_after (V V1 : Vocab) (hi : Inv V) (hi1 : Inv V1) (t : String) (v : Vec)
    (h : abs V1 = abs V ++ [(t, v)]) (x : String) :
    contains V1 x = (contains V x || x == t) := by
  rw [Bool.eq_iff_iff, Bool.or_eq_true, contains_iff V1 hi1, contains_iff V hi, h]
  simp only [List.map_append, List.map_cons, List.map_nil, List.mem_append, List.mem_singleton, beq_iff_eq]
  constructor
  · rintro (h | h | h)
    · exact Or.inl (Or.inl h)
    · exact Or.inl (Or.inr h)
    · exact Or.inr h
  · rintro ((h | h) | h)
    · exact Or.inl h
    · exact Or.inr (Or.inl h)
    · exact Or.inr (Or.inr h)

theorem missing_cons_found (V : Vocab) (t : String) (ts : List String) (h : contains V t = true) :
    missingNames V (t :: ts) = missingNames V ts := by
  unfold missingNames
  simp [h]

theorem missing_cons_new (V V1 : Vocab) (t : String) (ts : List String) (h : contains V t = false)
    (hc : ∀ x, contains V1 x = (contains V x || x == t)) :
    missingNames V (t :: ts) = t :: missingNames V1 ts := by
  unfold missingNames
  rw [List.filter_cons]
  simp only [h, Bool.not_false, if_true]
  rw [List.eraseDups_cons, List.filter_filter]
  congr 2
  apply List.filter_congr
  intro x _
  rw [hc x]
  cases contains V x <;> simp

/-- **nonstrict_gains_exactly_missing_valid** (expressions).  Evaluating `t₁ + t₂ + …` in a
non-strict vocabulary stores the names that are neither special nor stored, in order of first
occurrence: all of them when the evaluation succeeds, an initial part of them when it raises. -/
theorem evalTerms_gains (id : Nat) (ts : List String) (hts : ∀ t ∈ ts, t ≠ "__tracebackhide__") :
    ∀ (V : Vocab) (acc : Option Vec), Inv V → V.strict = false →
    ∃ added, GrowsBy V (evalTerms id V acc ts).2 added ∧
      added.map Prod.fst <+: missingNames V ts ∧
      ((∃ v, (evalTerms id V acc ts).1 = .ok v) → added.map Prod.fst = missingNames V ts) ∧
      (∀ k ∈ added.map Prod.fst, nameOk k = true) := by
  induction ts with
  | nil =>
    intro V acc hi hs
    exact ⟨[], GrowsBy.refl V, by simp [missingNames], by simp [missingNames], by simp⟩
  | cons t ts ih =>
    intro V acc hi hs
    have ht : t ≠ "__tracebackhide__" := hts t (by simp)
    have hts' : ∀ t ∈ ts, t ≠ "__tracebackhide__" := fun u hu => hts u (by simp [hu])
    have hm := getitem_moves id V t
    cases hc : contains V t with
    | true =>
      have hp := getitem_pure id V t (Or.inr hc)
      rw [missing_cons_found V t ts hc]
      unfold evalTerms
      split
      · next e V1 h =>
        rw [h] at hp; simp only at hp; subst hp
        exact ⟨[], GrowsBy.refl _, List.nil_prefix, by simp, by simp⟩
      · next p V1 h =>
        rw [h] at hp; simp only at hp; subst hp
        exact ih hts' _ _ hi hs
    | false =>
      rcases getitem_nonstrict_gains id V hi hs t hc ht with ⟨e, he, habs⟩ | ⟨p, hp, hn, habs, _, _⟩
      · have hg := growsBy_of_abs hi hm [] (by simpa using habs)
        unfold evalTerms
        split
        · next e' V1 h =>
          rw [h] at hg
          exact ⟨[], hg, List.nil_prefix, by simp, by simp⟩
        · next p' V1 h => rw [h] at he; cases he
      · have hg := growsBy_of_abs hi hm [(t, p.vec)] habs
        have hi1 := hm.inv hi
        have hca := contains_after V _ hi hi1 t p.vec habs
        rw [missing_cons_new V _ t ts hc hca]
        unfold evalTerms
        split
        · next e' V1 h => rw [h] at hp; cases hp
        · next p' V1 h =>
          rw [h] at hg hi1
          simp only at hg hi1
          have hs1 : V1.strict = false := by rw [hg.1.2.1]; exact hs
          have hca' : ∀ x, contains V1 x = (contains V x || x == t) := by
            intro x; have := hca x; rw [h] at this; exact this
          obtain ⟨added, hga, hpre, hall, hnames⟩ := ih hts' V1
            (some (match acc with | some v => vadd v p'.vec | none => p'.vec)) hi1 hs1
          refine ⟨(t, p.vec) :: added, ?_, ?_, ?_, ?_⟩
          · exact GrowsBy.trans hg hga
          · simp only [List.map_cons]
            rw [h]
            exact List.prefix_cons_inj t |>.2 hpre
          · intro hok
            simp only [List.map_cons]
            rw [h]
            rw [hall hok]
          · intro k hk
            simp only [List.map_cons, List.mem_cons] at hk
            rcases hk with rfl | hk
            · exact hn
            · exact hnames k hk
/-- the same for `parse(text)` on a text of the fragment (and hence for `Name = text` items of `populate`) -/
theorem parse_nonstrict_gains (id : Nat) (V : Vocab) (hi : Inv V) (hs : V.strict = false) (text : String)
    (ts : List String) (hp : parseExpr text = .terms ts) (hts : ∀ t ∈ ts, t ≠ "__tracebackhide__") :
    ∃ added, GrowsBy V (parse id V text).2 added ∧
      added.map Prod.fst <+: missingNames V ts ∧
      ((∃ p, (parse id V text).1 = .ok p) → added.map Prod.fst = missingNames V ts) ∧
      (∀ k ∈ added.map Prod.fst, nameOk k = true) := by
  obtain ⟨added, hg, hpre, hall, hn⟩ := evalTerms_gains id ts hts V none hi hs
  refine ⟨added, ?_, hpre, ?_, hn⟩
  · unfold parse
    rw [hp]
    simp only
    split <;> next h => (rw [h] at hg; exact hg)
  · rintro ⟨p, hpok⟩
    apply hall
    unfold parse at hpok
    rw [hp] at hpok
    simp only at hpok
    split at hpok
    · cases hpok
    · next v V1 h => exact ⟨v, by rw [h]⟩

/-! ### mutation attempts -/

/-- Write attempts through arrays the vocabulary handed out (refused: read-only)
or was handed (a copy was stored) do not reach the store. -/
theorem mutate_noop (w : World) (x : Which) : step w (.mutate x) = (w, .done) := rfl

/-! ### the vocabulary a `create_subset` call hands out -/

theorem subsetLoop_result (id sid : Nat) (V S : Vocab) (keys : List String) (hS : Inv S) (S' : Vocab)
    (h : (subsetLoop id sid V S keys).1 = .ok S') : Inv S' ∧ S'.keys = S.keys ++ keys := by
  induction keys generalizing V S with
  | nil =>
    simp only [subsetLoop] at h
    cases h
    exact ⟨hS, by simp⟩
  | cons k ks ih =>
    unfold subsetLoop at h
    split at h
    · cases h
    · split at h
      · cases h
      · rename_i S1 hadd
        obtain ⟨hi, hk⟩ := ih _ S1 (add_inv hadd hS) h
        obtain ⟨_, _, _, hkeys, _⟩ := add_growsBy hadd
        refine ⟨hi, ?_⟩
        rw [hk, hkeys]
        simp

/-- **subset_consistent.**  Whatever the history of the parent and whatever keys are requested, a
subset that is handed out is a consistent vocabulary (keys, index table and matrix agree, no name
twice) and lists exactly the requested keys in the requested order. -/
theorem subset_consistent (id sid : Nat) (V : Vocab) (keys : List String) (S : Vocab)
    (h : (createSubset id sid V keys).1 = .ok S) : Inv S ∧ S.keys = keys := by
  have := subsetLoop_result id sid V (emptyLike V) keys (inv_initial _ rfl rfl rfl) S h
  simpa [emptyLike] using this

/-- **subset_rejects_repeated_key.**  A request that names a key twice is never answered with a subset. -/
theorem subset_rejects_repeated_key (id sid : Nat) (V : Vocab) (keys : List String) (hd : ¬ keys.Nodup) :
    ∃ e, (createSubset id sid V keys).1 = .error e := by
  cases h : (createSubset id sid V keys).1 with
  | error e => exact ⟨e, rfl⟩
  | ok S =>
    obtain ⟨hi, hk⟩ := subset_consistent id sid V keys S h
    exact absurd (hk ▸ hi.nodup) hd

/-! ### non-vacuity: concrete worlds and histories -/

def exV (strict : Bool) (gen : List Vec) : Vocab :=
  { dims := 4, strict := strict, alg := 0, maxSim := 1, identity := [1, 0, 0, 0],
    absorbing := some [1/2, 1/2, 1/2, 1/2], keys := [], key2idx := [], vecs := [], gen := gen }

def exW : World :=
  ⟨exV false [[1, 0, 0, 0], [1, 1, 0, 0], [0, 1, 0, 0], [0, 0, 1, 0]], exV true [[0, 0, 0, 1]]⟩

example : WInv exW := by
  intro x; cases x <;> exact inv_initial _ rfl rfl rfl

/-- a history with successes and failures of several kinds; the second
candidate is too similar to `A` and is skipped by `create_pointer` -/
def exOps : List Op :=
  [.parse .a "A + B", .getitem .a "a", .add .a "C" (.arr [1, 2, 3]), .add .a "A" (.arr [9, 9, 9, 9]),
   .add .a "A\n" (.arr [5, 6, 7, 8]), .add .a "E9_" (.arr [5, 6, 7, 8]), .getitem .b "Q", .populate .b "X; Y",
   .add .a "Zero" (.arr [0, 0, 0, 1]), .add .a "D" (.ptr ⟨[0, 0, 0, 1], some 1, 0⟩),
   .transformTo .a (some ["A", "Nope"]) (some true) [] []]

example : abs ((run exW exOps).get .a)
    = [("A", [1, 0, 0, 0]), ("B", [0, 1, 0, 0]), ("E9_", [5, 6, 7, 8])] := by decide +kernel
example : abs ((run exW exOps).get .b) = [("X", [0, 0, 0, 1])] := by decide +kernel
example : trace exW exOps =
    [.ptr (some ⟨[1, 1, 0, 0], some 0, 0⟩), .err .spaParse, .err .validation, .err .validation, .err .spaParse,
     .done, .err .key, .err .stopIteration, .err .spaParse, .err .validation, .err .stopIteration] := by
  decide +kernel

/-- non-vacuity of `subset_consistent` / `subset_rejects_repeated_key`: a subset is handed out for distinct
keys, and refused for `['A', 'B', 'A']` -/
example : ((createSubset 0 2 ((run exW exOps).get .a) ["B", "A"]).1.toOption.map (·.keys)) = some ["B", "A"] := by
  decide +kernel
example : (createSubset 0 2 ((run exW exOps).get .a) ["A", "B", "A"]).1.toOption.isNone = true := by
  decide +kernel

end C09

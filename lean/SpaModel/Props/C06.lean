/-
C06 — Symbolic expressions and pointer names mean what Python syntax says.
Property theorems only (model: SpaModel/Basic/C06.lean).  Everything is for trees
and expressions of arbitrary depth, arbitrary identifiers / number texts, and an
arbitrary algebra of values `Ops P N` and vocabulary `ρ`.

Clauses of the property statement:
* "printing any expression tree re-parses under Python's grammar to the same tree":
  `print_derives` (+ the table side conditions it rests on);
* "a symbolic expression evaluates to the vector obtained by applying the same
  operations with the same nesting": `symbol_tree_faithful`, `symbol_roundtrip`;
* "the automatically generated name (no ellipsis) parses to the same vector":
  `name_tree_faithful`, `name_roundtrip`.
Not proved (said in the evidence): unambiguity of the grammar (CPython's `ast.parse`
is the referee in the correspondence run); Python evaluating along its parse tree.
-/
import SpaModel.Basic.C06

namespace C06
open Impl Spec

/-- `omega` after unfolding the level names -/
macro "lvl_omega" : tactic => `(tactic|
  ((try simp only [L.or_, L.and_, L.not_, L.cmp, L.bor, L.bxor, L.band, L.shift, L.arith, L.term,
      L.unary, L.power, L.await, L.primary, L.atom] at *) <;> omega))

/-! ### side conditions on the GENERATED precedence table (`decide` on the table:
an edit of the table in the source breaks these) -/

/-- every key the printer looks up is present (the `getD` default is never used) -/
theorem key_present :
    ∀ k ∈ BOp.all.map BOp.sym ++ UOp.all.map (fun o => o.sym ++ "x")
        ++ ["x.attribute", "x(arguments...)", "(expressions...)", "==", "await x"],
      (Generated.precedence.lookup k).isSome = true := by decide

theorem bop_all_complete (o : BOp) : o ∈ BOp.all := by cases o <;> decide
theorem uop_all_complete (o : UOp) : o ∈ UOp.all := by cases o <;> decide

/-- the table's numbers are the grammar's levels (shifted by the three entries
`:=`, `lambda`, `if/else` below `or`) -/
theorem precB_eq (o : BOp) : precB o = levelB o + 3 := by cases o <;> decide
theorem precU_eq (o : UOp) : precU o = levelU o + 3 := by cases o <;> decide
theorem prec_attr_eq : precKey "x.attribute" = L.primary + 3 := by decide
theorem prec_call_eq : precKey "x(arguments...)" = L.primary + 3 := by decide
theorem prec_leaf_eq : precKey "(expressions...)" = L.atom + 3 := by decide

/-- the table orders the binary operators exactly as the grammar does -/
theorem table_order_iso (a b : BOp) : precB a < precB b ↔ levelB a < levelB b := by
  rw [precB_eq a, precB_eq b]; constructor <;> intro h <;> omega

/-- binary levels are strictly increasing from `or` to `*`, then unary, then `**` -/
theorem binary_levels_strictly_increasing :
    precB .or_ < precB .and_ ∧ precB .and_ < precU .not_ ∧ precU .not_ < precB .eq ∧
    precB .eq < precB .bor ∧ precB .bor < precB .bxor ∧ precB .bxor < precB .band ∧
    precB .band < precB .shl ∧ precB .shl < precB .add ∧ precB .add < precB .mul ∧
    precB .mul < precU .neg ∧ precU .neg < precB .pow := by decide

/-- `**` sits strictly between the unary level and the await level -/
theorem pow_between_unary_and_await :
    precU .pos < precB .pow ∧ precU .neg < precB .pow ∧ precU .inv < precB .pow ∧
    precB .pow < precKey "await x" ∧ precKey "await x" < precKey "x.attribute" := by decide

/-- all comparison operators share one level, and nothing else is on it -/
theorem comparisons_share_level (o : BOp) : cls o = .cmp ↔ precB o = precKey "==" := by
  cases o <;> decide

/-- operators of one grammar level have one table level -/
theorem same_level_same_prec (a b : BOp) : levelB a = levelB b ↔ precB a = precB b := by
  rw [precB_eq a, precB_eq b]; constructor <;> intro h <;> omega

/-- the test `self.value == "**"` singles out the power operator -/
theorem sym_pow (o : BOp) : (o.sym == "**") = decide (cls o = .pow) := by cases o <;> decide

theorem bop_sym_injective (a b : BOp) : a.sym = b.sym → a = b := by
  cases a <;> cases b <;> decide

theorem condL (o : BOp) :
    (o.sym == "**" || precB o == precKey "==") = !decide (cls o = .left) := by
  cases o <;> decide

theorem cls_left_level (o : BOp) (h : cls o = .left) : levelB o ≤ L.term := by
  cases o <;> simp [cls] at h <;> decide

theorem cls_cmp_level (o : BOp) (h : cls o = .cmp) : levelB o = L.cmp := by
  cases o <;> simp [cls] at h <;> rfl

theorem cls_pow (o : BOp) (h : cls o = .pow) : o = .pow := by
  cases o <;> simp [cls] at h <;> rfl

/-! ### the grammar: every level contains all higher ones -/

theorem Spec.Derives.downBy : ∀ (k : Nat) {l : Nat} {ts : List Tok} {t : Tree},
    Derives (l + k) ts t → Derives l ts t
  | 0, _, _, _, h => h
  | k + 1, l, _, _, h => Spec.Derives.downBy k (Derives.up (l := l + k) h)

theorem Spec.Derives.down {l l' : Nat} {ts : List Tok} {t : Tree}
    (h : Derives l ts t) (hle : l' ≤ l) : Derives l' ts t := by
  obtain ⟨k, rfl⟩ := Nat.exists_eq_add_of_le hle
  exact Derives.downBy k h

/-- an operand that the printer writes bare (`b = false`) only when its level is at
least the level the grammar needs there, and parenthesised otherwise, is derivable
at the needed level -/
theorem operand {c : Tree} {need : Nat} (ih : Derives (level c) (print c) c) (b : Bool)
    (hneed : need ≤ L.atom) (h : b = false → need ≤ level c) :
    Derives need (wrap b (print c)) c := by
  cases b with
  | false => exact ih.down (h rfl)
  | true => exact (Derives.group (ih.down (Nat.zero_le _))).down hneed

/-- the precedence a node claims is its grammar level, except for a negative number
leaf, which claims atom precedence but is `u_expr` text -/
theorem level_facts (c : Tree) :
    (isNegNum c = false ∧ prec c = level c + 3) ∨
    (isNegNum c = true ∧ prec c = L.atom + 3 ∧ level c = L.unary) := by
  cases c with
  | leaf k =>
    cases k with
    | id s => left; exact ⟨rfl, prec_leaf_eq⟩
    | num neg m =>
      cases neg
      · left; exact ⟨rfl, prec_leaf_eq⟩
      · right; exact ⟨rfl, prec_leaf_eq, rfl⟩
  | quoted ts u => left; exact ⟨rfl, prec_leaf_eq⟩
  | un o c => left; exact ⟨rfl, precU_eq o⟩
  | bin o l r => left; exact ⟨rfl, precB_eq o⟩
  | attr n c => left; exact ⟨rfl, prec_attr_eq⟩
  | call c => left; exact ⟨rfl, prec_call_eq⟩

theorem negNum_of_not_numLeaf (c : Tree) (h : isNumLeaf c = false) : isNegNum c = false := by
  cases c with
  | leaf k => cases k with
    | id s => rfl
    | num neg m => simp [isNumLeaf] at h
  | _ => rfl

/-! ### clause 3: the printed text is a derivation of exactly this tree -/

/-- **Main theorem (all trees, any depth).**  The text printed for a tree is, under
the reference grammar, an expression of the tree's own level whose parse tree is
this tree: parentheses are placed wherever the grammar needs them (right operand of a
left-associative operator of the same level, left operand of `**`, both operands of a
comparison, operand of a prefix operator of the same level, object of an attribute
access / call), never changing the tree. -/
theorem print_derives (t : Tree) (hwf : WF t) : Derives (level t) (print t) t := by
  induction t with
  | leaf k =>
    cases k with
    | id s => exact .ident s
    | num neg m =>
      cases neg
      · exact .number m
      · exact .negNumber m
  | quoted ts u _ => exact .quotedGroup hwf.1
  | un o c ih =>
    have ihc := ih hwf
    have hpu := precU_eq o
    cases o with
    | not_ =>
      refine Derives.not_ (operand ihc _ (by decide) ?_)
      intro hb
      have hb' : ¬ (precU .not_ ≥ prec c) := by simpa using hb
      simp only [levelU] at hpu
      rcases level_facts c with ⟨_, hp⟩ | ⟨_, _, hl⟩ <;> lvl_omega
    | pos =>
      refine Derives.unary .pos (by decide) (operand ihc _ (by decide) ?_)
      intro hb
      have hb' : ¬ (precU .pos ≥ prec c) := by simpa using hb
      simp only [levelU] at hpu
      rcases level_facts c with ⟨_, hp⟩ | ⟨_, _, hl⟩ <;> lvl_omega
    | neg =>
      refine Derives.unary .neg (by decide) (operand ihc _ (by decide) ?_)
      intro hb
      have hb' : ¬ (precU .neg ≥ prec c) := by simpa using hb
      simp only [levelU] at hpu
      rcases level_facts c with ⟨_, hp⟩ | ⟨_, _, hl⟩ <;> lvl_omega
    | inv =>
      refine Derives.unary .inv (by decide) (operand ihc _ (by decide) ?_)
      intro hb
      have hb' : ¬ (precU .inv ≥ prec c) := by simpa using hb
      simp only [levelU] at hpu
      rcases level_facts c with ⟨_, hp⟩ | ⟨_, _, hl⟩ <;> lvl_omega
  | bin o l r ihl ihr =>
    obtain ⟨wl, wr, wpow⟩ := hwf
    have ihl := ihl wl
    have ihr := ihr wr
    have hpb := precB_eq o
    show Derives (levelB o)
      (wrap (lhsNeedsParens o l) (print l) ++ Tok.bop o true :: wrap (rhsNeedsParens o r) (print r))
      (.bin o l r)
    cases hc : cls o with
    | left =>
      have hlev := cls_left_level o hc
      have hL : lhsNeedsParens o l = decide (precB o > prec l) := by
        simp [lhsNeedsParens, condL, hc]
      have hR : rhsNeedsParens o r = decide (precB o ≥ prec r) := by
        simp [rhsNeedsParens, sym_pow, hc]
      rw [hL, hR]
      refine Derives.binLeft o true hc (operand ihl _ (by lvl_omega) ?_) (operand ihr _ (by lvl_omega) ?_)
      · intro hb
        have hb' : ¬ (precB o > prec l) := by simpa using hb
        rcases level_facts l with ⟨_, hp⟩ | ⟨_, _, hl⟩ <;> lvl_omega
      · intro hb
        have hb' : ¬ (precB o ≥ prec r) := by simpa using hb
        rcases level_facts r with ⟨_, hp⟩ | ⟨_, _, hl⟩ <;> lvl_omega
    | cmp =>
      have hlev := cls_cmp_level o hc
      have hL : lhsNeedsParens o l = decide (precB o ≥ prec l) := by
        simp [lhsNeedsParens, condL, hc]
      have hR : rhsNeedsParens o r = decide (precB o ≥ prec r) := by
        simp [rhsNeedsParens, sym_pow, hc]
      rw [hL, hR, hlev]
      refine Derives.binCmp o true hc (operand ihl _ (by decide) ?_) (operand ihr _ (by decide) ?_)
      · intro hb
        have hb' : ¬ (precB o ≥ prec l) := by simpa using hb
        rcases level_facts l with ⟨_, hp⟩ | ⟨_, _, hl⟩ <;> lvl_omega
      · intro hb
        have hb' : ¬ (precB o ≥ prec r) := by simpa using hb
        rcases level_facts r with ⟨_, hp⟩ | ⟨_, _, hl⟩ <;> lvl_omega
    | pow =>
      have ho := cls_pow o hc
      subst ho
      have hL : lhsNeedsParens .pow l = decide (precB .pow ≥ prec l) := by
        simp [lhsNeedsParens, condL, hc]
      have hR : rhsNeedsParens .pow r = decide (precB .pow > prec r) := by
        simp [rhsNeedsParens, sym_pow, hc]
      rw [hL, hR]
      have hnl := wpow rfl
      simp only [levelB] at hpb
      refine Derives.binPow true (operand ihl _ (by decide) ?_) (operand ihr _ (by decide) ?_)
      · intro hb
        have hb' : ¬ (precB .pow ≥ prec l) := by simpa using hb
        rcases level_facts l with ⟨_, hp⟩ | ⟨hn, _, _⟩
        · lvl_omega
        · rw [hnl] at hn; cases hn
      · intro hb
        have hb' : ¬ (precB .pow > prec r) := by simpa using hb
        rcases level_facts r with ⟨_, hp⟩ | ⟨_, _, hl⟩ <;> lvl_omega
  | attr n c ih =>
    obtain ⟨wc, hnn⟩ := hwf
    refine Derives.attr n (operand (ih wc) _ (by decide) ?_)
    intro hb
    have hb' : ¬ (precKey "x.attribute" > prec c) := by simpa using hb
    have := prec_attr_eq
    rcases level_facts c with ⟨_, hp⟩ | ⟨hn, _, _⟩
    · lvl_omega
    · rw [negNum_of_not_numLeaf c hnn] at hn; cases hn
  | call c ih =>
    obtain ⟨wc, hnn⟩ := hwf
    refine Derives.call (operand (ih wc) _ (by decide) ?_)
    intro hb
    have hb' : ¬ (precKey "x(arguments...)" > prec c) := by simpa using hb
    have := prec_call_eq
    rcases level_facts c with ⟨_, hp⟩ | ⟨hn, _, _⟩
    · lvl_omega
    · rw [hnn] at hn; cases hn

/-- the whole text is an expression (lowest level), so it can be handed to `eval` -/
theorem print_is_expression (t : Tree) (hwf : WF t) : Derives L.or_ (print t) t :=
  (print_derives t hwf).down (Nat.zero_le _)

/-! ### the grammar discriminates: where parentheses are necessary

The relation `Derives` is not permissive: a binary operation standing where the
grammar requires a higher level can only be derived from a text with parentheses.
So the texts the defective printer produced (`A ** 2 ** 3` for `(A ** 2) ** 3`,
`A < B < C` for `(A < B) < C`) are *not* derivations of those trees. -/

/-- a binary operation can stand at a level above its own only if parenthesised -/
theorem compound_needs_parens {l : Nat} {ts : List Tok} {t : Tree} (h : Derives l ts t) :
    ∀ o a b, t = .bin o a b → levelB o < l → Tok.lp ∈ ts := by
  induction h with
  | ident s => intro o a b e; cases e
  | number m => intro o a b e; cases e
  | negNumber m => intro o a b e; cases e
  | group _ _ => intros; simp
  | quotedGroup _ _ => intro o a b e; cases e
  | up _ ih => intro o a b e hl; exact ih o a b e (by omega)
  | attr n _ _ => intro o a b e; cases e
  | call _ _ => intro o a b e; cases e
  | not_ _ _ => intro o a b e; cases e
  | unary o' hne _ _ => intro o a b e; cases e
  | binLeft o' sp hc _ _ _ _ => intro o a b e hl; cases e; omega
  | binCmp o' sp hc _ _ _ _ =>
    intro o a b e hl; cases e
    have := cls_cmp_level _ hc
    lvl_omega
  | binPow sp _ _ _ _ => intro o a b e hl; cases e; simp [levelB] at hl

/-- inversion: a derivation of a binary node either contains a parenthesis or splits at
the node's operator into derivations of the operands at the grammar's operand levels -/
theorem bin_inversion {l : Nat} {ts : List Tok} {t : Tree} (h : Derives l ts t) :
    ∀ o x y, t = .bin o x y → Tok.lp ∈ ts ∨
      ∃ ts₁ ts₂ sp, ts = ts₁ ++ Tok.bop o sp :: ts₂ ∧
        Derives (lhsLevel o) ts₁ x ∧ Derives (rhsLevel o) ts₂ y := by
  induction h with
  | ident s => intro o a b e; cases e
  | number m => intro o a b e; cases e
  | negNumber m => intro o a b e; cases e
  | group _ _ => intros; left; simp
  | quotedGroup _ _ => intro o a b e; cases e
  | up _ ih => intro o a b e; exact ih o a b e
  | attr n _ _ => intro o a b e; cases e
  | call _ _ => intro o a b e; cases e
  | not_ _ _ => intro o a b e; cases e
  | unary o' hne _ _ => intro o a b e; cases e
  | binLeft o' sp hc h1 h2 _ _ =>
    intro o a b e; cases e
    exact .inr ⟨_, _, sp, rfl, by simpa [lhsLevel, hc] using h1, by simpa [rhsLevel, hc] using h2⟩
  | binCmp o' sp hc h1 h2 _ _ =>
    intro o a b e; cases e
    exact .inr ⟨_, _, sp, rfl, by simpa [lhsLevel, hc] using h1, by simpa [rhsLevel, hc] using h2⟩
  | binPow sp h1 h2 _ _ =>
    intro o a b e; cases e
    exact .inr ⟨_, _, sp, rfl, by simpa [lhsLevel, cls] using h1, by simpa [rhsLevel, cls] using h2⟩

/-- **Parentheses are necessary** around a binary left operand of lower level than the
grammar requires there (any `**` or comparison under `**`, a comparison under a
comparison, `+` under `*`, …) … -/
theorem left_operand_needs_parens {l : Nat} {ts : List Tok} {o o' : BOp} {a b y : Tree}
    (h : Derives l ts (.bin o (.bin o' a b) y)) (hl : levelB o' < lhsLevel o) : Tok.lp ∈ ts := by
  rcases bin_inversion h o _ y rfl with hp | ⟨ts₁, ts₂, sp, rfl, h1, _⟩
  · exact hp
  · have := compound_needs_parens h1 o' a b rfl hl
    simp [this]

/-- … and around a binary right operand (`A - (B - C)`, `A < (B < C)`, `A ** (B + C)`, …) -/
theorem right_operand_needs_parens {l : Nat} {ts : List Tok} {o o' : BOp} {x a b : Tree}
    (h : Derives l ts (.bin o x (.bin o' a b))) (hl : levelB o' < rhsLevel o) : Tok.lp ∈ ts := by
  rcases bin_inversion h o x _ rfl with hp | ⟨ts₁, ts₂, sp, rfl, _, h2⟩
  · exact hp
  · have := compound_needs_parens h2 o' a b rfl hl
    simp [this]

/-- the text `A ** 2 ** 3` is not a derivation of `(A ** 2) ** 3` at any level -/
theorem pow_left_nested_text_rejected (l : Nat) (sp sp' : Bool) :
    ¬ Derives l [.id "A", .bop .pow sp, .num "2", .bop .pow sp', .num "3"]
        (.bin .pow (.bin .pow (.leaf (.id "A")) (.leaf (.num false "2"))) (.leaf (.num false "3"))) := by
  intro h
  have := left_operand_needs_parens h (by decide)
  revert this; cases sp <;> cases sp' <;> decide

/-- the chain `A < B < C` is not a derivation of `(A < B) < C` nor of `A < (B < C)` -/
theorem comparison_chain_text_rejected (l : Nat) :
    ¬ Derives l [.id "A", .bop .lt true, .id "B", .bop .lt true, .id "C"]
        (.bin .lt (.bin .lt (.leaf (.id "A")) (.leaf (.id "B"))) (.leaf (.id "C"))) ∧
    ¬ Derives l [.id "A", .bop .lt true, .id "B", .bop .lt true, .id "C"]
        (.bin .lt (.leaf (.id "A")) (.bin .lt (.leaf (.id "B")) (.leaf (.id "C")))) := by
  constructor
  · intro h
    have := left_operand_needs_parens h (by decide)
    revert this; decide
  · intro h
    have := right_operand_needs_parens h (by decide)
    revert this; decide

/-! ### the trees the library builds are well formed -/

theorem symTree_wf (e : E) (t : Tree) (he : EWF e) (h : symTree e = some t) :
    WF t ∧ isNumLeaf t = false := by
  induction e generalizing t with
  | sym s => simp [symTree] at h; subst h; exact ⟨trivial, rfl⟩
  | text ts u => simp [symTree] at h; subst h; exact ⟨he, rfl⟩
  | add a b iha ihb | sub a b iha ihb | mul a b iha ihb =>
    simp only [symTree, Option.bind_eq_bind, Option.bind_eq_some_iff] at h
    obtain ⟨ta, hta, tb, htb, h⟩ := h
    cases h
    exact ⟨⟨(iha ta he.1 hta).1, (ihb tb he.2 htb).1, by intro h; cases h⟩, rfl⟩
  | neg a ih | inv a ih =>
    simp only [symTree, Option.bind_eq_bind, Option.bind_eq_some_iff] at h
    obtain ⟨ta, hta, h⟩ := h
    cases h
    exact ⟨(ih ta he hta).1, rfl⟩
  | scaleR a x ih | divn a x ih =>
    simp only [symTree, Option.bind_eq_bind, Option.bind_eq_some_iff] at h
    obtain ⟨ta, hta, h⟩ := h
    cases h
    exact ⟨⟨(ih ta he hta).1, trivial, by intro h; cases h⟩, rfl⟩
  | scaleL x a ih =>
    simp only [symTree, Option.bind_eq_bind, Option.bind_eq_some_iff] at h
    obtain ⟨ta, hta, h⟩ := h
    cases h
    exact ⟨⟨trivial, (ih ta he hta).1, by intro h; cases h⟩, rfl⟩
  | pow a x ih => simp [symTree] at h
  | meth m a ih =>
    simp only [symTree, Option.bind_eq_bind, Option.bind_eq_some_iff] at h
    obtain ⟨ta, hta, h⟩ := h
    cases h
    exact ⟨⟨⟨(ih ta he hta).1, (ih ta he hta).2⟩, rfl⟩, rfl⟩
  | copy a ih => simp [symTree] at h

theorem nameTree_wf (e : E) (t : Tree) (h : nameTree e = some t) :
    WF t ∧ isNumLeaf t = false := by
  induction e generalizing t with
  | sym s => simp [nameTree] at h; subst h; exact ⟨trivial, rfl⟩
  | text ts u => simp [nameTree] at h
  | add a b iha ihb | mul a b iha ihb =>
    simp only [nameTree, Option.bind_eq_bind, Option.bind_eq_some_iff] at h
    obtain ⟨ta, hta, tb, htb, h⟩ := h
    cases h
    exact ⟨⟨(iha ta hta).1, (ihb tb htb).1, by intro h; cases h⟩, rfl⟩
  | sub a b iha ihb =>
    simp only [nameTree, Option.bind_eq_bind, Option.bind_eq_some_iff] at h
    obtain ⟨ta, hta, tb, htb, h⟩ := h
    cases h
    exact ⟨⟨(iha ta hta).1, (ihb tb htb).1, by intro h; cases h⟩, rfl⟩
  | neg a ih | inv a ih =>
    simp only [nameTree, Option.bind_eq_bind, Option.bind_eq_some_iff] at h
    obtain ⟨ta, hta, h⟩ := h
    cases h
    exact ⟨(ih ta hta).1, rfl⟩
  | scaleR a x ih | divn a x ih =>
    simp only [nameTree, Option.bind_eq_bind, Option.bind_eq_some_iff] at h
    obtain ⟨ta, hta, h⟩ := h
    cases h
    exact ⟨⟨(ih ta hta).1, trivial, by intro h; cases h⟩, rfl⟩
  | pow a x ih =>
    simp only [nameTree, Option.bind_eq_bind, Option.bind_eq_some_iff] at h
    obtain ⟨ta, hta, h⟩ := h
    cases h
    exact ⟨⟨(ih ta hta).1, trivial, fun _ => negNum_of_not_numLeaf _ (ih ta hta).2⟩, rfl⟩
  | scaleL x a ih =>
    simp only [nameTree, Option.bind_eq_bind, Option.bind_eq_some_iff] at h
    obtain ⟨ta, hta, h⟩ := h
    cases h
    exact ⟨⟨trivial, (ih ta hta).1, by intro h; cases h⟩, rfl⟩
  | meth m a ih =>
    simp only [nameTree, Option.bind_eq_bind, Option.bind_eq_some_iff] at h
    obtain ⟨ta, hta, h⟩ := h
    cases h
    exact ⟨⟨⟨(ih ta hta).1, (ih ta hta).2⟩, rfl⟩, rfl⟩
  | copy a ih => exact ih t h

/-! ### clause 1: symbols -/

variable {P N : Type}

/-- no `sym('...')` text of the expression denotes a bare number -/
def TextsArePointers (ops : Ops P N) (ρ : String → Option P) : E → Prop
  | .sym _ => True
  | .text _ u => ∀ x, evalTree ops ρ u ≠ some (.n x)
  | .add a b | .sub a b | .mul a b => TextsArePointers ops ρ a ∧ TextsArePointers ops ρ b
  | .neg a | .inv a | .scaleR a _ | .scaleL _ a | .divn a _ | .pow a _ | .meth _ a | .copy a =>
      TextsArePointers ops ρ a

theorem evalTree_numLeaf (ops : Ops P N) (ρ : String → Option P) (x : NumLit) :
    evalTree ops ρ (numLeaf x) = some (.n (numVal ops x)) := by
  obtain ⟨neg, m⟩ := x
  cases neg <;> simp [numLeaf, evalTree, numVal]

/-- **Symbols (all expressions, any depth, any algebra).**  Evaluating the tree a
symbolic expression has built gives exactly what the same operators and methods give
when applied, with the same nesting, to the vocabulary's pointers — including which
evaluations raise. -/
theorem symbol_tree_faithful (ops : Ops P N) (ρ : String → Option P) (e : E) (t : Tree)
    (hp : TextsArePointers ops ρ e) (h : symTree e = some t) :
    evalTree ops ρ t = (den ops ρ e).map Val.p := by
  induction e generalizing t with
  | sym s => simp [symTree] at h; subst h; simp [evalTree, den]
  | text ts u =>
    simp [symTree] at h; subst h
    simp only [evalTree, den]
    cases hu : evalTree ops ρ u with
    | none => simp
    | some v =>
      cases v with
      | p a => simp
      | n x => exact absurd hu (hp x)
  | add a b iha ihb | sub a b iha ihb | mul a b iha ihb =>
    simp only [symTree, Option.bind_eq_bind, Option.bind_eq_some_iff] at h
    obtain ⟨ta, hta, tb, htb, h⟩ := h
    cases h
    simp only [evalTree, den, iha ta hp.1 hta, ihb tb hp.2 htb]
    cases den ops ρ a <;> cases den ops ρ b <;> simp
  | neg a ih | inv a ih =>
    simp only [symTree, Option.bind_eq_bind, Option.bind_eq_some_iff] at h
    obtain ⟨ta, hta, h⟩ := h
    cases h
    simp only [evalTree, den, ih ta hp hta]
    cases den ops ρ a <;> simp
  | scaleR a x ih | divn a x ih =>
    simp only [symTree, Option.bind_eq_bind, Option.bind_eq_some_iff] at h
    obtain ⟨ta, hta, h⟩ := h
    cases h
    simp only [evalTree, den, ih ta hp hta, evalTree_numLeaf]
    cases den ops ρ a <;> simp
  | scaleL x a ih =>
    simp only [symTree, Option.bind_eq_bind, Option.bind_eq_some_iff] at h
    obtain ⟨ta, hta, h⟩ := h
    cases h
    simp only [evalTree, den, ih ta hp hta, evalTree_numLeaf]
    cases den ops ρ a <;> simp
  | pow a x ih => simp [symTree] at h
  | meth m a ih =>
    simp only [symTree, Option.bind_eq_bind, Option.bind_eq_some_iff] at h
    obtain ⟨ta, hta, h⟩ := h
    cases h
    simp only [methodCall, evalTree, den, ih ta hp hta]
    cases den ops ρ a <;> simp
  | copy a ih => simp [symTree] at h

/-- `eval(print(tree of e)) = ⟦e⟧`: the printed text of a symbolic expression is an
expression whose parse tree is the expression's tree (so Python, evaluating along its
parse tree, computes `evalTree` of it), and that value is the direct meaning. -/
theorem symbol_roundtrip (ops : Ops P N) (ρ : String → Option P) (e : E) (t : Tree)
    (he : EWF e) (hp : TextsArePointers ops ρ e) (h : symTree e = some t) :
    Derives L.or_ (print t) t ∧ evalTree ops ρ t = (den ops ρ e).map Val.p :=
  ⟨print_is_expression t (symTree_wf e t he h).1, symbol_tree_faithful ops ρ e t hp h⟩

/-- operations symbols do not have are refused, not mis-evaluated -/
theorem symbol_refusals (a : E) (x : NumLit) : symTree (.pow a x) = none ∧ symTree (.copy a) = none :=
  ⟨rfl, rfl⟩

/-! ### clause 2: automatic names -/

/-- **Names (all expressions, any depth, any algebra in which a defined left inverse
is also the right inverse).**  Whenever the operations on the pointers succeed with
value `v` and no ellipsis was inserted, evaluating the automatic name's tree gives
`v`.  (`linv()` writes `rinv` into the name: the hypothesis `hlinv` is what makes
that harmless; it holds for HRR and TVTB, VTB has no left inverse at all.) -/
theorem name_tree_faithful (ops : Ops P N) (ρ : String → Option P)
    (hlinv : ∀ p q, ops.meth "linv" p = some q → ops.meth "rinv" p = some q)
    (e : E) (t : Tree) (v : P)
    (h : nameTree e = some t) (hv : den ops ρ e = some v) :
    evalTree ops ρ t = some (.p v) := by
  induction e generalizing t v with
  | sym s => simp [nameTree] at h; subst h; simp_all [evalTree, den]
  | text ts u => simp [nameTree] at h
  | add a b iha ihb | mul a b iha ihb =>
    simp only [nameTree, Option.bind_eq_bind, Option.bind_eq_some_iff] at h
    obtain ⟨ta, hta, tb, htb, h⟩ := h
    cases h
    simp only [den, Option.bind_eq_bind, Option.bind_eq_some_iff] at hv
    obtain ⟨x, hx, y, hy, hv⟩ := hv
    simp [evalTree, iha ta x hta hx, ihb tb y htb hy, hv]
  | sub a b iha ihb =>
    simp only [nameTree, Option.bind_eq_bind, Option.bind_eq_some_iff] at h
    obtain ⟨ta, hta, tb, htb, h⟩ := h
    cases h
    simp only [den, Option.bind_eq_bind, Option.bind_eq_some_iff] at hv
    obtain ⟨x, hx, y, hy, hv⟩ := hv
    simp only [Ops.sub, Option.bind_eq_bind, Option.bind_eq_some_iff] at hv
    obtain ⟨ny, hny, hv⟩ := hv
    simp [evalTree, iha ta x hta hx, ihb tb y htb hy, hny, hv]
  | neg a ih | inv a ih =>
    simp only [nameTree, Option.bind_eq_bind, Option.bind_eq_some_iff] at h
    obtain ⟨ta, hta, h⟩ := h
    cases h
    simp only [den, Option.bind_eq_bind, Option.bind_eq_some_iff] at hv
    obtain ⟨x, hx, hv⟩ := hv
    simp [evalTree, ih ta x hta hx, hv]
  | scaleR a x ih | divn a x ih | pow a x ih =>
    simp only [nameTree, Option.bind_eq_bind, Option.bind_eq_some_iff] at h
    obtain ⟨ta, hta, h⟩ := h
    cases h
    simp only [den, Option.bind_eq_bind, Option.bind_eq_some_iff] at hv
    obtain ⟨y, hy, hv⟩ := hv
    simp [evalTree, ih ta y hta hy, evalTree_numLeaf, hv]
  | scaleL x a ih =>
    simp only [nameTree, Option.bind_eq_bind, Option.bind_eq_some_iff] at h
    obtain ⟨ta, hta, h⟩ := h
    cases h
    simp only [den, Option.bind_eq_bind, Option.bind_eq_some_iff] at hv
    obtain ⟨y, hy, hv⟩ := hv
    simp [evalTree, ih ta y hta hy, evalTree_numLeaf, hv]
  | meth m a ih =>
    simp only [nameTree, Option.bind_eq_bind, Option.bind_eq_some_iff] at h
    obtain ⟨ta, hta, h⟩ := h
    cases h
    simp only [den, Option.bind_eq_bind, Option.bind_eq_some_iff] at hv
    obtain ⟨y, hy, hv⟩ := hv
    simp only [methodCall, evalTree, ih ta y hta hy, nameOfMethod]
    by_cases hm : m = "linv"
    · subst hm
      simp [hlinv y v hv]
    · simp [hm, hv]
  | copy a ih => exact ih t v h hv

/-- the automatic name is an expression whose parse tree is the name's tree, and it
evaluates in the vocabulary to the pointer's own value -/
theorem name_roundtrip (ops : Ops P N) (ρ : String → Option P)
    (hlinv : ∀ p q, ops.meth "linv" p = some q → ops.meth "rinv" p = some q)
    (e : E) (t : Tree) (v : P) (h : nameTree e = some t) (hv : den ops ρ e = some v) :
    Derives L.or_ (print t) t ∧ evalTree ops ρ t = some (.p v) :=
  ⟨print_is_expression t (nameTree_wf e t h).1, name_tree_faithful ops ρ hlinv e t v h hv⟩

/-! ### non-vacuity: concrete trees, texts and a concrete algebra -/

namespace Ex

def A : Tree := .leaf (.id "A")
def B : Tree := .leaf (.id "B")
def two : Tree := .leaf (.num false "2")
def three : Tree := .leaf (.num false "3")

/-- `(A ** 2) ** 3` keeps its parentheses, `A ** (2 ** 3)` needs none -/
example : print (.bin .pow (.bin .pow A two) three)
    = [.lp, .id "A", .bop .pow true, .num "2", .rp, .bop .pow true, .num "3"] := by decide
example : print (.bin .pow A (.bin .pow two three))
    = [.id "A", .bop .pow true, .num "2", .bop .pow true, .num "3"] := by decide
/-- a nested comparison does not become a chain -/
example : print (.bin .lt (.bin .lt A B) A)
    = [.lp, .id "A", .bop .lt true, .id "B", .rp, .bop .lt true, .id "A"] := by decide
/-- `(A + B).normalized()` -/
example : print (methodCall "normalized" (.bin .add A B))
    = [.lp, .id "A", .bop .add true, .id "B", .rp, .dot, .id "normalized", .lp, .rp] := by decide

/-- the text of `sym('A+B')` is an expression denoting `A + B` … -/
theorem text_derives : Derives L.or_ [.id "A", .bop .add false, .id "B"] (.bin .add A B) :=
  Derives.down (l := L.arith)
    (Derives.binLeft (ts₁ := [.id "A"]) (ts₂ := [.id "B"]) .add false rfl
      ((Derives.ident "A").down (by decide)) ((Derives.ident "B").down (by decide)))
    (by decide)

/-- … so `sym('A+B') * sym.C * -2` satisfies every hypothesis of the theorems -/
def exE : E :=
  .scaleR (.mul (.text [.id "A", .bop .add false, .id "B"] (.bin .add A B)) (.sym "C")) ⟨true, "2"⟩

example : EWF exE := ⟨⟨text_derives, by decide⟩, trivial⟩

/-- a concrete algebra: integers, `+`, `*`, swap-free "binding" `2a+b` (not
commutative), methods defined only for `rinv`/`linv` (equal) and `normalized` -/
def exOps : Ops Int Int where
  add a b := some (a + b)
  neg a := some (-a)
  bind a b := some (2 * a + b)
  scale a x := some (a * x)
  divn a x := if x = 0 then none else some (a / x)
  inv a := some (-a)
  power a x := if x < 0 then none else some (a ^ x.toNat)
  meth m a := if m = "linv" ∨ m = "rinv" then some (a + 1) else if m = "normalized" then some 1 else none
  lit s := if s = "2" then 2 else if s = "3" then 3 else 0
  negN x := -x

def exEnv : String → Option Int := fun s =>
  if s = "A" then some 3 else if s = "B" then some 5 else if s = "C" then some 7 else none

example : ∀ p q, exOps.meth "linv" p = some q → exOps.meth "rinv" p = some q := by
  intro p q h; simpa [exOps] using h


theorem exE_texts : TextsArePointers exOps exEnv exE := by
  refine ⟨?_, trivial⟩
  intro x
  simp [evalTree, A, B, exEnv, exOps]

theorem exE_value : den exOps exEnv exE = some (-46) := by decide

/-- end to end: the symbolic expression prints as `(A+B) * C * -2`, that text is an
expression whose parse tree is the symbol's tree, and it evaluates to the direct value -/
example : ∃ t, symTree exE = some t ∧ str t = "(A+B) * C * -2" ∧ Derives L.or_ (print t) t ∧
    evalTree exOps exEnv t = some (.p (-46)) := by
  refine ⟨_, rfl, by decide, ?_⟩
  have h := symbol_roundtrip exOps exEnv exE _ ⟨⟨text_derives, by decide⟩, trivial⟩ exE_texts rfl
  refine ⟨h.1, ?_⟩
  rw [h.2, exE_value]
  rfl

/-- a pointer expression: `((A ** 2) ** 3).linv() - (-2 * (A + B).copy())` -/
def exN : E :=
  .sub (.meth "linv" (.pow (.pow (.sym "A") ⟨false, "2"⟩) ⟨false, "3"⟩))
       (.scaleL ⟨true, "2"⟩ (.copy (.add (.sym "A") (.sym "B"))))

example : (nameTree exN).map str = some "((A ** 2) ** 3).rinv() + -(-2 * (A + B))" := by decide
example : den exOps exEnv exN = some (3 ^ 6 + 1 + -(8 * -2)) := by decide

end Ex

end C06

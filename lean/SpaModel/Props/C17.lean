/-
C17 — sign and absolute value of a vector are total, consistent and multiplicative.
Property theorems only (model: SpaModel/Basic/C17.lean on top of SpaModel/Basic/Algebra.lean,
helper lemmas: SpaModel/Lemmas/C17.lean).

Everything is proved for every linearly ordered commutative ring `R` (ℚ, ℝ, the dyadic rationals the
floats are), every HRR dimensionality `k+1` and every VTB/TVTB sub-dimensionality `m ≥ 1`.

OPEN DEFECT (DESIGN 7.11, not repaired in /repo): `HrrAlgebra.sign` raises for vectors of even
dimensionality whose DC coefficient is 0 and whose Nyquist coefficient is not.  The model mirrors it
(`Impl.sign` returns `.error .nyquistWithoutDc`).  The clause "every vector has a sign" is therefore

    theorem sign_total (v : Vec k R) :
        ∃ s, Impl.sign v = .ok s ∧ Spec.HasClass v (Impl.cls s)          -- GOAL, FALSE TODAY

and what is proved is `sign_total_partial` (under `¬ Spec.DcZeroNyquistNonzero v`), the exact
characterisation `sign_raises_iff`, and `sign_total_fails` / `sign_total_fails_every_even_d`
(witness `[1, -1]`, resp. `δ₀ - δ₁` in every even dimensionality).
-/
import SpaModel.Lemmas.C17
import Mathlib.Algebra.Order.Ring.Int
import Mathlib.Tactic.FinCases

set_option linter.unusedSectionVars false
set_option linter.unusedVariables false

open Matrix

namespace C17
open Alg

/-! ## HRR -/
namespace Hrr
open Alg.Hrr
variable {R : Type*} [CommRing R] [LinearOrder R] [IsStrictOrderedRing R] {k : ℕ}

/-! ### the coefficients are multiplicative, hence so are their signs -/

/-- DC coefficient of a binding = product of the DC coefficients (all d) -/
theorem dc_bind (a b : Vec k R) :
    Alg.Hrr.Impl.dc (Alg.Hrr.Impl.bind a b) = Alg.Hrr.Impl.dc a * Alg.Hrr.Impl.dc b :=
  C17.HrrL.dc_bind a b

/-- Nyquist coefficient of a binding = product of the Nyquist coefficients (even d) -/
theorem nyq_bind (hk : Even (k + 1)) (a b : Vec k R) :
    Alg.Hrr.Impl.nyq (Alg.Hrr.Impl.bind a b) = Alg.Hrr.Impl.nyq a * Alg.Hrr.Impl.nyq b :=
  C17.HrrL.nyq_bind hk a b

/-- the documented Nyquist coefficient (0 for odd d) is multiplicative for every d -/
theorem nyqE_bind (a b : Vec k R) :
    Spec.nyqE (Alg.Hrr.Impl.bind a b) = Spec.nyqE a * Spec.nyqE b := by
  unfold Spec.nyqE
  split
  · simp
  · next h =>
    exact C17.HrrL.nyq_bind (Nat.even_iff.2 (by omega)) a b

/-- **sign of a binding = component-wise product of the operands' signs**, stated on the signs of the
two coefficients themselves (all d, all vectors — no exception) -/
theorem sign_bind (a b : Vec k R) :
    sgn (Alg.Hrr.Impl.dc (Alg.Hrr.Impl.bind a b)) = sgn (Alg.Hrr.Impl.dc a) * sgn (Alg.Hrr.Impl.dc b) ∧
    sgn (Spec.nyqE (Alg.Hrr.Impl.bind a b)) = sgn (Spec.nyqE a) * sgn (Spec.nyqE b) := by
  rw [C17.HrrL.dc_bind, nyqE_bind, sgn_mul, sgn_mul]; exact ⟨rfl, rfl⟩

/-! ### what `HrrAlgebra.sign` returns -/

theorem mkSign_sgn (x y : R) :
    Impl.mkSign (sgn x) (sgn y) =
      if x = 0 ∧ y ≠ 0 then .error .nyquistWithoutDc
      else .ok ⟨sgn x, if y = 0 then sgn x else sgn y⟩ := by
  unfold Impl.mkSign
  have hx := sgn_cases x
  have hy := sgn_cases y
  have hx0 := sgn_eq_zero_iff (x := x)
  have hy0 := sgn_eq_zero_iff (x := y)
  by_cases h : x = 0 ∧ y ≠ 0
  · rw [if_pos h, if_pos ⟨hx0.2 h.1, fun e => h.2 (hy0.1 e)⟩]
  · rw [if_neg h, if_neg (fun e => h ⟨hx0.1 e.1, fun e' => e.2 (hy0.2 e')⟩), if_neg (not_not.2 hx),
      if_neg (not_not.2 hy)]
    simp only [hy0]

/-- closed form of the modelled `sign` -/
theorem sign_eq (v : Vec k R) :
    Impl.sign v =
      if Alg.Hrr.Impl.dc v = 0 ∧ Spec.nyqE v ≠ 0 then .error .nyquistWithoutDc
      else .ok ⟨sgn (Alg.Hrr.Impl.dc v),
                if Spec.nyqE v = 0 then sgn (Alg.Hrr.Impl.dc v) else sgn (Spec.nyqE v)⟩ := by
  unfold Impl.sign Spec.nyqE
  exact mkSign_sgn _ _

/-- **sign_scale_invariant.**  The sign is decided by the SIGNS of the two coefficients: scaling a vector by
any positive factor, however small (the harness scales by 2⁻⁶⁰ … 2⁻⁶⁰⁰), leaves `sign` — value or refusal —
unchanged.  (No tolerance appears anywhere in the modelled rule.) -/
theorem sign_scale_invariant (c : R) (hc : 0 < c) (v : Vec k R) :
    Impl.sign (fun i => c * v i) = Impl.sign v := by
  have hny : Spec.nyqE (fun i => c * v i) = c * Spec.nyqE v := by
    unfold Spec.nyqE
    split
    · simp
    · exact C17.HrrL.nyq_smul c v
  have h1 : ∀ x : R, sgn (c * x) = sgn x := fun x => by rw [sgn_mul, sgn_pos hc]; simp
  have h2 : ∀ x : R, c * x = 0 ↔ x = 0 := fun x =>
    ⟨fun h => (mul_eq_zero.1 h).resolve_left hc.ne', fun h => by simp [h]⟩
  rw [sign_eq, sign_eq, C17.HrrL.dc_smul, hny]
  simp only [h1, h2, ne_eq]

/-- `sign` raises exactly on the class DC = 0, Nyquist ≠ 0 (and then with the first `ValueError`) -/
theorem sign_raises_iff (v : Vec k R) :
    (∃ e, Impl.sign v = .error e) ↔ Spec.DcZeroNyquistNonzero v := by
  rw [sign_eq]; unfold Spec.DcZeroNyquistNonzero
  split
  · next h => exact ⟨fun _ => h, fun _ => ⟨_, rfl⟩⟩
  · next h => exact ⟨fun ⟨e, he⟩ => (by cases he), fun h' => absurd h' h⟩

theorem sign_error_kind (v : Vec k R) (e : SignErr) (h : Impl.sign v = .error e) :
    e = .nyquistWithoutDc := by
  rw [sign_eq] at h
  split at h
  · cases h; rfl
  · cases h

/-- the predicates of the returned sign are the documented conditions on the coefficients -/
theorem sign_predicates (v : Vec k R) (s : Sign) (h : Impl.sign v = .ok s) :
    (Impl.isPositive s = true ↔ 0 < Alg.Hrr.Impl.dc v ∧ 0 ≤ Spec.nyqE v) ∧
    (Impl.isNegative s = true ↔ Alg.Hrr.Impl.dc v < 0 ∨ Spec.nyqE v < 0) ∧
    (Impl.isZero s = true ↔ Alg.Hrr.Impl.dc v = 0 ∧ Spec.nyqE v = 0) ∧
    Impl.isIndefinite s = false := by
  rw [sign_eq] at h
  split at h
  · cases h
  · next hne =>
    injection h with h
    subst h
    rcases lt_trichotomy (Alg.Hrr.Impl.dc v) 0 with hd | hd | hd <;>
    rcases lt_trichotomy (Spec.nyqE v) 0 with hn | hn | hn <;>
    simp_all [Impl.isPositive, Impl.isNegative, Impl.isZero, Impl.isIndefinite, sgn_pos, sgn_neg, sgn_zero,
      le_of_lt, not_lt_of_gt, ne_of_gt, ne_of_lt, not_le_of_gt]

/-- the four predicates of ANY `HrrSign` are mutually exclusive and exhaustive -/
theorem predicates_exactly_one (s : Sign) :
    (Impl.isPositive s).toNat + (Impl.isNegative s).toNat + (Impl.isZero s).toNat
      + (Impl.isIndefinite s).toNat = 1 := by
  unfold Impl.isZero Impl.isPositive Impl.isNegative Impl.isIndefinite
  by_cases h1 : s.dc > 0 <;> by_cases h2 : s.nyq ≥ 0 <;> by_cases h3 : s.dc < 0 <;> by_cases h4 : s.nyq < 0 <;>
    simp [h1, h2, h3, h4] <;> omega

/-- the documented classes are mutually exclusive and exhaustive on all vectors -/
theorem spec_class_exists_unique (v : Vec k R) : ∃! c, Spec.HasClass v c := by
  rcases lt_trichotomy (Alg.Hrr.Impl.dc v) 0 with hd | hd | hd <;>
  rcases lt_trichotomy (Spec.nyqE v) 0 with hn | hn | hn
  · exact ⟨.negative, Or.inl hd, fun c hc => by cases c <;> simp_all [Spec.HasClass, not_lt_of_gt, ne_of_lt]⟩
  · exact ⟨.negative, Or.inl hd, fun c hc => by cases c <;> simp_all [Spec.HasClass, not_lt_of_gt, ne_of_lt]⟩
  · exact ⟨.negative, Or.inl hd, fun c hc => by cases c <;> simp_all [Spec.HasClass, not_lt_of_gt, ne_of_lt]⟩
  · exact ⟨.negative, Or.inr hn, fun c hc => by cases c <;> simp_all [Spec.HasClass, not_lt_of_gt, ne_of_lt, not_le_of_gt]⟩
  · exact ⟨.zero, ⟨hd, hn⟩, fun c hc => by cases c <;> simp_all [Spec.HasClass]⟩
  · exact ⟨.indefinite, ⟨hd, hn⟩, fun c hc => by cases c <;> simp_all [Spec.HasClass, not_lt_of_gt, ne_of_gt]⟩
  · exact ⟨.negative, Or.inr hn, fun c hc => by cases c <;> simp_all [Spec.HasClass, not_lt_of_gt, ne_of_lt, not_le_of_gt]⟩
  · exact ⟨.positive, ⟨hd, hn.ge⟩, fun c hc => by cases c <;> simp_all [Spec.HasClass, not_lt_of_gt, ne_of_gt]⟩
  · exact ⟨.positive, ⟨hd, hn.le⟩, fun c hc => by cases c <;> simp_all [Spec.HasClass, not_lt_of_gt, ne_of_gt]⟩

/-- the class read off the returned sign is the documented class of the vector -/
theorem sign_class (v : Vec k R) (s : Sign) (h : Impl.sign v = .ok s) : Spec.HasClass v (Impl.cls s) := by
  obtain ⟨hp, hn, hz, hi⟩ := sign_predicates v s h
  have h1 := predicates_exactly_one s
  unfold Impl.cls
  split
  · next c => exact hp.1 c
  · split
    · next c => exact hn.1 c
    · split
      · next c => rw [hi] at c; cases c
      · next c1 c2 c3 =>
        have : Impl.isZero s = true := by
          simp only [Impl.isZero, c1, c2, c3]; rfl
        exact hz.1 this

/-- PROVED PART of totality: outside the class DC = 0 ∧ Nyquist ≠ 0 every vector has a sign, and its
class is the documented one. -/
theorem sign_total_partial (v : Vec k R) (hv : ¬ Spec.DcZeroNyquistNonzero v) :
    ∃ s, Impl.sign v = .ok s ∧ Spec.HasClass v (Impl.cls s) := by
  have : ∃ s, Impl.sign v = .ok s := by
    rw [sign_eq]
    unfold Spec.DcZeroNyquistNonzero at hv
    rw [if_neg hv]; exact ⟨_, rfl⟩
  obtain ⟨s, hs⟩ := this
  exact ⟨s, hs, sign_class v s hs⟩

/-- odd dimensionalities are not affected -/
theorem sign_total_odd (hk : (k + 1) % 2 = 1) (v : Vec k R) :
    ∃ s, Impl.sign v = .ok s ∧ Spec.HasClass v (Impl.cls s) :=
  sign_total_partial v (by unfold Spec.DcZeroNyquistNonzero Spec.nyqE; simp [hk])

/-- the failing class is not empty in any even dimensionality: `δ₀ - δ₁` -/
theorem sign_total_fails_every_even_d (hk : Even (k + 1)) :
    ∃ v : Vec k R, Impl.sign v = .error .nyquistWithoutDc := by
  obtain ⟨k', rfl⟩ : ∃ k', k = k' + 1 := by
    cases k with
    | zero => exact absurd hk (by decide)
    | succ n => exact ⟨n, rfl⟩
  refine ⟨fun i => Impl.delta (R := R) (k'+1) 0 i - Impl.delta (R := R) (k'+1) 1 i, ?_⟩
  rw [sign_eq, if_pos]
  have hodd : ¬ (k' + 1 + 1) % 2 = 1 := by
    have := Nat.even_iff.1 hk; omega
  constructor
  · simp only [Alg.Hrr.Impl.dc, Finset.sum_sub_distrib]
    have h0 := C17.HrrL.dc_delta (R := R) (k := k'+1) 0
    have h1 := C17.HrrL.dc_delta (R := R) (k := k'+1) 1
    simp only [Alg.Hrr.Impl.dc] at h0 h1
    rw [h0, h1]; simp
  · unfold Spec.nyqE
    rw [if_neg hodd]
    simp only [Alg.Hrr.Impl.nyq, mul_sub, Finset.sum_sub_distrib]
    have h0 := C17.HrrL.nyq_delta (R := R) (k := k'+1) 0
    have h1 := C17.HrrL.nyq_delta (R := R) (k := k'+1) 1
    simp only [Alg.Hrr.Impl.nyq] at h0 h1
    rw [h0, h1]
    simp only [Fin.val_zero, Fin.val_one, pow_zero, pow_one, sub_neg_eq_add]
    exact (by positivity : (0 : R) < 1 + 1).ne'

/-- **totality is FALSE for the code as it is**: `HrrAlgebra().sign(np.array([1., -1.]))` raises
(witness of DESIGN 7.11; replayed against the implementation on every run of the check). -/
theorem sign_total_fails : ¬ (∀ v : Vec 1 R, ∃ s, Impl.sign v = .ok s) := by
  intro h
  obtain ⟨s, hs⟩ := h ![1, -1]
  have : (∃ e, Impl.sign (![1, -1] : Vec 1 R) = .error e) := by
    rw [sign_raises_iff]
    refine ⟨by simp [Alg.Hrr.Impl.dc, Fin.sum_univ_two], ?_⟩
    unfold Spec.nyqE
    rw [if_neg (by decide)]
    simp [Alg.Hrr.Impl.nyq, Fin.sum_univ_two]
  obtain ⟨e, he⟩ := this
  rw [hs] at he; cases he

/-! ### stored attributes -/

/-- invariants of every constructed `HrrSign` -/
def Valid (s : Sign) : Prop :=
  (s.dc = 0 ∧ s.nyq = 0) ∨ ((s.dc = 1 ∨ s.dc = -1) ∧ (s.nyq = 1 ∨ s.nyq = -1))

theorem sign_valid (v : Vec k R) (s : Sign) (h : Impl.sign v = .ok s) : Valid s := by
  rw [sign_eq] at h
  split at h
  · cases h
  · next hne =>
    injection h with h; subst h
    unfold Valid
    rcases lt_trichotomy (Alg.Hrr.Impl.dc v) 0 with hd | hd | hd <;>
    rcases lt_trichotomy (Spec.nyqE v) 0 with hn | hn | hn <;>
    simp_all [sgn_pos, sgn_neg, sgn_zero, ne_of_gt, ne_of_lt]

/-- for odd d the stored Nyquist slot repeats the DC slot -/
theorem sign_odd_slots (hk : (k + 1) % 2 = 1) (v : Vec k R) (s : Sign) (h : Impl.sign v = .ok s) :
    s.nyq = s.dc := by
  rw [sign_eq] at h
  have : Spec.nyqE v = 0 := by simp [Spec.nyqE, hk]
  simp only [this, ne_eq, not_true_eq_false, and_false, if_false, if_true] at h
  injection h with h; subst h; rfl

/-- **the stored attributes multiply** when d is odd or no Nyquist coefficient vanishes -/
theorem sign_bind_stored (a b : Vec k R) (sa sb : Sign)
    (hcase : (k + 1) % 2 = 1 ∨ (Alg.Hrr.Impl.nyq a ≠ 0 ∧ Alg.Hrr.Impl.nyq b ≠ 0))
    (ha : Impl.sign a = .ok sa) (hb : Impl.sign b = .ok sb) :
    Impl.sign (Alg.Hrr.Impl.bind a b) = .ok ⟨sa.dc * sb.dc, sa.nyq * sb.nyq⟩ := by
  rw [sign_eq] at ha hb ⊢
  rw [C17.HrrL.dc_bind, nyqE_bind]
  rcases hcase with hodd | ⟨hna, hnb⟩
  · have ea : Spec.nyqE a = 0 := by simp [Spec.nyqE, hodd]
    have eb : Spec.nyqE b = 0 := by simp [Spec.nyqE, hodd]
    simp only [ea, eb, ne_eq, not_true_eq_false, and_false, if_false, if_true, mul_zero] at ha hb ⊢
    injection ha with ha; injection hb with hb
    subst ha; subst hb
    simp [sgn_mul]
  · by_cases hodd : (k + 1) % 2 = 1
    · have ea : Spec.nyqE a = 0 := by simp [Spec.nyqE, hodd]
      have eb : Spec.nyqE b = 0 := by simp [Spec.nyqE, hodd]
      simp only [ea, eb, ne_eq, not_true_eq_false, and_false, if_false, if_true, mul_zero] at ha hb ⊢
      injection ha with ha; injection hb with hb
      subst ha; subst hb
      simp [sgn_mul]
    · have ea : Spec.nyqE a = Alg.Hrr.Impl.nyq a := by simp [Spec.nyqE, hodd]
      have eb : Spec.nyqE b = Alg.Hrr.Impl.nyq b := by simp [Spec.nyqE, hodd]
      rw [ea] at ha; rw [eb] at hb; rw [ea, eb]
      have hda : Alg.Hrr.Impl.dc a ≠ 0 := by
        intro h0; rw [if_pos ⟨h0, hna⟩] at ha; cases ha
      have hdb : Alg.Hrr.Impl.dc b ≠ 0 := by
        intro h0; rw [if_pos ⟨h0, hnb⟩] at hb; cases hb
      rw [if_neg (fun h => hda h.1), if_neg hna] at ha
      rw [if_neg (fun h => hdb h.1), if_neg hnb] at hb
      injection ha with ha; injection hb with hb
      subst ha; subst hb
      rw [if_neg (fun h => mul_ne_zero hda hdb h.1), if_neg (mul_ne_zero hna hnb), sgn_mul, sgn_mul]

/-- …and they do NOT multiply in general once a Nyquist coefficient vanishes (why the product law is
stated on the coefficient signs): `[1,1]` has stored sign (1,1), `[0,-1]` has (-1,1), their binding
`[-1,-1]` has (-1,-1) ≠ (-1·1, 1·1). -/
theorem stored_attributes_need_nonzero_nyquist :
    Impl.sign (![1, 1] : Vec 1 ℤ) = .ok ⟨1, 1⟩ ∧ Impl.sign (![0, -1] : Vec 1 ℤ) = .ok ⟨-1, 1⟩ ∧
    Impl.sign (Alg.Hrr.Impl.bind (![1, 1] : Vec 1 ℤ) ![0, -1]) = .ok ⟨-1, -1⟩ := by
  refine ⟨?_, ?_, ?_⟩ <;> decide

/-! ### sign vectors and the absolute vector (definite non-zero signs) -/

/-- position of the unit entry in `to_vector`: 1 when the slots disagree, else 0 -/
def unitPos (k : ℕ) (s : Sign) : Fin (k + 1) := if s.dc * s.nyq < 0 then 1 else 0

theorem toVector_eq (s : Sign) (h : s.dc ≠ 0) :
    Impl.toVector (R := R) k s = fun i => (s.dc : R) * Impl.delta k (unitPos k s) i := by
  unfold Impl.toVector unitPos
  rw [if_neg h]
  by_cases hc : s.dc * s.nyq < 0
  · simp only [hc, if_true]
    rw [C17.HrrL.identity_eq_delta, C17.HrrL.roll1_delta, zero_add]
  · simp only [hc, if_false]
    rw [C17.HrrL.identity_eq_delta]

theorem cast_mul_self (s : Sign) (hv : Valid s) (h : s.dc ≠ 0) : ((s.dc : ℤ) : R) * ((s.dc : ℤ) : R) = 1 := by
  rcases hv with ⟨h0, _⟩ | ⟨h1 | h1, _⟩
  · exact absurd h0 h
  · rw [h1]; simp
  · rw [h1]; simp

/-- the sign vector carries the DC sign it stands for -/
theorem dc_toVector (s : Sign) (h : s.dc ≠ 0) :
    Alg.Hrr.Impl.dc (Impl.toVector (R := R) k s) = (s.dc : R) := by
  rw [toVector_eq s h, C17.HrrL.dc_smul, C17.HrrL.dc_delta, mul_one]

/-- …and, for even d, the Nyquist sign -/
theorem nyq_toVector (hk : Even (k + 1)) (s : Sign) (hv : Valid s) (h : s.dc ≠ 0) :
    Alg.Hrr.Impl.nyq (Impl.toVector (R := R) k s) = (s.nyq : R) := by
  obtain ⟨k', rfl⟩ : ∃ k', k = k' + 1 := by
    cases k with
    | zero => exact absurd hk (by decide)
    | succ n => exact ⟨n, rfl⟩
  rw [toVector_eq s h, C17.HrrL.nyq_smul, C17.HrrL.nyq_delta]
  obtain ⟨d, n⟩ := s
  rcases hv with ⟨h0, _⟩ | ⟨h1 | h1, h2 | h2⟩
  · exact absurd h0 h
  all_goals (simp only at h1 h2; subst h1; subst h2; simp [unitPos])

/-- a vector with positive DC and non-negative Nyquist coefficient gets the sign (1, 1) -/
theorem sign_of_pos (w : Vec k R) (hd : 0 < Alg.Hrr.Impl.dc w) (hn : 0 ≤ Spec.nyqE w) :
    Impl.sign w = .ok ⟨1, 1⟩ := by
  rw [sign_eq, if_neg (fun h => hd.ne' h.1), sgn_pos hd]
  rcases hn.eq_or_lt with h0 | hpos
  · rw [if_pos h0.symm]
  · rw [if_neg hpos.ne', sgn_pos hpos]

theorem nyqE_invert (v : Vec k R) : Spec.nyqE (Alg.Hrr.Impl.invert v) = Spec.nyqE v := by
  unfold Spec.nyqE
  split
  · rfl
  · next h => exact C17.HrrL.nyq_invert (Nat.even_iff.2 (by omega)) v

/-- closed form of `abs` for a definite non-zero sign: a signed cyclic shift of `v` -/
theorem abs_eq (v : Vec k R) (s : Sign) (hs : Impl.sign v = .ok s) (h : s.dc ≠ 0) :
    Impl.abs v = .ok (fun i => (s.dc : R) * v (i + unitPos k s)) := by
  unfold Impl.abs
  rw [hs]
  simp only
  congr 1
  rw [toVector_eq s h, C17.HrrL.invert_smul_fun, C17.HrrL.bind_smul_fun, C17.HrrL.invert_delta,
    C17.HrrL.bind_delta]
  funext i
  simp [sub_neg_eq_add]

/-- **the absolute vector has positive sign** (definite non-zero sign) -/
theorem abs_sign_positive (v w : Vec k R) (s : Sign) (hs : Impl.sign v = .ok s) (h : s.dc ≠ 0)
    (hw : Impl.abs v = .ok w) :
    Impl.sign w = .ok ⟨1, 1⟩ ∧ Impl.isPositive ⟨1, 1⟩ = true ∧ Spec.HasClass w .positive := by
  have hval := sign_valid v s hs
  have hw' : w = Alg.Hrr.Impl.bind (Alg.Hrr.Impl.invert (Impl.toVector k s)) v := by
    unfold Impl.abs at hw; rw [hs] at hw; injection hw with hw; exact hw.symm
  have hs' := hs
  rw [sign_eq] at hs'
  split at hs'
  · cases hs'
  · next hne =>
    injection hs' with hs'
    have hdcv : Alg.Hrr.Impl.dc v ≠ 0 := by
      intro e; apply h; rw [← hs']; simp [e, sgn_zero]
    have hd : 0 < Alg.Hrr.Impl.dc w := by
      rw [hw', C17.HrrL.dc_bind, C17.HrrL.dc_invert, dc_toVector s h, ← hs']
      exact sgn_mul_self_pos hdcv
    have hn : 0 ≤ Spec.nyqE w := by
      rw [hw', nyqE_bind, nyqE_invert]
      unfold Spec.nyqE
      split
      · simp
      · next hodd =>
        rw [nyq_toVector (Nat.even_iff.2 (by omega)) s hval h, ← hs']
        have e : Spec.nyqE v = Alg.Hrr.Impl.nyq v := by simp [Spec.nyqE, hodd]
        simp only [e]
        by_cases hz : Alg.Hrr.Impl.nyq v = 0
        · simp [hz]
        · simp only [hz, if_false]; exact (sgn_mul_self_pos hz).le
    exact ⟨sign_of_pos w hd hn, rfl, hd, hn⟩

/-- **taking the absolute vector again changes nothing** -/
theorem abs_abs (v w : Vec k R) (s : Sign) (hs : Impl.sign v = .ok s) (h : s.dc ≠ 0)
    (hw : Impl.abs v = .ok w) : Impl.abs w = .ok w := by
  have h1 := (abs_sign_positive v w s hs h hw).1
  rw [abs_eq w ⟨1, 1⟩ h1 (by decide)]
  congr 1
  funext i
  simp [unitPos]

/-- **binding the sign's vector back onto the absolute vector reconstructs the original** -/
theorem bind_signVec_abs (v w : Vec k R) (s : Sign) (hs : Impl.sign v = .ok s) (h : s.dc ≠ 0)
    (hw : Impl.abs v = .ok w) : Alg.Hrr.Impl.bind (Impl.toVector k s) w = v := by
  rw [abs_eq v s hs h] at hw
  injection hw with hw
  subst hw
  rw [toVector_eq s h, C17.HrrL.bind_smul_fun, C17.HrrL.bind_delta]
  funext i
  simp only [sub_add_cancel]
  rw [← mul_assoc, cast_mul_self s (sign_valid v s hs) h, one_mul]

/-- zero sign: the absolute vector is the zero vector -/
theorem abs_of_zero_sign (v : Vec k R) (s : Sign) (hs : Impl.sign v = .ok s) (h : s.dc = 0) :
    Impl.abs v = .ok (fun _ => 0) := by
  unfold Impl.abs
  rw [hs]
  simp only
  congr 1
  funext i
  simp [Impl.toVector, h, Alg.Hrr.Impl.zero, Alg.Hrr.Impl.invert, Alg.Hrr.Impl.bind]

/-- `abs` raises exactly where `sign` does -/
theorem abs_raises_iff (v : Vec k R) : (∃ e, Impl.abs v = .error e) ↔ Spec.DcZeroNyquistNonzero v := by
  rw [← sign_raises_iff]
  unfold Impl.abs
  cases hs : Impl.sign v with
  | error e => simp
  | ok s => simp

/-- non-vacuity: a vector of mixed sign (1, -1) in d = 2 and its absolute vector -/
theorem example_mixed_sign :
    Impl.sign (![1, 2] : Vec 1 ℤ) = .ok ⟨1, -1⟩ ∧ Impl.abs (![1, 2] : Vec 1 ℤ) = .ok ![2, 1] := by
  have h : Impl.sign (![1, 2] : Vec 1 ℤ) = .ok ⟨1, -1⟩ := by decide
  refine ⟨h, ?_⟩
  rw [abs_eq _ _ h (by decide)]
  congr 1
  funext i
  fin_cases i <;> simp [unitPos]

end Hrr
/-! ## classification of a real square matrix (shared by VTB and TVTB) -/
namespace Mat
variable {R : Type*} [CommRing R] [LinearOrder R] [IsStrictOrderedRing R]

/-- the documented classes are mutually exclusive and exhaustive for every matrix of size ≥ 1, and the
code's branch order returns exactly that class -/
theorem class_exists_unique {n : Type*} [Fintype n] [DecidableEq n] [Nonempty n] (M : Matrix n n R) :
    ∃! c, Def.HasClass M c :=
  ⟨Generic.cls (Def.classify M), (DefL.hasClass_iff M _).2 rfl, fun c hc => ((DefL.hasClass_iff M c).1 hc).symm⟩

theorem classify_valid {n : Type*} [Fintype n] [DecidableEq n] (M : Matrix n n R) :
    Generic.valid (Def.classify M) = true := by
  rcases DefL.classify_values M with h | h | h | h <;> rw [h] <;> rfl

/-! ### the class does not depend on the scale -/
section Scale
variable {n : Type*} [Fintype n]
open Def

theorem quad_smul (c : R) (M : Matrix n n R) (x : n → R) : quad (c • M) x = c * quad M x := by
  unfold quad
  rw [Matrix.smul_mulVec, dotProduct_smul, smul_eq_mul]

theorem posDef_smul {c : R} (hc : 0 < c) (M : Matrix n n R) : PosDef (c • M) ↔ PosDef M := by
  unfold PosDef
  constructor
  · intro h x hx
    have := h x hx
    rw [quad_smul] at this
    exact (mul_pos_iff_of_pos_left hc).1 this
  · intro h x hx
    rw [quad_smul]
    exact mul_pos hc (h x hx)

theorem negDef_smul {c : R} (hc : 0 < c) (M : Matrix n n R) : NegDef (c • M) ↔ NegDef M := by
  unfold NegDef
  constructor
  · intro h x hx
    have := h x hx
    rw [quad_smul] at this
    by_contra hn
    exact absurd this (not_lt.2 (mul_nonneg hc.le (not_lt.1 hn)))
  · intro h x hx
    rw [quad_smul]
    exact mul_neg_of_pos_of_neg hc (h x hx)

theorem smul_eq_zero_iff_of_pos {c : R} (hc : 0 < c) (M : Matrix n n R) : c • M = 0 ↔ M = 0 := by
  constructor
  · intro h
    ext i j
    have := congrFun (congrFun h i) j
    simp only [Matrix.smul_apply, smul_eq_mul, Matrix.zero_apply] at this
    exact (mul_eq_zero.1 this).resolve_left hc.ne'
  · intro h; simp [h]

theorem isSymm_smul {c : R} (hc : 0 < c) (M : Matrix n n R) : (c • M).IsSymm ↔ M.IsSymm := by
  constructor
  · intro h
    ext i j
    have := congrFun (congrFun h i) j
    simp only [Matrix.transpose_apply, Matrix.smul_apply, smul_eq_mul] at this
    exact mul_left_cancel₀ hc.ne' this
  · intro h
    exact h.smul c

theorem classify_congr {M M' : Matrix n n R} (h0 : M.IsSymm ↔ M'.IsSymm) (h1 : PosDef M ↔ PosDef M')
    (h2 : NegDef M ↔ NegDef M') (h3 : M = 0 ↔ M' = 0) : classify M = classify M' := by
  unfold classify
  split_ifs <;> first | rfl | (exfalso; tauto)

/-- **classify_smul.**  The class of a matrix (symmetric and positive / negative definite, zero, indefinite)
does not change when the matrix is scaled by a positive factor, however small: no tolerance, no product of
eigenvalues that could underflow, belongs to the documented rule. -/
theorem classify_smul {c : R} (hc : 0 < c) (M : Matrix n n R) : classify (c • M) = classify M :=
  classify_congr (isSymm_smul hc M) (posDef_smul hc M) (negDef_smul hc M) (smul_eq_zero_iff_of_pos hc M)
end Scale

/-- the four `GenericSign` predicates are mutually exclusive and exhaustive on every valid value -/
theorem predicates_exactly_one (g : Option Int) :
    (Generic.isPositive g).toNat + (Generic.isNegative g).toNat + (Generic.isZero g).toNat
      + (Generic.isIndefinite g).toNat = 1 := by
  cases g with
  | none => rfl
  | some z =>
    simp only [Generic.isPositive, Generic.isNegative, Generic.isZero, Generic.isIndefinite, Option.isNone]
    by_cases h1 : z > 0 <;> by_cases h2 : z < 0 <;> by_cases h3 : z = 0 <;> simp [h1, h2, h3] <;> omega

variable {m : ℕ} [Nonempty (Fin m)]

/-- soundness of the certificate checker the driver executes: a certificate that checks determines the
value the (non-computable) classification returns -/
theorem certificate_sound (M : Matrix (Fin m) (Fin m) R) (r : Cert.Reason m R) (g : Option Int)
    (h : Cert.check M r = some g) : Def.classify M = g := by
  cases r with
  | pos G c =>
    simp only [Cert.check] at h
    split at h
    · next hc =>
      injection h with h; subst h
      rw [DefL.classify_eq_one_iff, hc.2]; exact DefL.gram_posDef G c hc.1
    · cases h
  | neg G c =>
    simp only [Cert.check] at h
    split at h
    · next hc =>
      injection h with h; subst h
      apply DefL.classify_neg_one_of_neg
      rw [DefL.classify_eq_one_iff, hc.2]; exact DefL.gram_posDef G c hc.1
    · cases h
  | zero =>
    simp only [Cert.check] at h
    split at h
    · next hc => injection h with h; subst h; rw [hc]; exact DefL.classify_zero
    · cases h
  | nonsymm =>
    simp only [Cert.check] at h
    split at h
    · next hc => injection h with h; subst h; exact DefL.classify_not_symm M hc
    · cases h
  | indef x y =>
    simp only [Cert.check] at h
    split at h
    · next hc =>
      injection h with h; subst h
      exact DefL.classify_indef M hc.1 hc.2.1 x y hc.2.2.1 hc.2.2.2.1 hc.2.2.2.2.1 hc.2.2.2.2.2
    · cases h

end Mat

/-! ## VTB -/
namespace Vtb
variable {R : Type*} [CommRing R] [LinearOrder R] [IsStrictOrderedRing R] {m : ℕ} [Nonempty (Fin m)]

/-- **the decision the code takes on the `d × d` binding matrix is a decision about the vector's own
`m × m` matrix** (`s = √m > 0`) -/
theorem sign_eq_classify (s : R) (hs : 0 < s) (v : Vec2 m R) : Impl.sign s v = Def.classify (toMat v) := by
  unfold Impl.sign
  rw [BlockL.vtb_bindMat, BlockL.classify_blk s hs]

/-- **every vector has exactly one class, the documented one**: the class read off the returned sign
is the unique `c` with `HasClass (toMat v) c` -/
theorem sign_class_iff (s : R) (hs : 0 < s) (v : Vec2 m R) (c : Cls) :
    Def.HasClass (toMat v) c ↔ Generic.cls (Impl.sign s v) = c := by
  rw [sign_eq_classify s hs]; exact DefL.hasClass_iff _ c

/-- the sign of a vector does not change when the vector is scaled by a positive factor -/
theorem sign_scale_invariant (s : R) (hs : 0 < s) {c : R} (hc : 0 < c) (v : Vec2 m R) :
    Impl.sign s (fun p => c * v p) = Impl.sign s v := by
  rw [sign_eq_classify s hs, sign_eq_classify s hs]
  exact Mat.classify_smul hc (toMat v)

/-- the same on the matrix the code actually inspects (`get_binding_matrix(v)`) -/
theorem sign_class_iff_bindMat (s : R) (v : Vec2 m R) (c : Cls) :
    Def.HasClass (Alg.Vtb.Impl.bindMat s v false) c ↔ Generic.cls (Impl.sign s v) = c :=
  DefL.hasClass_iff _ c

theorem sign_total (s : R) (hs : 0 < s) (v : Vec2 m R) : ∃! c, Def.HasClass (toMat v) c :=
  ⟨Generic.cls (Impl.sign s v), (sign_class_iff s hs v _).2 rfl, fun c hc => ((sign_class_iff s hs v c).1 hc).symm⟩

/-- the returned value is one of `VtbSign(1)`, `(-1)`, `(0)`, `(None)` -/
theorem sign_values (s : R) (v : Vec2 m R) :
    Impl.sign s v = none ∨ Impl.sign s v = some 1 ∨ Impl.sign s v = some (-1) ∨ Impl.sign s v = some 0 :=
  DefL.classify_values _

/-- a checked certificate determines the sign (soundness of the executable stand-in for `eigvalsh`) -/
theorem sign_of_certificate (s : R) (hs : 0 < s) (v : Vec2 m R) (r : Cert.Reason m R) (g : Option Int)
    (h : Cert.check (toMat v) r = some g) : Impl.sign s v = g := by
  rw [sign_eq_classify s hs]; exact Mat.certificate_sound _ r g h

/-- closed form of `abs` given the sign value: `v`, `-v`, `0`, or `NotImplementedError` -/
theorem absWith_eq (s sinv : R) (h : s * sinv = 1) (v : Vec2 m R) (g : Option Int) :
    Impl.absWith s sinv v g =
      match g with
      | none => .error .indefinite
      | some z => .ok (if z > 0 then v else if z < 0 then -v else 0) := by
  unfold Impl.absWith Impl.toVector
  cases g with
  | none => rfl
  | some z =>
    simp only
    by_cases h1 : z > 0
    · simp only [h1, if_true]
      rw [DiagL.vtb_identity, DiagL.vtb_bind_diag]
      congr 1; funext p; rw [h, one_mul]
    · by_cases h2 : z < 0
      · simp only [h1, h2, if_true, if_false]
        rw [DiagL.vtb_negIdentity, DiagL.vtb_bind_diag]
        congr 1; funext p
        rw [mul_neg, h]; simp
      · simp only [h1, h2, if_false]
        rw [DiagL.vtb_zero, DiagL.vtb_bind_diag]
        congr 1; funext p; simp

/-- **abs v = ±v** for a definite non-zero sign -/
theorem abs_eq (s sinv : R) (h : s * sinv = 1) (v : Vec2 m R) :
    (Impl.sign s v = some 1 → Impl.abs s sinv v = .ok v) ∧
    (Impl.sign s v = some (-1) → Impl.abs s sinv v = .ok (-v)) ∧
    (Impl.sign s v = some 0 → Impl.abs s sinv v = .ok 0) ∧
    (Impl.sign s v = none → Impl.abs s sinv v = .error .indefinite) := by
  unfold Impl.abs
  refine ⟨fun e => ?_, fun e => ?_, fun e => ?_, fun e => ?_⟩ <;> rw [e, absWith_eq s sinv h] <;> simp

theorem toMat_neg (v : Vec2 m R) : toMat (-v) = -toMat v := rfl

/-- **the absolute vector has positive sign** -/
theorem abs_sign_positive (s sinv : R) (hs : 0 < s) (h : s * sinv = 1) (v w : Vec2 m R)
    (hdef : Impl.sign s v = some 1 ∨ Impl.sign s v = some (-1)) (hw : Impl.abs s sinv v = .ok w) :
    Impl.sign s w = some 1 ∧ Generic.isPositive (Impl.sign s w) = true := by
  have key : Impl.sign s w = some 1 := by
    rcases hdef with e | e
    · rw [(abs_eq s sinv h v).1 e] at hw; injection hw with hw; rw [← hw]; exact e
    · rw [(abs_eq s sinv h v).2.1 e] at hw; injection hw with hw; rw [← hw]
      rw [sign_eq_classify s hs] at e ⊢
      rw [toMat_neg]; exact DefL.classify_neg_of_neg_one _ e
  exact ⟨key, by rw [key]; rfl⟩

/-- **taking the absolute vector again changes nothing** -/
theorem abs_abs (s sinv : R) (hs : 0 < s) (h : s * sinv = 1) (v w : Vec2 m R)
    (hdef : Impl.sign s v = some 1 ∨ Impl.sign s v = some (-1)) (hw : Impl.abs s sinv v = .ok w) :
    Impl.abs s sinv w = .ok w :=
  (abs_eq s sinv h w).1 (abs_sign_positive s sinv hs h v w hdef hw).1

/-- **binding the sign's vector back onto the absolute vector (from the right: VTB has a right identity only) reconstructs the original** -/
theorem bind_signVec_abs (s sinv : R) (h : s * sinv = 1) (v w u : Vec2 m R)
    (hdef : Impl.sign s v = some 1 ∨ Impl.sign s v = some (-1)) (hw : Impl.abs s sinv v = .ok w)
    (hu : Impl.toVector m sinv (Impl.sign s v) = .ok u) : Alg.Vtb.Impl.bind s w u = v := by
  rcases hdef with e | e
  · rw [(abs_eq s sinv h v).1 e] at hw; injection hw with hw
    rw [e] at hu; simp only [Impl.toVector] at hu
    rw [if_pos (by decide)] at hu; injection hu with hu
    rw [← hw, ← hu, DiagL.vtb_identity, DiagL.vtb_bind_diag]
    funext p; rw [h, one_mul]
  · rw [(abs_eq s sinv h v).2.1 e] at hw; injection hw with hw
    rw [e] at hu; simp only [Impl.toVector] at hu
    rw [if_neg (by decide), if_pos (by decide)] at hu; injection hu with hu
    rw [← hw, ← hu, DiagL.vtb_negIdentity, DiagL.vtb_bind_diag]
    funext p; rw [mul_neg, h]; simp

/-- non-vacuity / the upstream test case: the three sign vectors have the sign they stand for -/
theorem sign_of_signVectors (s sinv : R) (hs : 0 < s) (hsinv : 0 < sinv) :
    Impl.sign s (Alg.Vtb.Impl.identity m sinv) = some 1 ∧
    Impl.sign s (Alg.Vtb.Impl.negIdentity m sinv) = some (-1) ∧
    Impl.sign s (Alg.Vtb.Impl.zero m : Vec2 m R) = some 0 := by
  refine ⟨?_, ?_, ?_⟩
  · apply sign_of_certificate s hs _ (.pos 0 sinv)
    have e : toMat (Alg.Vtb.Impl.identity m sinv) = (0 : Matrix (Fin m) (Fin m) R) * 0ᵀ + sinv • 1 := by
      ext i j; simp [toMat, Alg.Vtb.Impl.identity, Matrix.one_apply]
    simp only [Cert.check, e, hsinv, and_self, if_true]
  · apply sign_of_certificate s hs _ (.neg 0 sinv)
    have e : -toMat (Alg.Vtb.Impl.negIdentity m sinv) = (0 : Matrix (Fin m) (Fin m) R) * 0ᵀ + sinv • 1 := by
      ext i j; simp [toMat, Alg.Vtb.Impl.negIdentity, Alg.Vtb.Impl.identity, Matrix.one_apply]
    simp only [Cert.check, e, hsinv, and_self, if_true]
  · apply sign_of_certificate s hs _ .zero
    have e : toMat (Alg.Vtb.Impl.zero m : Vec2 m R) = 0 := by
      ext i j; simp [toMat, Alg.Vtb.Impl.zero]
    simp only [Cert.check, e, if_true]

end Vtb

/-! ## TVTB -/
namespace Tvtb
variable {R : Type*} [CommRing R] [LinearOrder R] [IsStrictOrderedRing R] {m : ℕ} [Nonempty (Fin m)]

/-- **the decision the code takes on the `d × d` binding matrix is a decision about the vector's own
`m × m` matrix** (`s = √m > 0`) -/
theorem sign_eq_classify (s : R) (hs : 0 < s) (v : Vec2 m R) : Impl.sign s v = Def.classify (toMat v) := by
  unfold Impl.sign
  rw [BlockL.tvtb_bindMat, BlockL.classify_blk s hs, DefL.classify_transpose]

/-- **every vector has exactly one class, the documented one**: the class read off the returned sign
is the unique `c` with `HasClass (toMat v) c` -/
theorem sign_class_iff (s : R) (hs : 0 < s) (v : Vec2 m R) (c : Cls) :
    Def.HasClass (toMat v) c ↔ Generic.cls (Impl.sign s v) = c := by
  rw [sign_eq_classify s hs]; exact DefL.hasClass_iff _ c

/-- the sign of a vector does not change when the vector is scaled by a positive factor -/
theorem sign_scale_invariant (s : R) (hs : 0 < s) {c : R} (hc : 0 < c) (v : Vec2 m R) :
    Impl.sign s (fun p => c * v p) = Impl.sign s v := by
  rw [sign_eq_classify s hs, sign_eq_classify s hs]
  exact Mat.classify_smul hc (toMat v)

/-- the same on the matrix the code actually inspects (`get_binding_matrix(v)`) -/
theorem sign_class_iff_bindMat (s : R) (v : Vec2 m R) (c : Cls) :
    Def.HasClass (Alg.Tvtb.Impl.bindMat s v false) c ↔ Generic.cls (Impl.sign s v) = c :=
  DefL.hasClass_iff _ c

theorem sign_total (s : R) (hs : 0 < s) (v : Vec2 m R) : ∃! c, Def.HasClass (toMat v) c :=
  ⟨Generic.cls (Impl.sign s v), (sign_class_iff s hs v _).2 rfl, fun c hc => ((sign_class_iff s hs v c).1 hc).symm⟩

/-- the returned value is one of `VtbSign(1)`, `(-1)`, `(0)`, `(None)` -/
theorem sign_values (s : R) (v : Vec2 m R) :
    Impl.sign s v = none ∨ Impl.sign s v = some 1 ∨ Impl.sign s v = some (-1) ∨ Impl.sign s v = some 0 :=
  DefL.classify_values _

/-- a checked certificate determines the sign (soundness of the executable stand-in for `eigvalsh`) -/
theorem sign_of_certificate (s : R) (hs : 0 < s) (v : Vec2 m R) (r : Cert.Reason m R) (g : Option Int)
    (h : Cert.check (toMat v) r = some g) : Impl.sign s v = g := by
  rw [sign_eq_classify s hs]; exact Mat.certificate_sound _ r g h

/-- closed form of `abs` given the sign value: `v`, `-v`, `0`, or `NotImplementedError` -/
theorem absWith_eq (s sinv : R) (h : s * sinv = 1) (v : Vec2 m R) (g : Option Int) :
    Impl.absWith s sinv v g =
      match g with
      | none => .error .indefinite
      | some z => .ok (if z > 0 then v else if z < 0 then -v else 0) := by
  unfold Impl.absWith Impl.toVector
  cases g with
  | none => rfl
  | some z =>
    simp only
    by_cases h1 : z > 0
    · simp only [h1, if_true]
      rw [DiagL.tvtb_identity, DiagL.tvtb_invert_diag, DiagL.tvtb_bind_diag_left]
      congr 1; funext p; rw [h, one_mul]
    · by_cases h2 : z < 0
      · simp only [h1, h2, if_true, if_false]
        rw [DiagL.tvtb_negIdentity, DiagL.tvtb_invert_diag, DiagL.tvtb_bind_diag_left]
        congr 1; funext p
        rw [mul_neg, h]; simp
      · simp only [h1, h2, if_false]
        rw [DiagL.tvtb_zero, DiagL.tvtb_invert_diag, DiagL.tvtb_bind_diag_left]
        congr 1; funext p; simp

/-- **abs v = ±v** for a definite non-zero sign -/
theorem abs_eq (s sinv : R) (h : s * sinv = 1) (v : Vec2 m R) :
    (Impl.sign s v = some 1 → Impl.abs s sinv v = .ok v) ∧
    (Impl.sign s v = some (-1) → Impl.abs s sinv v = .ok (-v)) ∧
    (Impl.sign s v = some 0 → Impl.abs s sinv v = .ok 0) ∧
    (Impl.sign s v = none → Impl.abs s sinv v = .error .indefinite) := by
  unfold Impl.abs
  refine ⟨fun e => ?_, fun e => ?_, fun e => ?_, fun e => ?_⟩ <;> rw [e, absWith_eq s sinv h] <;> simp

theorem toMat_neg (v : Vec2 m R) : toMat (-v) = -toMat v := rfl

/-- **the absolute vector has positive sign** -/
theorem abs_sign_positive (s sinv : R) (hs : 0 < s) (h : s * sinv = 1) (v w : Vec2 m R)
    (hdef : Impl.sign s v = some 1 ∨ Impl.sign s v = some (-1)) (hw : Impl.abs s sinv v = .ok w) :
    Impl.sign s w = some 1 ∧ Generic.isPositive (Impl.sign s w) = true := by
  have key : Impl.sign s w = some 1 := by
    rcases hdef with e | e
    · rw [(abs_eq s sinv h v).1 e] at hw; injection hw with hw; rw [← hw]; exact e
    · rw [(abs_eq s sinv h v).2.1 e] at hw; injection hw with hw; rw [← hw]
      rw [sign_eq_classify s hs] at e ⊢
      rw [toMat_neg]; exact DefL.classify_neg_of_neg_one _ e
  exact ⟨key, by rw [key]; rfl⟩

/-- **taking the absolute vector again changes nothing** -/
theorem abs_abs (s sinv : R) (hs : 0 < s) (h : s * sinv = 1) (v w : Vec2 m R)
    (hdef : Impl.sign s v = some 1 ∨ Impl.sign s v = some (-1)) (hw : Impl.abs s sinv v = .ok w) :
    Impl.abs s sinv w = .ok w :=
  (abs_eq s sinv h w).1 (abs_sign_positive s sinv hs h v w hdef hw).1

/-- **binding the sign's vector back onto the absolute vector reconstructs the original** -/
theorem bind_signVec_abs (s sinv : R) (h : s * sinv = 1) (v w u : Vec2 m R)
    (hdef : Impl.sign s v = some 1 ∨ Impl.sign s v = some (-1)) (hw : Impl.abs s sinv v = .ok w)
    (hu : Impl.toVector m sinv (Impl.sign s v) = .ok u) : Alg.Tvtb.Impl.bind s u w = v := by
  rcases hdef with e | e
  · rw [(abs_eq s sinv h v).1 e] at hw; injection hw with hw
    rw [e] at hu; simp only [Impl.toVector] at hu
    rw [if_pos (by decide)] at hu; injection hu with hu
    rw [← hw, ← hu, DiagL.tvtb_identity, DiagL.tvtb_bind_diag_left]
    funext p; rw [h, one_mul]
  · rw [(abs_eq s sinv h v).2.1 e] at hw; injection hw with hw
    rw [e] at hu; simp only [Impl.toVector] at hu
    rw [if_neg (by decide), if_pos (by decide)] at hu; injection hu with hu
    rw [← hw, ← hu, DiagL.tvtb_negIdentity, DiagL.tvtb_bind_diag_left]
    funext p; rw [mul_neg, h]; simp

/-- non-vacuity / the upstream test case: the three sign vectors have the sign they stand for -/
theorem sign_of_signVectors (s sinv : R) (hs : 0 < s) (hsinv : 0 < sinv) :
    Impl.sign s (Alg.Tvtb.Impl.identity m sinv) = some 1 ∧
    Impl.sign s (Alg.Tvtb.Impl.negIdentity m sinv) = some (-1) ∧
    Impl.sign s (Alg.Tvtb.Impl.zero m : Vec2 m R) = some 0 := by
  refine ⟨?_, ?_, ?_⟩
  · apply sign_of_certificate s hs _ (.pos 0 sinv)
    have e : toMat (Alg.Tvtb.Impl.identity m sinv) = (0 : Matrix (Fin m) (Fin m) R) * 0ᵀ + sinv • 1 := by
      ext i j; simp [toMat, Alg.Tvtb.Impl.identity, Matrix.one_apply]
    simp only [Cert.check, e, hsinv, and_self, if_true]
  · apply sign_of_certificate s hs _ (.neg 0 sinv)
    have e : -toMat (Alg.Tvtb.Impl.negIdentity m sinv) = (0 : Matrix (Fin m) (Fin m) R) * 0ᵀ + sinv • 1 := by
      ext i j; simp [toMat, Alg.Tvtb.Impl.negIdentity, Alg.Tvtb.Impl.identity, Matrix.one_apply]
    simp only [Cert.check, e, hsinv, and_self, if_true]
  · apply sign_of_certificate s hs _ .zero
    have e : toMat (Alg.Tvtb.Impl.zero m : Vec2 m R) = 0 := by
      ext i j; simp [toMat, Alg.Tvtb.Impl.zero]
    simp only [Cert.check, e, if_true]

end Tvtb

end C17

/-
C16 — State represents every dimension; neuron-level access covers each neuron
once.  Property theorems only (model: SpaModel/Basic/C16.lean, helper lemmas:
SpaModel/Lemmas/C16.lean).  Everything is for arbitrary `d`, `s ∣ d`,
neurons-per-dimension, input vectors, neuron responses and decoded functions.
-/
import SpaModel.Lemmas.C16

namespace C16
open Impl Spec

/-! ### the split -/

/-- **partition_covers** (Spec side): the documented split is an ordered
partition of `[0, d)` into non-empty, adjacent slices, for every `s ∣ d`
(incl. `s = 1`, `s = d`, `d = 1`). -/
theorem parts_partition (d s : Nat) (hs : 0 < s) (hd : 0 < d) (hdiv : s ∣ d) :
    Spec.Partition (Spec.parts d s) d := by
  rw [parts_eq_cumOffsets]
  refine ⟨?_, ?_⟩
  · have := chain_cumOffsets 0 (1 :: (if 1 < s then [s - 1] else []) ++ List.replicate (d / s - 1) s)
    rwa [parts_sum d s hs hd hdiv, Nat.zero_add] at this
  · apply cumOffsets_pos
    intro n hn
    simp only [List.cons_append, List.mem_cons, List.mem_append, List.mem_replicate] at hn
    rcases hn with rfl | hn | hn
    · omega
    · split at hn
      · simp at hn; omega
      · simp at hn
    · omega

/-- **partition_covers** (Impl side): for every `s ∣ d` the constructor of
`IdentityEnsembleArray` succeeds; the slices of `input` it connects to the
ensembles and the slices of `output` the ensembles are connected to are both
*exactly* the documented split, in `all_ensembles` order, and ensemble `k` has
`len` dimensions and `npd · len` neurons. -/
theorem identity_slices (npd d s : Nat) (hs : 0 < s) (hd : 0 < d) (hdiv : s ∣ d) :
    identityArray npd d s = .ok
      { size := d
        ens := (Spec.parts d s).map fun p => (p.len, npd * p.len)
        ins := Spec.parts d s
        outs := Spec.parts d s } := by
  obtain ⟨q, hq0⟩ := hdiv
  have hq : 0 < q := by subst hq0; exact Nat.pos_of_mul_pos_left hd
  obtain ⟨n, rfl⟩ : ∃ n, q = n + 1 := ⟨q - 1, by omega⟩
  have hdq : d / s - 1 = n := by subst hq0; rw [Nat.mul_div_cancel_left _ hs]; omega
  have hlen : ∀ i : Nat, (i + 1) * s - i * s = s := by
    intro i; rw [Nat.succ_mul]; omega
  have hout : (cumOffsets 0 (List.replicate n s)).map (Slice.shift s) =
      (List.range n).map fun i => (⟨s + i * s, s⟩ : Slice) := by
    rw [cumOffsets_shift, ← range_mul_eq_cumOffsets]
    apply List.map_congr_left
    intro i _
    rw [hlen]
    congr 1
    omega
  have hin : ((List.range n).map fun i => (⟨i * s, (i + 1) * s - i * s⟩ : Slice)).map (Slice.shift s) =
      (List.range n).map fun i => (⟨s + i * s, s⟩ : Slice) := by
    rw [List.map_map]
    apply List.map_congr_left
    intro i _
    simp only [Function.comp, Slice.shift, hlen]
    congr 1
    omega
  have hconst : ∀ c : Nat × Nat, (List.range n).map (fun _ => c) = List.replicate n c := by
    intro c; simp [List.map_const']
  -- the only non-linear facts: d = s + n·s, and n·s > 0 iff n > 0
  have hd' : d = s + n * s := by rw [hq0, Nat.mul_succ, Nat.mul_comm s n]; omega
  generalize hm : n * s = m at hd'
  have hmpos : 0 < m ↔ 0 < n := by
    subst hm
    constructor
    · intro h; exact Nat.pos_of_mul_pos_right h
    · intro h; exact Nat.mul_pos h hs
  have c1 : ¬ (d = 0) := by omega
  have c2 : ¬ (1 < s ∧ connectOk (pySlice 1 s d).len (s - 1) = false) := by
    rintro ⟨h1, h2⟩
    rw [connectOk_true (by simp only [pySlice]; omega) (by simp only [pySlice]; omega)] at h2
    cases h2
  have c3 : ¬ (s < d ∧ s = 0) := by omega
  have c4 : ¬ (s < d ∧ connectOk (pySliceFrom s d).len (ensembleArray (npd * s) (d / s - 1) s).size = false) := by
    rintro ⟨h1, h2⟩
    rw [connectOk_true (by simp only [pySliceFrom, ensembleArray, hdq, hm]; omega)
      (by simp only [pySliceFrom]; omega)] at h2
    cases h2
  unfold identityArray
  rw [if_neg c1, if_neg c2, if_neg c3, if_neg c4]
  have hk : (pySliceFrom s d).start = s := by simp only [pySliceFrom]; omega
  have hp1 : pySlice 1 s d = ⟨1, s - 1⟩ := by simp only [pySlice]; congr 1 <;> omega
  simp only [hk, hp1, Spec.parts, hdq]
  by_cases hn : 0 < n
  · have hsm : s < d := by have := hmpos.2 hn; omega
    simp only [hsm, if_true, ensembleArray, hin, hout]
    by_cases h1 : 1 < s
    · simp [h1, Function.comp_def, hconst]
    · simp [h1, Function.comp_def, hconst]
  · have hn0 : n = 0 := by omega
    subst hn0
    have hsm : ¬ (s < d) := by
      have : m = 0 := by
        cases Nat.eq_zero_or_pos m with
        | inl h => exact h
        | inr h => exact absurd (hmpos.1 h) (by omega)
      omega
    simp only [hsm, if_false]
    by_cases h1 : 1 < s
    · simp [h1]
    · simp [h1]

/-- **partition_covers**: both slice tables of the identity array are one and
the same ordered partition of `[0, d)` — contiguous, disjoint, in order,
covering — so ensemble `k` writes the dimensions it reads. -/
theorem partition_covers (npd d s : Nat) (hs : 0 < s) (hd : 0 < d) (hdiv : s ∣ d) :
    ∃ a, identityArray npd d s = .ok a ∧ a.size = d ∧ a.ins = a.outs ∧
      Spec.Partition a.ins d ∧ Spec.Partition a.outs d ∧ a.ens.length = a.ins.length := by
  refine ⟨_, identity_slices npd d s hs hd hdiv, rfl, rfl, ?_, ?_, by simp⟩ <;>
    exact parts_partition d s hs hd hdiv

/-- the regular `EnsembleArray` split used with `represent_cc_identity=False`:
input side (`i*s`) and output side (cumulative sum) agree and are the `d/s`
blocks of `s` -/
theorem regular_slices (nN d s : Nat) :
    (ensembleArray nN (d / s) s).ins = Spec.blocks d s ∧
    (ensembleArray nN (d / s) s).outs = Spec.blocks d s := by
  have hlen : ∀ i : Nat, (i + 1) * s - i * s = s := by
    intro i; rw [Nat.succ_mul]; omega
  constructor
  · simp only [ensembleArray, Spec.blocks, hlen]
  · simp only [ensembleArray, Spec.blocks]
    have := range_mul_eq_cumOffsets 0 (d / s) s
    simp only [Nat.zero_add, hlen] at this
    exact this.symm

theorem blocks_partition (d s : Nat) (hs : 0 < s) (hdiv : s ∣ d) :
    Spec.Partition (Spec.blocks d s) d := by
  have hlen : ∀ i : Nat, (i + 1) * s - i * s = s := by
    intro i; rw [Nat.succ_mul]; omega
  have h := range_mul_eq_cumOffsets 0 (d / s) s
  simp only [Nat.zero_add, hlen] at h
  unfold Spec.blocks
  rw [h]
  refine ⟨?_, ?_⟩
  · have := chain_cumOffsets 0 (List.replicate (d / s) s)
    rwa [List.sum_replicate_nat, Nat.zero_add, Nat.div_mul_cancel hdiv] at this
  · apply cumOffsets_pos
    intro n hn
    simp only [List.mem_replicate] at hn
    omega

/-- an ordered partition addresses every entry of `[0, n)` exactly once and
nothing outside: no dimension (neuron) is dropped or duplicated -/
theorem partition_each_once {l : List Slice} {n : Nat} (h : Spec.Partition l n) (j : Nat) :
    l.countP (fun sl => decide (sl.start ≤ j ∧ j < sl.start + sl.len)) = if j < n then 1 else 0 := by
  have := chain_count h.1 j
  simpa using this

/-! ### validation -/

/-- **rejects_non_divisible** -/
theorem rejects_non_divisible (npd d s : Nat) (cc : Bool) (hn : 0 < npd) (hs : 0 < s) (hd : 0 < d)
    (h : d % s ≠ 0) : state npd d s cc = .error .notDivisible := by
  have c : ¬ (d = 0 ∨ s = 0 ∨ npd = 0) := by omega
  simp [state, c, h]

/-- State is constructed exactly for positive parameters with `s ∣ d` -/
theorem state_ok_iff (npd d s : Nat) (cc : Bool) :
    (∃ a, state npd d s cc = .ok a) ↔ (0 < npd ∧ 0 < s ∧ 0 < d ∧ s ∣ d) := by
  constructor
  · rintro ⟨a, h⟩
    unfold state at h
    split at h
    · cases h
    · split at h
      · cases h
      · next c1 c2 =>
        refine ⟨by omega, by omega, by omega, ?_⟩
        exact Nat.dvd_of_mod_eq_zero (by omega)
  · rintro ⟨hn, hs, hd, hdiv⟩
    have c : ¬ (d = 0 ∨ s = 0 ∨ npd = 0) := by omega
    have c2 : ¬ (d % s ≠ 0) := by
      have := Nat.mod_eq_zero_of_dvd hdiv
      omega
    cases cc
    · exact ⟨ensembleArray (npd * s) (d / s) s, by simp [state, c, c2]⟩
    · exact ⟨_, by simp only [state, c, c2, if_false, if_true]; exact identity_slices npd d s hs hd hdiv⟩

/-- used directly (without State's check) the identity array itself cannot be
built for a non-divisible split either: one of its connections fails Nengo's
size check (or `d // 0` raises) -/
theorem identityArray_rejects_non_divisible (npd d s : Nat) (h : ¬ s ∣ d) :
    ∃ e, identityArray npd d s = .error e := by
  have hd : 0 < d := by
    cases Nat.eq_zero_or_pos d with
    | inl h0 => subst h0; exact absurd (Nat.dvd_zero s) h
    | inr h0 => exact h0
  unfold identityArray
  have c1 : ¬ (d = 0) := by omega
  simp only [c1, if_false]
  split
  · exact ⟨_, rfl⟩
  · next c2 =>
    split
    · exact ⟨_, rfl⟩
    · next c3 =>
      have hs : 0 < s := by
        cases Nat.eq_zero_or_pos s with
        | inl h0 => exact absurd ⟨by omega, h0⟩ c3
        | inr h0 => exact h0
      split
      · exact ⟨_, rfl⟩
      · next c4 =>
        exfalso
        -- all checks passed: derive `s ∣ d`
        have hmod : d % s ≠ 0 := fun h0 => h (Nat.dvd_of_mod_eq_zero h0)
        have hdm := Nat.div_add_mod d s
        have hlt := Nat.mod_lt d hs
        by_cases hsd : s < d
        · -- remainder connection
          have hc : connectOk (pySliceFrom s d).len (ensembleArray (npd * s) (d / s - 1) s).size = true := by
            cases hh : connectOk (pySliceFrom s d).len (ensembleArray (npd * s) (d / s - 1) s).size
            · exact absurd ⟨hsd, hh⟩ c4
            · rfl
          simp only [connectOk, pySliceFrom, ensembleArray, Bool.and_eq_true] at hc
          have h1 := of_decide_eq_true hc.1
          have hq : 0 < d / s := Nat.div_pos (by omega) hs
          obtain ⟨q, hq'⟩ : ∃ q, d / s = q + 1 := ⟨d / s - 1, by omega⟩
          rw [hq'] at h1 hdm
          rw [Nat.mul_succ] at hdm
          rw [Nat.add_sub_cancel, Nat.mul_comm q s] at h1
          generalize s * q = m at h1 hdm
          omega
        · -- d < s (d = s would divide): the `second` connection
          have hne : d ≠ s := fun e => h (e ▸ Nat.dvd_refl _)
          have h1s : 1 < s := by omega
          have hc : connectOk (pySlice 1 s d).len (s - 1) = true := by
            cases hh : connectOk (pySlice 1 s d).len (s - 1)
            · exact absurd ⟨h1s, hh⟩ c2
            · rfl
          simp only [connectOk, pySlice, Bool.and_eq_true] at hc
          have h1 := of_decide_eq_true hc.1
          omega

/-! ### ideal ensembles: output = input -/

/-- When the same ordered partition is used on the input and on the output side
and every ensemble is ideal, exactly one contribution arrives at output entry
`j`: input entry `j`. -/
theorem decoded_identity {l : List Slice} {d : Nat} (h : Chain 0 l d) {γ : Type} (es : List γ)
    (hes : es.length = l.length) (x : Nat → Rat) (j : Nat) (hj : j < d) :
    decoded l l (es.map fun _ => id) x j = [x j] := by
  unfold decoded
  rw [zipWith_const id x l es hes]
  have hl : l = cumOffsets 0 ((l.map fun si => id (ensVec si x)).map List.length) := by
    have := chain_eq_cumOffsets h
    simpa [ensVec, Function.comp_def] using this
  calc gather l (l.map fun si => id (ensVec si x)) j
      = gather (cumOffsets 0 ((l.map fun si => id (ensVec si x)).map List.length))
          (l.map fun si => id (ensVec si x)) j := by rw [← hl]
    _ = [x j] := by
        rw [gather_cumOffsets]
        have := flatten_ensVec h x j (Nat.zero_le _) hj
        simp only [id, Nat.sub_zero] at this ⊢
        simp [this]

/-- **identity_output**: for every `d`, every `s ∣ d`, every neurons-per-dimension
and both representation modes a State is constructed, and with ideal ensembles
its output equals its input in every dimension `j < d` (exactly one connection
contributes to each output entry). -/
theorem identity_output (npd d s : Nat) (cc : Bool) (hn : 0 < npd) (hs : 0 < s) (hd : 0 < d)
    (hdiv : s ∣ d) :
    ∃ a, state npd d s cc = .ok a ∧ a.size = d ∧
      ∀ (x : Nat → Rat) (j : Nat), j < d →
        decoded a.ins a.outs (a.ens.map fun _ => id) x j = [x j] ∧ stateOutput a x j = x j := by
  have c : ¬ (d = 0 ∨ s = 0 ∨ npd = 0) := by omega
  have c2 : ¬ (d % s ≠ 0) := by
    have := Nat.mod_eq_zero_of_dvd hdiv
    omega
  cases cc
  · refine ⟨ensembleArray (npd * s) (d / s) s, by simp [state, c, c2], ?_, ?_⟩
    · simp [ensembleArray, Nat.div_mul_cancel hdiv]
    · intro x j hj
      have hsl := regular_slices (npd * s) d s
      have hp := blocks_partition d s hs hdiv
      have hlen : (ensembleArray (npd * s) (d / s) s).ens.length = (Spec.blocks d s).length := by
        simp [ensembleArray, Spec.blocks]
      have key := decoded_identity hp.1 _ hlen x j hj
      refine ⟨by rw [hsl.1, hsl.2]; exact key, ?_⟩
      unfold stateOutput
      rw [hsl.1, hsl.2, key]
      simp [nodeValue, Rat.add_zero]
  · refine ⟨_, by simp only [state, c, c2, if_false, if_true]; exact identity_slices npd d s hs hd hdiv,
      rfl, ?_⟩
    intro x j hj
    have hp := parts_partition d s hs hd hdiv
    have key := decoded_identity hp.1 ((Spec.parts d s).map fun p => (p.len, npd * p.len))
      (by simp) x j hj
    refine ⟨key, ?_⟩
    unfold stateOutput
    simp only [key]
    simp [nodeValue, Rat.add_zero]

/-! ### neuron-level access -/

/-- **neuron_slices_cover**: `add_neuron_input` and `add_neuron_output` succeed
for every `s ∣ d`, produce the *same* slice table `l` (same order), `l` is an
ordered partition of `[0, npd·d)` — contiguous, disjoint, covering the whole
node — and slice `k` has exactly the neurons of `all_ensembles[k]`. -/
theorem neuron_slices_cover (npd d s : Nat) (hn : 0 < npd) (hs : 0 < s) (hd : 0 < d) (hdiv : s ∣ d) :
    ∃ a l, identityArray npd d s = .ok a ∧
      neuronInput npd d a = .ok l ∧ neuronOutput npd d a = .ok l ∧
      Spec.Partition l (npd * d) ∧ l.map (·.len) = a.ens.map (·.2) := by
  have hsum := parts_neurons_sum npd d s hs hd hdiv
  have hpos : ∀ n ∈ ((Spec.parts d s).map fun p => (p.len, npd * p.len)).map (·.2), 0 < n := by
    intro n hmem
    simp only [List.map_map, List.mem_map, Function.comp] at hmem
    obtain ⟨p, hp, rfl⟩ := hmem
    exact Nat.mul_pos hn ((parts_partition d s hs hd hdiv).2 p hp)
  have hloop := neuronLoop_ok (npd * d) 0 _ hpos (by omega)
  refine ⟨_, _, identity_slices npd d s hs hd hdiv, hloop, hloop, ⟨?_, ?_⟩, ?_⟩
  · have := chain_cumOffsets 0 (((Spec.parts d s).map fun p => (p.len, npd * p.len)).map (·.2))
    rwa [hsum, Nat.zero_add] at this
  · exact cumOffsets_pos 0 _ hpos
  · exact cumOffsets_len 0 _

/-- **every neuron exactly once**: neuron `t` of ensemble `k` is addressed by
entry `start_k + t` of the node, that entry lies inside the node, it addresses
no other neuron, and different neurons have different entries. -/
theorem neuron_every_once {l : List Slice} {N : Nat} (h : Spec.Partition l N) :
    (∀ (k : Nat) (sl : Slice), l[k]? = some sl → ∀ t : Nat, t < sl.len →
        sl.start + t < N ∧ locate l (sl.start + t) = [(k, t)]) ∧
    (∀ (k : Nat) (sl : Slice) (k' : Nat) (sl' : Slice), l[k]? = some sl → l[k']? = some sl' →
        ∀ t t' : Nat, t < sl.len → t' < sl'.len →
        sl.start + t = sl'.start + t' → k = k' ∧ t = t') := by
  have hat : ∀ (k : Nat) (sl : Slice), l[k]? = some sl → ∀ t : Nat, t < sl.len →
      locate l (sl.start + t) = [(k, t)] := by
    intro k sl hk t ht
    have := locate_at h.1 0 k sl hk t ht
    simpa [locate] using this
  refine ⟨?_, ?_⟩
  · intro k sl hk t ht
    have hb := chain_getElem_bounds h.1 hk
    exact ⟨by omega, hat k sl hk t ht⟩
  · intro k sl k' sl' hk hk' t t' ht ht' he
    have h1 := hat k sl hk t ht
    have h2 := hat k' sl' hk' t' ht'
    rw [he, h2] at h1
    simp at h1
    omega

/-- **driving entry `m` is read at entry `m` only.**  With the common slice
table `l` on both sides, entry `m < N` of `neuron_output` receives exactly one
contribution: the response of the one neuron `(k, t)` wired to entry `m` of
`neuron_input`, and that response is a function of `u m` alone. -/
theorem neuron_readout {β : Type} {l : List Slice} {N : Nat} (h : Spec.Partition l N) (m : Nat) (hm : m < N) :
    ∃ k t sl, l[k]? = some sl ∧ t < sl.len ∧ sl.start + t = m ∧ locate l m = [(k, t)] ∧
      ∀ (act : Nat → Nat → Rat → β) (u : Nat → Rat), neuronReadout l l act u m = [act k t (u m)] := by
  obtain ⟨k, t, sl, hk, ht, hst, hloc, _⟩ :=
    neuron_flat h.1 (fun _ _ r => r) (fun _ => (0 : Rat)) 0 m (Nat.zero_le _) hm
  refine ⟨k, t, sl, hk, ht, hst, by simpa [locate] using hloc, ?_⟩
  intro act u
  obtain ⟨k2, t2, sl2, hk2, ht2, hst2, hloc2, hval2⟩ := neuron_flat h.1 act u 0 m (Nat.zero_le _) hm
  have : (0 + k2, t2) = (0 + k, t) := by
    rw [hloc] at hloc2
    simpa using hloc2.symm
  simp only [Nat.zero_add, Prod.mk.injEq] at this
  obtain ⟨rfl, rfl⟩ := this
  unfold neuronReadout
  have hl : l = cumOffsets 0 ((neuronVals act u 0 l).map List.length) := by
    rw [neuronVals_lengths]
    exact chain_eq_cumOffsets h.1
  calc gather l (neuronVals act u 0 l) m
      = gather (cumOffsets 0 ((neuronVals act u 0 l).map List.length)) (neuronVals act u 0 l) m := by
        rw [← hl]
    _ = [act k2 t2 (u m)] := by
        rw [gather_cumOffsets]
        simp only [Nat.sub_zero, Nat.zero_add] at hval2
        simp [hval2]

/-- **locality**: changing `neuron_input` at entry `i` only can change
`neuron_output` at entry `i` only. -/
theorem neuron_drive_local {β : Type} {l : List Slice} {N : Nat} (h : Spec.Partition l N)
    (act : Nat → Nat → Rat → β) (u u' : Nat → Rat) (i : Nat) (hu : ∀ m, m ≠ i → u m = u' m)
    (m : Nat) (hm : m < N) (hmi : m ≠ i) :
    neuronReadout l l act u m = neuronReadout l l act u' m := by
  obtain ⟨k, t, sl, _, _, _, _, hval⟩ := neuron_readout (β := β) h m hm
  rw [hval act u, hval act u', hu m hmi]

/-- **inhibiting all neuron inputs reaches every neuron**: if every entry of
`neuron_input` carries the inhibition `c`, then every neuron of every
sub-ensemble is driven by `c` (so if an inhibited neuron is silent, every entry
of `neuron_output` is silent). -/
theorem inhibit_all {β : Type} {l : List Slice} {N : Nat} (h : Spec.Partition l N)
    (act : Nat → Nat → Rat → β) (u : Nat → Rat) (c : Rat) (hu : ∀ i, i < N → u i = c) :
    (∀ (k : Nat) (sl : Slice), l[k]? = some sl → ∀ t : Nat, t < sl.len → u (sl.start + t) = c) ∧
    (∀ m, m < N → ∃ k t, neuronReadout l l act u m = [act k t c]) := by
  refine ⟨?_, ?_⟩
  · intro k sl hk t ht
    have hb := chain_getElem_bounds h.1 hk
    exact hu _ (by omega)
  · intro m hm
    obtain ⟨k, t, sl, _, _, _, _, hval⟩ := neuron_readout (β := β) h m hm
    exact ⟨k, t, by rw [hval act u, hu m hm]⟩

/-- **end to end for the identity array**: for every `s ∣ d` and every
neurons-per-dimension both neuron nodes exist, and entry `m < npd·d` of
`neuron_output` shows exactly the response of one existing neuron `(k, t)`
(`t` below the neuron count of `all_ensembles[k]`) to entry `m` of
`neuron_input` — for any per-neuron response `act` and any drive `u`. -/
theorem neuron_access (npd d s : Nat) (hn : 0 < npd) (hs : 0 < s) (hd : 0 < d) (hdiv : s ∣ d) :
    ∃ a lin lout, identityArray npd d s = .ok a ∧
      neuronInput npd d a = .ok lin ∧ neuronOutput npd d a = .ok lout ∧
      ∀ {β : Type} (act : Nat → Nat → Rat → β) (u : Nat → Rat) (m : Nat), m < npd * d →
        ∃ k t, (∃ e, a.ens[k]? = some e ∧ t < e.2) ∧
          neuronReadout lin lout act u m = [act k t (u m)] := by
  obtain ⟨a, l, ha, hin, hout, hpart, hlen⟩ := neuron_slices_cover npd d s hn hs hd hdiv
  refine ⟨a, l, l, ha, hin, hout, ?_⟩
  intro β act u m hm
  obtain ⟨k, t, sl, hk, ht, _, _, hval⟩ := neuron_readout (β := β) hpart m hm
  refine ⟨k, t, ?_, hval act u⟩
  have h1 : (l.map (·.len))[k]? = some sl.len := by simp [hk]
  rw [hlen, List.getElem?_map] at h1
  cases he : a.ens[k]? with
  | none => simp [he] at h1
  | some e =>
    simp [he] at h1
    exact ⟨e, rfl, by omega⟩

/-! ### add_output -/

theorem decoded_concat (ps : List Slice) (f : Fn) (hf : SizeStable f) (x : Nat → Rat) (j : Nat) :
    decoded ps (cumOffsets 0 (ps.map fun p => probeSize f p.len)) (ps.map fun _ => f) x j =
      ((Spec.concatApply ps f x)[j]?).toList := by
  unfold decoded
  rw [zipWith_const f x ps ps rfl]
  have hsz : (ps.map fun p => probeSize f p.len) = (ps.map fun si => f (ensVec si x)).map List.length := by
    rw [List.map_map]
    apply List.map_congr_left
    intro p _
    simp only [Function.comp, probeSize]
    apply hf
    simp [ensVec]
  rw [hsz, gather_cumOffsets]
  simp [Spec.concatApply, ensVec]

/-- `add_output` with one function, on every split: the result of the code -/
theorem addOutput_one (d s : Nat) (hs : 0 < s) (hd : 0 < d) (hdiv : s ∣ d) (f : Fn)
    (hpos : ∀ p ∈ Spec.parts d s, 0 < probeSize f p.len) :
    ∃ o, addOutput d s (.one f) = .ok o ∧
      o.size = ((Spec.parts d s).map fun p => probeSize f p.len).sum ∧
      o.fns = (Spec.parts d s).map (fun _ => f) ∧
      o.outs = cumOffsets 0 ((Spec.parts d s).map fun p => probeSize f p.len) := by
  obtain ⟨q, hq0⟩ := hdiv
  have hq : 0 < q := by subst hq0; exact Nat.pos_of_mul_pos_left hd
  obtain ⟨n, rfl⟩ : ∃ n, q = n + 1 := ⟨q - 1, by omega⟩
  have hdq : d / s - 1 = n := by subst hq0; rw [Nat.mul_div_cancel_left _ hs]; omega
  have hsd : s < d ↔ 0 < n := by
    subst hq0
    rw [Nat.mul_succ]
    constructor
    · intro h
      cases Nat.eq_zero_or_pos n with
      | inl h0 => subst h0; simp at h
      | inr h0 => exact h0
    · intro h
      have := Nat.mul_pos hs h
      omega
  have h1 : 0 < probeSize f 1 := hpos ⟨0, 1⟩ (by simp [Spec.parts])
  have h2 : 1 < s → 0 < probeSize f (s - 1) := fun h => hpos ⟨1, s - 1⟩ (by simp [Spec.parts, h])
  have h3 : 0 < n → 0 < probeSize f s := by
    intro h
    apply hpos ⟨s + 0 * s, s⟩
    simp only [Spec.parts, hdq, List.cons_append, List.mem_cons, List.mem_append,
      List.mem_map, List.mem_range]
    right; right
    exact ⟨0, h, rfl⟩
  have hconst : ∀ {γ : Type} (c : γ), (List.range n).map (fun _ => c) = List.replicate n c := by
    intro γ c; simp [List.map_const']
  unfold addOutput
  simp only [splitFns]
  by_cases hn : 0 < n
  · have hsd' : s < d := hsd.2 hn
    simp only [hsd', decide_true, if_true, hdq, eaAddOutput_one n s f h3]
    by_cases hs1 : 1 < s
    · simp only [hs1, decide_true, if_true]
      rw [assemble_ok true true f f _ _ _ h1 (by simpa using h2 hs1)
        (by simpa using Nat.mul_pos hn (h3 hn))]
      refine ⟨_, rfl, ?_, ?_, ?_⟩
      · simp [Spec.parts, hs1, hdq, Function.comp_def, hconst, Nat.add_assoc]
      · simp [Spec.parts, hs1, hdq, Function.comp_def, hconst]
      · simp [Spec.parts, hs1, hdq, Function.comp_def, hconst, cumOffsets, cumOffsets_shift]
    · have hs1' : ¬ (1 < s) := hs1
      simp only [hs1', decide_false, Bool.false_eq_true, if_false]
      rw [assemble_ok false true f f _ _ _ h1 (by simp)
        (by simpa using Nat.mul_pos hn (h3 hn))]
      refine ⟨_, rfl, ?_, ?_, ?_⟩
      · simp [Spec.parts, hs1, hdq, Function.comp_def, hconst]
      · simp [Spec.parts, hs1, hdq, Function.comp_def, hconst]
      · simp [Spec.parts, hs1, hdq, Function.comp_def, hconst, cumOffsets, cumOffsets_shift]
  · have hsd' : ¬ (s < d) := fun h => hn (hsd.1 h)
    have hn0 : n = 0 := by omega
    subst hn0
    simp only [hsd', decide_false, Bool.false_eq_true, if_false]
    by_cases hs1 : 1 < s
    · simp only [hs1, decide_true, if_true]
      rw [assemble_ok true false f f _ _ _ h1 (by simpa using h2 hs1) (by simp)]
      refine ⟨_, rfl, ?_, ?_, ?_⟩
      · simp [Spec.parts, hs1, hdq]
      · simp [Spec.parts, hs1, hdq]
      · simp [Spec.parts, hs1, hdq, cumOffsets]
    · simp only [hs1, decide_false, Bool.false_eq_true, if_false]
      rw [assemble_ok false false f f _ _ _ h1 (by simp) (by simp)]
      refine ⟨_, rfl, ?_, ?_, ?_⟩
      · simp [Spec.parts, hs1, hdq]
      · simp [Spec.parts, hs1, hdq]
      · simp [Spec.parts, hs1, hdq, cumOffsets]

/-- **add_output_concat**: for every split (`s = 1`, `s = d`, `d = 1` included)
`add_output` with a function is *defined*, the new node has the size of the
concatenation, and with ideal ensembles its entry `j` receives exactly one
contribution: entry `j` of "the function applied to each sub-ensemble's own
dimensions, concatenated in dimension order" (nothing arrives beyond the end). -/
theorem add_output_concat (npd d s : Nat) (hs : 0 < s) (hd : 0 < d) (hdiv : s ∣ d) (f : Fn)
    (hf : SizeStable f) (hpos : ∀ p ∈ Spec.parts d s, 0 < probeSize f p.len) :
    ∃ a o, identityArray npd d s = .ok a ∧ addOutput d s (.one f) = .ok o ∧
      ∀ x : Nat → Rat,
        o.size = (Spec.concatApply (Spec.parts d s) f x).length ∧
        ∀ j, decoded a.ins o.outs o.fns x j = ((Spec.concatApply (Spec.parts d s) f x)[j]?).toList := by
  obtain ⟨o, ho, hsize, hfns, houts⟩ := addOutput_one d s hs hd hdiv f hpos
  refine ⟨_, o, identity_slices npd d s hs hd hdiv, ho, ?_⟩
  intro x
  refine ⟨?_, ?_⟩
  · rw [hsize]
    simp only [Spec.concatApply, List.length_flatten, List.map_map]
    congr 1
    apply List.map_congr_left
    intro p _
    simp only [Function.comp, probeSize]
    apply hf
    simp
  · intro j
    simp only [hfns, houts]
    exact decoded_concat _ f hf x j

/-- consequently the node value is the concatenation's entry -/
theorem add_output_value (npd d s : Nat) (hs : 0 < s) (hd : 0 < d) (hdiv : s ∣ d) (f : Fn)
    (hf : SizeStable f) (hpos : ∀ p ∈ Spec.parts d s, 0 < probeSize f p.len) :
    ∃ a o, identityArray npd d s = .ok a ∧ addOutput d s (.one f) = .ok o ∧
      ∀ (x : Nat → Rat) (j : Nat) (hj : j < (Spec.concatApply (Spec.parts d s) f x).length),
        nodeValue (decoded a.ins o.outs o.fns x j) = (Spec.concatApply (Spec.parts d s) f x)[j] := by
  obtain ⟨a, o, ha, ho, h⟩ := add_output_concat npd d s hs hd hdiv f hf hpos
  refine ⟨a, o, ha, ho, ?_⟩
  intro x j hj
  rw [(h x).2 j]
  simp [nodeValue, List.getElem?_eq_getElem hj, Rat.add_zero]

/-- a function with an empty output is refused (Nengo: a connection must have a positive size) -/
theorem add_output_zero_size_rejected (d s : Nat) (f : Fn) (h0 : probeSize f 1 = 0) :
    addOutput d s (.one f) = .error .sizeMismatch := by
  unfold addOutput
  simp only [splitFns]
  split
  · next e he =>
    split at he
    · unfold eaAddOutput at he
      simp only at he
      split at he
      · cases he; rfl
      · cases he
    · cases he
  · next r _ =>
    unfold assemble
    have : connectOk (probeSize f 1) (pySliceTo (probeSize f 1) (probeSize f 1 +
        (if decide (1 < s) = true then probeSize f (s - 1) else 0) + r.size)).len = false := by
      simp [connectOk, h0]
    simp only [this, if_true]

/-- The list form as the code has it: a 3-entry list `[first, second, rest]` is
accepted by the head of `add_output`, but `function[2:]` (one function) is handed
to the remainder array, which wants one function per ensemble — so with two or
more remainder ensembles the call is refused.  (Observed on the real code; not
part of the property statement, recorded so the model's behaviour is explicit.) -/
theorem add_output_three_fns_refused (d s : Nat) (f0 f1 f2 : Fn) (hsd : s < d) (hn : 2 ≤ d / s - 1) :
    addOutput d s (.many [f0, f1, f2]) = .error .fnCount := by
  unfold addOutput
  have h3 : ¬ (([f0, f1, f2] : List Fn).length ≠ 3 ∧ ([f0, f1, f2] : List Fn).length ≠ (d / s - 1) + 2) := by
    simp
  simp only [splitFns, hsd, decide_true, if_true, h3, if_false]
  have hne : ([f2] : List Fn).length ≠ d / s - 1 := by simp; omega
  simp only [eaAddOutput]
  rw [if_pos hne]

/-! ### feedback (on the stated recurrence; modelled-not-verified w.r.t. Nengo's Lowpass) -/

/-- **feedback_zero_follows**: without feedback the output is the current input (no memory) -/
theorem feedback_zero_follows (a : Rat) (u : Nat → Rat) (t : Nat) : fbOutput a 0 u t = u t := by
  simp [fbOutput]

/-- with feedback 1 the filter state integrates the input: each step adds `(1-a)·u` -/
theorem feedback_one_integrates (a : Rat) (u : Nat → Rat) (t : Nat) :
    filt a 1 u (t + 1) = filt a 1 u t + (1 - a) * u t := by
  simp only [filt, stepFilter]
  grind

/-- **feedback_one_holds**: with feedback 1, once the input has ended (`u t = 0`
for all `t ≥ T`) the output keeps, at every later step, exactly the value it
had at step `T` — for every filter constant `a`. -/
theorem feedback_one_holds (a : Rat) (u : Nat → Rat) (T : Nat) (hu : ∀ t, T ≤ t → u t = 0) (n : Nat) :
    fbOutput a 1 u (T + n) = fbOutput a 1 u T := by
  have hf : ∀ n, filt a 1 u (T + n) = filt a 1 u T := by
    intro n
    induction n with
    | zero => rfl
    | succ n ih =>
      rw [← Nat.add_assoc, feedback_one_integrates, ih, hu (T + n) (by omega)]
      grind
  have h1 : (1 : Rat) ≠ 0 := by decide
  simp only [fbOutput, h1, if_false, hf n, hu (T + n) (by omega), hu T (Nat.le_refl _)]

/-- the held value is what the input accumulated: with feedback 1 and a pulse
`u 0 = p`, silence afterwards, the output stays at `(1-a)·p` -/
theorem feedback_one_holds_pulse (a p : Rat) (u : Nat → Rat) (h0 : u 0 = p) (hu : ∀ t, 1 ≤ t → u t = 0)
    (n : Nat) : fbOutput a 1 u (1 + n) = (1 - a) * p := by
  rw [feedback_one_holds a u 1 hu n]
  have h1 : (1 : Rat) ≠ 0 := by decide
  simp only [fbOutput, h1, if_false, hu 1 (Nat.le_refl _), filt, stepFilter, h0]
  grind

/-- with a feedback gain `f` the stored value, after the input has ended, is
multiplied by `a + (1-a)·f` each step: a decaying memory for `0 ≤ f < 1`, a
perfect one for `f = 1` -/
theorem feedback_decay (a f : Rat) (hf : f ≠ 0) (u : Nat → Rat) (T : Nat) (hu : ∀ t, T ≤ t → u t = 0)
    (n : Nat) : fbOutput a f u (T + n + 1) = (a + (1 - a) * f) * fbOutput a f u (T + n) := by
  simp only [fbOutput, hf, if_false, hu (T + n) (by omega), hu (T + n + 1) (by omega), filt, stepFilter]
  grind

/-! ### non-vacuity: concrete instances -/

/-- d = 12, s = 4: parts 1 + 3 + 4 + 4 -/
example : identityArray 10 12 4 = .ok
    { size := 12, ens := [(1, 10), (3, 30), (4, 40), (4, 40)],
      ins := [⟨0, 1⟩, ⟨1, 3⟩, ⟨4, 4⟩, ⟨8, 4⟩], outs := [⟨0, 1⟩, ⟨1, 3⟩, ⟨4, 4⟩, ⟨8, 4⟩] } := by rfl
/-- s = 1, s = d, d = 1 -/
example : (identityArray 5 4 1).toOption.map (·.ins) = some [⟨0, 1⟩, ⟨1, 1⟩, ⟨2, 1⟩, ⟨3, 1⟩] := by decide
example : (identityArray 5 4 4).toOption.map (·.ins) = some [⟨0, 1⟩, ⟨1, 3⟩] := by decide
example : (identityArray 5 1 1).toOption.map (·.ins) = some [⟨0, 1⟩] := by decide
example : identityArray 5 10 4 = .error .sizeMismatch := by rfl
example : state 5 10 4 true = .error .notDivisible := by rfl
example : neuronInput 10 12 ⟨12, [(1, 10), (3, 30), (4, 40), (4, 40)], [], []⟩ =
    .ok [⟨0, 10⟩, ⟨10, 30⟩, ⟨40, 40⟩, ⟨80, 40⟩] := by rfl
/-- a size-stable function with positive sizes exists (the hypotheses of `add_output_concat`) -/
example : SizeStable (fun v => v.map fun r => 2 * r + 1) ∧
    ∀ p ∈ Spec.parts 4 1, 0 < probeSize (fun v => v.map fun r => 2 * r + 1) p.len := by
  refine ⟨fun v w h => by simp [h], ?_⟩
  intro p hp
  simp [Spec.parts] at hp
  rcases hp with rfl | ⟨i, hi, rfl⟩ <;> simp [probeSize]
/-- a decaying memory: feedback 1/2, a = 1/2, pulse 1 at step 0 -/
example : (List.range 4).map (fbOutput (1/2) (1/2) fun t => if t = 0 then 1 else 0) = [1, 1/4, 3/16, 9/64] := by
  decide +kernel

end C16

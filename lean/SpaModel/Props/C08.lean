/-
C08 — special elements and inverses act as specified on the requested side.
Property theorems only (model: SpaModel/Basic/C08.lean on top of SpaModel/Basic/Algebra.lean).

Everything holds for every commutative ring `R`, every HRR dimensionality `k+1`, every
VTB/TVTB sub-dimensionality `m` (dimensionality `m*m`) and every vector.  `s` stands for
`sqrt(sub_d)`, `sinv` for `1/sqrt(sub_d)`, `c` for `1/sqrt(d)`: the hypotheses
`s * sinv = 1`, `s * s = m`, `c * c * d = 1` are all that is used about them.
-/
import SpaModel.Basic.C08
import SpaModel.Lemmas.C08

set_option linter.unusedSectionVars false
set_option linter.unusedVariables false

open Matrix

namespace C08
open Alg C08.Spec

variable {R : Type*} [CommRing R]

/-! ### HRR — every element and the inverse are two-sided, nothing is refused -/
namespace Hrr
open Alg.Hrr
variable {k : ℕ}

/-- no HRR request is refused or flagged, whatever the sidedness -/
theorem never_refuses (side : Side) (c : R) (v : Vec k R) :
    Impl.identityElement (R := R) k side = .ok (Alg.Hrr.Impl.identity k, false) ∧
    Impl.negIdentityElement (R := R) k side = .ok (Alg.Hrr.Impl.negIdentity k, false) ∧
    Impl.zeroElement (R := R) k side = .ok (Alg.Hrr.Impl.zero k, false) ∧
    Impl.absorbingElement k c side = .ok (Alg.Hrr.Impl.absorbing k c, false) ∧
    Impl.invert v side = .ok (Alg.Hrr.Impl.invert v, false) ∧
    Impl.inversionMatrix (R := R) k side = .ok (Alg.Hrr.Impl.invMat k, false) :=
  ⟨rfl, rfl, rfl, rfl, rfl, rfl⟩

/-- the identity returned for any side is a left and a right identity -/
theorem identity_two_sided (side : Side) :
    ∃ e, Impl.identityElement (R := R) k side = .ok (e, false) ∧
      IsRightIdentity Alg.Hrr.Impl.bind e ∧ IsLeftIdentity Alg.Hrr.Impl.bind e :=
  ⟨_, rfl, L.Hrr.bind_identity_right, L.Hrr.bind_identity_left⟩

/-- the negative identity returned for any side yields `-v` on both sides -/
theorem negIdentity_two_sided (side : Side) :
    ∃ e, Impl.negIdentityElement (R := R) k side = .ok (e, false) ∧
      IsRightNegIdentity Alg.Hrr.Impl.bind e ∧ IsLeftNegIdentity Alg.Hrr.Impl.bind e := by
  refine ⟨_, rfl, fun v => ?_, fun v => ?_⟩
  · rw [L.Hrr.bind_neg_right, L.Hrr.bind_identity_right]
  · rw [C02.Hrr.bind_comm, L.Hrr.bind_neg_right, L.Hrr.bind_identity_right]

/-- the zero element yields the zero vector on both sides -/
theorem zero_two_sided (side : Side) :
    ∃ z, Impl.zeroElement (R := R) k side = .ok (z, false) ∧
      IsRightZero Alg.Hrr.Impl.bind z ∧ IsLeftZero Alg.Hrr.Impl.bind z := by
  refine ⟨_, rfl, fun v => ?_, fun v => ?_⟩
  · funext i; simp [Alg.Hrr.Impl.bind, Alg.Hrr.Impl.zero]
  · funext i; simp [Alg.Hrr.Impl.bind, Alg.Hrr.Impl.zero]

/-- the absorbing element `z = c • 1` with `c² d = 1` has unit length -/
theorem absorbing_unit_length (c : R) (hc : c * c * ((k + 1 : ℕ) : R) = 1) :
    UnitLength (Alg.Hrr.Impl.absorbing k c) := by
  simp only [UnitLength, Alg.Hrr.Impl.absorbing, Finset.sum_const, Finset.card_univ,
    Fintype.card_fin, nsmul_eq_mul]
  rw [mul_comm]; exact hc

/-- binding any `v` with the absorbing element gives `(Σ v) • z`, on both sides -/
theorem absorbing_bind_right (c : R) (v : Vec k R) :
    Alg.Hrr.Impl.bind v (Alg.Hrr.Impl.absorbing k c) = Alg.Hrr.Impl.dc v • Alg.Hrr.Impl.absorbing k c := by
  funext i
  simp [Alg.Hrr.Impl.bind, Alg.Hrr.Impl.absorbing, Alg.Hrr.Impl.dc, Finset.sum_mul]

theorem absorbing_bind_left (c : R) (v : Vec k R) :
    Alg.Hrr.Impl.bind (Alg.Hrr.Impl.absorbing k c) v = Alg.Hrr.Impl.dc v • Alg.Hrr.Impl.absorbing k c := by
  rw [C02.Hrr.bind_comm, absorbing_bind_right]

/-- the absorbing element returned for any side is absorbing on both sides (and has unit
length by `absorbing_unit_length`) -/
theorem absorbing_two_sided (side : Side) (c : R) :
    ∃ z, Impl.absorbingElement k c side = .ok (z, false) ∧
      IsRightAbsorbing (S := R) Alg.Hrr.Impl.bind z ∧ IsLeftAbsorbing (S := R) Alg.Hrr.Impl.bind z :=
  ⟨_, rfl, fun v => ⟨_, absorbing_bind_right c v⟩, fun v => ⟨_, absorbing_bind_left c v⟩⟩

/-- inverting twice returns `v` -/
theorem invert_invert (v : Vec k R) : Alg.Hrr.Impl.invert (Alg.Hrr.Impl.invert v) = v := by
  funext i; simp [Alg.Hrr.Impl.invert]

/-- the inverse equals the inversion matrix applied to `v`, for every sidedness -/
theorem inversionMatrix_mulVec (side : Side) (v : Vec k R) :
    ∃ M w, Impl.inversionMatrix (R := R) k side = .ok (M, false) ∧ Impl.invert v side = .ok (w, false) ∧
      M *ᵥ v = w :=
  ⟨_, _, rfl, rfl, C02.Hrr.invMat_mulVec v⟩

/-- the inverse undoes binding on the right exactly for unitary `v` -/
theorem right_inverse_iff (v : Vec k R) :
    UndoesRight Alg.Hrr.Impl.bind v (Alg.Hrr.Impl.invert v) ↔ Spec.Hrr.IsUnitary v := by
  unfold UndoesRight Spec.Hrr.IsUnitary
  constructor
  · intro h
    have := h (Alg.Hrr.Impl.identity k)
    rwa [L.Hrr.bind_identity_left] at this
  · intro h a
    rw [C02.Hrr.bind_assoc]
    have h' : Alg.Hrr.Impl.bind v (Alg.Hrr.Impl.invert v) = Alg.Hrr.Impl.identity k := h
    rw [h', L.Hrr.bind_identity_right]

/-- … and on the left likewise -/
theorem left_inverse_iff (v : Vec k R) :
    UndoesLeft Alg.Hrr.Impl.bind v (Alg.Hrr.Impl.invert v) ↔ Spec.Hrr.IsUnitary v := by
  rw [← right_inverse_iff]
  unfold UndoesLeft UndoesRight
  refine forall_congr' fun a => ?_
  rw [C02.Hrr.bind_comm (Alg.Hrr.Impl.invert v), C02.Hrr.bind_comm v a]

/-- a unitary vector exists in every dimensionality and is not only the identity: every
rolled signed unit vector is unitary -/
theorem single_isUnitary (j : Fin (k+1)) (e : R) (he : e * e = 1) :
    Spec.Hrr.IsUnitary (fun i => if i = j then e else 0 : Vec k R) := by
  unfold Spec.Hrr.IsUnitary
  funext i
  simp only [Alg.Hrr.Spec.bind, Alg.Hrr.Spec.inv]
  rw [Finset.sum_eq_single j]
  · by_cases hi : i = 0
    · simp [hi, he]
    · simp [hi]
  · intro b _ hb; simp [hb]
  · simp

end Hrr

/-! ### VTB — right elements only -/
namespace Vtb
open Alg.Vtb
variable {m : ℕ}

/-- what the guards do: LEFT is refused, TWO_SIDED is answered with the right element and the
deprecation flag, RIGHT is answered silently -/
theorem identity_guard (sinv : R) :
    Impl.identityElement m sinv .left = .error .notImplemented ∧
    Impl.identityElement m sinv .twoSided = .ok (Alg.Vtb.Impl.identity m sinv, true) ∧
    Impl.identityElement m sinv .right = .ok (Alg.Vtb.Impl.identity m sinv, false) :=
  ⟨rfl, rfl, rfl⟩

theorem negIdentity_guard (sinv : R) :
    Impl.negIdentityElement m sinv .left = .error .notImplemented ∧
    Impl.negIdentityElement m sinv .twoSided = .error .notImplemented ∧
    Impl.negIdentityElement m sinv .right = .ok (Alg.Vtb.Impl.negIdentity m sinv, false) :=
  ⟨rfl, rfl, rfl⟩

theorem invert_guard (v : Vec2 m R) :
    Impl.invert v .left = .error .notImplemented ∧
    Impl.invert v .twoSided = .ok (Alg.Vtb.Impl.invert v, true) ∧
    Impl.invert v .right = .ok (Alg.Vtb.Impl.invert v, false) :=
  ⟨rfl, rfl, rfl⟩

theorem inversionMatrix_guard :
    Impl.inversionMatrix (R := R) m .left = .error .notImplemented ∧
    Impl.inversionMatrix (R := R) m .twoSided = .ok (Alg.Vtb.Impl.invMat m, true) ∧
    Impl.inversionMatrix (R := R) m .right = .ok (Alg.Vtb.Impl.invMat m, false) :=
  ⟨rfl, rfl, rfl⟩

theorem absorbing_always_refused (side : Side) :
    Impl.absorbingElement (R := R) m side = .error .notImplemented := rfl

/-- whenever an identity is returned, it is a right identity; it is returned silently only
for RIGHT, flagged as deprecated exactly for TWO_SIDED -/
theorem identity_right (s sinv : R) (h : s * sinv = 1) (side : Side) (e : Vec2 m R) (w : Bool)
    (hr : Impl.identityElement m sinv side = .ok (e, w)) :
    IsRightIdentity (Alg.Vtb.Impl.bind s) e ∧ (w = true ↔ side = .twoSided) := by
  cases side <;> simp [Impl.identityElement, Impl.guardRight] at hr
  all_goals obtain ⟨rfl, rfl⟩ := hr
  all_goals exact ⟨L.Vtb.bind_identity_right s sinv h, by simp⟩

/-- whenever a negative identity is returned (RIGHT only), binding with it on the right negates -/
theorem negIdentity_right (s sinv : R) (h : s * sinv = 1) (side : Side) (e : Vec2 m R) (w : Bool)
    (hr : Impl.negIdentityElement m sinv side = .ok (e, w)) :
    IsRightNegIdentity (Alg.Vtb.Impl.bind s) e ∧ side = .right ∧ w = false := by
  cases side <;> simp [Impl.negIdentityElement, Impl.guardRightOnly, Impl.identityElement,
    Impl.guardRight, Result.map] at hr
  obtain ⟨rfl, rfl⟩ := hr
  refine ⟨fun v => ?_, rfl, rfl⟩
  rw [L.Vtb.bind_neg_right, L.Vtb.bind_identity_right s sinv h]

/-- the zero element (never refused) gives the zero vector on both sides -/
theorem zero_two_sided (s : R) (side : Side) :
    ∃ z, Impl.zeroElement (R := R) m side = .ok (z, false) ∧
      IsRightZero (Alg.Vtb.Impl.bind s) z ∧ IsLeftZero (Alg.Vtb.Impl.bind s) z := by
  refine ⟨_, rfl, fun v => ?_, fun v => ?_⟩
  · rw [C02.Vtb.bind_eq_spec]; funext p; simp [Alg.Vtb.Spec.bind, Alg.Vtb.Impl.zero]
  · rw [C02.Vtb.bind_eq_spec]; funext p; simp [Alg.Vtb.Spec.bind, Alg.Vtb.Impl.zero]

/-- refusing LEFT is the only correct answer: for `m > 1` VTB has no left identity -/
theorem no_left_identity [Nontrivial R] (s : R) (hm : 2 ≤ m) :
    ¬ ∃ e : Vec2 m R, IsLeftIdentity (Alg.Vtb.Impl.bind s) e := by
  rintro ⟨e, he⟩
  exact L.Vtb.no_left_scalar s hm e 1 one_ne_zero (fun v => by rw [he v, one_smul])

/-- … and no left negative identity -/
theorem no_left_negIdentity [Nontrivial R] (s : R) (hm : 2 ≤ m) :
    ¬ ∃ e : Vec2 m R, IsLeftNegIdentity (Alg.Vtb.Impl.bind s) e := by
  rintro ⟨e, he⟩
  exact L.Vtb.no_left_scalar s hm e (-1) (neg_ne_zero.mpr one_ne_zero)
    (fun v => by rw [he v, neg_one_smul])

/-- in particular the right identity is not two-sided (`m > 1`): flagging TWO_SIDED is justified -/
theorem identity_not_two_sided [Nontrivial R] (s sinv : R) (hm : 2 ≤ m) :
    ¬ IsLeftIdentity (Alg.Vtb.Impl.bind s) (Alg.Vtb.Impl.identity m sinv) :=
  fun h => no_left_identity s hm ⟨_, h⟩

theorem invert_invert (v : Vec2 m R) : Alg.Vtb.Impl.invert (Alg.Vtb.Impl.invert v) = v := rfl

/-- whenever both are answered, the inverse equals the inversion matrix applied to `v` -/
theorem inversionMatrix_mulVec (side : Side) (v : Vec2 m R) (M) (w) (f g : Bool)
    (hM : Impl.inversionMatrix (R := R) m side = .ok (M, f)) (hw : Impl.invert v side = .ok (w, g)) :
    M *ᵥ v = w ∧ f = g := by
  cases side <;> simp [Impl.inversionMatrix, Impl.invert, Impl.guardRight] at hM hw
  all_goals obtain ⟨rfl, rfl⟩ := hM
  all_goals obtain ⟨rfl, rfl⟩ := hw
  all_goals exact ⟨C02.Vtb.invMat_mulVec v, rfl⟩

/-- the right inverse undoes binding on the right exactly for unitary `v` -/
theorem right_inverse_iff (s : R) (hs : s * s = (m : R)) (v : Vec2 m R) :
    UndoesRight (Alg.Vtb.Impl.bind s) v (Alg.Vtb.Impl.invert v) ↔ Spec.Vec2.IsUnitary v := by
  unfold UndoesRight Spec.Vec2.IsUnitary
  rw [L.unitary_comm]
  constructor
  · intro h
    have := congrArg toMat (h (ofMat 1))
    rw [L.Vtb.unbind_right_matrix s hs] at this
    simpa using this
  · intro h a
    apply L.toMat_injective
    rw [L.Vtb.unbind_right_matrix s hs, ← mul_smul_comm, h, mul_one]

/-- a left inverse `w` of `v` (undoing `bind v ·`) can exist only when the matrix of `v` is
central (commutes with every matrix): VTB has no left inverse operation — LEFT is refused -/
theorem left_inverse_only_central (s : R) (hs : s * s = (m : R)) (v w : Vec2 m R)
    (h : UndoesLeft (Alg.Vtb.Impl.bind s) v w) (A : Matrix (Fin m) (Fin m) R) :
    A * (toMat v)ᵀ = (toMat v)ᵀ * A :=
  L.Vtb.left_inverse_central s hs v w h A

/-- such non-central matrices exist for `m > 1` -/
theorem exists_noncentral [Nontrivial R] (hm : 2 ≤ m) :
    ∃ A B : Matrix (Fin m) (Fin m) R, A * B ≠ B * A := L.exists_noncomm hm

/-- for `m > 1` (domain, `s ≠ 0`) VTB has no non-zero absorbing element on either side: refusing
`absorbing_element` is correct -/
theorem no_right_absorbing [NoZeroDivisors R] (s : R) (hs : s ≠ 0) (hm : 2 ≤ m) (z : Vec2 m R)
    (h : IsRightAbsorbing (S := R) (Alg.Vtb.Impl.bind s) z) : z = 0 :=
  L.Vtb.no_right_absorbing s hs hm z h

theorem no_left_absorbing [NoZeroDivisors R] (s : R) (hs : s ≠ 0) (hm : 2 ≤ m) (z : Vec2 m R)
    (h : IsLeftAbsorbing (S := R) (Alg.Vtb.Impl.bind s) z) : z = 0 :=
  L.Vtb.no_left_absorbing s hs hm z h

end Vtb

/-! ### TVTB — identity, negative identity, zero and inverse are two-sided -/
namespace Tvtb
open Alg.Tvtb
variable {m : ℕ}

/-- nothing but the absorbing element is refused or flagged -/
theorem never_refuses (side : Side) (sinv : R) (v : Vec2 m R) :
    Impl.identityElement m sinv side = .ok (Alg.Tvtb.Impl.identity m sinv, false) ∧
    Impl.negIdentityElement m sinv side = .ok (Alg.Tvtb.Impl.negIdentity m sinv, false) ∧
    Impl.zeroElement (R := R) m side = .ok (Alg.Tvtb.Impl.zero m, false) ∧
    Impl.invert v side = .ok (Alg.Tvtb.Impl.invert v, false) ∧
    Impl.inversionMatrix (R := R) m side = .ok (Alg.Tvtb.Impl.invMat m, false) ∧
    Impl.absorbingElement (R := R) m side = .error .notImplemented :=
  ⟨rfl, rfl, rfl, rfl, rfl, rfl⟩

theorem identity_two_sided (s sinv : R) (h : s * sinv = 1) (side : Side) :
    ∃ e, Impl.identityElement m sinv side = .ok (e, false) ∧
      IsRightIdentity (Alg.Tvtb.Impl.bind s) e ∧ IsLeftIdentity (Alg.Tvtb.Impl.bind s) e :=
  ⟨_, rfl, L.Tvtb.bind_identity_right s sinv h, L.Tvtb.bind_identity_left s sinv h⟩

theorem negIdentity_two_sided (s sinv : R) (h : s * sinv = 1) (side : Side) :
    ∃ e, Impl.negIdentityElement m sinv side = .ok (e, false) ∧
      IsRightNegIdentity (Alg.Tvtb.Impl.bind s) e ∧ IsLeftNegIdentity (Alg.Tvtb.Impl.bind s) e := by
  refine ⟨_, rfl, fun v => ?_, fun v => ?_⟩
  · rw [L.Tvtb.bind_neg_right, L.Tvtb.bind_identity_right s sinv h]
  · rw [L.Tvtb.bind_neg_left, L.Tvtb.bind_identity_left s sinv h]

theorem zero_two_sided (s : R) (side : Side) :
    ∃ z, Impl.zeroElement (R := R) m side = .ok (z, false) ∧
      IsRightZero (Alg.Tvtb.Impl.bind s) z ∧ IsLeftZero (Alg.Tvtb.Impl.bind s) z := by
  refine ⟨_, rfl, fun v => ?_, fun v => ?_⟩
  · rw [C02.Tvtb.bind_eq_spec]; funext p; simp [Alg.Tvtb.Spec.bind, Alg.Tvtb.Impl.zero]
  · rw [C02.Tvtb.bind_eq_spec]; funext p; simp [Alg.Tvtb.Spec.bind, Alg.Tvtb.Impl.zero]

theorem invert_invert (v : Vec2 m R) : Alg.Tvtb.Impl.invert (Alg.Tvtb.Impl.invert v) = v := rfl

theorem inversionMatrix_mulVec (side : Side) (v : Vec2 m R) :
    ∃ M w, Impl.inversionMatrix (R := R) m side = .ok (M, false) ∧ Impl.invert v side = .ok (w, false) ∧
      M *ᵥ v = w :=
  ⟨_, _, rfl, rfl, C02.Tvtb.invMat_mulVec v⟩

/-- the (two-sided) inverse undoes binding on the right exactly for unitary `v` … -/
theorem right_inverse_iff (s : R) (hs : s * s = (m : R)) (v : Vec2 m R) :
    UndoesRight (Alg.Tvtb.Impl.bind s) v (Alg.Tvtb.Impl.invert v) ↔ Spec.Vec2.IsUnitary v := by
  unfold UndoesRight Spec.Vec2.IsUnitary
  constructor
  · intro h
    have := congrArg toMat (h (ofMat 1))
    rw [L.Tvtb.unbind_right_matrix s hs] at this
    simpa using this
  · intro h a
    apply L.toMat_injective
    rw [L.Tvtb.unbind_right_matrix s hs, ← mul_smul_comm, h, mul_one]

/-- … and on the left exactly for unitary `v` as well: the two-sided claim holds on both sides -/
theorem left_inverse_iff (s : R) (hs : s * s = (m : R)) (v : Vec2 m R) :
    UndoesLeft (Alg.Tvtb.Impl.bind s) v (Alg.Tvtb.Impl.invert v) ↔ Spec.Vec2.IsUnitary v := by
  unfold UndoesLeft Spec.Vec2.IsUnitary
  rw [L.unitary_comm]
  constructor
  · intro h
    have := congrArg toMat (h (ofMat 1))
    rw [L.Tvtb.unbind_left_matrix s hs] at this
    simpa using this
  · intro h a
    apply L.toMat_injective
    rw [L.Tvtb.unbind_left_matrix s hs, ← smul_mul_assoc, h, one_mul]

theorem no_right_absorbing [NoZeroDivisors R] (s : R) (hs : s ≠ 0) (hm : 2 ≤ m) (z : Vec2 m R)
    (h : IsRightAbsorbing (S := R) (Alg.Tvtb.Impl.bind s) z) : z = 0 :=
  L.Tvtb.no_right_absorbing s hs hm z h

theorem no_left_absorbing [NoZeroDivisors R] (s : R) (hs : s ≠ 0) (hm : 2 ≤ m) (z : Vec2 m R)
    (h : IsLeftAbsorbing (S := R) (Alg.Tvtb.Impl.bind s) z) : z = 0 :=
  L.Tvtb.no_left_absorbing s hs hm z h

end Tvtb

/-! ### unitary vectors exist (non-vacuity of the `iff`s) and non-unitary ones too -/

/-- the identity scaled by `1/√m` is unitary (VTB and TVTB share the closed form) -/
theorem identity_isUnitary {m : ℕ} (s sinv : R) (h : s * sinv = 1) (hs : s * s = (m : R)) :
    Spec.Vec2.IsUnitary (Alg.Vtb.Impl.identity m sinv) := L.identity_isUnitary s sinv h hs

/-- the zero vector is not unitary (`m ≥ 1`, nontrivial ring) -/
theorem zero_not_unitary [Nontrivial R] {m : ℕ} (hm : 1 ≤ m) :
    ¬ Spec.Vec2.IsUnitary (Alg.Vtb.Impl.zero m : Vec2 m R) := L.zero_not_unitary hm

/-! ### interface level: what the Python API sees for a dimensionality `d` -/

/-- for a square `d = m*m` the interface functions are the typed ones, flattened -/
theorem Vtb.identityD_square (sinv : ℕ → R) (m : ℕ) (side : Side) :
    Vtb.Impl.identityD sinv (m * m) side = (Vtb.Impl.identityElement m (sinv m) side).map listOfVec2 := by
  have h : subD (m * m) = .ok m := (C02.subD_ok_iff _ _).2 rfl
  cases side <;> simp [Vtb.Impl.identityD, Vtb.Impl.guardRight, Vtb.Impl.subD', h,
    Vtb.Impl.identityElement, Result.map]

theorem Vtb.negIdentityD_square (sinv : ℕ → R) (m : ℕ) (side : Side) :
    Vtb.Impl.negIdentityD sinv (m * m) side =
      (Vtb.Impl.negIdentityElement m (sinv m) side).map listOfVec2 := by
  have h : subD (m * m) = .ok m := (C02.subD_ok_iff _ _).2 rfl
  cases side <;> simp [Vtb.Impl.negIdentityD, Vtb.Impl.guardRightOnly, Vtb.Impl.subD', h,
    Vtb.Impl.negIdentityElement, Result.map]

theorem Tvtb.identityD_square (sinv : ℕ → R) (m : ℕ) (side : Side) :
    Tvtb.Impl.identityD sinv (m * m) side = (Tvtb.Impl.identityElement m (sinv m) side).map listOfVec2 := by
  have h : subD (m * m) = .ok m := (C02.subD_ok_iff _ _).2 rfl
  simp [Tvtb.Impl.identityD, Vtb.Impl.subD', h]

theorem Vtb.invertL_square (m : ℕ) (v : List R) (hv : v.length = m * m) (side : Side) :
    Vtb.Impl.invertL v side = (Vtb.Impl.invert (vec2OfList m v) side).map listOfVec2 := by
  have h : subD (m * m) = .ok m := (C02.subD_ok_iff _ _).2 rfl
  cases side <;> simp [Vtb.Impl.invertL, Vtb.Impl.guardRight, Vtb.Impl.subD', hv, h,
    Vtb.Impl.invert, Result.map]

theorem Tvtb.invertL_square (m : ℕ) (v : List R) (hv : v.length = m * m) (side : Side) :
    Tvtb.Impl.invertL v side = (Tvtb.Impl.invert (vec2OfList m v) side).map listOfVec2 := by
  have h : subD (m * m) = .ok m := (C02.subD_ok_iff _ _).2 rfl
  simp [Tvtb.Impl.invertL, Vtb.Impl.subD', hv, h]

/-- HRR at interface level: every `d ≥ 1` and every side is answered with the typed element -/
theorem Hrr.elementsD_succ (k : ℕ) (c : ℕ → R) (side : Side) :
    Hrr.Impl.identityD (R := R) (k+1) side = .ok (listOfVec (Alg.Hrr.Impl.identity k), false) ∧
    Hrr.Impl.negIdentityD (R := R) (k+1) side = .ok (listOfVec (Alg.Hrr.Impl.negIdentity k), false) ∧
    Hrr.Impl.absorbingD c (k+1) side = .ok (listOfVec (Alg.Hrr.Impl.absorbing k (c (k+1))), false) :=
  ⟨rfl, rfl, rfl⟩

/-- the zero element of every algebra is `d` zeros for every `d` and side (no guard, no
squareness check), and reads back as the typed zero vector -/
theorem zeroD_spec (d : ℕ) (side : Side) :
    Hrr.Impl.zeroD (R := R) d side = .ok (List.replicate d 0, false) ∧
    Vtb.Impl.zeroD (R := R) d side = .ok (List.replicate d 0, false) ∧
    Tvtb.Impl.zeroD (R := R) d side = .ok (List.replicate d 0, false) ∧
    (∀ m, vec2OfList m (List.replicate d (0 : R)) = Alg.Vtb.Impl.zero m) := by
  refine ⟨rfl, rfl, rfl, fun m => ?_⟩
  funext p
  simp only [vec2OfList, Alg.Vtb.Impl.zero, List.getD_eq_getElem?_getD, List.getElem?_replicate]
  split <;> rfl

/-- the sidedness guard is evaluated before the dimensionality: LEFT is refused for every `d` -/
theorem Vtb.left_refused_any_d (sinv : ℕ → R) (d : ℕ) (v : List R) :
    Vtb.Impl.identityD sinv d .left = .error .notImplemented ∧
    Vtb.Impl.negIdentityD sinv d .left = .error .notImplemented ∧
    Vtb.Impl.negIdentityD sinv d .twoSided = .error .notImplemented ∧
    Vtb.Impl.invertL v .left = .error .notImplemented ∧
    Vtb.Impl.absorbingD (R := R) d .left = .error .notImplemented :=
  ⟨rfl, rfl, rfl, rfl, rfl⟩

/-- a non-square `d` is rejected with ValueError by the identity of VTB (RIGHT / TWO_SIDED) and
TVTB (every side), never answered -/
theorem identityD_not_square (sinv : ℕ → R) (d : ℕ) (hd : ∀ m, m * m ≠ d) (side : Side) :
    Tvtb.Impl.identityD sinv d side = .error .notSquare ∧
    (side ≠ .left → Vtb.Impl.identityD sinv d side = .error .notSquare) := by
  have h : subD d = .error .notSquare := by
    unfold subD
    rw [if_neg (hd _)]
  constructor
  · simp [Tvtb.Impl.identityD, Vtb.Impl.subD', h]
  · intro hs
    cases side <;> simp_all [Vtb.Impl.identityD, Vtb.Impl.guardRight, Vtb.Impl.subD']

/-- the vocabulary's special names are exactly AbsorbingElement, Identity, Zero, requested TWO_SIDED -/
theorem specialName_iff (n : String) :
    (specialName n).isSome ↔ n = "AbsorbingElement" ∨ n = "Identity" ∨ n = "Zero" := by
  unfold specialName
  split <;> simp_all

/-! ### every refusal and every flag is justified -/
section justified
variable {m : ℕ}

/-- every refusal of `VtbAlgebra.identity_element` is justified: it happens only for LEFT, with
NotImplementedError, and (m > 1) no left identity exists -/
theorem Vtb.identity_refusal_justified [Nontrivial R] (s sinv : R) (hm : 2 ≤ m) (side : Side) (r : Refusal)
    (h : Vtb.Impl.identityElement m sinv side = .error r) :
    side = .left ∧ r = .notImplemented ∧ ¬ ∃ e : Vec2 m R, IsLeftIdentity (Alg.Vtb.Impl.bind s) e := by
  cases side <;> simp [Vtb.Impl.identityElement, Vtb.Impl.guardRight] at h
  exact ⟨rfl, h.symm, Vtb.no_left_identity s hm⟩

/-- every refusal of `VtbAlgebra.negative_identity_element` is justified: it happens for LEFT and
TWO_SIDED, and (m > 1) no left — hence no two-sided — negative identity exists -/
theorem Vtb.negIdentity_refusal_justified [Nontrivial R] (s sinv : R) (hm : 2 ≤ m) (side : Side) (r : Refusal)
    (h : Vtb.Impl.negIdentityElement m sinv side = .error r) :
    side ≠ .right ∧ r = .notImplemented ∧ ¬ ∃ e : Vec2 m R, IsLeftNegIdentity (Alg.Vtb.Impl.bind s) e := by
  cases side <;> simp [Vtb.Impl.negIdentityElement, Vtb.Impl.guardRightOnly, Vtb.Impl.identityElement,
    Vtb.Impl.guardRight, Result.map] at h
  all_goals exact ⟨by simp, h.symm, Vtb.no_left_negIdentity s hm⟩

/-- every refusal of `VtbAlgebra.invert` is justified: only LEFT is refused, and a left inverse of `v`
exists only when the matrix of `v` is central -/
theorem Vtb.invert_refusal_justified (s : R) (hs : s * s = (m : R)) (v : Vec2 m R) (side : Side) (r : Refusal)
    (h : Vtb.Impl.invert v side = .error r) :
    side = .left ∧ r = .notImplemented ∧
      ∀ w, UndoesLeft (Alg.Vtb.Impl.bind s) v w → ∀ A, A * (toMat v)ᵀ = (toMat v)ᵀ * A := by
  cases side <;> simp [Vtb.Impl.invert, Vtb.Impl.guardRight] at h
  exact ⟨rfl, h.symm, fun w hw A => Vtb.left_inverse_only_central s hs v w hw A⟩

/-- a vector whose matrix is not central has no left inverse in VTB -/
theorem Vtb.no_left_inverse_of_noncentral (s : R) (hs : s * s = (m : R)) (v : Vec2 m R)
    (A : Matrix (Fin m) (Fin m) R) (hA : A * (toMat v)ᵀ ≠ (toMat v)ᵀ * A) :
    ¬ ∃ w, UndoesLeft (Alg.Vtb.Impl.bind s) v w :=
  fun ⟨w, hw⟩ => hA (Vtb.left_inverse_only_central s hs v w hw A)

/-- the TWO_SIDED answers of VTB carry the deprecation flag and are the RIGHT answers -/
theorem Vtb.twoSided_is_flagged_right (sinv : R) (v : Vec2 m R) :
    (∃ e, Vtb.Impl.identityElement m sinv .twoSided = .ok (e, true) ∧
          Vtb.Impl.identityElement m sinv .right = .ok (e, false)) ∧
    (∃ w, Vtb.Impl.invert v .twoSided = .ok (w, true) ∧ Vtb.Impl.invert v .right = .ok (w, false)) ∧
    (∃ M, Vtb.Impl.inversionMatrix (R := R) m .twoSided = .ok (M, true) ∧
          Vtb.Impl.inversionMatrix (R := R) m .right = .ok (M, false)) :=
  ⟨⟨_, rfl, rfl⟩, ⟨_, rfl, rfl⟩, ⟨_, rfl, rfl⟩⟩

end justified

/-! ### interface level: the returned sequences, read back as vectors, satisfy the laws -/

/-- interface level, VTB: whatever `identity_element(m*m, side)` returns is a right identity when read
back as a vector, flagged exactly for TWO_SIDED -/
theorem Vtb.identityD_correct (s : R) (sinv : ℕ → R) (m : ℕ) (h : s * sinv m = 1) (side : Side)
    (l : List R) (w : Bool) (hr : Vtb.Impl.identityD sinv (m * m) side = .ok (l, w)) :
    IsRightIdentity (Alg.Vtb.Impl.bind s) (vec2OfList m l) ∧ (w = true ↔ side = .twoSided) := by
  rw [Vtb.identityD_square] at hr
  cases he : Vtb.Impl.identityElement m (sinv m) side with
  | error r => simp [he, Result.map] at hr
  | ok ew =>
    obtain ⟨e, w'⟩ := ew
    simp only [he, Result.map, Except.ok.injEq, Prod.mk.injEq] at hr
    obtain ⟨rfl, rfl⟩ := hr
    rw [L.vec2OfList_listOfVec2]
    exact Vtb.identity_right s (sinv m) h side e w' he

/-- interface level, TVTB: `identity_element(m*m, side)` is a two-sided identity for every side -/
theorem Tvtb.identityD_correct (s : R) (sinv : ℕ → R) (m : ℕ) (h : s * sinv m = 1) (side : Side) :
    ∃ l, Tvtb.Impl.identityD sinv (m * m) side = .ok (l, false) ∧
      IsRightIdentity (Alg.Tvtb.Impl.bind s) (vec2OfList m l) ∧
      IsLeftIdentity (Alg.Tvtb.Impl.bind s) (vec2OfList m l) := by
  refine ⟨listOfVec2 (Alg.Tvtb.Impl.identity m (sinv m)), ?_, ?_, ?_⟩
  · rw [Tvtb.identityD_square]; rfl
  · rw [L.vec2OfList_listOfVec2]; exact L.Tvtb.bind_identity_right s (sinv m) h
  · rw [L.vec2OfList_listOfVec2]; exact L.Tvtb.bind_identity_left s (sinv m) h

/-- interface level, VTB: whatever `invert(v, side)` returns for a sequence of square length undoes
binding with `v` on the right exactly when `v` is unitary -/
theorem Vtb.invertL_correct (s : R) (m : ℕ) (hs : s * s = (m : R)) (v : List R) (hv : v.length = m * m)
    (side : Side) (l : List R) (w : Bool) (hr : Vtb.Impl.invertL v side = .ok (l, w)) :
    (UndoesRight (Alg.Vtb.Impl.bind s) (vec2OfList m v) (vec2OfList m l) ↔
      Spec.Vec2.IsUnitary (vec2OfList m v)) ∧ side ≠ .left := by
  rw [Vtb.invertL_square m v hv] at hr
  cases side <;> simp [Vtb.Impl.invert, Vtb.Impl.guardRight, Result.map] at hr
  all_goals obtain ⟨rfl, rfl⟩ := hr
  all_goals rw [L.vec2OfList_listOfVec2]
  all_goals exact ⟨Vtb.right_inverse_iff s hs _, by simp⟩

/-! ### concrete instances -/
example : Vtb.Impl.identityD (R := ℚ) (fun _ => 1/2) 16 .right
    = .ok ([1/2,0,0,0, 0,1/2,0,0, 0,0,1/2,0, 0,0,0,1/2], false) := by decide +kernel
example : Vtb.Impl.identityD (R := ℚ) (fun _ => 1/2) 16 .twoSided
    = .ok ([1/2,0,0,0, 0,1/2,0,0, 0,0,1/2,0, 0,0,0,1/2], true) := by decide +kernel
example : Vtb.Impl.identityD (R := ℚ) (fun _ => 1/2) 15 .right = .error .notSquare := by decide +kernel
example : Vtb.Impl.invertL (R := ℚ) [1,2,3,4] .right = .ok ([1,3,2,4], false) := by decide +kernel
example : Hrr.Impl.invertL (R := ℚ) [1,2,3,4,5] .left = .ok ([1,5,4,3,2], false) := by decide +kernel

end C08

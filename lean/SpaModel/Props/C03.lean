/-
C03 — operands from different vocabularies or algebras never combine silently.
Property theorems only (model: SpaModel/Basic/C03.lean; type lattice and `coerce_types`: C11).
Everything is for an arbitrary vocabulary universe `U` (dimensionalities, algebras), arbitrary
operands and arbitrary histories.
-/
import SpaModel.Basic.C03
import SpaModel.Props.C11
import SpaModel.Generated.Tables

namespace C03
open Impl
open C11 (Ty)

variable (U : Univ)

/-! ### type inference = C11 coercion, assignments only to symbols and nodes -/

/-- a `SemanticPointer` ignores the type assignment of `infer_types` -/
theorem upd_ptr (r : Ty) (v : Option Nat) (a : Nat) (l : Int) :
    upd U r (.ptr v a l) = .ptr v a l := rfl

theorem upd_isPtr (r : Ty) (o : Obj) (h : IsPtr o) : upd U r o = o := by
  cases o <;> simp_all [IsPtr, upd]

/-- `infer_types` succeeds with `r` exactly when `r` is the most specific of the two operand
types, i.e. the operand types have an upper bound among themselves (C11). -/
theorem infer_ok_iff (a b : Obj) (r : Ty) :
    (∃ a' b', infer U a b = .ok (r, a', b')) ↔ C11.Spec.IsGreatest U.dim [ty a, ty b] r := by
  rw [← C11.coerce_ok_iff_greatest]
  unfold infer
  cases h : C11.Impl.coerce U.dim (ty a) [ty b] with
  | error e => simp
  | ok r' =>
    by_cases hv : isVocab r' <;> simp [hv] <;> constructor <;> intro h' <;> simp_all

/-- it raises `SpaTypeError`, before assigning anything, exactly when there is no such bound:
different vocabularies (even of equal dimensionality) or different dimensionalities -/
theorem infer_error_iff (a b : Obj) :
    infer U a b = .error .spaType ↔ ¬ Spec.Bounded U a b := by
  unfold Spec.Bounded
  rw [← C11.coerce_error_iff_no_greatest]
  unfold infer
  cases h : C11.Impl.coerce U.dim (ty a) [ty b] with
  | error e => simp
  | ok r' => by_cases hv : isVocab r' <;> simp [hv]

theorem infer_error_only_spaType (a b : Obj) (e : Err) (h : infer U a b = .error e) : e = .spaType := by
  unfold infer at h
  cases hc : C11.Impl.coerce U.dim (ty a) [ty b] with
  | error e' => simp [hc] at h; exact h.symm
  | ok r' => by_cases hv : isVocab r' <;> simp [hc, hv] at h

/-- operands of two different vocabularies are never bounded, whatever their dimensionalities -/
theorem different_vocab_unbounded (a b : Obj) (v w : Nat) (ha : ty a = .vocab v) (hb : ty b = .vocab w)
    (hne : v ≠ w) : ¬ Spec.Bounded U a b := by
  rintro ⟨r, hmem, hall⟩
  rw [ha, hb] at hmem hall
  have h1 := hall (.vocab v) (by simp)
  have h2 := hall (.vocab w) (by simp)
  simp only [List.mem_cons, List.not_mem_nil, or_false] at hmem
  rcases hmem with rfl | rfl
  · rcases h2 with h2 | h2
    · injection h2 with h2; exact hne h2.symm
    · cases h2
  · rcases h1 with h1 | h1
    · injection h1 with h1; exact hne h1
    · cases h1

/-- a node of known dimensionality `d` and a vocabulary of another dimensionality are not bounded -/
theorem different_dim_unbounded (a b : Obj) (d : Int) (w : Nat) (ha : ty a = .anyDim d) (hb : ty b = .vocab w)
    (hne : d ≠ U.dim w) : ¬ Spec.Bounded U a b := by
  rintro ⟨r, hmem, hall⟩
  rw [ha, hb] at hmem hall
  have h1 := hall (.anyDim d) (by simp)
  have h2 := hall (.vocab w) (by simp)
  simp only [List.mem_cons, List.not_mem_nil, or_false] at hmem
  rcases hmem with rfl | rfl
  · rcases h2 with h2 | h2
    · cases h2
    · cases h2
  · rcases h1 with h1 | h1
    · cases h1
    · cases h1; exact hne rfl

theorem upd_cases (r : Ty) (o : Obj) : upd U r o = o ∨ ty (upd U r o) = r := by
  cases o with
  | sym t =>
    by_cases h : (C11.Impl.le U.dim .any t && C11.Impl.lt U.dim t r) = true <;> simp [upd, h, ty]
  | dyn t g =>
    by_cases h : (C11.Impl.le U.dim .any t && C11.Impl.lt U.dim t r) = true <;> simp [upd, h, ty]
  | _ => left; rfl

/-- whatever `infer_types` does, it leaves Semantic Pointers alone, and what it assigns to a
symbol/node is the inferred vocabulary type -/
theorem infer_operands (a b a' b' : Obj) (r : Ty) (h : infer U a b = .ok (r, a', b')) :
    (IsPtr a → a' = a) ∧ (IsPtr b → b' = b) ∧
    (a' = a ∨ (isVocab r = true ∧ ty a' = r)) ∧ (b' = b ∨ (isVocab r = true ∧ ty b' = r)) := by
  unfold infer at h
  cases hc : C11.Impl.coerce U.dim (ty a) [ty b] with
  | error e => simp [hc] at h
  | ok r' =>
    by_cases hv : isVocab r' = true
    · simp [hc, hv] at h
      obtain ⟨rfl, rfl, rfl⟩ := h
      refine ⟨fun hp => upd_isPtr U _ _ hp, fun hp => upd_isPtr U _ _ hp, ?_, ?_⟩
      · rcases upd_cases U r' a with h | h
        · exact Or.inl h
        · exact Or.inr ⟨hv, h⟩
      · rcases upd_cases U r' b with h | h
        · exact Or.inl h
        · exact Or.inr ⟨hv, h⟩
    · simp [hc, hv] at h
      obtain ⟨rfl, rfl, rfl⟩ := h
      simp

/-! ### no operation changes a Semantic Pointer -/

theorem keeps_error (a b : Obj) (e : Err) : Keeps a b (.error e) := by
  intro a' b' v h; cases h

theorem keeps_same (a b : Obj) (v : Val) : Keeps a b (.ok (a, b, v)) := by
  intro a' b' v' h; cases h; simp

theorem late_slots (s' o' a' b' : Obj) (x : Except Err Val) (v : Val)
    (h : late s' o' x = .ok (a', b', v)) : a' = s' ∧ b' = o' := by
  cases x <;> simp [late] at h <;> exact ⟨h.1.symm, h.2.1.symm⟩

/-- every core routine starts with `infer_types` and then only reports through `late` -/
theorem keeps_of_bind (s o : Obj) (k : Ty × Obj × Obj → Res)
    (hk : ∀ r s' o' a' b' v, k (r, s', o') = .ok (a', b', v) → a' = s' ∧ b' = o') :
    Keeps s o (infer U s o >>= k) := by
  intro a' b' v h
  cases hi : infer U s o with
  | error e => simp [hi, bind, Except.bind] at h
  | ok x =>
    obtain ⟨r, s', o'⟩ := x
    have hop := infer_operands U s o s' o' r hi
    simp only [hi, bind, Except.bind] at h
    obtain ⟨rfl, rfl⟩ := hk _ _ _ _ _ _ h
    exact ⟨hop.1, hop.2.1⟩

theorem keeps_spCombine (bd : Bool) (s o : Obj) : Keeps s o (spCombine U bd s o) := by
  unfold spCombine
  apply keeps_of_bind
  intro r s' o' a' b' v h
  exact late_slots _ _ _ _ _ _ h
theorem keeps_spScalar (red : Red) (s o : Obj) : Keeps s o (spScalar U red s o) := by
  unfold spScalar
  apply keeps_of_bind
  intro r s' o' a' b' v h
  exact late_slots _ _ _ _ _ _ h
theorem keeps_dynMulFixed (s o : Obj) : Keeps s o (dynMulFixed U s o) := by
  unfold dynMulFixed
  apply keeps_of_bind
  intro r s' o' a' b' v h
  exact late_slots _ _ _ _ _ _ h
theorem keeps_dynMulDyn (s o : Obj) : Keeps s o (dynMulDyn U s o) := by
  unfold dynMulDyn
  apply keeps_of_bind
  intro r s' o' a' b' v h
  exact late_slots _ _ _ _ _ _ h
theorem keeps_dynDot (s o : Obj) : Keeps s o (dynDot U s o) := by
  unfold dynDot
  apply keeps_of_bind
  intro r s' o' a' b' v h
  exact late_slots _ _ _ _ _ _ h
theorem keeps_symDot (s o : Obj) : Keeps s o (symDot U s o) := by
  unfold symDot
  apply keeps_of_bind
  intro r s' o' a' b' v h
  exact late_slots _ _ _ _ _ _ h
theorem keeps_dynAdd (s o : Obj) : Keeps s o (dynAdd U s o) := by
  unfold dynAdd
  apply keeps_of_bind
  intro r s' o' a' b' v h
  simp at h
  exact ⟨h.1.symm, h.2.1.symm⟩
theorem keeps_symCombine (s o : Obj) : Keeps s o (symCombine U s o) := by
  unfold symCombine
  apply keeps_of_bind
  intro r s' o' a' b' v h
  simp at h
  exact ⟨h.1.symm, h.2.1.symm⟩

theorem keeps_swap (a b : Obj) (r : Res) (h : Keeps b a r) : Keeps a b (swapRes r) := by
  intro a' b' v hr
  cases r with
  | error e => simp [swapRes] at hr
  | ok x =>
    obtain ⟨x1, x2, x3⟩ := x
    simp [swapRes] at hr
    obtain ⟨rfl, rfl, rfl⟩ := hr
    have := h _ _ _ rfl
    exact ⟨this.2, this.1⟩

theorem keeps_modR (f : Obj → Obj → Res) (a b : Obj) (h : Keeps (asDyn b) a (f (asDyn b) a)) :
    Keeps a b (modR f a b) := by
  intro a' b' v hr
  unfold modR at hr
  cases hf : f (asDyn b) a with
  | error e => simp [hf] at hr
  | ok x =>
    obtain ⟨x1, x2, x3⟩ := x
    simp [hf] at hr
    obtain ⟨rfl, rfl, rfl⟩ := hr
    exact ⟨(h _ _ _ hf).2, fun _ => rfl⟩

theorem keeps_modL (f : Obj → Obj → Res) (a b : Obj) (h : Keeps (asDyn a) (asDyn b) (f (asDyn a) (asDyn b))) :
    Keeps a b (modL f a b) := by
  intro a' b' v hr
  unfold modL at hr
  cases hf : f (asDyn a) (asDyn b) with
  | error e => simp [hf] at hr
  | ok x =>
    obtain ⟨x1, x2, x3⟩ := x
    simp [hf] at hr
    obtain ⟨rfl, rfl, rfl⟩ := hr
    refine ⟨fun _ => rfl, fun hp => ?_⟩
    cases b with
    | ptr vb al l =>
      simp only [isMod, Bool.false_eq_true, if_false]
      exact (h _ _ _ hf).2 trivial
    | _ => exact absurd hp (by simp [IsPtr])

macro "keeps_cases" : tactic => `(tactic| first
  | exact keeps_error _ _ _
  | exact keeps_same _ _ _
  | exact keeps_spCombine _ _ _ _
  | exact keeps_spScalar _ _ _ _
  | exact keeps_symCombine _ _ _
  | exact keeps_symDot _ _ _
  | exact keeps_dynAdd _ _ _
  | exact keeps_dynDot _ _ _
  | (apply keeps_swap; first | exact keeps_spCombine _ _ _ _ | exact keeps_dynAdd _ _ _ | exact keeps_dynDot _ _ _)
  | (apply keeps_modR; first | exact keeps_dynAdd _ _ _ | exact keeps_dynDot _ _ _)
  | (apply keeps_modL; first | exact keeps_dynAdd _ _ _ | exact keeps_dynDot _ _ _))

theorem keeps_add (a b : Obj) : Keeps a b (add U a b) := by
  cases a <;> cases b <;> simp only [add] <;> keeps_cases

theorem keeps_sub (a b : Obj) : Keeps a b (sub U a b) := by
  intro a' b' v h
  unfold sub at h
  cases hadd : add U a b with
  | error e => simp [hadd] at h
  | ok x =>
    obtain ⟨x1, x2, x3⟩ := x
    have hk := keeps_add U a b _ _ _ hadd
    simp only [hadd] at h
    split at h <;> simp at h <;> obtain ⟨rfl, rfl, rfl⟩ := h
    · exact hk
    · exact ⟨hk.1, fun _ => rfl⟩

theorem keeps_dynMul (s o : Obj) : Keeps s o (dynMul U s o) := by
  unfold dynMul; split
  · exact keeps_dynMulFixed U s o
  · exact keeps_dynMulDyn U s o

macro "keeps_cases2" : tactic => `(tactic| first
  | keeps_cases
  | exact keeps_dynMul _ _ _
  | (apply keeps_swap; exact keeps_dynMul _ _ _)
  | (apply keeps_modR; exact keeps_dynMul _ _ _)
  | (apply keeps_modL; exact keeps_dynMul _ _ _))

theorem keeps_mul (a b : Obj) : Keeps a b (mul U a b) := by
  cases a <;> cases b <;> simp only [mul] <;> keeps_cases2

theorem keeps_dotM (a b : Obj) : Keeps a b (dotM U a b) := by
  cases a <;> cases b <;> simp only [dotM, spDotArr] <;> first | keeps_cases2 | (split <;> keeps_cases2)

theorem keeps_spMethod (red : Red) (a b : Obj) : Keeps a b (spMethod U red a b) := by
  cases a <;> cases b <;> simp only [spMethod] <;> first | keeps_cases2 | (split <;> keeps_cases2)

theorem keeps_rdotM (a b : Obj) (r : Res) (h : rdotM U a b = some r) : Keeps a b r := by
  unfold rdotM at h
  split at h <;> simp at h <;> subst h <;> exact keeps_swap _ _ _ (keeps_dotM U _ _)

theorem keeps_first (a b : Obj) :
    Keeps a b (if isSpa a then dotM U a b else .ok (a, b, .ni)) := by
  split
  · exact keeps_dotM U a b
  · exact keeps_same _ _ _

theorem keeps_dispatch (a b : Obj) (first : Res) (hf : Keeps a b first) :
    Keeps a b (if !isNi first then first else
      match rdotM U a b with
      | some r => if isNi r then .error .typeErr else r
      | none => .error .typeErr) := by
  by_cases h1 : (!isNi first) = true
  · rw [if_pos h1]; exact hf
  · rw [if_neg h1]
    cases hr : rdotM U a b with
    | none => exact keeps_error _ _ _
    | some r =>
      by_cases h2 : isNi r = true
      · simp only [h2, if_true]; exact keeps_error _ _ _
      · simp only [h2]; exact keeps_rdotM U a b r hr

theorem keeps_spadot (a b : Obj) : Keeps a b (spadot U a b) := by
  unfold spadot
  exact keeps_dispatch U a b _ (keeps_first U a b)

theorem keeps_matmul (a b : Obj) : Keeps a b (matmul U a b) := by
  unfold matmul
  by_cases h0 : (!isSpa a && !isSpa b) = true
  · rw [if_pos h0]; exact keeps_same _ _ _
  · rw [if_neg h0]; exact keeps_dispatch U a b _ (keeps_first U a b)

theorem keeps_rshift (a b : Obj) : Keeps a b (rshift U a b) := by
  intro a' b' v h
  unfold rshift at h
  split at h
  · cases h
  · rename_i t _
    cases hi : infer U (.mod t) (asDyn a) with
    | error e => simp [hi, bind, Except.bind] at h
    | ok x =>
      obtain ⟨r, s', o'⟩ := x
      have hop := infer_operands U _ _ s' o' r hi
      simp only [hi, bind, Except.bind] at h
      obtain ⟨rfl, rfl⟩ := late_slots _ _ _ _ _ _ h
      refine ⟨fun hp => ?_, fun hp => absurd hp (by simp [IsPtr])⟩
      cases a <;> simp [IsPtr] at hp
      simp only [isMod, Bool.false_eq_true, if_false]
      exact hop.2.1 trivial
  · cases h
  · split at h
    · cases h
    · simp at h; obtain ⟨rfl, rfl, _⟩ := h; simp

/-- **No operation changes a Semantic Pointer operand** (its vocabulary, algebra, length and hence
its type), whatever the other operand is and whether or not the operation is accepted. -/
theorem binop_keeps_pointers (op : BinOp) (a b a' b' : Obj) (v : Val)
    (h : binop U op a b = .ok (a', b', v)) : (IsPtr a → a' = a) ∧ (IsPtr b → b' = b) := by
  cases op <;> simp only [binop] at h
  · exact keeps_add U a b _ _ _ h
  · exact keeps_sub U a b _ _ _ h
  · exact keeps_mul U a b _ _ _ h
  · exact keeps_matmul U a b _ _ _ h
  · exact keeps_dotM U a b _ _ _ h
  · exact keeps_spMethod U _ a b _ _ _ h
  · exact keeps_spMethod U _ a b _ _ _ h
  · exact keeps_spMethod U _ a b _ _ _ h
  · exact keeps_spadot U a b _ _ _ h
  · exact keeps_rshift U a b _ _ _ h

/-! ### histories -/

theorem get_ok_iff (w : World) (i : Nat) (o : Obj) : Impl.get w i = .ok o ↔ w[i]? = some (some o) := by
  unfold Impl.get
  split
  · next h => simp [h]
  · next h =>
    constructor
    · intro h'; cases h'
    · intro h'; exact absurd h' (h o)

theorem append_keeps (w : World) (x : Option Obj) (i : Nat) (p : Obj) (h : PtrAt w i p) :
    PtrAt (w ++ [x]) i p := by
  refine ⟨h.1, ?_⟩
  have hlt : i < w.length := by
    have := h.2
    exact (List.getElem?_eq_some_iff.1 this).1
  rw [List.getElem?_append_left hlt]; exact h.2

/-- one operation of any kind, accepted or rejected, leaves every Semantic Pointer of the world as it is -/
theorem step_keeps_ptr (w : World) (op : Op) (i : Nat) (p : Obj) (h : PtrAt w i p) :
    PtrAt (step U w op).1 i p := by
  cases op with
  | reinterp i0 tgt =>
    simp only [step]
    split
    · split <;> exact append_keeps _ _ _ _ h
    · exact append_keeps _ _ _ _ h
  | translate i0 tgt =>
    simp only [step]
    split
    · split <;> exact append_keeps _ _ _ _ h
    · exact append_keeps _ _ _ _ h
  | unary u i0 =>
    simp only [step]
    split
    · split <;> exact append_keeps _ _ _ _ h
    · exact append_keeps _ _ _ _ h
  | bin k i0 j0 =>
    simp only [step]
    split
    · next a b ha hb =>
      rw [get_ok_iff] at ha hb
      have key : ∀ a' b' x, binop U k a b = .ok (a', b', x) →
          PtrAt (((w.set i0 (some a')).set j0 (some b')) ++ [slotOf x]) i p ∧
          PtrAt (((w.set i0 (some a')).set j0 (some b')) ++ [none]) i p := by
        intro a' b' x hb'
        have hk := binop_keeps_pointers U k a b a' b' x hb'
        have hp : PtrAt ((w.set i0 (some a')).set j0 (some b')) i p := by
          refine ⟨h.1, ?_⟩
          have hlt : i < w.length := (List.getElem?_eq_some_iff.1 h.2).1
          by_cases hj : j0 = i
          · subst hj
            have : b = p := by rw [h.2] at hb; injection hb with hb; injection hb with hb; exact hb.symm
            subst this
            rw [hk.2 h.1]
            simp [List.getElem?_set, hlt]
          · by_cases hi : i0 = i
            · subst hi
              have : a = p := by rw [h.2] at ha; injection ha with ha; injection ha with ha; exact ha.symm
              subst this
              rw [hk.1 h.1]
              simp [List.getElem?_set, hlt, hj]
            · simp [List.getElem?_set, hj, hi]; exact h.2
        exact ⟨append_keeps _ _ _ _ hp, append_keeps _ _ _ _ hp⟩
      split
      · next a' b' e hb' => exact (key a' b' _ hb').2
      · next a' b' x _ hb' => exact (key a' b' x hb').1
      · exact append_keeps _ _ _ _ h
    · exact append_keeps _ _ _ _ h

/-- … and so does every history -/
theorem run_keeps_ptr (w : World) (ops : List Op) (i : Nat) (p : Obj) (h : PtrAt w i p) :
    PtrAt (run U w ops).1 i p := by
  induction ops generalizing w with
  | nil => exact h
  | cons op ops ih =>
    simp only [run]
    exact ih _ (step_keeps_ptr U w op i p h)

/-- **History clause.**  Whatever a vocabulary-less (or any) Semantic Pointer `p` and a second
Semantic Pointer `q` were combined with before — any operations, any operands, any number of them,
accepted or rejected — an operation on them is accepted or rejected, and returns, exactly as in the
initial world. -/
theorem history_free (w : World) (hist : List Op) (k : BinOp) (i j : Nat) (p q : Obj)
    (hp : PtrAt w i p) (hq : PtrAt w j q) :
    (step U (run U w hist).1 (.bin k i j)).2 = (step U w (.bin k i j)).2 := by
  have hp' := run_keeps_ptr U w hist i p hp
  have hq' := run_keeps_ptr U w hist j q hq
  have g1 : Impl.get w i = .ok p := (get_ok_iff w i p).2 hp.2
  have g2 : Impl.get w j = .ok q := (get_ok_iff w j q).2 hq.2
  have g3 : Impl.get (run U w hist).1 i = .ok p := (get_ok_iff _ i p).2 hp'.2
  have g4 : Impl.get (run U w hist).1 j = .ok q := (get_ok_iff _ j q).2 hq'.2
  simp only [step, g1, g2, g3, g4]
  cases hb : binop U k p q with
  | error e => rfl
  | ok x =>
    obtain ⟨a', b', v⟩ := x
    cases v <;> rfl

/-! ### rejection happens before any value, bare arrays, explicit casts -/

/-- **Rejected before any value is produced.**  When an operation is rejected at the gate or by type
inference (`Except.error`), no object is created and the world is exactly the old one plus an empty
slot; in particular `infer_types` has assigned nothing.  (An exception raised *later* — while Nengo
objects are connected — is the `Val.raised` outcome: no value either, but a symbol / node operand
keeps the vocabulary type inference gave it; Semantic Pointers never change:
`binop_keeps_pointers`.) -/
theorem reject_before_value (w : World) (k : BinOp) (i j : Nat) (a b : Obj) (e : Err)
    (ha : Impl.get w i = .ok a) (hb : Impl.get w j = .ok b) (h : binop U k a b = .error e) :
    step U w (.bin k i j) = (w ++ [none], .error e) := by
  simp [step, ha, hb, h]

/-- a rejected or late-failing operation never appends an object -/
theorem no_value_on_error (w : World) (op : Op) (e : Err) (h : (step U w op).2 = .error e) :
    (step U w op).1.getLast? = some none := by
  cases op with
  | bin k i j =>
    simp only [step] at h ⊢
    split at h <;> try (split at h)
    all_goals simp_all
  | reinterp i t =>
    simp only [step] at h ⊢
    split at h <;> try (split at h)
    all_goals simp_all
  | translate i t =>
    simp only [step] at h ⊢
    split at h <;> try (split at h)
    all_goals simp_all
  | unary u i =>
    simp only [step] at h ⊢
    split at h <;> try (split at h)
    all_goals simp_all

/-- **A bare array operand is rejected** by `+`, `-`, `*` and `>>`, on either side, whatever the
SPA operand is (`dot`/`compare`/`mse` take array-likes by documented design). -/
theorem arith_rejects_bare_array (op : BinOp) (a b : Obj) (hop : Spec.arith op = true)
    (harr : Spec.isArr a = true ∨ Spec.isArr b = true) (hspa : isSpa a = true ∨ isSpa b = true) :
    ∃ e, binop U op a b = .error e := by
  cases op <;> simp [Spec.arith] at hop <;>
    cases a <;> cases b <;> simp [Spec.isArr, isSpa] at harr hspa <;>
    simp [binop, add, sub, mul, rshift, isSpa]

/-- **Only the explicit casts choose a vocabulary**: `translate` gives the result the requested
vocabulary (so does `reinterpret`; both are exercised over the whole operand matrix by the tie). -/
theorem translate_result (a o : Obj) (tgt : Nat) (h : translate U a tgt = .ok o) : ty o = .vocab tgt := by
  unfold translate at h
  split at h <;> simp at h <;> subst h <;> rfl

/-! ### pointer with pointer: exact acceptance and the result's vocabulary -/

theorem infer_ptr (va vb : Option Nat) (aa ab : Nat) (la lb : Int) (r : Ty) (s' o' : Obj)
    (h : infer U (.ptr va aa la) (.ptr vb ab lb) = .ok (r, s', o')) :
    s' = .ptr va aa la ∧ o' = .ptr vb ab lb ∧
      C11.Spec.IsGreatest U.dim [ty (.ptr va aa la), ty (.ptr vb ab lb)] r := by
  have hop := infer_operands U _ _ s' o' r h
  exact ⟨hop.1 trivial, hop.2.1 trivial, (infer_ok_iff U _ _ r).1 ⟨s', o', h⟩⟩

/-- **`+`, `-`, `*` of two Semantic Pointers (`_add`, `_bind`).**  A pointer `o` is returned exactly
when the operand types have an upper bound `r` among themselves (same vocabulary, or at least one
vocabulary-less), two vocabulary-less pointers share the algebra, the lengths are equal, and the
result can be built with `self`'s algebra (the bound's vocabulary, if any, has that algebra — this
excludes the mixed case "vocabulary-less pointer of algebra X on the left of a vocabulary of algebra
Y").  The result carries the bound's vocabulary, `self`'s algebra (= the vocabulary's) and length. -/
theorem spCombine_ptr_iff (bd : Bool) (va vb : Option Nat) (aa ab : Nat) (la lb : Int) (o : Obj) :
    spCombine U bd (.ptr va aa la) (.ptr vb ab lb) = .ok (.ptr va aa la, .ptr vb ab lb, .obj o) ↔
    ∃ r, C11.Spec.IsGreatest U.dim [ty (.ptr va aa la), ty (.ptr vb ab lb)] r ∧
      (vocabOf r = none → aa = ab) ∧ la = lb ∧ (∀ v, vocabOf r = some v → U.valg v = aa) ∧
      o = .ptr (vocabOf r) aa la := by
  unfold spCombine
  cases hi : infer U (.ptr va aa la) (.ptr vb ab lb) with
  | error e =>
    constructor
    · intro h; simp [bind, Except.bind] at h
    · rintro ⟨r, hg, _⟩
      obtain ⟨a', b', h⟩ := (infer_ok_iff U _ _ r).2 hg
      rw [hi] at h; cases h
  | ok x =>
    obtain ⟨r, s', o'⟩ := x
    obtain ⟨rfl, rfl, hg⟩ := infer_ptr U va vb aa ab la lb r s' o' hi
    have huniq : ∀ r', C11.Spec.IsGreatest U.dim [ty (.ptr va aa la), ty (.ptr vb ab lb)] r' → r' = r :=
      fun r' hg' => C11.greatest_unique U.dim hg' hg
    simp only [bind, Except.bind, late, evalFixed, selfLen, selfAlg, bcast, pure, Except.pure]
    constructor
    · intro h
      refine ⟨r, hg, ?_⟩
      cases hv : vocabOf r with
      | none =>
        by_cases hal : aa = ab <;> by_cases hl : la = lb <;> cases bd <;>
          simp_all [ensureAlg, mkPtr]
      | some v =>
        by_cases hl : la = lb <;> by_cases hav : U.valg v = aa <;> cases bd <;>
          simp_all [mkPtr]
    · rintro ⟨r', hg', h1, h2, h3, h4⟩
      obtain rfl := huniq r' hg'
      subst h2 h4
      cases hv : vocabOf r' with
      | none =>
        have := h1 hv; subst this
        cases bd <;> simp [hv, ensureAlg, mkPtr]
      | some v =>
        have := h3 v hv
        cases bd <;> simp [hv, mkPtr, this]

/-- **`dot`, `@`, `compare`, `mse`, `distance` of two Semantic Pointers.**  A number is returned
exactly when the types are bounded, two vocabulary-less pointers share the algebra and the lengths
are equal (a vocabulary-less pointer of another algebra is admitted against a vocabulary: no result
object is built, the number is the plain dot product). -/
theorem spScalar_ptr_iff (red : Red) (va vb : Option Nat) (aa ab : Nat) (la lb : Int) :
    spScalar U red (.ptr va aa la) (.ptr vb ab lb) = .ok (.ptr va aa la, .ptr vb ab lb, .obj .npnum) ↔
    ∃ r, C11.Spec.IsGreatest U.dim [ty (.ptr va aa la), ty (.ptr vb ab lb)] r ∧
      (r = .any → aa = ab) ∧ la = lb := by
  unfold spScalar
  cases hi : infer U (.ptr va aa la) (.ptr vb ab lb) with
  | error e =>
    constructor
    · intro h; simp [bind, Except.bind] at h
    · rintro ⟨r, hg, _⟩
      obtain ⟨a', b', h⟩ := (infer_ok_iff U _ _ r).2 hg
      rw [hi] at h; cases h
  | ok x =>
    obtain ⟨r, s', o'⟩ := x
    obtain ⟨rfl, rfl, hg⟩ := infer_ptr U va vb aa ab la lb r s' o' hi
    simp only [bind, Except.bind, late, evalFixed, selfLen, pure, Except.pure]
    constructor
    · intro h
      refine ⟨r, hg, ?_⟩
      by_cases hr : r = .any <;> by_cases hal : aa = ab <;> by_cases hl : la = lb <;>
        cases red <;> simp [hr, hal, hl, ensureAlg, redLen, bcast] at h ⊢
    · rintro ⟨r', hg', h1, h2⟩
      obtain rfl := C11.greatest_unique U.dim hg' hg
      subst h2
      by_cases hr : r' = .any
      · have := h1 hr; subst this
        cases red <;> simp [hr, ensureAlg, redLen, bcast]
      · cases red <;> simp [hr, redLen, bcast]

/-- a result of a core pointer routine that is a value at all -/
theorem spCombine_value (bd : Bool) (va vb : Option Nat) (aa ab : Nat) (la lb : Int) (a' b' : Obj) (v : Val)
    (h : spCombine U bd (.ptr va aa la) (.ptr vb ab lb) = .ok (a', b', v)) (hv : Spec.isValue v = true) :
    la = lb := by
  unfold spCombine at h
  cases hi : infer U (.ptr va aa la) (.ptr vb ab lb) with
  | error e => simp [hi, bind, Except.bind] at h
  | ok x =>
    obtain ⟨r, s', o'⟩ := x
    obtain ⟨rfl, rfl, _⟩ := infer_ptr U va vb aa ab la lb r s' o' hi
    simp only [hi, bind, Except.bind, late, evalFixed, selfLen, selfAlg, bcast, pure, Except.pure] at h
    by_cases hl : la = lb
    · exact hl
    · exfalso
      cases hv' : vocabOf r <;> cases hal : ensureAlg (.ptr va aa la) (.ptr vb ab lb) <;>
        cases bd <;> simp [hv', hal, hl] at h <;> obtain ⟨_, _, rfl⟩ := h <;> simp [Spec.isValue] at hv

theorem spScalar_value (red : Red) (va vb : Option Nat) (aa ab : Nat) (la lb : Int) (a' b' : Obj) (v : Val)
    (h : spScalar U red (.ptr va aa la) (.ptr vb ab lb) = .ok (a', b', v)) (hv : Spec.isValue v = true) :
    la = lb := by
  unfold spScalar at h
  cases hi : infer U (.ptr va aa la) (.ptr vb ab lb) with
  | error e => simp [hi, bind, Except.bind] at h
  | ok x =>
    obtain ⟨r, s', o'⟩ := x
    obtain ⟨rfl, rfl, _⟩ := infer_ptr U va vb aa ab la lb r s' o' hi
    simp only [hi, bind, Except.bind, late, evalFixed, selfLen, pure, Except.pure] at h
    by_cases hl : la = lb
    · exact hl
    · exfalso
      by_cases hr : r = .any <;> cases hal : ensureAlg (.ptr va aa la) (.ptr vb ab lb) <;>
        cases red <;> simp [hr, hal, hl, redLen, bcast] at h <;> obtain ⟨_, _, rfl⟩ := h <;>
        simp [Spec.isValue] at hv

/-- **Semantic Pointers of different lengths never combine**: every operator and method rejects
them (no value), whatever their vocabularies and algebras. -/
theorem different_length_rejected (op : BinOp) (va vb : Option Nat) (aa ab : Nat) (la lb : Int)
    (hne : la ≠ lb) (a' b' : Obj) (v : Val)
    (h : binop U op (.ptr va aa la) (.ptr vb ab lb) = .ok (a', b', v)) : Spec.isValue v = false := by
  cases hv : Spec.isValue v with
  | false => rfl
  | true =>
    exfalso
    apply hne
    cases op <;> simp only [binop] at h
    · exact spCombine_value U _ va vb aa ab la lb a' b' v h hv
    · unfold sub at h
      simp only [add] at h
      cases hc : spCombine U false (.ptr va aa la) (.ptr vb ab lb) with
      | error e => simp [hc] at h
      | ok x =>
        obtain ⟨x1, x2, x3⟩ := x
        simp [hc] at h
        obtain ⟨rfl, rfl, rfl⟩ := h
        exact spCombine_value U _ va vb aa ab la lb _ _ _ hc hv
    · exact spCombine_value U _ va vb aa ab la lb a' b' v h hv
    · simp only [matmul, isSpa, dotM, rdotM] at h
      by_cases hni : isNi (spScalar U .npdot (.ptr va aa la) (.ptr vb ab lb)) = true
      · simp [hni] at h
      · simp [hni] at h; exact spScalar_value U _ va vb aa ab la lb a' b' v h hv
    · exact spScalar_value U _ va vb aa ab la lb a' b' v h hv
    · exact spScalar_value U _ va vb aa ab la lb a' b' v h hv
    · exact spScalar_value U _ va vb aa ab la lb a' b' v h hv
    · exact spScalar_value U _ va vb aa ab la lb a' b' v h hv
    · simp only [spadot, isSpa, dotM, rdotM] at h
      by_cases hni : isNi (spScalar U .npdot (.ptr va aa la) (.ptr vb ab lb)) = true
      · simp [hni] at h
      · simp [hni] at h; exact spScalar_value U _ va vb aa ab la lb a' b' v h hv
    · simp [rshift, isSpa] at h

/-- **`ptr_accepts_iff`, per method.**  For two Semantic Pointers every operator / method *is* one of
the two core routines characterised exactly by `spCombine_ptr_iff` (accepted ⇔ types bounded ∧
lengths equal ∧ (both vocabulary-less ⇒ same algebra) ∧ result buildable with `self`'s algebra) and
`spScalar_ptr_iff` (accepted ⇔ types bounded ∧ lengths equal ∧ (both vocabulary-less ⇒ same algebra)). -/
theorem binop_ptr_core (va vb : Option Nat) (aa ab : Nat) (la lb : Int) :
    let p := Obj.ptr va aa la
    let q := Obj.ptr vb ab lb
    binop U .add p q = spCombine U false p q ∧ binop U .sub p q = spCombine U false p q ∧
    binop U .mul p q = spCombine U true p q ∧ binop U .dot p q = spScalar U .npdot p q ∧
    binop U .compare p q = spScalar U .npcmp p q ∧ binop U .distance p q = spScalar U .npcmp p q ∧
    binop U .mse p q = spScalar U .npsub p q := by
  refine ⟨rfl, ?_, rfl, rfl, rfl, rfl, rfl⟩
  simp only [binop, sub, add]
  cases hc : spCombine U false (.ptr va aa la) (.ptr vb ab lb) with
  | error e => rfl
  | ok x =>
    obtain ⟨x1, x2, x3⟩ := x
    have := keeps_spCombine U false _ _ _ _ _ hc
    simp [this.2 trivial]

/-! ### the result of an accepted operation carries the bound's vocabulary -/

/-- symbolic results and sums of nodes are typed with the bound of the operand types (C11), hence
carry its vocabulary; pointer results: `spCombine_ptr_iff` -/
theorem symCombine_result (a b a' b' : Obj) (v : Val) (h : symCombine U a b = .ok (a', b', v)) :
    ∃ r, C11.Spec.IsGreatest U.dim [ty a, ty b] r ∧ v = .obj (.sym r) := by
  unfold symCombine at h
  cases hi : infer U a b with
  | error e => simp [hi, bind, Except.bind] at h
  | ok x =>
    obtain ⟨r, s', o'⟩ := x
    simp [hi, bind, Except.bind] at h
    exact ⟨r, (infer_ok_iff U a b r).1 ⟨s', o', hi⟩, h.2.2.symm⟩

theorem dynAdd_result (a b a' b' : Obj) (v : Val) (h : dynAdd U a b = .ok (a', b', v)) :
    ∃ r g, C11.Spec.IsGreatest U.dim [ty a, ty b] r ∧ v = .obj (.dyn r g) := by
  unfold dynAdd at h
  cases hi : infer U a b with
  | error e => simp [hi, bind, Except.bind] at h
  | ok x =>
    obtain ⟨r, s', o'⟩ := x
    simp [hi, bind, Except.bind] at h
    exact ⟨r, _, (infer_ok_iff U a b r).1 ⟨s', o', hi⟩, h.2.2.symm⟩

/-- **A unary operator or method never changes what its operand belongs to**: the new pointer has the
operand's vocabulary, algebra and length, the new symbol / node the operand's type.  (Only
`reinterpret`/`translate` produce an object of another vocabulary: `reinterpret_result`.) -/
theorem unary_keeps_membership (u : UnOp) (a o : Obj) (h : unary U u a = .ok o) : o = a := by
  cases a with
  | ptr v alg l =>
    simp only [unary] at h
    split at h
    · cases h
    · injection h with h; exact h.symm
  | sym t => simp only [unary] at h; injection h with h; exact h.symm
  | dyn t g =>
    cases u <;> cases t <;> simp only [unary] at h <;>
      first
        | (cases h <;> rfl)
        | (split at h <;> cases h <;> rfl)
  | mod t => simp [unary] at h
  | num => simp [unary] at h
  | npnum => simp [unary] at h
  | arr l => simp [unary] at h

/-- hence combining the outcome of a unary operation with any operand is accepted, rejected and
typed exactly like combining the operand itself: a typed symbol stays bound to its vocabulary through
`-x`, `~x`, `x.normalized()`, `x.unitary()`, `x.linv()`, `x.rinv()` -/
theorem unary_then_binop (u : UnOp) (a o b : Obj) (k : BinOp) (h : unary U u a = .ok o) :
    binop U k o b = binop U k a b ∧ binop U k b o = binop U k b a := by
  rw [unary_keeps_membership U u a o h]
  exact ⟨rfl, rfl⟩

/-! ### the dispatch assumptions of the model, re-checked against the source on every run -/

/-- Which operators and methods the model takes each operand class to define (what `Impl.binop`,
`Impl.unary`, `spMethod`, `dotM`, … encode in their patterns): `SemanticPointer` has no reflected
`@`/`rdot`; `PointerSymbol` has no `compare`/`distance`/`mse`/`**`; dynamic nodes have neither those
nor `normalized`/`unitary`; SPA modules (`Network` with `SpaOperatorMixin`) add `>>`; every class
sets `__array_ufunc__ = None` (NumPy defers to the reflected operator). -/
def assumedOps : List (String × List String) := [
  ("SemanticPointer", ["__add__", "__radd__", "__sub__", "__rsub__", "__mul__", "__rmul__", "__matmul__",
    "__truediv__", "__neg__", "__invert__", "__pow__", "dot", "compare", "distance", "mse", "normalized",
    "unitary", "linv", "rinv", "reinterpret", "translate", "abs", "sign", "copy", "length", "array_ufunc_none"]),
  ("PointerSymbol", ["__add__", "__radd__", "__sub__", "__rsub__", "__mul__", "__rmul__", "__matmul__",
    "__rmatmul__", "__truediv__", "__neg__", "__invert__", "dot", "rdot", "normalized", "unitary", "linv",
    "rinv", "reinterpret", "translate", "array_ufunc_none"]),
  ("FixedScalar", ["__neg__", "array_ufunc_none"]),
  ("DynamicNode", ["__add__", "__radd__", "__sub__", "__rsub__", "__mul__", "__rmul__", "__matmul__",
    "__rmatmul__", "__truediv__", "__neg__", "__invert__", "dot", "rdot", "linv", "rinv", "reinterpret",
    "translate", "array_ufunc_none"]),
  ("Network", ["__add__", "__radd__", "__sub__", "__rsub__", "__mul__", "__rmul__", "__matmul__",
    "__rmatmul__", "__truediv__", "__neg__", "__invert__", "dot", "rdot", "linv", "rinv", "reinterpret",
    "translate", "__rshift__", "__rrshift__", "copy", "array_ufunc_none"])]

def hasOp (cls op : String) : Bool := ((assumedOps.lookup cls).getD []).contains op

/-- **the table regenerated from the source equals the model's assumptions** (an operator added to or
removed from one of the operand classes breaks this obligation) -/
theorem generated_op_table_matches : Generated.opTable = assumedOps := by decide +kernel

def unOpName : UnOp → String
  | .neg => "__neg__" | .inv => "__invert__" | .linv => "linv" | .rinv => "rinv"
  | .normalized => "normalized" | .unitary => "unitary"

/-- the model refuses a unary operation on a dynamic node with `AttributeError` exactly when the class
does not define it -/
theorem unary_dyn_attrErr_iff (u : UnOp) (t : Ty) (g : Bool) :
    unary U u (.dyn t g) = .error .attrErr ↔ hasOp "DynamicNode" (unOpName u) = false := by
  cases u <;> cases t <;> simp only [unary, unOpName] <;> (try split) <;> simp_all <;> decide

/-- … and never for pointers and symbols, which define all six -/
theorem unary_defined_on_ptr_sym (u : UnOp) :
    hasOp "SemanticPointer" (unOpName u) = true ∧ hasOp "PointerSymbol" (unOpName u) = true := by
  cases u <;> decide

/-- `compare`, `distance`, `mse` are methods of `SemanticPointer` only: on symbols, nodes and modules the
model answers `AttributeError`, as the class tables say -/
theorem spMethod_attrErr_of_missing (red : Red) (b : Obj) :
    (∀ t, spMethod U red (.sym t) b = .error .attrErr) ∧
    (∀ t g, spMethod U red (.dyn t g) b = .error .attrErr) ∧
    (∀ t, spMethod U red (.mod t) b = .error .attrErr) ∧
    hasOp "PointerSymbol" "compare" = false ∧ hasOp "DynamicNode" "compare" = false ∧
    hasOp "Network" "compare" = false ∧ hasOp "SemanticPointer" "compare" = true := by
  refine ⟨fun t => rfl, fun t g => rfl, fun t => rfl, by decide, by decide, by decide, by decide⟩

/-- `reinterpret(a, vocab)` gives the result exactly the requested vocabulary; `reinterpret(a)`
gives a result without vocabulary -/
theorem reinterpret_result (a o : Obj) (tgt : Option Nat) (h : reinterpret U a tgt = .ok o) :
    vocabOf (ty o) = tgt := by
  unfold reinterpret at h
  split at h
  · simp at h; subst h; cases tgt <;> rfl
  · simp at h; subst h; cases tgt <;> rfl
  · cases h
  · unfold reinterpNode at h
    split at h <;> simp at h
    subst h; cases tgt <;> rfl
  · unfold reinterpNode at h
    split at h <;> simp at h
    subst h; cases tgt <;> rfl
  · cases h

/-! ### non-vacuity and the two designed/observed exceptions -/

/-- a vocabulary-less pointer meets vocabulary #0, then #1, then a pointer of #0 meets one of #1 -/
example : (run exU [some (.ptr none 0 4), some (.ptr (some 0) 0 4), some (.ptr (some 1) 0 4)]
    [.bin .add 0 1, .bin .add 0 2, .bin .add 1 2]).2 =
    [.ok (.obj (.ptr (some 0) 0 4)), .ok (.obj (.ptr (some 1) 0 4)), .error .spaType] := by rfl

/-- PointerSymbols are different **by design**: inference binds a symbol to the first vocabulary it
meets (its `type` is the only record of which vocabulary it is to be parsed in), so the same history
with a symbol rejects the second vocabulary. -/
example : (run exU [some (.sym .any), some (.ptr (some 0) 0 4), some (.ptr (some 1) 0 4)]
    [.bin .add 0 1, .bin .add 0 2]) =
    ([some (.sym (.vocab 0)), some (.ptr (some 0) 0 4), some (.ptr (some 1) 0 4), some (.ptr (some 0) 0 4), none],
     [.ok (.obj (.ptr (some 0) 0 4)), .error .spaType]) := by rfl

/-- vocabulary-less pointers of different algebras are rejected by every pointer method -/
example : ([BinOp.add, .mul, .dot, .compare, .mse, .distance, .matmul, .spadot].map fun k =>
    binop exU k (.ptr none 0 4) (.ptr none 1 4)) =
    List.replicate 8 (.ok (.ptr none 0 4, .ptr none 1 4, .raised .typeErr)) := by rfl

/-- the mixed case: a vocabulary-less VTB pointer with an HRR vocabulary is refused when the result
would be built with the pointer's algebra, adopted the other way round — a result always carries
the vocabulary together with the vocabulary's algebra -/
example : binop exU .add (.ptr none 1 4) (.ptr (some 0) 0 4) =
      .ok (.ptr none 1 4, .ptr (some 0) 0 4, .raised .valueErr) ∧
    binop exU .add (.ptr (some 0) 0 4) (.ptr none 1 4) =
      .ok (.ptr (some 0) 0 4, .ptr none 1 4, .obj (.ptr (some 0) 0 4)) := by
  constructor <;> rfl

end C03

/-
C18 — one vocabulary per dimensionality per model, reproducible from the seed.
Property theorems only (model: SpaModel/Basic/C18.lean, helper lemmas:
SpaModel/Lemmas/C18.lean).  Every theorem is for construction scripts of any
length and nesting depth (`List Op`; nesting trees are the special case
`Node.flatten`), any build number `m` and any process state allowed by the
stated hypothesis.
-/
import SpaModel.Lemmas.C18

namespace C18
open Impl

/-! ### rejects_bad_dims -/

/-- what the property demands of one module's result, by the value given -/
def Spec.GoodRes (o : Out) : Prop :=
  match o.arg with
  | some (.dim d) => if d < 1 then o.res = .rejectedDim else ∃ v, o.res = .vocab v
  | some (.voc v) => o.res = .vocab (.ext v)
  | some .bad => o.res = .rejectedType
  | none => o.res = .container

theorem coerce_good (n r : Nat) (g : Option Nat) (mp : MapId) (a : Arg) (W : World) :
    Spec.GoodRes ⟨n, r, g, some a, mp, (coerce mp a W).1⟩ := by
  cases a with
  | dim d =>
    by_cases h : d < 1 <;> simp [Spec.GoodRes, coerce, h]
  | voc v => simp [Spec.GoodRes, coerce]
  | bad => simp [Spec.GoodRes, coerce]

/-- Every module of every script, wherever it is nested and whatever was built
before: an integer below 1 is rejected ("at least 1"), a value that is neither
integer nor Vocabulary is rejected, an integer `d ≥ 1` yields a vocabulary, a
supplied Vocabulary is used as it is. -/
theorem rejects_bad_dims (m : Nat) (s : St) (ops : List Op)
    (h0 : ∀ o ∈ s.outs, Spec.GoodRes o) : ∀ o ∈ (run m s ops).outs, Spec.GoodRes o := by
  refine run_inv m (fun s => ∀ o ∈ s.outs, Spec.GoodRes o) ?_ ops s h0
  intro s op h o ho
  cases op with
  | enterPlain sd => exact h o ho
  | exit => exact h o ho
  | enterSpa v sd =>
    simp only [step, List.mem_cons] at ho
    rcases ho with rfl | ho
    · simp [Spec.GoodRes]
    · exact h o ho
  | module v sd a =>
    simp only [step, List.mem_cons] at ho
    rcases ho with rfl | ho
    · exact coerce_good _ _ _ _ _ _
    · exact h o ho

theorem rejects_bad_dims_model (m : Nat) (sc : Script) (W : World) :
    ∀ o ∈ (buildModel m sc W).outs, Spec.GoodRes o :=
  rejects_bad_dims m _ sc.ops (by simp)


/-! ### one vocabulary per (map object, dimensionality) -/

/-- the vocabulary of an integer-dimension module is its map's entry for `d` -/
def Spec.InMap (W : World) (o : Out) : Prop :=
  ∀ d, o.arg = some (.dim d) → 1 ≤ d → ∃ v, o.res = .vocab v ∧ entry W o.map d = some v

theorem step_inMap (m : Nat) (s : St) (op : Op) (hf : FreshOK m s)
    (h : ∀ o ∈ s.outs, Spec.InMap s.W o) : ∀ o ∈ (step m s op).outs, Spec.InMap (step m s op).W o := by
  have hle := (step_freshOK m s op hf).2
  have old : ∀ o ∈ s.outs, Spec.InMap (step m s op).W o := by
    intro o ho d ha hd
    obtain ⟨v, hv, he⟩ := h o ho d ha hd
    exact ⟨v, hv, hle _ _ _ he⟩
  intro o ho
  cases op with
  | enterPlain sd => exact old o ho
  | exit => exact old o ho
  | enterSpa v sd =>
    simp only [step, List.mem_cons] at ho
    rcases ho with rfl | ho
    · intro d ha; simp at ha
    · exact old o ho
  | module v sd a =>
    simp only [step, List.mem_cons] at ho
    rcases ho with rfl | ho
    · intro d ha hd
      simp only [Option.some.injEq] at ha
      subst ha
      exact coerce_dim_entry _ d _ hd
    · exact old o ho

theorem run_inMap (m : Nat) (ops : List Op) : ∀ (s : St), FreshOK m s →
    (∀ o ∈ s.outs, Spec.InMap s.W o) → ∀ o ∈ (run m s ops).outs, Spec.InMap (run m s ops).W o := by
  induction ops with
  | nil => intro s _ h; exact h
  | cons op ops ih =>
    intro s hf h
    exact ih _ (step_freshOK m s op hf).1 (step_inMap m s op hf h)

/-- Two modules given the same integer dimensionality `d ≥ 1` whose networks hold the same
`VocabularyMap` object get the identical `Vocabulary` object — whatever was created in
between, at any depth, in any script. -/
theorem same_map_same_dim_same_vocab (m : Nat) (sc : Script) (W : World)
    (hW : Spec.World.Older W m) (o₁ o₂ : Out) (d : Int)
    (h₁ : o₁ ∈ (buildModel m sc W).outs) (h₂ : o₂ ∈ (buildModel m sc W).outs)
    (hd₁ : Spec.IsDimModule o₁ d) (hd₂ : Spec.IsDimModule o₂ d) (hmap : o₁.map = o₂.map) :
    ∃ v, o₁.res = .vocab v ∧ o₂.res = .vocab v := by
  have hinv := run_inMap m sc.ops ⟨[], 0, declare m 0 sc.decls W, []⟩
    (start_freshOK m sc.decls W hW) (by simp)
  obtain ⟨v₁, hv₁, e₁⟩ := hinv o₁ h₁ d hd₁.1 hd₁.2
  obtain ⟨v₂, hv₂, e₂⟩ := hinv o₂ h₂ d hd₂.1 hd₂.2
  rw [hmap] at e₁
  have : v₁ = v₂ := by
    have := e₁.symm.trans e₂
    simpa using this
  subst this
  exact ⟨v₁, hv₁, hv₂⟩


/-! ### shared_within_model -/

/-- A network governed by an explicit `vocabs=` argument (its own, or that of the nearest
enclosing SPA network that has one, through any plain or SPA networks in between) holds
exactly that map. -/
theorem explicit_map_governs_subtree (m : Nat) (sc : Script) (W : World) (o : Out) (k : Nat)
    (ho : o ∈ (buildModel m sc W).outs) (hg : o.gov = some k) : o.map = .expl m k := by
  have h := run_inv m (GovOK m) (step_govOK m) sc.ops ⟨[], 0, declare m 0 sc.decls W, []⟩
    ⟨by simp, by simp, by simp⟩
  exact h.outs o ho k hg

/-- All networks under one root (`Network.context[0]`) that no explicit `vocabs=` governs hold
one and the same map object: plain root or SPA root, any depth, any mixture of plain and SPA
containers, for every script and every earlier process state. -/
theorem ungoverned_networks_share_map (m : Nat) (sc : Script) (W : World) (o₁ o₂ : Out)
    (h₁ : o₁ ∈ (buildModel m sc W).outs) (h₂ : o₂ ∈ (buildModel m sc W).outs)
    (g₁ : o₁.gov = none) (g₂ : o₂.gov = none) (hroot : o₁.root = o₂.root) : o₁.map = o₂.map := by
  obtain ⟨F, hF⟩ := run_shared m sc.ops ⟨[], 0, declare m 0 sc.decls W, []⟩ (fun _ => none)
    ⟨by simp, by simp, by simp, ctxInv_nil _ _ _⟩
  have e₁ := hF.outs o₁ h₁ g₁
  have e₂ := hF.outs o₂ h₂ g₂
  rw [hroot] at e₁
  simpa using e₁.symm.trans e₂

/-- **shared_within_model.**  Two modules given the same integer dimensionality `d ≥ 1` under one
root, with no explicit `vocabs=` between either of them and the root, use the identical
Vocabulary object. -/
theorem shared_within_model (m : Nat) (sc : Script) (W : World) (hW : Spec.World.Older W m)
    (o₁ o₂ : Out) (d : Int)
    (h₁ : o₁ ∈ (buildModel m sc W).outs) (h₂ : o₂ ∈ (buildModel m sc W).outs)
    (hd₁ : Spec.IsDimModule o₁ d) (hd₂ : Spec.IsDimModule o₂ d)
    (g₁ : o₁.gov = none) (g₂ : o₂.gov = none) (hroot : o₁.root = o₂.root) :
    ∃ v, o₁.res = .vocab v ∧ o₂.res = .vocab v :=
  same_map_same_dim_same_vocab m sc W hW o₁ o₂ d h₁ h₂ hd₁ hd₂
    (ungoverned_networks_share_map m sc W o₁ o₂ h₁ h₂ g₁ g₂ hroot)

/-- … and inside the subtree of an explicit map `k` the same holds (wherever in the model the
two modules are: the same explicit map may be given to several subtrees). -/
theorem shared_in_explicit_subtree (m : Nat) (sc : Script) (W : World) (hW : Spec.World.Older W m)
    (o₁ o₂ : Out) (d : Int) (k : Nat)
    (h₁ : o₁ ∈ (buildModel m sc W).outs) (h₂ : o₂ ∈ (buildModel m sc W).outs)
    (hd₁ : Spec.IsDimModule o₁ d) (hd₂ : Spec.IsDimModule o₂ d)
    (g₁ : o₁.gov = some k) (g₂ : o₂.gov = some k) :
    ∃ v, o₁.res = .vocab v ∧ o₂.res = .vocab v :=
  same_map_same_dim_same_vocab m sc W hW o₁ o₂ d h₁ h₂ hd₁ hd₂
    ((explicit_map_governs_subtree m sc W o₁ k h₁ g₁).trans
      (explicit_map_governs_subtree m sc W o₂ k h₂ g₂).symm)


/-! ### distinct_across_models -/

/-- Whatever the process contained before (`W` arbitrary apart from not yet mentioning build `m`),
every `VocabularyMap` a network of build `m` ends up with was created by, or declared for,
build `m`: neither `Config.default` nor the weak dictionary keyed by the root ever hands out a
map of an earlier model. -/
theorem maps_belong_to_build (m : Nat) (sc : Script) (W : World) (hW : Spec.World.Older W m) :
    ∀ o ∈ (buildModel m sc W).outs, o.map.model = m := by
  have h := run_inv m (TagOK m) (step_tagOK m) sc.ops ⟨[], 0, declare m 0 sc.decls W, []⟩
    ⟨by simp, by simp, by
      intro e he hm
      simp only [declare_master] at he
      exact absurd hm (hW.1 e he).1⟩
  exact h.outs

/-- **distinct_across_models** (maps).  Two independently built models never hold the same map
object, hence never the same automatically created vocabulary (`VocId.auto map idx`). -/
theorem distinct_across_models (m m' : Nat) (sc sc' : Script) (W W' : World) (hne : m ≠ m')
    (hW : Spec.World.Older W m) (hW' : Spec.World.Older W' m')
    (o o' : Out) (ho : o ∈ (buildModel m sc W).outs) (ho' : o' ∈ (buildModel m' sc' W').outs) :
    o.map ≠ o'.map := by
  intro e
  have h1 := maps_belong_to_build m sc W hW o ho
  have h2 := maps_belong_to_build m' sc' W' hW' o' ho'
  rw [e, h2] at h1
  exact hne h1.symm

/-! ### sequences of models in one process -/

theorem buildSeq_cons (sc : Script) (drop : Bool) (rest : List (Script × Bool)) (p : Proc) :
    buildSeq ((sc, drop) :: rest) p =
      ((buildModel p.nextModel sc p.W).outs.reverse ::
        (buildSeq rest ⟨p.nextModel + 1,
          if drop then dropRoots p.nextModel (buildModel p.nextModel sc p.W).W
          else (buildModel p.nextModel sc p.W).W⟩).1,
       (buildSeq rest ⟨p.nextModel + 1,
          if drop then dropRoots p.nextModel (buildModel p.nextModel sc p.W).W
          else (buildModel p.nextModel sc p.W).W⟩).2) := by
  simp [buildSeq]

/-- **buildSeq_older.**  However many models are built one after another, and whichever of them
are garbage collected in between, the process state never mentions a build number that is still
to come — so every theorem with the hypothesis `Older W m` applies to every model of every
sequence. -/
theorem buildSeq_bounded : ∀ (l : List (Script × Bool)) (p : Proc),
    Spec.World.Bounded p.W p.nextModel →
    Spec.World.Bounded (buildSeq l p).2.W (buildSeq l p).2.nextModel := by
  intro l
  induction l with
  | nil => intro p h; exact h
  | cons x rest ih =>
    obtain ⟨sc, drop⟩ := x
    intro p h
    rw [buildSeq_cons]
    apply ih
    have hb := buildModel_bounded p.nextModel sc p.W h
    cases drop
    · exact hb
    · exact dropRoots_bounded _ _ _ hb

theorem empty_bounded : Spec.World.Bounded Proc.empty.W Proc.empty.nextModel :=
  ⟨by simp [Proc.empty, World.empty], by simp [Proc.empty, World.empty]⟩

/-- what holds of the `i`-th model of a sequence -/
theorem buildSeq_outs : ∀ (l : List (Script × Bool)) (p : Proc),
    Spec.World.Bounded p.W p.nextModel → ∀ (i : Nat) (os : List Out),
    (buildSeq l p).1[i]? = some os →
    ∀ o ∈ os, o.map.model = p.nextModel + i ∧ Spec.OwnAuto o := by
  intro l
  induction l with
  | nil => intro p h i os hi; simp [buildSeq] at hi
  | cons x rest ih =>
    obtain ⟨sc, drop⟩ := x
    intro p h i os hi o ho
    rw [buildSeq_cons] at hi
    cases i with
    | zero =>
      simp only [List.getElem?_cons_zero, Option.some.injEq] at hi
      subst hi
      rw [List.mem_reverse] at ho
      have hinv := run_inv p.nextModel (OwnOK p.nextModel) (step_ownOK p.nextModel) sc.ops _
        (start_ownOK p.nextModel sc.decls p.W (bounded_older h))
      exact ⟨hinv.tag.outs o ho, hinv.outs o ho⟩
    | succ i =>
      simp only [List.getElem?_cons_succ] at hi
      have hb := buildModel_bounded p.nextModel sc p.W h
      have := ih ⟨p.nextModel + 1,
          if drop then dropRoots p.nextModel (buildModel p.nextModel sc p.W).W
          else (buildModel p.nextModel sc p.W).W⟩
        (by cases drop
            · exact hb
            · exact dropRoots_bounded _ _ _ hb) i os hi o ho
      simpa [Nat.add_assoc, Nat.add_comm 1 i] using this

/-- **distinct_across_models**, for whole sequences: any number of models built one after
another in one process, earlier roots dropped or kept alive in any pattern.  Two different
models of the sequence never hold the same `VocabularyMap` object … -/
theorem distinct_across_models_seq (l : List (Script × Bool)) (p : Proc)
    (hp : Spec.World.Bounded p.W p.nextModel) (i j : Nat) (hij : i ≠ j) (os os' : List Out)
    (hi : (buildSeq l p).1[i]? = some os) (hj : (buildSeq l p).1[j]? = some os')
    (o o' : Out) (ho : o ∈ os) (ho' : o' ∈ os') : o.map ≠ o'.map := by
  intro e
  have h1 := (buildSeq_outs l p hp i os hi o ho).1
  have h2 := (buildSeq_outs l p hp j os' hj o' ho').1
  rw [e, h2] at h1
  omega

/-- … and never the same automatically created `Vocabulary` object. -/
theorem distinct_auto_vocabularies_seq (l : List (Script × Bool)) (p : Proc)
    (hp : Spec.World.Bounded p.W p.nextModel) (i j : Nat) (hij : i ≠ j) (os os' : List Out)
    (hi : (buildSeq l p).1[i]? = some os) (hj : (buildSeq l p).1[j]? = some os')
    (o o' : Out) (ho : o ∈ os) (ho' : o' ∈ os') (mp : MapId) (k : Nat)
    (hr : o.res = .vocab (.auto mp k)) : o'.res ≠ o.res := by
  intro e
  rw [hr] at e
  have h1 := (buildSeq_outs l p hp i os hi o ho).2 mp k hr
  have h2 := (buildSeq_outs l p hp j os' hj o' ho').2 mp k e
  exact distinct_across_models_seq l p hp i j hij os os' hi hj o o' ho ho' (h1.symm.trans h2)

/-! ### order_independent -/

/-- **order_independent.**  What a model gets does not depend on what was built before it in the
process: from ANY earlier state `W` (any number of earlier models, kept alive or collected, any
weak-dictionary contents) the observable outputs of build `m` — every network's map, every
module's vocabulary or error, in construction order — are literally those of the same script
built as build `m` of an empty process … -/
theorem order_independent (m : Nat) (sc : Script) (W : World) (hW : Spec.World.Older W m) :
    (buildModel m sc W).outs = (buildModel m sc World.empty).outs := by
  rw [buildModel_lift m sc W hW]; rfl

/-- … the process state it leaves is the state of the empty-process build on top of the untouched
earlier state … -/
theorem order_independent_world (m : Nat) (sc : Script) (W : World) (hW : Spec.World.Older W m) :
    (buildModel m sc W).W = World.app (buildModel m sc World.empty).W W := by
  rw [buildModel_lift m sc W hW]; rfl

/-- … so every map of the build has the same seed, contents and creation count … -/
theorem order_independent_maps (m : Nat) (sc : Script) (W : World) (hW : Spec.World.Older W m)
    (mp : MapId) (hm : mp.model = m) :
    mapState (buildModel m sc W).W mp = mapState (buildModel m sc World.empty).W mp := by
  rw [order_independent_world m sc W hW]; exact mapState_app hW _ hm

theorem buildModel_ownOK (m : Nat) (sc : Script) (W : World) (hW : Spec.World.Older W m) :
    OwnOK m (buildModel m sc W) :=
  run_inv m (OwnOK m) (step_ownOK m) sc.ops _ (start_ownOK m sc.decls W hW)

/-- … and every vocabulary a module holds has the same random-stream label. -/
theorem order_independent_labels (m : Nat) (sc : Script) (W : World) (hW : Spec.World.Older W m)
    (o : Out) (ho : o ∈ (buildModel m sc W).outs) (v : VocId) (hv : o.res = .vocab v) :
    label (buildModel m sc W).W v = label (buildModel m sc World.empty).W v := by
  cases v with
  | ext x => rfl
  | auto mp i =>
    have hown := buildModel_ownOK m sc W hW
    have hmp : mp = o.map := hown.outs o ho mp i hv
    have hm : mp.model = m := by rw [hmp]; exact hown.tag.outs o ho
    simp only [label, order_independent_maps m sc W hW mp hm]

/-- The same for every model of every sequence: the `i`-th model of a sequence gets exactly what
its script gets as build `p.nextModel + i` of an empty process, whatever the other scripts of the
sequence are and whichever roots were dropped. -/
theorem buildSeq_order_independent : ∀ (l : List (Script × Bool)) (p : Proc),
    Spec.World.Bounded p.W p.nextModel → ∀ (i : Nat) (os : List Out) (sc : Script) (drop : Bool),
    (buildSeq l p).1[i]? = some os → l[i]? = some (sc, drop) →
    os = (buildModel (p.nextModel + i) sc World.empty).outs.reverse := by
  intro l
  induction l with
  | nil => intro p h i os sc drop hi; simp [buildSeq] at hi
  | cons x rest ih =>
    obtain ⟨sc0, drop0⟩ := x
    intro p h i os sc drop hi hl
    rw [buildSeq_cons] at hi
    cases i with
    | zero =>
      simp only [List.getElem?_cons_zero, Option.some.injEq] at hi hl
      cases hl
      subst hi
      rw [order_independent _ _ _ (bounded_older h)]; rfl
    | succ i =>
      simp only [List.getElem?_cons_succ] at hi hl
      have hb := buildModel_bounded p.nextModel sc0 p.W h
      have := ih ⟨p.nextModel + 1,
          if drop0 then dropRoots p.nextModel (buildModel p.nextModel sc0 p.W).W
          else (buildModel p.nextModel sc0 p.W).W⟩
        (by cases drop0
            · exact hb
            · exact dropRoots_bounded _ _ _ hb) i os sc drop hi hl
      simpa [Nat.add_assoc, Nat.add_comm 1 i] using this

/-! ### deterministic_given_seed -/

/-- the build-number-free view of a build (maps of the script, their seeds, the labels
(map seed, map, creation index) of all vocabularies, all errors) is the same from any earlier
process state as from the empty one -/
theorem view_order_independent (m : Nat) (sc : Script) (W : World) (hW : Spec.World.Older W m) :
    (buildModel m sc W).outs.map (view (buildModel m sc W).W) =
    (buildModel m sc World.empty).outs.map (view (buildModel m sc World.empty).W) := by
  have ho := order_independent m sc W hW
  have hown := buildModel_ownOK m sc W hW
  rw [← ho]
  apply List.map_congr_left
  intro o hmem
  have hm : o.map.model = m := hown.tag.outs o hmem
  have hr : resLabel (buildModel m sc W).W o.res = resLabel (buildModel m sc World.empty).W o.res := by
    cases hres : o.res with
    | vocab v => simp only [resLabel, order_independent_labels m sc W hW o hmem v hres]
    | container => rfl
    | rejectedDim => rfl
    | rejectedType => rfl
  simp only [view, order_independent_maps m sc W hW o.map hm, hr]

/-- **deterministic_given_seed.**  The same script (same tree, same `seed=` arguments, same
explicit-map declarations) built twice — as any two builds `m`, `m'` of any two processes with
any histories — yields, network by network in construction order, the same maps of the script
with the same seeds and, for every module, the same label (map seed, which map, creation index)
of its vocabulary, or the same error.  The label is what determines the `RandomState` stream the
vocabulary draws its pointers from. -/
theorem deterministic_given_seed (m m' : Nat) (sc : Script) (W W' : World)
    (hW : Spec.World.Older W m) (hW' : Spec.World.Older W' m') :
    (buildModel m sc W).outs.map (view (buildModel m sc W).W) =
    (buildModel m' sc W').outs.map (view (buildModel m' sc W').W) := by
  rw [view_order_independent m sc W hW, view_order_independent m' sc W' hW']
  have hf := swapNat_inj m m'
  have h := buildModel_rn hf m sc
  rw [swapNat_left] at h
  rw [h]
  simp only [St.rn, List.map_map]
  apply List.map_congr_left
  intro o _
  exact (view_rn hf _ o).symm

/-- a different seed argument changes the label (here: the root's seed), so nothing forces equal
pointers — that they do differ is the empirical clause checked by sampling -/
example : ((buildModel 0 ⟨[], [.enterSpa none (some 1), .module none none (.dim 16), .exit]⟩
      World.empty).outs.map (view (buildModel 0 ⟨[], [.enterSpa none (some 1),
        .module none none (.dim 16), .exit]⟩ World.empty).W)) ≠
    ((buildModel 0 ⟨[], [.enterSpa none (some 2), .module none none (.dim 16), .exit]⟩
      World.empty).outs.map (view (buildModel 0 ⟨[], [.enterSpa none (some 2),
        .module none none (.dim 16), .exit]⟩ World.empty).W)) := by decide

/-
Not modelled (checked by the correspondence run only): the `RandomState` stream itself — that the
pointer arrays are a function of the label (map seed, map, creation index) and of the order of the
draws — and that different seeds give different arrays (an empirical clause).
-/

/-! ### non-vacuity: concrete scripts -/

/-- plain root ▸ module, plain ▸ (SPA ▸ module), module with another d, d = 0, a str -/
def exOps : List Op :=
  [.enterPlain (some 7), .module none none (.dim 16), .enterPlain none, .enterSpa none (some 3),
   .module none none (.dim 16), .exit, .exit, .module none none (.dim 32),
   .module none none (.dim 0), .module none none .bad, .exit]

example : Spec.oneRoot exOps = true := by decide

example : (buildModel 0 ⟨[], exOps⟩ World.empty).outs.reverse.map (fun o => (o.map, o.res)) =
    [(.fresh 0 1, .vocab (.auto (.fresh 0 1) 0)), (.fresh 0 1, .container),
     (.fresh 0 1, .vocab (.auto (.fresh 0 1) 0)), (.fresh 0 1, .vocab (.auto (.fresh 0 1) 1)),
     (.fresh 0 1, .rejectedDim), (.fresh 0 1, .rejectedType)] := by decide

/-- the map of the plain seeded root takes the root's seed (the first module has none) -/
example : (mapState (buildModel 0 ⟨[], exOps⟩ World.empty).W (.fresh 0 1)).seed = some 7 := by decide

/-- an explicit map holding user vocabulary 5 for d = 16 governs its subtree only -/
example : (buildModel 2 ⟨[⟨none, [(16, 5)]⟩],
      [.enterSpa none none, .enterSpa (some 0) none, .enterPlain none, .module none none (.dim 16),
       .exit, .exit, .module none none (.dim 16), .exit]⟩ World.empty).outs.reverse.map (·.res) =
    [.container, .container, .vocab (.ext 5), .vocab (.auto (.fresh 2 0) 0)] := by decide

example : Spec.World.Older World.empty 0 := ⟨by simp [World.empty], by simp [World.empty]⟩

/-- two models in one process, the first one kept alive: nothing is shared -/
example : (buildSeq [(⟨[], exOps⟩, false), (⟨[], exOps⟩, true)] Proc.empty).1.map
      (fun os => os.map (·.map)) =
    [List.replicate 6 (.fresh 0 1), List.replicate 6 (.fresh 1 1)] := by decide

/-! ### second stage: a network of a finished build is entered again on its own

`with model.part:` after the model's own `with` block was closed puts exactly one frame on the two context
stacks: the re-entered network's.  The construction scripts of `Op` have no such statement; the three
facts below are about the same `resolve` (`Network.__init__`) that the scripts use, applied to that
one-frame stack, and say what the harness's second stage observes (oracle only). -/

/-- an SPA network that is entered again hands ITS map (the one it was built with: inherited,
explicit or created) to every module created inside it, whatever the process state is by then -/
theorem reentered_spa_keeps_map (m self : Nat) (seed : Option Nat) (f : Frame) (mp : MapId)
    (hf : f.map = some mp) (W : World) :
    resolve m self none seed [f] W = (mp, f.gov, W) := by
  simp [resolve, configDefault, hf]

/-- a plain root that is entered again finds the map recorded for it in the master dictionary -/
theorem reentered_plain_root_keeps_map (m self : Nat) (seed : Option Nat) (r : Frame) (mp : MapId)
    (hr : r.map = none) (W : World) (hm : W.master.lookup (m, r.net) = some mp) :
    resolve m self none seed [r] W = (mp, none, W) := by
  simp [resolve, configDefault, hr, rootOf, hm]

/-- …whereas a plain network that is NOT recorded there (a plain container nested inside the model,
entered on its own) starts a map of its own: the reason why the second stage re-enters the root
and SPA containers only -/
theorem reentered_unrecorded_plain_starts_a_map (m self : Nat) (seed : Option Nat) (r : Frame)
    (hr : r.map = none) (W : World) (hm : W.master.lookup (m, r.net) = none) :
    (resolve m self none seed [r] W).1 = MapId.fresh m self := by
  simp [resolve, configDefault, hr, rootOf, hm]

end C18

/-
C19, spectral stage: `EquallySpacedPositiveUnitaryHrrVectors` at the level of the actual vectors
(`np.fft.irfft(unity_roots ** exponents, n=d)`), for every dimensionality `d`, every number `n` of
vectors, every real offset:

  unity_roots[w] = exp(2πi·(cc − w)/cc),  cc = (d+1)//2,  w = 0 … d//2
  vector(e)      = irfft(unity_roots ** e, n=d)          (principal-branch power, real exponent e)

* every vector is unitary (`vector_isUnitary`) and has positive sign: its DC and (even d) Nyquist
  coefficients are exactly 1 (`vector_dc`, `vector_nyquist`);
* binding moves along the circle: `vector a ⊛ vector b = vector (a + b)` for ALL real `a, b`
  (`vector_bind`) — so consecutive vectors differ by the fixed step `vector (cc/n)`;
* after `cc` units of exponent the circle closes: `vector (e + cc) = vector e` (`vector_period`);
  with the schedule `e_k = (k + offset)·cc/n` of the exponent model this is "n steps return to the start";
* exponent 0 is the identity vector (`vector_zero`).

The exponent schedule itself (step `cc/n`, refinement laws) is `Props/C19.lean`.  Trusted: NumPy's
`irfft`/`**`/`exp` compute what `Spectral.irfft`, the principal-branch `cpow` and `Complex.exp` state.
-/
import SpaModel.Props.C12S
import Mathlib.Analysis.SpecialFunctions.Complex.Circle

set_option linter.unusedSectionVars false

namespace C19
namespace Spectral19
open Alg.Hrr Spectral C12.HrrFFT

variable {k : ℕ}

local notation "conj" => starRingEnd ℂ

/-- `coefficient_count = (d + 1) // 2` with `d = k + 1` -/
def cc (k : ℕ) : ℕ := (k + 1 + 1) / 2

/-- `unity_roots[w] = np.exp(2j·π·(cc − w)/cc)` -/
noncomputable def root (k w : ℕ) : ℂ :=
  Complex.exp (2 * Real.pi * Complex.I * ((cc k - w : ℕ) : ℂ) / (cc k : ℂ))

/-- `np.fft.irfft(unity_roots ** e, n=d)` -/
noncomputable def vector (k : ℕ) (e : ℝ) : Vec k ℝ :=
  ofZ (Spectral.irfft (fun w => root k w ^ (e : ℂ)))

theorem cc_pos (k : ℕ) : 0 < cc k := by unfold cc; omega

theorem root_ne_zero (k w : ℕ) : root k w ≠ 0 := Complex.exp_ne_zero _

theorem root_norm (k w : ℕ) : ‖root k w‖ = 1 := by
  unfold root
  have : 2 * Real.pi * Complex.I * ((cc k - w : ℕ) : ℂ) / (cc k : ℂ)
      = ((2 * Real.pi * ((cc k - w : ℕ) : ℝ) / (cc k : ℝ) : ℝ) : ℂ) * Complex.I := by
    push_cast; ring
  rw [this, Complex.norm_exp_ofReal_mul_I]

/-- every root is a `cc`-th root of unity -/
theorem root_pow_cc (k w : ℕ) : root k w ^ cc k = 1 := by
  unfold root
  rw [← Complex.exp_nat_mul]
  have hc : (cc k : ℂ) ≠ 0 := by exact_mod_cast (cc_pos k).ne'
  have : (cc k : ℂ) * (2 * Real.pi * Complex.I * ((cc k - w : ℕ) : ℂ) / (cc k : ℂ))
      = ((cc k - w : ℕ) : ℂ) * (2 * Real.pi * Complex.I) := by
    field_simp
  rw [this, Complex.exp_nat_mul, Complex.exp_two_pi_mul_I, one_pow]

/-- DC root (`w = 0`) and Nyquist root (`w = cc`, even `d`) are exactly 1 -/
theorem root_zero (k : ℕ) : root k 0 = 1 := by
  unfold root
  have hc : (cc k : ℂ) ≠ 0 := by exact_mod_cast (cc_pos k).ne'
  rw [Nat.sub_zero, mul_div_assoc, div_self hc, mul_one, Complex.exp_two_pi_mul_I]

theorem root_cc (k : ℕ) : root k (cc k) = 1 := by
  unfold root
  simp

/-- at the self-conjugate indices of dimensionality `k+1` the root is 1 -/
theorem root_selfConj (k w : ℕ) (hw : w = 0 ∨ 2 * w = k + 1) : root k w = 1 := by
  rcases hw with rfl | hw
  · exact root_zero k
  · have : w = cc k := by unfold cc; omega
    rw [this]; exact root_cc k

theorem admissible_rootpow (k : ℕ) (e : ℝ) : Admissible (k + 1) (fun w => root k w ^ (e : ℂ)) := by
  intro w hw
  show (root k w ^ (e : ℂ)).im = 0
  rw [root_selfConj k w hw, Complex.one_cpow, Complex.one_im]

theorem rootpow_unit (k w : ℕ) (e : ℝ) : root k w ^ (e : ℂ) * conj (root k w ^ (e : ℂ)) = 1 := by
  rw [Complex.mul_conj, Complex.normSq_eq_norm_sq, Complex.norm_cpow_real, root_norm, Real.one_rpow]
  norm_num

/-- **every vector of the generator is unitary** -/
theorem vector_isUnitary (k : ℕ) (e : ℝ) : C12.Spec.Hrr.IsUnitary (vector k e) := by
  unfold C12.Spec.Hrr.IsUnitary
  apply toZ_injective
  rw [toZ_bind, toZ_invert, toZ_identity]
  exact Spectral.irfft_unit_isUnitary _ (admissible_rootpow k e) (fun w => rootpow_unit k w e)

/-- **positive sign**: the DC coefficient (the sum of the entries) is exactly 1 … -/
theorem vector_dc (k : ℕ) (e : ℝ) : Impl.dc (vector k e) = 1 := by
  have h := Spectral.rfft_irfft (N := k + 1) _ (admissible_rootpow k e) 0 (by omega)
  rw [Spectral.rfft_zero, root_zero, Complex.one_cpow] at h
  have : (∑ j, toZ (vector k e) j : ℝ) = 1 := by exact_mod_cast h
  exact this

/-- … and for even `d = 2m` so is the Nyquist coefficient (the alternating sum) -/
theorem vector_nyquist (k m : ℕ) (hm : 2 * m = k + 1) (e : ℝ) :
    (∑ j : ZMod (k + 1), (-1 : ℝ) ^ j.val * toZ (vector k e) j) = 1 := by
  have h := Spectral.rfft_irfft (N := k + 1) _ (admissible_rootpow k e) m (by omega)
  rw [Spectral.rfft_nyquist _ m hm, root_selfConj k m (Or.inr hm), Complex.one_cpow] at h
  exact_mod_cast h

/-- **binding adds exponents**, for all real exponents (the roots do not vanish) -/
theorem vector_bind (k : ℕ) (a b : ℝ) : Impl.bind (vector k a) (vector k b) = vector k (a + b) := by
  apply toZ_injective
  rw [toZ_bind]
  unfold vector
  rw [toZ_ofZ, toZ_ofZ, toZ_ofZ, ← Spectral.irfft_mul _ _ (admissible_rootpow k a) (admissible_rootpow k b)]
  congr 1
  funext w
  rw [Complex.ofReal_add, Complex.cpow_add _ _ (root_ne_zero k w)]

/-- **the circle closes after `cc` units of exponent** -/
theorem vector_period (k : ℕ) (e : ℝ) : vector k (e + cc k) = vector k e := by
  unfold vector
  congr 2
  funext w
  rw [Complex.ofReal_add, Complex.cpow_add _ _ (root_ne_zero k w), Complex.ofReal_natCast,
    Complex.cpow_natCast, root_pow_cc, mul_one]

/-- exponent 0 (offset 0, first vector) is the identity vector -/
theorem vector_zero (k : ℕ) : vector k 0 = Impl.identity k := by
  apply toZ_injective
  rw [toZ_identity]
  unfold vector
  rw [toZ_ofZ]
  have : (fun w => root k w ^ ((0 : ℝ) : ℂ)) = fun _ => (1 : ℂ) := by
    funext w; simp
  rw [this]
  exact Spectral.irfft_one

/-- hence `n` steps of size `cc/n` return to the start, for every start exponent -/
theorem vector_n_steps (k n : ℕ) (hn : 0 < n) (e : ℝ) :
    vector k (e + n * ((cc k : ℝ) / n)) = vector k e := by
  have : (n : ℝ) * ((cc k : ℝ) / n) = cc k := by
    have : (n : ℝ) ≠ 0 := by exact_mod_cast hn.ne'
    field_simp
  rw [this, vector_period]

end Spectral19
end C19

/-
Line-protocol helpers shared by every driver (core Lean only, no Mathlib).

Request :  `<id> <op> <arg> <arg> …`   (arguments contain no blanks)
Reply   :  `<id> ok <payload>`  or  `<id> err <kind>`

Rationals are written `p` or `p/q`; vectors are comma separated, the empty
vector is `-`.  Unparseable input is answered `err bad-op`, never defaulted.
-/
namespace Proto

def parseRat (s : String) : Option Rat :=
  match s.splitOn "/" with
  | [p] => p.toInt?.map (fun i => (i : Rat))
  | [p, q] => do
      let a ← p.toInt?
      let b ← q.toNat?
      if b = 0 then none else some ((a : Rat) / (b : Rat))
  | _ => none

def parseRatList (s : String) : Option (List Rat) :=
  if s = "-" then some [] else (s.splitOn ",").mapM parseRat

def parseIntList (s : String) : Option (List Int) :=
  if s = "-" then some [] else (s.splitOn ",").mapM String.toInt?

def parseNatList (s : String) : Option (List Nat) :=
  if s = "-" then some [] else (s.splitOn ",").mapM String.toNat?

def showRat (r : Rat) : String :=
  if r.den = 1 then toString r.num else s!"{r.num}/{r.den}"

def showList {α} (f : α → String) (l : List α) : String :=
  if l.isEmpty then "-" else ",".intercalate (l.map f)

def showRatList (l : List Rat) : String := showList showRat l

def showBool (b : Bool) : String := if b then "1" else "0"

def parseBool (s : String) : Option Bool :=
  if s = "1" then some true else if s = "0" then some false else none

/-- Split a request line into id, op and arguments. -/
def splitLine (line : String) : Option (String × String × List String) :=
  match (line.trimAscii.toString.splitOn " ").filter (· ≠ "") with
  | id :: op :: args => some (id, op, args)
  | _ => none

/-- The generic read–dispatch–print loop.  `handle op args` returns
`some payload` (printed as `ok payload`) or `none` → `err bad-op`, or
`Except.error kind` → `err kind`. -/
partial def loop (handle : String → List String → Option (Except String String)) : IO Unit := do
  let stdin ← IO.getStdin
  let stdout ← IO.getStdout
  let rec go : IO Unit := do
    let line ← stdin.getLine
    if line.isEmpty then return ()
    match splitLine line with
    | none => go
    | some (id, op, args) =>
      match handle op args with
      | some (.ok p) => stdout.putStrLn s!"{id} ok {p}"
      | some (.error k) => stdout.putStrLn s!"{id} err {k}"
      | none => stdout.putStrLn s!"{id} err bad-op"
      go
  go
  stdout.flush

end Proto

import SpaModel.Proto
import SpaModel.Basic.C16
open C16 C16.Impl Proto

def showErr : Err → String
  | .param => "param"
  | .notDivisible => "not-divisible"
  | .sizeMismatch => "size-mismatch"
  | .index => "index"
  | .zeroDiv => "zero-div"
  | .fnCount => "fn-count"

def showSlices (l : List Slice) : String :=
  if l.isEmpty then "-" else ",".intercalate (l.map fun sl => s!"{sl.start}:{sl.len}")

def showPairs (l : List (Nat × Nat)) : String :=
  if l.isEmpty then "-" else ",".intercalate (l.map fun p => s!"{p.1}:{p.2}")

def showArr (a : Arr) : String :=
  s!"{a.size}|{showPairs a.ens}|{showSlices a.ins}|{showSlices a.outs}"

/-- the decoded functions the harness uses, by name -/
def fnOf (code : String) : Option Fn :=
  if code = "aff" then some fun v => v.map fun r => 2 * r + 1
  else if code = "sq" then some fun v => v.map fun r => r * r
  else if code = "sum" then some fun v => [v.sum]
  else if code = "sumfirst" then some fun v => [v.sum, v.headD 0]
  else if code = "dup" then some fun v => v ++ v
  else if code = "empty" then some fun _ => []
  else if code.startsWith "c" then
    (code.drop 1).toString.toInt?.map fun k => fun v => v.map fun _ => (k : Rat)
  else none

def parseFnArg (s : String) : Option FnArg :=
  match s.splitOn "=" with
  | ["one", c] => (fnOf c).map .one
  | ["many", cs] => ((cs.splitOn ";").mapM fnOf).map .many
  | _ => none

def vecFn (l : List Rat) : Nat → Rat := fun j => l.getD j 0

def handle (op : String) (args : List String) : Option (Except String String) :=
  match op, args with
  | "idarr", [npd, d, s] => do
      let npd ← npd.toNat?; let d ← d.toNat?; let s ← s.toNat?
      match identityArray npd d s with
      | .ok a => some (.ok (showArr a))
      | .error e => some (.error (showErr e))
  | "state", [npd, d, s, cc] => do
      let npd ← npd.toNat?; let d ← d.toNat?; let s ← s.toNat?; let cc ← parseBool cc
      match state npd d s cc with
      | .ok a => some (.ok (showArr a))
      | .error e => some (.error (showErr e))
  | "neuron", [npd, d, s] => do
      let npd ← npd.toNat?; let d ← d.toNat?; let s ← s.toNat?
      match identityArray npd d s with
      | .error e => some (.error (showErr e))
      | .ok a =>
        match neuronInput npd d a, neuronOutput npd d a with
        | .ok i, .ok o => some (.ok s!"{showSlices i}|{showSlices o}")
        | .error e, _ => some (.error (showErr e))
        | _, .error e => some (.error (showErr e))
  | "out", [npd, d, s, cc, xs] => do
      let npd ← npd.toNat?; let d ← d.toNat?; let s ← s.toNat?; let cc ← parseBool cc
      let x ← parseRatList xs
      if x.length ≠ d then none
      match state npd d s cc with
      | .error e => some (.error (showErr e))
      | .ok a =>
        let vals := (List.range a.size).map fun j => stateOutput a (vecFn x) j
        let cnt := (List.range a.size).map fun j =>
          (decoded a.ins a.outs (a.ens.map fun _ => id) (vecFn x) j).length
        some (.ok s!"{showRatList vals}|{showList toString cnt}")
  | "addout", [d, s, fa, xs] => do
      let d ← d.toNat?; let s ← s.toNat?
      let fa ← parseFnArg fa
      let x ← parseRatList xs
      if x.length ≠ d then none
      match identityArray 1 d s with
      | .error e => some (.error (showErr e))
      | .ok a =>
        match addOutput d s fa with
        | .error e => some (.error (showErr e))
        | .ok o =>
          let vals := (List.range o.size).map fun j => nodeValue (decoded a.ins o.outs o.fns (vecFn x) j)
          let cnt := (List.range o.size).map fun j => (decoded a.ins o.outs o.fns (vecFn x) j).length
          some (.ok s!"{o.size}|{showSlices o.outs}|{showRatList vals}|{showList toString cnt}")
  | "fb", [a, f, us] => do
      let a ← parseRat a; let f ← parseRat f
      let u ← parseRatList us
      some (.ok (showRatList ((List.range u.length).map fun t => fbOutput a f (vecFn u) t)))
  | _, _ => none

def main : IO Unit := Proto.loop handle

import SpaModel.Proto
import SpaModel.Basic.C20
open C20 C20.Impl Proto

/-- rows: `~` = no rows, else `|`-separated vectors -/
def parseRows (s : String) : Option (List Vec) :=
  if s = "~" then some [] else (s.splitOn "|").mapM parseRatList

def showRows (rows : List (List Rat)) : String :=
  if rows.isEmpty then "~" else "|".intercalate (rows.map showRatList)

def parseNames (s : String) : Option (List String) :=
  if s = "~" then some [] else some (s.splitOn ";")

/-- ndarray invariant: every row has the declared length -/
def rect (d : Nat) (rows : List Vec) : Bool := rows.all (fun r => r.length == d)

def parseData (s : String) : Option Data :=
  match s.splitOn ":" with
  | ["V", v] => (parseRatList v).map .vec
  | ["P", v] => (parseRatList v).map .pointer
  | ["S", d, rows] => do
      let d ← d.toNat?
      let rows ← parseRows rows
      if rect d rows then some (.series d rows) else none
  | _ => none

def parseVocabArg (s : String) : Option VocabArg :=
  match s.splitOn ":" with
  | ["K", d, rows] => do
      let d ← d.toNat?
      let rows ← parseRows rows
      if rect d rows then some (.vocabulary d rows) else none
  | ["A2", d, rows] => do
      let d ← d.toNat?
      let rows ← parseRows rows
      if rect d rows then some (.array2 d rows) else none
  | ["A1", v] => (parseRatList v).map .array1
  | ["LA", rows] => (parseRows rows).map .listArrays
  | ["LP", rows] => (parseRows rows).map .listPointers
  | ["X"] => some .notIterable
  | _ => none

def showErr : Err → String
  | .shape => "ValueError"
  | .notVocab => "not-a-vocabulary"
  | .notVector => "not-a-vector"

def showOut : Out → String
  | .flat l => s!"F:{showRatList l}"
  | .mat n rows => s!"M:{n}:{showRows rows}"

/-- `np.nextafter(0, 1)` = 2^-1074 -/
def epsD : Rat := 1 / ((2 ^ 1074 : Nat) : Rat)

/-- the Euclidean norm where it is rational (the callers check that it is) -/
def nrmD (v : Vec) : Rat := (nrmQ v).getD (-1)

def rationalNorms (vs : List Vec) : Bool := vs.all (fun v => (nrmQ v).isSome)

def dataRows : Data → List Vec
  | .vec x => [x]
  | .pointer x => [x]
  | .series _ rows => rows

def vocabRows : VocabArg → List Vec
  | .vocabulary _ rows => rows
  | .array2 _ rows => rows
  | .array1 v => [v]
  | .listArrays rows => rows
  | .listPointers rows => rows
  | .notIterable => []

def parseOptInt (s : String) : Option (Option Int) :=
  if s = "!" then some none else s.toInt?.map some

def parseOptRat (s : String) : Option (Option Rat) :=
  if s = "!" then some none else (parseRat s).map some

def parseCodes (s : String) : Option String :=
  (parseNatList s).map fun l => String.ofList (l.map Char.ofNat)

def showCodes (s : String) : String := showList (fun c => toString c.toNat) s.toList

def handle (op : String) (args : List String) : Option (Except String String) :=
  match op, args with
  | "sim", [nz, data, vocab] => do
      let nz ← parseBool nz
      let data ← parseData data
      let vocab ← parseVocabArg vocab
      if nz && !(rationalNorms (dataRows data ++ vocabRows vocab)) then
        some (.error "irrational-norm")
      else
        match similarity nrmD epsD data vocab nz with
        | .ok o => some (.ok (showOut o))
        | .error e => some (.error (showErr e))
  | "text", [nz, data, d, keys, rows, mn, mx, thr, join, terms, trows] => do
      let nz ← parseBool nz
      let data ← parseData data
      let d ← d.toNat?
      let keys ← parseNames keys
      let rows ← parseRows rows
      if keys.length ≠ rows.length || !(rect d rows) then none
      let mn ← parseOptInt mn
      let mx ← parseOptInt mx
      let thr ← parseOptRat thr
      let join ← parseCodes join
      let terms ← (if terms = "!" then some none else (parseNames terms).map some)
      let trows ← parseRows trows
      if (terms.getD []).length ≠ trows.length then none
      let table := (terms.getD []).zip trows
      if table.any (fun p => table.any (fun q => p.1 == q.1 && p.2 != q.2)) then none
      let parse : String → Vec := fun t => (table.lookup t).getD []
      if nz && !(rationalNorms (dataRows data)) then
        some (.error "irrational-norm")
      else
        match text nrmD epsD parse data ⟨d, keys.zip rows⟩ mn mx thr join terms nz with
        | .ok s => some (.ok (showCodes s))
        | .error e => some (.error (showErr e))
  | "pairs", [keys] => do
      let keys ← parseNames keys
      let r := pairs keys
      some (.ok (if r.isEmpty then "~" else ";".intercalate r))
  | "fmt", [x] => do
      let x ← parseRat x
      some (.ok (fmt2 x))
  | _, _ => none

def main : IO Unit := Proto.loop handle

import SpaModel.Proto
import SpaModel.Basic.C15
open C15 C15.Impl Proto

/-
Request:
  mem <form> <hasOut> <vocabKeys> <payload> <dIn> <dOut> <inTable> <outTable> <kind> <default> <xs>
    form      none | bykey | str | list | dict
    hasOut    1 | 0        (0: the output vocabulary is the input vocabulary; <outTable> is ignored
                            and <dOut> must equal <dIn>)
    vocabKeys k1,k2,…|-    (`input_vocab.keys()`)
    payload   list: k1,k2,… | dict: k1>v1,k2>v2,… | otherwise -
    tables    k1=r,r,…;k2=r,r,… | -   (what `vocab.parse(k).v` returns; a key that is absent does not parse)
    kind      direct | thr:θ | wta:θ | ia
    default   - | minAct:r,r,…
    xs        x1;x2;…      (input vectors)
Reply:
  ok <pairs>|<K rows>|<V rows>#<sims>|<sel>|<out>#…        pairs = k1>v1,k2>v2,…; rows separated by ;
  err <exception class>
-/

def vecOf (d : ℕ) (l : List Rat) : Option (Vec d Rat) :=
  if l.length = d then some (fun i => l.getD i.val 0) else none

def listOf {d : ℕ} (v : Vec d Rat) : List Rat := List.ofFn v

def parseKeys (s : String) : List Key := if s = "-" then [] else s.splitOn ","

def parseItems (s : String) : Option (List (Key × Key)) :=
  if s = "-" then some [] else
    (s.splitOn ",").mapM fun it => match it.splitOn ">" with
      | [k, v] => some (k, v)
      | _ => none

def parseTable (d : ℕ) (s : String) : Option (List (Key × Vec d Rat)) :=
  if s = "-" then some [] else
    (s.splitOn ";").mapM fun it => match it.splitOn "=" with
      | [k, v] => do
          let l ← parseRatList v
          let vec ← vecOf d l
          some (k, vec)
      | _ => none

def parseMapping (form payload : String) : Option MappingArg :=
  match form with
  | "none" => some .none
  | "bykey" => some .byKey
  | "str" => some .otherStr
  | "list" => some (.keyList (parseKeys payload))
  | "dict" => (parseItems payload).map .dict
  | _ => none

def showErr : Err → String
  | .outputVocabWithoutMapping => "ValidationError:output-vocab-without-mapping"
  | .missingMapping => "TypeError:missing-mapping"
  | .badString => "ValidationError:bad-string"
  | .emptyMapping => "ValidationError:empty-mapping"
  | .keyError k => s!"KeyError:{k}"
  | .parse k => s!"SpaParseError:{k}"

def showRows {d : ℕ} (rows : List (Vec d Rat)) : String :=
  if rows.isEmpty then "-" else ";".intercalate (rows.map fun r => showRatList (listOf r))

inductive Kind where
  | direct | thr (θ : Rat) | wta (θ : Rat) | ia

def parseKind (s : String) : Option Kind :=
  match s.splitOn ":" with
  | ["direct"] => some .direct
  | ["ia"] => some .ia
  | ["thr", t] => (parseRat t).map .thr
  | ["wta", t] => (parseRat t).map .wta
  | _ => none

def parseDefault (d : ℕ) (s : String) : Option (Option (Default Rat d)) :=
  if s = "-" then some none else
  match s.splitOn ":" with
  | [m, v] => do
      let m ← parseRat m
      let l ← parseRatList v
      let vec ← vecOf d l
      some (some ⟨vec, m⟩)
  | _ => none

def evalKind {dIn dOut : ℕ} (k : Kind) (mem : Memory Rat dIn dOut) (df : Option (Default Rat dOut))
    (x : Vec dIn Rat) : List Rat × List Rat × Vec dOut Rat :=
  let sims := selInput mem.keys x
  match k with
  | .direct => (sims, sims, outputDirect mem df x)
  | .thr θ => (sims, selThreshold θ sims, outputThreshold θ mem df x)
  | .wta θ => (sims, selWTA θ sims, outputWTA θ mem df x)
  | .ia => (sims, selIA sims, outputIA mem df x)

def handle (op : String) (args : List String) : Option (Except String String) :=
  match op, args with
  | "mem", [form, hasOut, vk, payload, dIn, dOut, tin, tout, kind, dflt, xs] => do
      let m ← parseMapping form payload
      let hasOut ← parseBool hasOut
      let dIn ← dIn.toNat?
      let dOut ← dOut.toNat?
      let tin ← parseTable dIn tin
      let kind ← parseKind kind
      let xs ← (xs.splitOn ";").mapM fun x => do
        let l ← parseRatList x
        vecOf dIn l
      let pin : Key → Option (Vec dIn Rat) := fun k => tin.lookup k
      -- `if output_vocab is None: output_vocab = input_vocab`
      let (pout : Key → Option (Vec dOut Rat)) ←
        if hasOut then do
          let tout ← parseTable dOut tout
          some (fun k => tout.lookup k)
        else if h : dOut = dIn then some (h ▸ pin) else none
      let df ← parseDefault dOut dflt
      match normalise m (parseKeys vk) hasOut, create m (parseKeys vk) hasOut pin pout with
      | .ok pairs, .ok mem =>
        let head := ",".intercalate (pairs.map fun p => s!"{p.1}>{p.2}") ++ "|" ++
          showRows mem.keys ++ "|" ++ showRows mem.vals
        let rest := xs.map fun x =>
          let (sims, sel, out) := evalKind kind mem df x
          showRatList sims ++ "|" ++ showRatList sel ++ "|" ++ showRatList (listOf out)
        some (.ok ("#".intercalate (head :: rest)))
      | _, .error e => some (.error (showErr e))
      | .error e, _ => some (.error (showErr e))
  | _, _ => none

def main : IO Unit := Proto.loop handle

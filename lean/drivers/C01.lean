import SpaModel.AlgProto
import SpaModel.Lemmas.C01
/-!
Driver of C01: one request = one program (statements `e >> sink` into one sink), evaluated by the
very definitions the theorems are about (`C01.Impl.compileStmt`, `C01.Impl.deliver`, `C01.Spec.evalStmt`)
in the concrete universe of the shipped algebras over `ℚ(√m)`.

`prog <m> <vocabs> <keys> <trans> <env> <sink> <stmts>`
* `m`       : the `m` of `ℚ(√m)` (sub-dimension of the VTB/TVTB vocabularies of the program; 0 for HRR)
* `vocabs`  : `;`-separated `h:<k>` (HRR, d = k+1) | `v:<m>` (VTB, d = m*m) | `t:<m>` (TVTB); id = position
* `keys`    : `&`-separated per key number: `|`-separated vectors per vocabulary id (`-` = none)
* `trans`   : `&`-separated `v>w=row;row;…` (`-` = none)
* `env`     : `&`-separated source vectors (source number = position)
* `sink`    : `S` (Scalar) | `P<vid>` (State of that vocabulary)
* `stmts`   : `&`-separated expressions in prefix notation, tokens separated by `!`
reply: `&`-separated per statement `ok;<delivered>;<spec>;<bind>,<product>,<compare>,<superposition>` or
`err;<refusal>;<spec defined? 1/0>`.
-/
open C01 C01.Concrete Proto

abbrev Q (m : ℕ) := QS m

def tables (m : ℕ) (keys : List (List (List Rat))) (trans : List (ℕ × ℕ × List (List Rat))) : Tables (Q m) where
  rt := fun k => if k = m then QS.rt m else 0
  key := fun k v => ((keys.getD k []).getD v []).map (QS.emb m)
  trans := fun v w => match trans.find? (fun t => t.1 = v ∧ t.2.1 = w) with
    | some t => t.2.2.map (·.map (QS.emb m))
    | none => []
  recip := qsRecip m
  recip_spec := qsRecip_spec m

def parseVocab (id : ℕ) (s : String) : Option CV :=
  match s.splitOn ":" with
  | ["h", k] => k.toNat?.map (CV.hrr id)
  | ["v", k] => k.toNat?.map (CV.vtb id)
  | ["t", k] => k.toNat?.map (CV.tvtb id)
  | _ => none

def parseVocabs (s : String) : Option (List CV) :=
  let rec go (i : ℕ) : List String → Option (List CV)
    | [] => some []
    | x :: xs => do let v ← parseVocab i x; let r ← go (i + 1) xs; some (v :: r)
  go 0 (s.splitOn ";")

def parseShape (s : String) : Option CShape :=
  if s.startsWith "l" then (s.drop 1).toString.toNat?.map CShape.lin
  else if s.startsWith "q" then (s.drop 1).toString.toNat?.map CShape.sq
  else none

def parseSide (s : String) : Option Side :=
  match s with
  | "inv2" => some .two
  | "invL" => some .left
  | "invR" => some .right
  | _ => none

section
variable {m : ℕ} (T : Tables (Q m)) (vocs : List CV)

def emb (l : List Rat) : List (Q m) := l.map (QS.emb m)

/-- prefix parser: returns the expression and the remaining tokens -/
partial def parseExpr : List String → Option (Expr (mkUniverse T) × List String)
  | [] => none
  | tok :: rest =>
    let un (f : Expr (mkUniverse T) → Expr (mkUniverse T)) : Option (Expr (mkUniverse T) × List String) := do
      let (a, r) ← parseExpr rest
      some (f a, r)
    let bin (f : Expr (mkUniverse T) → Expr (mkUniverse T) → Expr (mkUniverse T)) :
        Option (Expr (mkUniverse T) × List String) := do
      let (a, r) ← parseExpr rest
      let (b, r') ← parseExpr r
      some (f a b, r')
    match tok with
    | "neg" => un .neg
    | "add" => bin .add
    | "sub" => bin .sub
    | "mul" => bin .mul
    | "dot" => bin .dot
    | _ =>
      match parseSide tok with
      | some sd => un (.inv sd)
      | none =>
        match tok.splitOn ":" with
        | ["div", c] => do let c ← parseRat c; un (fun a => .div a (QS.emb m c))
        | ["rei", "-"] => un (fun a => .reinterp a none)
        | ["rei", w] => do let w ← vocs[(← w.toNat?)]?; un (fun a => .reinterp a (some w))
        | ["tra", w] => do let w ← vocs[(← w.toNat?)]?; un (fun a => .translate a w)
        | ["P", i, v] => do
            let v ← vocs[(← v.toNat?)]?
            some (.srcP (← i.toNat?) v, rest)
        | ["S", i] => do some (.srcS (← i.toNat?), rest)
        | ["Y", k] => do some (.sym (← k.toNat?), rest)
        | ["Z", k, v] => do
            let v ← vocs[(← v.toNat?)]?
            some (.symV (← k.toNat?) v, rest)
        | ["F", v, x] => do
            let v ← vocs[(← v.toNat?)]?
            let x ← parseRatList x
            some (.fixV v (vecOf (cshape v) (emb x)), rest)
        | ["N", s, x] => do
            let s ← parseShape s
            let x ← parseRatList x
            some (.fixN s (vecOf s (emb x)), rest)
        | ["C", c] => do some (.num (QS.emb m (← parseRat c)), rest)
        | _ => none

def listOf : (s : CShape) → (CIdx s → Q m) → List (Q m)
  | .lin _, x => List.ofFn x
  | .sq _, x => Alg.listOfVec2 x

def showRefusal : Refusal → String
  | .spaType => "SpaTypeError"
  | .notImplemented => "NotImplementedError"
  | .assertion => "AssertionError"
  | .attribute => "AttributeError"
  | .zeroDiv => "ZeroDivisionError"
  | .nengoShape => "ValidationError"
  | .outside => "outside"

/-- numbers of Bind / Product / Compare / Superposition modules a node tree stands for -/
def fingerprint : {s : CShape} → Node (mkUniverse T) s → ℕ × ℕ × ℕ × ℕ
  | _, .src _ _ => (0, 0, 0, 0)
  | _, .const _ _ => (0, 0, 0, 0)
  | _, .transformed n _ => fingerprint n
  | _, .summedS l r => let (a, b, c, d) := fingerprint l; let (a', b', c', d') := fingerprint r; (a + a', b + b', c + c', d + d')
  | _, .summedP l r => let (a, b, c, d) := fingerprint l; let (a', b', c', d') := fingerprint r; (a + a', b + b', c + c', d + d' + 1)
  | _, .bindOut _ l r => let (a, b, c, d) := fingerprint l; let (a', b', c', d') := fingerprint r; (a + a' + 1, b + b', c + c', d + d')
  | _, .prodOut l r => let (a, b, c, d) := fingerprint l; let (a', b', c', d') := fingerprint r; (a + a', b + b' + 1, c + c', d + d')
  | _, .dotOut l r => let (a, b, c, d) := fingerprint l; let (a', b', c', d') := fingerprint r; (a + a', b + b', c + c' + 1, d + d')

def runStmt (env : Env (mkUniverse T)) (sinkTy : Ty (mkUniverse T)) (ss : CShape) (e : Expr (mkUniverse T)) : String :=
  let spec := Spec.evalStmt env e sinkTy ss
  match Impl.compileStmt e sinkTy ss with
  | .ok n =>
      let (a, b, c, d) := fingerprint T n
      let sp := match spec with
        | some v => QS.showList (listOf ss v)
        | none => "undefined"
      s!"ok;{QS.showList (listOf ss (Impl.value env n))};{sp};{a},{b},{c},{d}"
  | .error r => s!"err;{showRefusal r};{if spec.isSome then "1" else "0"}"
end

def splitAmp (s : String) : List String := if s = "-" then [] else s.splitOn "&"

def handleProg (args : List String) : Option String :=
  match args with
  | [m, vocabs, keys, transS, env, sink, stmts] => do
      let m ← m.toNat?
      let vocs ← parseVocabs vocabs
      let keys ← (splitAmp keys).mapM fun k => (k.splitOn "|").mapM parseRatList
      let trans ← (splitAmp transS).mapM fun t =>
        match t.splitOn "=" with
        | [vw, rows] =>
            match vw.splitOn ">" with
            | [v, w] => do
                let rows ← (rows.splitOn ";").mapM parseRatList
                some ((← v.toNat?), (← w.toNat?), rows)
            | _ => none
        | _ => none
      let envL ← (splitAmp env).mapM parseRatList
      let T := tables m keys trans
      let envF : Env (mkUniverse T) := fun s i => vecOf s (emb (envL.getD i []))
      let (sinkTy, ss) ← (if sink = "S" then some (Ty.scalar, CShape.lin 0) else
        if sink.startsWith "P" then do
          let v ← vocs[(← (sink.drop 1).toString.toNat?)]?
          some (Ty.vocab (U := mkUniverse T) v, cshape v)
        else none : Option (Ty (mkUniverse T) × CShape))
      let es ← (splitAmp stmts).mapM fun s => do
        let (e, r) ← parseExpr T vocs (s.splitOn "!")
        if r.isEmpty then some e else none
      some ("&".intercalate (es.map (runStmt T envF sinkTy ss)))
  | _ => none

def handle (op : String) (args : List String) : Option (Except String String) :=
  match op with
  | "prog" => (handleProg args).map .ok
  | _ => AlgProto.handle op args

def main : IO Unit := Proto.loop handle

import SpaModel.Proto
import SpaModel.Basic.C04
open C04 C04.Impl Proto

/-
Line protocol of the C04 driver (all numbers exact rationals):

  params  = tg,ri,mi,ta                      (threshold_gate, route_inhibit, mutual_inhibit, threshold_action)
  cfg     = npd,sub,cc,sn                    (cc is 0/1)
  rules   = action|action|…   action = effect;effect;… or `-`
  effect  = FP:target:v,v,…  |  FS:target:x  |  DP:target:id:dim  |  DS:target:id
  a       = rationals (thalamus output), env = id=v,v,…;id=… or `-`

  build params cfg rules                     -> wiring string (see showWiring)
  deliver params cfg rules a env ntargets dim -> per target `t=v,v,…` joined by `;`
  routed rules k env ntargets dim            -> same layout, from Spec.routed
  defaults                                   -> tg,ri,mi,ta from Generated.thalamusDefaults
  handles conds sends n                      -> handles;bg inputs 0..n-1 (sends = h=x;h=x or `-`)
-/

def parseEffect (s : String) : Option Effect :=
  match s.splitOn ":" with
  | ["FP", t, v] => do
      let t ← t.toNat?
      let v ← parseRatList v
      some ⟨.fixedPointer v, t⟩
  | ["FS", t, x] => do
      let t ← t.toNat?
      let x ← parseRat x
      some ⟨.fixedScalar x, t⟩
  | ["DP", t, id, d] => do
      let t ← t.toNat?
      let id ← id.toNat?
      let d ← d.toNat?
      some ⟨.dynPointer id d, t⟩
  | ["DS", t, id] => do
      let t ← t.toNat?
      let id ← id.toNat?
      some ⟨.dynScalar id, t⟩
  | _ => none

def parseAction (s : String) : Option Action :=
  if s = "-" then some [] else (s.splitOn ";").mapM parseEffect

def parseRules (s : String) : Option Rules :=
  if s = "none" then some [] else (s.splitOn "|").mapM parseAction

def parseParams (s : String) : Option Params :=
  match parseRatList s with
  | some [tg, ri, mi, ta] => some { thresholdGate := tg, routeInhibit := ri, mutualInhibit := mi, thresholdAction := ta }
  | _ => none

def parseCfg (s : String) : Option ChanCfg :=
  match parseNatList s with
  | some [npd, sub, cc, sn] =>
    if cc ≤ 1 then some { npd := npd, sub := sub, ccIdentity := cc == 1, scalarNeurons := sn } else none
  | _ => none

def parseEnv (s : String) : Option (Nat → Nat → Rat) :=
  if s = "-" then some (fun _ _ => 0) else do
    let entries ← (s.splitOn ";").mapM (fun e =>
      match e.splitOn "=" with
      | [id, v] => do
          let id ← id.toNat?
          let v ← parseRatList v
          some (id, v)
      | _ => none)
    some (fun id comp =>
      match entries.find? (fun p => p.1 == id) with
      | some (_, v) => v.getD comp 0
      | none => 0)

def showErr : Err → String
  | .index => "index-error"
  | .key => "key-error"
  | .validation => "validation-error"

def showKind : ChanKind → String
  | .scalar => "S"
  | .state d => s!"V{d}"

def showNats (l : List Nat) : String := if l.isEmpty then "~" else "_".intercalate (l.map toString)

def showInhibit (l : List Rat) : String :=
  match l with
  | [] => "~"
  | x :: _ => if l.all (· == x) then s!"{showRat x}*{l.length}" else "_".intercalate (l.map showRat)

def showEW : EW → String
  | .fixed u t col => s!"F.{u}.{t}.{showRatList col}"
  | .gated g c =>
    let sl := if c.slices.isEmpty then "~" else "_".intercalate (c.slices.map (fun p => s!"{p.1}:{p.2}"))
    s!"G.{g.gid}.{g.label}.{g.unit}.{showRat g.biasW}.{showRat g.unitW}.{showRat g.threshold}." ++
    s!"{showKind c.kind}.{c.source}.{c.target}.{showNats c.ensembles}.{c.sizeIn}.{sl}.{showInhibit c.inhibit}.{c.gate.gid}"

def effectiveDict (l : List (Nat × Gate)) : List (Nat × Nat) :=
  let keys := (l.map (·.1)).eraseDups
  let pairs := keys.filterMap (fun k => (l.find? (fun p => p.1 == k)).map (fun p => (k, p.2.gid)))
  pairs.mergeSort (fun a b => a.1 ≤ b.1)

def showWiring (w : Wiring) : String :=
  let bg := showList (fun p : Nat × Nat => s!"{p.1}>{p.2}") w.bgInputs
  let acts := w.effects.map (fun ws => if ws.isEmpty then "-" else "+".intercalate (ws.map showEW))
  let dict := showList (fun p : Nat × Nat => s!"{p.1}:{p.2}") (effectiveDict w.gatesDict)
  s!"n={w.actionCount};bg={bg};E={"|".intercalate acts};D={dict}"

def showTargets (f : Nat → Nat → Rat) (nt dim : Nat) : String :=
  ";".intercalate ((List.range nt).map (fun t =>
    s!"{t}=" ++ showRatList ((List.range dim).map (fun c => f t c))))

def handle (op : String) (args : List String) : Option (Except String String) :=
  match op, args with
  | "build", [p, c, r] => do
      let P ← parseParams p
      let cfg ← parseCfg c
      let rules ← parseRules r
      match build P cfg rules with
      | .error e => some (.error (showErr e))
      | .ok none => some (.ok "nothing")
      | .ok (some w) => some (.ok (showWiring w))
  | "deliver", [p, c, r, a, env, nt, dim] => do
      let P ← parseParams p
      let cfg ← parseCfg c
      let rules ← parseRules r
      let av ← parseRatList a
      let env ← parseEnv env
      let nt ← nt.toNat?
      let dim ← dim.toNat?
      match build P cfg rules with
      | .error e => some (.error (showErr e))
      | .ok none => some (.ok "nothing")
      | .ok (some w) =>
        some (.ok (showTargets (fun t comp => deliver (fun i => av.getD i 0) env t comp w.effects) nt dim))
  | "routed", [r, k, env, nt, dim] => do
      let rules ← parseRules r
      let k ← k.toNat?
      let env ← parseEnv env
      let nt ← nt.toNat?
      let dim ← dim.toNat?
      some (.ok (showTargets (fun t comp => Spec.routed rules env k t comp) nt dim))
  | "defaults", [] =>
      match defaultParams with
      | some P => some (.ok (showRatList [P.thresholdGate, P.routeInhibit, P.mutualInhibit, P.thresholdAction]))
      | none => some (.error "table-incomplete")
  | "handles", [conds, sends, n] => do
      let conds ← parseRatList conds
      let n ← n.toNat?
      let sends ← if sends = "-" then some [] else (sends.splitOn ";").mapM (fun e =>
        match e.splitOn "=" with
        | [h, x] => do
            let h ← h.toNat?
            let x ← parseRat x
            some (h, x)
        | _ => none)
      -- the ifmax calls, collecting the handles they return
      let (b, hs) := conds.foldl (fun (acc : Block × List Nat) c =>
        let r := ifmax acc.1 c
        (r.1, acc.2 ++ [r.2])) (({ utilInputs := [] } : Block), ([] : List Nat))
      let b := sends.foldl (fun b hx => sendTo b hx.1 hx.2) b
      -- the BG inputs as `connectInputs` wires them
      match connectInputs n 0 (List.replicate conds.length ()) with
      | .error e => some (.error (showErr e))
      | .ok ins =>
        some (.ok (showNats hs ++ ";" ++ showRatList ((List.range n).map (bgInput b ins))))
  | _, _ => none

def main : IO Unit := Proto.loop handle

import SpaModel.Proto
import SpaModel.Basic.C11
open C11 C11.Impl Proto

def parseTy (s : String) : Option Ty :=
  match s.splitOn ":" with
  | ["S"] => some scalar
  | ["A"] => some .any
  | ["B", n] => some (.base n)
  | ["D", d] => d.toInt?.map .anyDim
  | ["V", v] => v.toNat?.map .vocab
  | _ => none

def showTy : Ty → String
  | .base n => if n = "TScalar" then "S" else s!"B:{n}"
  | .any => "A"
  | .anyDim d => s!"D:{d}"
  | .vocab v => s!"V:{v}"

def showReason : Reason → String
  | .differentVocab => "different-vocab"
  | .dimMismatch => "dim-mismatch"
  | .incompatible => "incompatible"

def mkDim (l : List Int) : Nat → Int := fun v => l.getD v 0

def handle (op : String) (args : List String) : Option (Except String String) :=
  match op, args with
  | "cmp", [ds, a, b] => do
      let dim := mkDim (← parseIntList ds)
      let a ← parseTy a
      let b ← parseTy b
      let bits := [lt dim a b, le dim a b, gt dim a b, ge dim a b, eq a b, ne a b,
                   decide (hashKey a = hashKey b)]
      some (.ok (String.join (bits.map showBool)))
  | "coerce", [ds, ts] => do
      let dim := mkDim (← parseIntList ds)
      let tys ← (ts.splitOn ";").mapM parseTy
      match tys with
      | [] => none
      | t :: rest =>
        match coerce dim t rest with
        | .ok r => some (.ok (showTy r))
        | .error e => some (.error (showReason e))
  | _, _ => none

def main : IO Unit := Proto.loop handle

import SpaModel.Proto
import SpaModel.Basic.C14
open C14 C14.Impl Proto

/-
Program tokens (comma separated, prefix form, bodies closed by `e`):
  r,<g|i|u>                       a >> b  (good / ill typed / unbuildable)
  i,<~|=name>,<z|s|p|u|m>,<n>,<eff>*n   ifmax; effects g|i|u (inline routes) or o (other value)
  x,<n>                           raise UserError(n)
  b,<id>, … ,e                    with blocks[id]: …
  t, … ,e                         try: … except Exception: pass
-/

def parseKind : String → Option RouteKind
  | "g" => some .good | "i" => some .illTyped | "u" => some .unbuildable | _ => none

def parseEff (s : String) : Option Eff :=
  if s = "o" then some .other else (parseKind s).map .route

def parseCond : String → Option Cond
  | "z" => some .zero | "s" => some .scalar | "p" => some .pointer
  | "u" => some .unregistered | "m" => some .missing | _ => none

def parseName (s : String) : Option (Option String) :=
  if s = "~" then some none
  else if s.startsWith "=" then some (some (s.drop 1).toString) else none

def parseSeq : Nat → Bool → List String → Option (Prog × List String)
  | 0, _, _ => none
  | _ + 1, inBody, [] => if inBody then none else some (.done, [])
  | fuel + 1, inBody, tok :: rest =>
    match tok with
    | "e" => if inBody then some (.done, rest) else none
    | "r" =>
      match rest with
      | k :: rest => do
        let k ← parseKind k
        let (p, rest) ← parseSeq fuel inBody rest
        some (.route k p, rest)
      | _ => none
    | "x" =>
      match rest with
      | n :: rest => do
        let n ← n.toNat?
        let (p, rest) ← parseSeq fuel inBody rest
        some (.raise n p, rest)
      | _ => none
    | "i" =>
      match rest with
      | nm :: c :: n :: rest => do
        let nm ← parseName nm
        let c ← parseCond c
        let n ← n.toNat?
        if rest.length < n then none else
        let effs ← (rest.take n).mapM parseEff
        let (p, rest) ← parseSeq fuel inBody (rest.drop n)
        some (.ifmax nm c effs p, rest)
      | _ => none
    | "b" =>
      match rest with
      | id :: rest => do
        let id ← id.toNat?
        let (body, rest) ← parseSeq fuel true rest
        let (p, rest) ← parseSeq fuel inBody rest
        some (.block id body p, rest)
      | _ => none
    | "t" => do
      let (body, rest) ← parseSeq fuel true rest
      let (p, rest) ← parseSeq fuel inBody rest
      some (.attempt body p, rest)
    | _ => none

def parseProg (s : String) : Option Prog :=
  let toks := if s = "-" then [] else s.splitOn ","
  match parseSeq (toks.length + 2) false toks with
  | some (p, []) => some p
  | _ => none

def showExc : Exc → String
  | .actionSelection => "AS" | .spaType => "TY" | .value => "VAL" | .assertion => "ASSERT"
  | .validation => "NVAL" | .user n => s!"U{n}"

def showOExc : Option Exc → String
  | none => "-" | some e => showExc e

def showObs : Obs → String
  | .route .connected ff => s!"r:c:{ff}"
  | .route .routed ff => s!"r:r:{ff}"
  | .route (.raised e) ff => s!"r:!{showExc e}:{ff}"
  | .ifmax e ff => s!"i:{showOExc e}:{ff}"
  | .blockEnd id e an rm ff built len =>
    s!"b:{id}:{showOExc e}:{showBool an}{showBool rm}:{ff}:{showBool built}:{len}"
  | .caught e => s!"c:{showExc e}"

def showKey : Key → String
  | .name n => s!"={n}" | .idx i => s!"#{i}"

def showGet : Except GetErr Nat → String
  | .ok i => toString i | .error .key => "K" | .error .index => "I"

def showBlock (b : Block) : String :=
  let ks := iter b
  s!"{showBool b.built}:{len b}:{showList showKey ks}:{showList (fun k => showGet (getitem b k)) ks}"

def parseNames (s : String) : Option (List (Option String)) :=
  if s = "-" then some [] else (s.splitOn ",").mapM parseName

def handle (op : String) (args : List String) : Option (Except String String) :=
  match op, args with
  | "run", [prog, ids] => do
      -- run the program from the initial world; report trace, final globals, the listed block objects
      let p ← parseProg prog
      let ids ← parseNatList ids
      let r := exec World.init p
      let g := r.st.g
      let blocks := ids.map fun i => s!"{i}/{showBlock (r.st.blocks i)}"
      some (.ok (s!"{showOExc r.exc} {showBool g.active.isNone}{showBool g.routedMode}:{g.freeFloating.length} "
                  ++ showList showObs r.out ++ " " ++ showList id blocks))
  | "keys", [names, probes] => do
      -- the Mapping interface after declaring actions with these names; probes: extra keys to look up
      let ns ← parseNames names
      let b := declare ns
      let probes ← if probes = "-" then some [] else (probes.splitOn ",").mapM (fun s =>
        if s.startsWith "#" then (s.drop 1).toString.toNat?.map Key.idx
        else if s.startsWith "=" then some (Key.name (s.drop 1).toString) else none)
      let ks := iter b
      some (.ok (s!"{len b}:{showList showKey ks}:{showList (fun k => showGet (getitem b k)) ks} "
                  ++ showList (fun k => showGet (getitem b k)) probes))
  | _, _ => none

def main : IO Unit := Proto.loop handle

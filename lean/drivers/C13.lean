import SpaModel.Proto
import SpaModel.Basic.C13
open C13 C13.Impl Proto

/-! Line-protocol driver for C13: executes `C13.Impl.*` over `Rat`.

tokens
* vocabulary  `id:strict:alg:gen:maxsim:entries`, entries `A=1,0;B=0,1/2` or `-`; `N` = no vocabulary
* keys        `*` (None) | `-` (empty) | `A,B`
* stream      `1,0;0,1` | `-`
* populate    `n` (unspecified) | `f` | `t`
* order       `*` (canonical) | explicit list (the order in which CPython iterated the missing keys)
* node type   `S` scalar | `A` TAnyVocab | `D<n>` | `V<id>`
-/

def vecOf (d : Nat) (l : List Rat) : Option (Vec Rat d) :=
  if l.length = d then some (fun i => l.getD i.val 0) else none

def listOf {d : Nat} (v : Vec Rat d) : List Rat := (List.finRange d).map v

def showVec {d : Nat} (v : Vec Rat d) : String := showRatList (listOf v)

def showRows {d : Nat} (l : List (Vec Rat d)) : String :=
  if l.isEmpty then "-" else ";".intercalate (l.map showVec)

def showMat {m n : Nat} (t : Mat Rat m n) : String :=
  if m = 0 then "-" else ";".intercalate ((List.finRange m).map fun i => showVec (t i))

def parseKeys (s : String) : Option (List Key) :=
  if s = "-" then some [] else some (s.splitOn ",")

def parseOptKeys (s : String) : Option (Option (List Key)) :=
  if s = "*" then some none else (parseKeys s).map some

def parseRows (d : Nat) (s : String) : Option (List (Vec Rat d)) :=
  if s = "-" then some [] else (s.splitOn ";").mapM fun r => do vecOf d (← parseRatList r)

def parseEntries (d : Nat) (s : String) : Option (List (Key × Vec Rat d)) :=
  if s = "-" then some [] else (s.splitOn ";").mapM fun e =>
    match e.splitOn "=" with
    | [k, v] => do some (k, ← vecOf d (← parseRatList v))
    | _ => none

def parseVocab (d : Nat) (s : String) : Option (Vocab Rat d) :=
  match s.splitOn ":" with
  | [i, st, a, g, ms, es] => do
      some { id := ← i.toNat?, strict := ← parseBool st, algebra := ← a.toNat?, gen := ← g.toNat?,
             maxSim := ← parseRat ms, entries := ← parseEntries d es }
  | _ => none

def parseOptVocab (d : Nat) (s : String) : Option (Option (Vocab Rat d)) :=
  if s = "N" then some none else (parseVocab d s).map some

def showVocab {d : Nat} (v : Vocab Rat d) : String :=
  s!"{v.id}:{showBool v.strict}:{v.algebra}:{v.gen}:{showRat v.maxSim}:" ++
    (if v.entries.isEmpty then "-" else
      ";".intercalate (v.entries.map fun e => s!"{e.1}={showVec e.2}"))

def parsePopulate : String → Option Populate
  | "n" => some .unspecified | "f" => some .no | "t" => some .yes | _ => none

def parseTy (s : String) : Option NodeType :=
  if s = "S" then some .scalar else if s = "A" then some .anyVocab
  else if s.startsWith "D" then (s.drop 1).toNat?.map .anyDim
  else if s.startsWith "V" then (s.drop 1).toNat?.map .vocab
  else none

def showTy : NodeType → String
  | .scalar => "S" | .anyVocab => "A" | .anyDim n => s!"D{n}" | .vocab i => s!"V{i}"

def showErr : Err → String
  | .keyError => "KeyError" | .parseError => "SpaParseError" | .validationError => "ValidationError"
  | .stopIteration => "StopIteration" | .attributeError => "AttributeError"
  | .spaTypeError => "SpaTypeError"

def showOptNat : Option Nat → String
  | none => "N" | some n => toString n

/-! ### an exact least-squares solver for the driver (not part of the model: the
model takes the solver as a parameter; the reply carries the post-condition
`A·X = B` evaluated exactly, which is the hypothesis of `C13.lstsq_exact`) -/

abbrev LM := List (List Rat)

def lmT (a : LM) (cols : Nat) : LM := (List.range cols).map fun j => a.map fun r => r.getD j 0
def lmMul (a b : LM) (bc : Nat) : LM :=
  a.map fun r => (List.range bc).map fun j => ((r.zip (b.map fun br => br.getD j 0)).map fun p => p.1 * p.2).sum

/-- Gauss–Jordan inverse of an `n × n` matrix (`none` when singular) -/
def gaussInv (m : LM) : Option LM := Id.run do
  let n := m.length
  let mut a : Array (Array Rat) :=
    (m.zipIdx.map fun (r, i) => (r ++ (List.range n).map fun j => if i = j then (1 : Rat) else 0).toArray).toArray
  for c in [0:n] do
    let mut piv := n
    for r in [c:n] do
      if piv = n && (a[r]!)[c]! ≠ 0 then piv := r
    if piv = n then return none
    let tmp := a[c]!
    a := a.set! c a[piv]!
    a := a.set! piv tmp
    let p := (a[c]!)[c]!
    a := a.set! c ((a[c]!).map (· / p))
    for r in [0:n] do
      if r ≠ c then
        let f := (a[r]!)[c]!
        if f ≠ 0 then
          let rc := a[c]!
          a := a.set! r ((a[r]!).zipWith (fun x y => x - f * y) rc)
  return some (a.toList.map fun r => (r.toList.drop n))

/-- minimum-norm exact solution `X = Aᵀ (A Aᵀ)⁻¹ B` for independent rows of `A` -/
def solveLM (d1 d2 : Nat) (a b : LM) : Option LM := do
  let at_ := lmT a d1
  let g ← gaussInv (lmMul a at_ a.length)
  some (lmMul at_ (lmMul g b d2) d2)

def matOfLM (m n : Nat) (x : LM) : Mat Rat m n := fun i j => (x.getD i.val []).getD j.val 0

def exactSolver (d1 d2 : Nat) : Solver Rat d1 d2 := fun a b =>
  matOfLM d1 d2 ((solveLM d1 d2 (a.map listOf) (b.map listOf)).getD [])

def showRes {d1 d2 : Nat} (r : TResult Rat d1 d2) (ss : List (Vec Rat d1)) (ts : List (Vec Rat d2)) : String :=
  "|".intercalate [showMat r.T, showVocab r.src, showVocab r.tgt,
    toString (ss.length - r.srcStream.length), toString (ts.length - r.tgtStream.length),
    showBool r.nengoWarning, showBool r.simWarning]

def mkOrder (o : Option (List Key)) : SetOrder :=
  { missing := fun l => match o with | none => l | some e => e
    usedFrom := List.reverse
    usedTo := List.reverse }

def isPerm (a b : List Key) : Bool :=
  a.length == b.length && a.all b.contains && b.all a.contains

def handle (op : String) (args : List String) : Option (Except String String) :=
  match op, args with
  -- transform_to and the three wrappers
  | "tf", [d1s, d2s, srcS, tgtS, popS, keysS, solS, ordS, ssS, tsS, wrapS] => do
      let d1 ← d1s.toNat?
      let d2 ← d2s.toNat?
      let srcO ← parseOptVocab d1 srcS
      let tgt ← parseVocab d2 tgtS
      let pop ← parsePopulate popS
      let keys ← parseOptKeys keysS
      let useSolver ← parseBool solS
      let ordO ← parseOptKeys ordS
      let ss ← parseRows d1 ssS
      let ts ← parseRows d2 tsS
      -- the set order: the two used-key enumerations are the same function (pairing), here a
      -- non-canonical one (reversed) so that order independence is exercised
      let ord := mkOrder ordO
      match srcO, ordO with
      | some src, some e => if !isPerm e (missingKeys src tgt keys) then none else pure ()
      | _, _ => pure ()
      let solver : Option (Solver Rat d1 d2) := if useSolver then some (exactSolver d1 d2) else none
      -- post-condition of the driver's solver on the actual subsets (canonical order)
      let post : String := match srcO with
        | none => "-"
        | some src =>
          if !useSolver then "-" else
          match transformTo src tgt pop keys none ord 1000 1001 ss ts with
          | .error _ => "-"
          | .ok r0 =>
            let used := (requestedKeys src keys).filter fun k => r0.tgt.hasKey k
            let a := used.map fun k => listOf ((src.lookup k).getD fun _ => 0)
            let b := used.map fun k => listOf ((r0.tgt.lookup k).getD fun _ => 0)
            match solveLM d1 d2 a b with
            | none => "singular"
            | some x => if lmMul a x d2 == b then "1" else "0"
      if post == "singular" then some (.error "singular") else
      let fin (r : Except Err (String × TResult Rat d1 d2)) : Option (Except String String) :=
        match r with
        | .error e => some (.error (showErr e))
        | .ok (h, r) => some (.ok (h ++ "|" ++ post ++ "|" ++ showRes r ss ts))
      match wrapS.splitOn ":" with
      | ["v"] => do
          let src ← srcO
          fin ((transformTo src tgt pop keys solver ord 1000 1001 ss ts).map fun r => ("v", r))
      | ["p", vs, algS] => do
          let v ← vecOf d1 (← parseRatList vs)
          let alg ← algS.toNat?
          let p : Ptr Rat d1 := { v := v, vocab := srcO.map (·.id), algebra := alg }
          fin ((translate p srcO tgt pop keys solver ord 1000 1001 ss ts).map fun (q, r) =>
            (s!"p:{showVec q.v}:{showOptNat q.vocab}:{q.algebra}", r))
      | ["s", tyS, vs] => do
          let v ← vecOf d1 (← parseRatList vs)
          let ty ← parseTy tyS
          fin ((symTranslate ty v srcO tgt pop keys solver ord 1000 1001 ss ts).map fun (q, r) =>
            (s!"p:{showVec q.v}:{showOptNat q.vocab}:{q.algebra}", r))
      | ["d", tyS] => do
          let ty ← parseTy tyS
          fin ((dynTranslate ty srcO tgt pop keys solver ord 1000 1001 ss ts).map fun (q, r) =>
            (s!"d:{showTy q.type}:{showMat q.transform}", r))
      | _ => none
  -- reinterpret on a fixed pointer: re d d' vec vocab|N alg target|N
  | "re", [ds, d's, vs, vocS, algS, tgtS] => do
      let d ← ds.toNat?
      let d' ← d's.toNat?
      let v ← vecOf d (← parseRatList vs)
      let voc : Option Nat ← if vocS = "N" then some none else vocS.toNat?.map some
      let alg ← algS.toNat?
      let tgt ← parseOptVocab d' tgtS
      let q := reinterpret { v := v, vocab := voc, algebra := alg } tgt
      some (.ok s!"{showVec q.v}:{showOptNat q.vocab}:{q.algebra}")
  -- reinterpret on a symbol: res d d' ty value src|N target|N
  | "res", [ds, d's, tyS, vs, srcS, tgtS] => do
      let d ← ds.toNat?
      let d' ← d's.toNat?
      let ty ← parseTy tyS
      let v ← vecOf d (← parseRatList vs)
      let src ← parseOptVocab d srcS
      let tgt ← parseOptVocab d' tgtS
      match symReinterpret ty v src tgt with
      | .error e => some (.error (showErr e))
      | .ok q => some (.ok s!"{showVec q.v}:{showOptNat q.vocab}:{q.algebra}")
  -- reinterpret on a dynamic node: red d d' ty target|N
  | "red", [ds, d's, tyS, tgtS] => do
      let d ← ds.toNat?
      let d' ← d's.toNat?
      let ty ← parseTy tyS
      let tgt ← parseOptVocab d' tgtS
      match (dynReinterpret ty tgt : Except Err (Transformed Rat d d)) with
      | .error e => some (.error (showErr e))
      | .ok q => some (.ok s!"{showTy q.type}:{showMat q.transform}")
  -- create_subset: sub d vocab keys freshId stream
  | "sub", [ds, vS, keysS, fS, sS] => do
      let d ← ds.toNat?
      let v ← parseVocab d vS
      let keys ← parseKeys keysS
      let f ← fS.toNat?
      let s ← parseRows d sS
      match createSubset v keys f s with
      | .error e => some (.error (showErr e))
      | .ok (sub, self', s') =>
        some (.ok s!"{showVocab sub}|{showVocab self'}|{s.length - s'.length}")
  | _, _ => none

def main : IO Unit := Proto.loop handle

/-
Line-protocol driver for C10: runs `C10.Impl.parseValue / populate / createPointer` (the very
definitions the theorems are about) on the instances `C10.Inst.hrr / vtb / tvtb` with exact
arithmetic (ℚ for HRR, ℚ(√m) for VTB/TVTB, m = √d not a perfect square).

  parse    <alg> <d> <strict> <maxsim> <entries> <gen> <tree>
  populate <alg> <d> <strict> <maxsim> <entries> <gen> <text> <parsetable> <transtable>
  create   <alg> <d> <maxsim> <entries> <gen> <attempts> <trkind>

entries: `A=1,2,0,1/2;B=…` | `-`      gen: `v;v;…` | `-`      text: char codes `67,32,61` | `-`
tree   : `n:Name` `i:3` `f:1/2` `N` `add(x,y)` `sub` `mul` `div` `dot` `neg(x)` `inv(x)` `v(x)` `pow:-2(x)`
tables : `<text>=<tree or X>|…` resp. `<text>=<id|neg|inv|norm|E:attributeError|E:syntaxError>|…` | `-`
reply  : `ok <status>#<value>#<entries>#<genlen>#<warns>`   (status `ok` or the exception class)
Pure glue: parsing, calling the model, printing.  Fall-back: the shared algebra ops.
-/
import SpaModel.AlgProto
import SpaModel.Lemmas.C10

open C10 C10.Impl Proto Alg

namespace D10

/-! scalars of ℚ(√m), m not a perfect square -/
def sgnQ (q : ℚ) : Int := if q > 0 then 1 else if q < 0 then -1 else 0

/-- sign of `re + im·√m` -/
def qsSign {m : ℕ} (x : QS m) : Int :=
  let a := x.re
  let b := x.im
  if b = 0 then sgnQ a else if a = 0 then sgnQ b
  else if a > 0 ∧ b > 0 then 1 else if a < 0 ∧ b < 0 then -1
  else if a > 0 then sgnQ (a * a - (m : ℚ) * b * b) else sgnQ ((m : ℚ) * b * b - a * a)

def qsLt {m : ℕ} (x y : QS m) : Bool := qsSign (y - x) > 0
def qsIsZero {m : ℕ} (x : QS m) : Bool := x.re == 0 && x.im == 0
def qsInv {m : ℕ} (x : QS m) : QS m :=
  let n := x.re * x.re - (m : ℚ) * x.im * x.im
  ⟨x.re / n, -x.im / n⟩

def ratSqrt? (q : ℚ) : Option ℚ :=
  if q < 0 then none else
  let n := q.num.toNat
  let d := q.den
  if Nat.sqrt n * Nat.sqrt n = n ∧ Nat.sqrt d * Nat.sqrt d = d then
    some ((Nat.sqrt n : ℚ) / (Nat.sqrt d : ℚ)) else none

/-- what the driver needs besides the algebra record -/
structure Rt where
  K : Type
  V : Type
  alg : C10.Algebra K V
  ofRat : ℚ → K
  vecOf : List ℚ → V
  showV : V → String
  /-- `normalized()`: exact when the norm is rational -/
  norm : V → Except Err V

def hrrNorm {k : ℕ} (v : Hrr.Vec k ℚ) : Except Err (Hrr.Vec k ℚ) :=
  let nsq := ((List.finRange (k+1)).map fun i => v i * v i).sum
  if nsq = 0 then .ok v else
  match ratSqrt? nsq with
  | some r => .ok fun i => v i / r
  | none => .error .unmodelled

def qsNorm {m : ℕ} (v : Vec2 m (QS m)) : Except Err (Vec2 m (QS m)) :=
  let nsq : QS m := ((AlgProto.pairs m).map fun p => v p * v p).sum
  if nsq.im ≠ 0 then .error .unmodelled else
  if nsq.re = 0 then .ok v else
  match ratSqrt? nsq.re with
  | some r => .ok fun p => v p * QS.emb m (1 / r)
  | none => .error .unmodelled

def mkRt (alg : String) (d : ℕ) : Option Rt :=
  match alg, d with
  | "hrr", k + 1 =>
    match AlgProto.isqrt? (k + 1) with
    | none => none
    | some r => some {
        K := ℚ, V := Hrr.Vec k ℚ,
        alg := Inst.hrr k (fun x => x⁻¹) (fun x => x == 0) (fun a b => decide (a < b)) (1 / (r : ℚ)),
        ofRat := id, vecOf := vecOfList k,
        showV := fun v => showRatList (listOfVec v), norm := hrrNorm }
  | "vtb", d =>
    match AlgProto.isqrt? d with
    | none => none
    | some m => if (AlgProto.isqrt? m).isSome then none else some {
        K := QS m, V := Vec2 m (QS m),
        alg := Inst.vtb m qsInv qsIsZero qsLt (QS.rt m) (QS.rtInv m),
        ofRat := QS.emb m, vecOf := AlgProto.v2 m,
        showV := fun v => QS.showList (listOfVec2 v), norm := qsNorm }
  | "tvtb", d =>
    match AlgProto.isqrt? d with
    | none => none
    | some m => if (AlgProto.isqrt? m).isSome then none else some {
        K := QS m, V := Vec2 m (QS m),
        alg := Inst.tvtb m qsInv qsIsZero qsLt (QS.rt m) (QS.rtInv m),
        ofRat := QS.emb m, vecOf := AlgProto.v2 m,
        showV := fun v => QS.showList (listOfVec2 v), norm := qsNorm }
  | _, _ => none

def showErr : Err → String
  | .parseError => "parseError"
  | .syntaxError => "syntaxError"
  | .typeError => "typeError"
  | .zeroDivision => "zeroDivision"
  | .attributeError => "attributeError"
  | .validation => "validation"
  | .stopIteration => "stopIteration"
  | .notImplemented => "notImplemented"
  | .unmodelled => "unmodelled"

/-! tree tokens -/
def atom {K : Type} (ofRat : ℚ → K) (h : String) : Option (Expr K) :=
  match h.splitOn ":" with
  | ["N"] => some .noneC
  | ["n", s] => if s.isEmpty then none else some (.name s)
  | ["i", z] => z.toInt?.map fun z => .lit (.int z)
  | ["f", q] => (parseRat q).map fun q => .lit (.flt (ofRat q))
  | _ => none

def mkNode {K : Type} (h : String) (args : List (Expr K)) : Option (Expr K) :=
  match h.splitOn ":", args with
  | ["add"], [a, b] => some (.add a b)
  | ["sub"], [a, b] => some (.sub a b)
  | ["mul"], [a, b] => some (.mul a b)
  | ["div"], [a, b] => some (.div a b)
  | ["dot"], [a, b] => some (.dot a b)
  | ["neg"], [a] => some (.neg a)
  | ["inv"], [a] => some (.inv a)
  | ["v"], [a] => some (.attrV a)
  | ["pow", n], [a] => n.toInt?.map fun n => .pow a n
  | _, _ => none

def isDelim (c : Char) : Bool := c == '(' || c == ',' || c == ')'

mutual
partial def pTree {K : Type} (ofRat : ℚ → K) (cs : List Char) : Option (Expr K × List Char) :=
  let head := String.ofList (cs.takeWhile (fun c => !isDelim c))
  let rest := cs.dropWhile (fun c => !isDelim c)
  match rest with
  | '(' :: rest' =>
    match pArgs ofRat rest' with
    | some (args, rest'') => (mkNode head args).map fun e => (e, rest'')
    | none => none
  | _ => (atom ofRat head).map fun e => (e, rest)
partial def pArgs {K : Type} (ofRat : ℚ → K) (cs : List Char) : Option (List (Expr K) × List Char) :=
  match pTree ofRat cs with
  | some (e, ',' :: r) => (pArgs ofRat r).map fun (es, r') => (e :: es, r')
  | some (e, ')' :: r) => some ([e], r)
  | _ => none
end

def parseTreeTok {K : Type} (ofRat : ℚ → K) (s : String) : Option (Expr K) :=
  match pTree ofRat s.toList with
  | some (e, []) => some e
  | _ => none

def parseText (s : String) : Option (List Char) :=
  (parseNatList s).map fun l => l.map Char.ofNat

def parseVecs (d : ℕ) (s : String) : Option (List (List ℚ)) :=
  if s = "-" then some [] else
  (s.splitOn ";").mapM fun t => do
    let v ← parseRatList t
    if v.length = d then some v else none

def parseEntries (d : ℕ) (s : String) : Option (List (String × List ℚ)) :=
  if s = "-" then some [] else
  (s.splitOn ";").mapM fun t =>
    match t.splitOn "=" with
    | [n, v] => do
      let v ← parseRatList v
      if v.length = d ∧ !n.isEmpty then some (n, v) else none
    | _ => none

def mkVocab (rt : Rt) (strict : Bool) (maxsim : ℚ) (entries : List (String × List ℚ))
    (gen : List (List ℚ)) : Vocab rt.K rt.V :=
  { strict := strict, maxSim := rt.ofRat maxsim,
    entries := entries.map fun (n, v) => (n, rt.vecOf v),
    gen := gen.map rt.vecOf, warns := 0 }

def showState (rt : Rt) (vc : Vocab rt.K rt.V) : String :=
  let es := if vc.entries.isEmpty then "-" else
    ";".intercalate (vc.entries.map fun (n, v) => n ++ "=" ++ rt.showV v)
  s!"{es}#{vc.gen.length}#{vc.warns}"

def parseTable {α : Type} (f : String → Option α) (s : String) : Option (List (List Char × α)) :=
  if s = "-" then some [] else
  (s.splitOn "|").mapM fun t =>
    match t.splitOn "=" with
    | [k, v] => do some ((← parseText k), (← f v))
    | _ => none

inductive TrKind where
  | id | neg | inv | norm | err (e : Err)

def parseTrKind (s : String) : Option TrKind :=
  match s with
  | "id" => some .id
  | "neg" => some .neg
  | "inv" => some .inv
  | "norm" => some .norm
  | "E:attributeError" => some (.err .attributeError)
  | "E:syntaxError" => some (.err .syntaxError)
  | _ => none

def trOf (rt : Rt) : TrKind → rt.V → Except Err rt.V
  | .id => .ok
  | .neg => fun v => .ok (rt.alg.neg v)
  | .inv => fun v => .ok (rt.alg.invert v)
  | .norm => rt.norm
  | .err e => fun _ => .error e

/-- the texts `populate` will hand to the parser / to the transform evaluation -/
def neededTexts (text : List Char) : List (List Char) × List (List Char) :=
  if (strip text).isEmpty then ([], []) else
  (splitAll ';' text).foldl (fun (acc : List (List Char) × List (List Char)) it =>
    match classify it with
    | .assign _ e => (acc.1 ++ [e], acc.2)
    | .method _ t => (acc.1, acc.2 ++ [t])
    | .bare _ => acc) ([], [])

def withRt (alg d : String) (k : ℕ → Rt → Option (Except String String)) :
    Option (Except String String) :=
  match d.toNat? with
  | none => none
  | some d =>
    match mkRt alg d with
    | none => none
    | some rt => k d rt

def handleC10 (op : String) (args : List String) : Option (Except String String) :=
  match op, args with
  | "parse", [alg, d, strict, maxsim, entries, gen, tree] => withRt alg d fun d rt => do
      let vc := mkVocab rt (← parseBool strict) (← parseRat maxsim) (← parseEntries d entries)
        (← parseVecs d gen)
      let e ← parseTreeTok rt.ofRat tree
      match parseValue rt.alg e vc with
      | (.ok (.ptr v o), vc') => some (.ok s!"ok#P:{rt.showV v}:{showBool o}#{showState rt vc'}")
      | (.ok _, vc') => some (.ok s!"ok#other#{showState rt vc'}")
      | (.error err, vc') => some (.ok s!"{showErr err}#-#{showState rt vc'}")
  | "populate", [alg, d, strict, maxsim, entries, gen, text, ptab, ttab] => withRt alg d fun d rt => do
      let vc := mkVocab rt (← parseBool strict) (← parseRat maxsim) (← parseEntries d entries)
        (← parseVecs d gen)
      let text ← parseText text
      let ptab ← parseTable (fun s => if s = "X" then some none else
        (parseTreeTok rt.ofRat s).map some) ptab
      let ttab ← parseTable parseTrKind ttab
      let (needE, needT) := neededTexts text
      if !(needE.all fun t => (ptab.lookup t).isSome) then none else
      if !(needT.all fun t => (ttab.lookup t).isSome) then none else
      let parser : List Char → Option (Expr rt.K) := fun t => (ptab.lookup t).join
      let trans : List Char → rt.V → Except Err rt.V := fun t =>
        match ttab.lookup t with
        | some k => trOf rt k
        | none => fun _ => .error .unmodelled
      match populate rt.alg parser trans text vc with
      | (.ok (), vc') => some (.ok s!"ok#-#{showState rt vc'}")
      | (.error err, vc') => some (.ok s!"{showErr err}#-#{showState rt vc'}")
  | "create", [alg, d, maxsim, entries, gen, attempts, trk] => withRt alg d fun d rt => do
      let vc := mkVocab rt true (← parseRat maxsim) (← parseEntries d entries) (← parseVecs d gen)
      let k ← parseTrKind trk
      match createPointer rt.alg (← attempts.toNat?) (trOf rt k) vc with
      | (.ok (some v), vc') => some (.ok s!"ok#{rt.showV v}#{showState rt vc'}")
      | (.ok none, vc') => some (.ok s!"ok#None#{showState rt vc'}")
      | (.error err, vc') => some (.ok s!"{showErr err}#-#{showState rt vc'}")
  | _, _ => none

end D10

def main : IO Unit :=
  Proto.loop fun op args => (D10.handleC10 op args).orElse fun _ => AlgProto.handle op args

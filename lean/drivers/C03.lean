import SpaModel.Proto
import SpaModel.Basic.C03
open C03 C03.Impl Proto

/-! Line protocol for C03:
`run <dims>|<algs> <obj;obj;…> <op;op;…>`  →  `<outcome;…>|<slot;…>`
objects `P:<v|->:<alg>:<len>`, `S:<ty>`, `Y:<ty>:<0|1>`, `M:<ty>`, `N`, `G`, `R:<len>`;
types `S`, `A`, `D<d>`, `V<i>`; operations `add,i,j` … `reinterp,i,<-|V k>`, `translate,i,V<k>`. -/

def parseTy (s : String) : Option C11.Ty :=
  if s = "S" then some C11.scalar
  else if s = "A" then some .any
  else if s.startsWith "D" then (s.drop 1).toString.toInt?.map .anyDim
  else if s.startsWith "V" then (s.drop 1).toString.toNat?.map .vocab
  else none

def showTy : C11.Ty → String
  | .base n => if n = "TScalar" then "S" else s!"B:{n}"
  | .any => "A"
  | .anyDim d => s!"D{d}"
  | .vocab v => s!"V{v}"

def parseObj (s : String) : Option Obj :=
  match s.splitOn ":" with
  | ["P", v, a, l] => do
      let vv ← if v = "-" then some none else v.toNat?.map some
      some (.ptr vv (← a.toNat?) (← l.toInt?))
  | ["S", t] => (parseTy t).map .sym
  | ["Y", t, g] => do some (.dyn (← parseTy t) (← parseBool g))
  | ["M", t] => (parseTy t).map .mod
  | ["N"] => some .num
  | ["G"] => some .npnum
  | ["R", l] => l.toInt?.map .arr
  | _ => none

def showObj : Obj → String
  | .ptr v a l => s!"P:{match v with | none => "-" | some i => toString i}:{a}:{l}"
  | .sym t => s!"S:{showTy t}"
  | .dyn t _ => s!"Y:{showTy t}"
  | .mod t => s!"M:{showTy t}"
  | .num => "N"
  | .npnum => "G"
  | .arr l => s!"R:{l}"

def parseBinOp : String → Option BinOp
  | "add" => some .add | "sub" => some .sub | "mul" => some .mul | "matmul" => some .matmul
  | "dot" => some .dot | "compare" => some .compare | "mse" => some .mse | "distance" => some .distance
  | "spadot" => some .spadot | "rshift" => some .rshift
  | _ => none

def parseOp (s : String) : Option Op :=
  match s.splitOn "," with
  | ["reinterp", i, t] => do
      let tgt ← if t = "-" then some none else
        (if t.startsWith "V" then (t.drop 1).toString.toNat?.map some else none)
      some (.reinterp (← i.toNat?) tgt)
  | ["translate", i, t] => do
      let tgt ← if t.startsWith "V" then (t.drop 1).toString.toNat? else none
      some (.translate (← i.toNat?) tgt)
  | ["un", u, i] => do
      let uo ← match u with
        | "neg" => some UnOp.neg | "inv" => some .inv | "linv" => some .linv | "rinv" => some .rinv
        | "normalized" => some .normalized | "unitary" => some .unitary | _ => none
      some (.unary uo (← i.toNat?))
  | [k, i, j] => do some (.bin (← parseBinOp k) (← i.toNat?) (← j.toNat?))
  | _ => none

def showErr : Err → String
  | .spaType => "spatype" | .typeErr => "type" | .valueErr => "value" | .notImpl => "notimpl"
  | .attrErr => "attr" | .assertErr => "assert" | .connect => "connect" | .numpy => "numpy"
  | .badRef => "badref"

def showOutcome : Except Err Val → String
  | .ok (.obj o) => s!"ok:{showObj o}"
  | .ok .fscalar => "ok:F"
  | .ok .ni => "ok:NI"
  | .ok .unit => "ok:none"
  | .ok .foreign => "ok:foreign"
  | .ok (.raised e) => s!"err:{showErr e}"
  | .error e => s!"err:{showErr e}"

def parseUniv (s : String) : Option Univ :=
  match s.splitOn "|" with
  | [ds, as] => do
      let d ← parseIntList ds
      let a ← parseNatList as
      if d.length ≠ a.length then none else
      some { dim := fun v => d.getD v 0, valg := fun v => a.getD v 0 }
  | _ => none

def handle (op : String) (args : List String) : Option (Except String String) :=
  match op, args with
  | "run", [u, objs, ops] => do
      let U ← parseUniv u
      let w ← (objs.splitOn ";").mapM parseObj
      let os ← (ops.splitOn ";").mapM parseOp
      let (w', rs) := run U (w.map some) os
      let slots := w'.map fun s => match s with | some o => showObj o | none => "-"
      some (.ok (";".intercalate (rs.map showOutcome) ++ "|" ++ ";".intercalate slots))
  | _, _ => none

def main : IO Unit := Proto.loop handle

/-
Driver of C07: executes `C07.Impl.*` (SpaModel/Basic/C07.lean) on exact values.

Pointer token   `v|vocab|alg|name`   v: rationals `p/q,…`; vocab: `-` or `id:algId`; alg: number;
                                     name: `-` or prefix tree `L;codes` `U;codes;…` `B;codes;…;…` `M;codes;…`
                                     (codes = character codes joined by `.`, `e` = empty string)
Operand token   `P|v|vocab|alg|name` | `O|kind|x|codes` | `F|x|codes`
Algebra objects: identity `n` behaves as hrr / vtb / tvtb for `n % 3 = 0 / 1 / 2`; the default is 0.
Only the algebra of `self` is instantiated: by theorem `C07.uses_own_algebra` the outcome of every
operator depends on the environment through `E self.alg` alone.
VTB/TVTB values live in ℚ(√m) (`re~im`).  The similarity measures run in ℚ with `nrm` an
approximation of the square root to 2⁻⁸⁰ (exact on rational roots).
-/
import SpaModel.AlgProto
import SpaModel.Basic.C07
open C07 C07.Impl Proto Alg

def decodeStr (s : String) : Option String :=
  if s = "e" then some "" else
  ((s.splitOn ".").mapM String.toNat?).map fun l => String.ofList (l.map Char.ofNat)

def encodeStr (s : String) : String :=
  if s.isEmpty then "e" else ".".intercalate (s.toList.map fun c => toString c.toNat)

def parseNameAux : Nat → List String → Option (Name × List String)
  | 0, _ => none
  | _ + 1, "L" :: c :: rest => do some (.leaf (← decodeStr c), rest)
  | f + 1, "U" :: c :: rest => do
      let (x, r) ← parseNameAux f rest
      some (.unary (← decodeStr c) x, r)
  | f + 1, "M" :: c :: rest => do
      let (x, r) ← parseNameAux f rest
      some (.method (← decodeStr c) x, r)
  | f + 1, "B" :: c :: rest => do
      let (x, r) ← parseNameAux f rest
      let (y, r2) ← parseNameAux f r
      some (.binary (← decodeStr c) x y, r2)
  | _, _ => none

def parseName (s : String) : Option (Option Name) :=
  if s = "-" then some none else
  let toks := s.splitOn ";"
  match parseNameAux (toks.length + 1) toks with
  | some (n, []) => some (some n)
  | _ => none

def showName : Name → String
  | .leaf s => "L;" ++ encodeStr s
  | .unary o c => "U;" ++ encodeStr o ++ ";" ++ showName c
  | .method m c => "M;" ++ encodeStr m ++ ";" ++ showName c
  | .binary o l r => "B;" ++ encodeStr o ++ ";" ++ showName l ++ ";" ++ showName r

def showOptName : Option Name → String
  | none => "-"
  | some n => showName n

def parseVocab (s : String) : Option (Option Vocab) :=
  if s = "-" then some none else
  match s.splitOn ":" with
  | [i, a] => do some (some ⟨← i.toNat?, ← a.toNat?⟩)
  | _ => none

def showVocab : Option Vocab → String
  | none => "-"
  | some v => s!"{v.id}:{v.alg}"

def parseKind : String → Option Kind
  | "pyInt" => some .pyInt | "pyFloat" => some .pyFloat | "pyBool" => some .pyBool
  | "npFloat32" => some .npFloat32 | "npFloat64" => some .npFloat64 | "npInt64" => some .npInt64
  | "npBool" => some .npBool | "zeroDimNum" => some .zeroDimNum | "zeroDimBool" => some .zeroDimBool
  | "ndarray" => some .ndarray | "listOrTuple" => some .listOrTuple | "other" => some .other
  | _ => none

def showErr : Err → String
  | .typeError => "TypeError" | .returnsNotImplemented => "NotImplemented"
  | .zeroDivision => "ZeroDivisionError" | .spaTypeError => "SpaTypeError"
  | .valueError => "ValueError" | .attributeError => "AttributeError"
  | .notImplementedError => "NotImplementedError" | .importError => "ImportError"
  | .algebraError => "AlgebraError"

def parseSide : String → Option Side
  | "left" => some .left | "right" => some .right | "two" => some .twoSided | _ => none

def parseExp (s : String) : Option Exponent :=
  if s = "frac" then some .frac else s.toInt?.map .int

/-- how vectors of one index type / carrier are read and printed -/
structure Codec (ι R : Type) where
  dec : List Rat → (ι → R)
  enc : (ι → R) → String
  scal : Rat → R
  d : Nat

def parsePtr {ι R : Type} (c : Codec ι R) (s : String) : Option (SP (ι → R)) :=
  match s.splitOn "|" with
  | [v, vocab, alg, name] => do
      let l ← parseRatList v
      if l.length ≠ c.d then none else
      some ⟨c.dec l, ← parseVocab vocab, ← alg.toNat?, ← parseName name⟩
  | _ => none

def showPtr {ι R : Type} (c : Codec ι R) (p : SP (ι → R)) : String :=
  s!"{c.enc p.v}|{showVocab p.vocab}|{p.alg}|{showOptName p.name}"

def parseOperand {ι R : Type} (c : Codec ι R) (s : String) : Option (Operand (ι → R) R) :=
  match s.splitOn "|" with
  | ["P", v, vocab, alg, name] => (parsePtr c s!"{v}|{vocab}|{alg}|{name}").map .ptr
  | ["O", k, x, str] => do some (.obj ⟨← parseKind k, c.scal (← parseRat x), ← decodeStr str⟩)
  | ["F", x, str] => do some (.fixedScalar (c.scal (← parseRat x)) (← decodeStr str))
  | _ => none

def outPtr {ι R : Type} (c : Codec ι R) : Except Err (SP (ι → R)) → Except String String
  | .ok p => .ok (showPtr c p)
  | .error e => .error (showErr e)

/-- the algebra-dependent operators, for one algebra object `A` standing for `E self.alg` -/
def ringOp {ι R : Type} [Fintype ι] [DecidableEq ι] [CommRing R] (A : Algebra ι R) (c : Codec ι R)
    (showMatrix : Matrix ι ι R → String) (op : String) (args : List String) :
    Option (Except String String) :=
  let E : AlgId → Algebra ι R := fun _ => A
  match op, args with
  | "neg", [p] => do some (outPtr c (neg 0 (← parsePtr c p)))
  | "add", [p, o, sw] => do some (outPtr c (add 0 E (← parsePtr c p) (← parseOperand c o) (← parseBool sw)))
  | "sub", [p, o] => do some (outPtr c (sub 0 E (← parsePtr c p) (← parseOperand c o)))
  | "rsub", [p, o] => do some (outPtr c (rsub 0 E (← parsePtr c p) (← parseOperand c o)))
  | "mul", [p, o, sw] => do some (outPtr c (mul 0 E (← parsePtr c p) (← parseOperand c o) (← parseBool sw)))
  | "bind", [p, q] => do some (outPtr c (bind 0 E (← parsePtr c p) (← parsePtr c q)))
  | "rbind", [p, q] => do some (outPtr c (rbind 0 E (← parsePtr c p) (← parsePtr c q)))
  | "pow", [p, e, str] => do some (outPtr c (pow 0 E (← parsePtr c p) (← parseExp e) (← decodeStr str)))
  | "inv", [p, side] => do
      let p ← parsePtr c p
      let side ← parseSide side
      match outPtr c (invertSide 0 E p side) with
      | .ok s => some (.ok (s ++ "|" ++ showBool (A.invertWarns side)))
      | .error e => some (.error e)
  | "copy", [p] => do some (outPtr c (copy 0 (← parsePtr c p)))
  | "mat", [p, sw] => do some (.ok (showMatrix (getBindingMatrix E (← parsePtr c p) (← parseBool sw))))
  | "len", [p] => do some (.ok (toString (len (← parsePtr c p))))
  | _, _ => none

def noOp {V : Type} : V → Except Err V := fun _ => .error .algebraError
def noSciPy {V : Type} : V → Except Err V := fun _ => .error .importError

def codecHrr (k : ℕ) : Codec (Fin (k+1)) Rat :=
  ⟨vecOfList k, fun v => showRatList (listOfVec v), id, k + 1⟩

def codecV2 (m : ℕ) : Codec (Fin m × Fin m) (QS m) :=
  ⟨AlgProto.v2 m, fun v => QS.showList (listOfVec2 v), QS.emb m, m * m⟩

/-- dispatch on the algebra of `self` (second field from the right of the pointer token) -/
def selfAlg (p : String) : Option Nat :=
  match p.splitOn "|" with
  | [_, _, alg, _] => alg.toNat?
  | _ => none

def selfDim (p : String) : Option Nat :=
  match p.splitOn "|" with
  | [v, _, _, _] => (parseRatList v).map List.length
  | _ => none

def algOps (op : String) (args : List String) : Option (Except String String) :=
  match args with
  | p :: _ => do
      let a ← selfAlg p
      let d ← selfDim p
      match a % 3, d with
      | 0, k + 1 =>
          ringOp (hrr (R := Rat) k noOp noOp noOp) (codecHrr k)
            (fun M => AlgProto.showMat showRat (AlgProto.rowsOfMat M)) op args
      | 1, d => do
          let m ← AlgProto.isqrt? d
          ringOp (vtb m (QS.rt m) (QS.rtInv m) noSciPy noOp noOp) (codecV2 m)
            (fun M => AlgProto.showMat QS.show' (AlgProto.rowsOfMat2 M)) op args
      | 2, d => do
          let m ← AlgProto.isqrt? d
          ringOp (tvtb m (QS.rt m) (QS.rtInv m) noSciPy noOp noOp) (codecV2 m)
            (fun M => AlgProto.showMat QS.show' (AlgProto.rowsOfMat2 M)) op args
      | _, _ => none
  | _ => none

/-! ### ordered-field operators (ℚ) -/

/-- `√q` to 2⁻⁸⁰ (exact when `q` is the square of a rational) -/
def sqrtApprox (q : Rat) : Rat :=
  if q ≤ 0 then 0 else
  let s : Nat := 2 ^ 80
  (Nat.sqrt (q.num.toNat * q.den * s * s) : Rat) / ((q.den * s : Nat) : Rat)

def nrmQ {d : ℕ} (v : Fin d → Rat) : Rat := sqrtApprox (∑ i, v i * v i)

def codecQ (d : ℕ) : Codec (Fin d) Rat :=
  ⟨fun l i => l.getD i.val 0, fun v => showRatList (List.ofFn v), id, d⟩

def parseVecArg {d : ℕ} (s : String) : Option (VecArg (Fin d → Rat)) :=
  match s.splitOn "|" with
  | ["P", v, vocab, alg, name] => (parsePtr (codecQ d) s!"{v}|{vocab}|{alg}|{name}").map .ptr
  | ["R", v] => do
      let l ← parseRatList v
      if l.length ≠ d then none else some (.raw ((codecQ d).dec l))
  | _ => none

def outRat : Except Err Rat → Except String String
  | .ok x => .ok (showRat x)
  | .error e => .error (showErr e)

def fieldOps (op : String) (args : List String) : Option (Except String String) :=
  match args with
  | p :: rest => do
      let d ← selfDim p
      let c := codecQ d
      let self ← parsePtr c p
      match op, rest with
      | "div", [k, x, str] => do
          some (outPtr c (truediv 0 self ⟨← parseKind k, ← parseRat x, ← decodeStr str⟩))
      | "dot", [o] => do some (outRat (dot self (← parseVecArg o)))
      | "compare", [o] => do some (outRat (compare nrmQ self (← parseVecArg o)))
      | "distance", [o] => do some (outRat (distance nrmQ self (← parseVecArg o)))
      | "mse", [o] => do some (outRat (mse self (← parseVecArg o)))
      | "normalized", [] => some (outPtr c (normalized 0 nrmQ self))
      | "length", [] => some (.ok (showRat (length nrmQ self)))
      | _, _ => none
  | _ => none

/-! ### constructor, classification, heap -/

def parseOptNat (s : String) : Option (Option Nat) :=
  if s = "-" then some none else s.toNat?.map some

def showArr (a : Mem.Arr (List Rat)) : String := showRatList a.data ++ ":" ++ showBool a.writeable

def parseAction (s : String) : Option (Mem.Action (List Rat)) :=
  match s.splitOn ":" with
  | ["w", r, i, x] => do
      let i ← i.toNat?
      let x ← parseRat x
      some (.write (← r.toNat?) (fun l => l.set i x))
  | ["a", v, f] => do some (.alloc ⟨← parseRatList v, ← parseBool f⟩)
  | ["c", r] => do some (.construct (← r.toNat?))
  | _ => none

def miscOps (op : String) (args : List String) : Option (Except String String) :=
  match op, args with
  | "mk", [dflt, v, vocab, alg, name] => do
      let l ← parseRatList v
      match mk (← dflt.toNat?) l (← parseVocab vocab) (← parseOptNat alg) (← parseName name) with
      | .ok p => some (.ok s!"{showRatList p.v}|{showVocab p.vocab}|{p.alg}|{showOptName p.name}")
      | .error e => some (.error (showErr e))
  | "kind", [k] => do
      let k ← parseKind k
      some (.ok (showBool k.isNumber ++ showBool k.isArray ++ showBool k.isArrayLike))
  | "mem", [h0, acts] => do
      let h : Mem.Heap (List Rat) ← (h0.splitOn ";").mapM fun a =>
        match a.splitOn ":" with
        | [v, f] => do some ⟨← parseRatList v, ← parseBool f⟩
        | _ => none
      let acts ← if acts = "-" then some [] else (acts.splitOn ";").mapM parseAction
      some (.ok (";".intercalate ((Mem.run h acts).map showArr)))
  | _, _ => none

def handle (op : String) (args : List String) : Option (Except String String) :=
  if op ∈ ["div", "dot", "compare", "distance", "mse", "normalized", "length"] then fieldOps op args
  else if op ∈ ["mk", "kind", "mem"] then miscOps op args
  else algOps op args

def main : IO Unit := Proto.loop handle

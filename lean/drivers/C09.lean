import SpaModel.Proto
import SpaModel.Basic.C09
open C09 C09.Impl Proto

/-!
Line protocol of the C09 driver.

strings   : `s` followed by the characters; every character that is not an ASCII letter, digit or `_`
            is written `%<decimal code point>.`  (so `sA%10.` is "A\n", `s` is the empty string)
vocab     : `<dims>:<strict 0/1>:<alg>:<maxSim>:<identity vec>:<absorbing vec | n>:<gen>` with
            gen = candidate vectors joined by `|` (`~` = exhausted)
ops       : fields joined by `:`  (see `parseOp`)
requests  : `hist <univ> <vocabA> <vocabB> <op>…`        → per step `outcome@obsA@obsB`, joined by `#`
            `tree <univ> <vocabA> <vocabB> <depth> <op>…` → the same for every non-empty history of at most
            `depth` ops over the given alphabet, depth-first in alphabet order (only the last step of each)
`univ` is a `,`-joined list of strings whose membership is reported in every observation.
-/

partial def decodeChars : List Char → Option (List Char)
  | [] => some []
  | '%' :: rest =>
    let digits := rest.takeWhile (· != '.')
    match rest.dropWhile (· != '.') with
    | '.' :: tail => do
        let n ← (String.ofList digits).toNat?
        let t ← decodeChars tail
        some (Char.ofNat n :: t)
    | _ => none
  | c :: rest => (decodeChars rest).map (c :: ·)

def decodeStr (tok : String) : Option String :=
  match tok.toList with
  | 's' :: cs => (decodeChars cs).map String.ofList
  | _ => none

def encodeStr (s : String) : String :=
  "s" ++ String.join (s.toList.map fun c =>
    if c.isAlphanum || c == '_' then c.toString else s!"%{c.toNat}.")

def decodeStrList (tok : String) : Option (List String) :=
  if tok = "-" then some [] else (tok.splitOn ",").mapM decodeStr

def parseGen (tok : String) : Option (List Vec) :=
  if tok = "~" then some [] else (tok.splitOn "|").mapM parseRatList

def parseVocab (tok : String) : Option Vocab :=
  match tok.splitOn ":" with
  | [d, st, alg, ms, ident, ab, gen] => do
      let d ← d.toNat?
      let st ← parseBool st
      let alg ← alg.toNat?
      let ms ← parseRat ms
      let ident ← parseRatList ident
      let ab ← if ab = "n" then some none else (parseRatList ab).map some
      let gen ← parseGen gen
      some { dims := d, strict := st, alg := alg, maxSim := ms, identity := ident, absorbing := ab,
             keys := [], key2idx := [], vecs := [], gen := gen }
  | _ => none

def parseWhich (s : String) : Option Which :=
  if s = "a" then some .a else if s = "b" then some .b else none

def parseData (s : String) : Option Data :=
  match s.splitOn "=" with
  | ["bad"] => some .bad
  | ["arr", v] => (parseRatList v).map .arr
  | ["ptr", v, voc, alg] => do
      let v ← parseRatList v
      let voc ← if voc = "n" then some none else voc.toNat?.map some
      let alg ← alg.toNat?
      some (.ptr ⟨v, voc, alg⟩)
  | _ => none

def parseT (s : String) : Option Transform :=
  match s with
  | "none" => some .none
  | "copy" => some .copy
  | "neg" => some .neg
  | "nosuch" => some .noSuchAttr
  | _ => none

def parseOp (tok : String) : Option Op :=
  match tok.splitOn ":" with
  | ["add", x, k, d] => do some (.add (← parseWhich x) (← decodeStr k) (← parseData d))
  | ["pop", x, t] => do some (.populate (← parseWhich x) (← decodeStr t))
  | ["parse", x, t] => do some (.parse (← parseWhich x) (← decodeStr t))
  | ["get", x, k] => do some (.getitem (← parseWhich x) (← decodeStr k))
  | ["has", x, k] => do some (.contains (← parseWhich x) (← decodeStr k))
  | ["cp", x, n, t] => do some (.createPointer (← parseWhich x) (← n.toNat?) (← parseT t))
  | ["sub", x, ks] => do some (.createSubset (← parseWhich x) (← decodeStrList ks))
  | ["tr", x, ks, p, order, order2] => do
      let ks ← if ks = "*" then some none else (decodeStrList ks).map some
      let p ← if p = "n" then some none else (parseBool p).map some
      some (.transformTo (← parseWhich x) ks p (← decodeStrList order) (← decodeStrList order2))
  | ["mut", x] => do some (.mutate (← parseWhich x))
  | _ => none

def showErr : Err → String
  | .spaParse => "SpaParseError"
  | .validation => "ValidationError"
  | .key => "KeyError"
  | .stopIteration => "StopIteration"
  | .value => "ValueError"
  | .attribute => "AttributeError"
  | .syntax => "SyntaxError"
  | .notImplemented => "NotImplementedError"
  | .index => "IndexError"
  | .unsupported => "unsupported"

def showVecs (l : List Vec) : String :=
  if l.isEmpty then "~" else "|".intercalate (l.map showRatList)

def showStrs (l : List String) : String := showList encodeStr l

def showPtr (p : Ptr) : String :=
  let voc := match p.vocab with | some v => toString v | none => "n"
  s!"{showRatList p.vec}={voc}={p.alg}"

def showOut : Out → String
  | .done => "done"
  | .bool b => "bool=" ++ showBool b
  | .ptr (some p) => "ptr=" ++ showPtr p
  | .ptr none => "ptr=None"
  | .subset ks vs => s!"subset={showStrs ks}={showVecs vs}"
  | .err e => "err=" ++ showErr e

/-- what the harness compares after a step: `list(v)`, `len(v)`, `_key2idx`, the rows, `v[k].v` for every
stored key (through `Impl.getitem`), membership of the universe, candidates left -/
def showObs (vid : Nat) (univ : List String) (V : Vocab) : String :=
  let items := V.keys.map fun k =>
    match (getitem vid V k).1 with
    | .ok p => showRatList p.vec
    | .error e => "!" ++ showErr e
  let itemsS := if items.isEmpty then "~" else "|".intercalate items
  let idx := showList (fun (e : String × Nat) => s!"{encodeStr e.1}>{e.2}") V.key2idx
  let mem := String.join (univ.map fun k => showBool (contains V k))
  s!"{showStrs (iter V)};{len V};{idx};{showVecs V.vecs};{itemsS};{mem};{V.gen.length}"

def showStep (univ : List String) (w : World) (o : Out) : String :=
  s!"{showOut o}@{showObs 0 univ w.a}@{showObs 1 univ w.b}"

def runHist (univ : List String) : World → List Op → List String
  | _, [] => []
  | w, op :: ops =>
    let r := step w op
    showStep univ r.1 r.2 :: runHist univ r.1 ops

def treeGo (univ : List String) (alphabet : List Op) : Nat → World → List String
  | 0, _ => []
  | d + 1, w =>
    alphabet.foldr (fun op acc =>
      let r := step w op
      showStep univ r.1 r.2 :: (treeGo univ alphabet d r.1 ++ acc)) []

def handle (op : String) (args : List String) : Option (Except String String) :=
  match op, args with
  | "hist", univ :: va :: vb :: ops => do
      let univ ← decodeStrList univ
      let w : World := ⟨← parseVocab va, ← parseVocab vb⟩
      let ops ← ops.mapM parseOp
      some (.ok ("#".intercalate (runHist univ w ops)))
  | "tree", univ :: va :: vb :: depth :: ops => do
      let univ ← decodeStrList univ
      let w : World := ⟨← parseVocab va, ← parseVocab vb⟩
      let d ← depth.toNat?
      let ops ← ops.mapM parseOp
      some (.ok ("#".intercalate (treeGo univ ops d w)))
  | "name", [k] => do
      let k ← decodeStr k
      some (.ok (showBool (nameOk k) ++ showBool (isSpecial k)))
  | _, _ => none

def main : IO Unit := Proto.loop handle

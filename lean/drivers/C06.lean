import SpaModel.Proto
import SpaModel.Basic.C06
open C06 C06.Impl Proto

/-!
Line protocol of the C06 driver (all arguments are blank-free):

* `str <tree>`   → `ok <prec> <text>`: `Impl.prec` and `Impl.str` of the tree
* `sym <expr>`   → `ok <text>` (`Impl.str` of `Impl.symTree`), `err refused` when `symTree` is `none`
* `name <expr>`  → `ok <text>` (`Impl.str` of `Impl.nameTree`), `err refused` when `nameTree` is `none`

Trees and expressions are written in postfix order, items separated by `;`
(`|` inside the ghost tree of a quoted leaf):
tree items `i:NAME`, `n:MAG`, `m:MAG` (negative number), `u:OP`, `b:OP`, `a:NAME`, `c`,
`q:TOKS@TREE`;  expression items `s:NAME`, `t:TOKS@TREE`, `add`, `sub`, `mul`, `neg`, `inv`,
`sr:±MAG`, `sl:±MAG`, `dv:±MAG`, `pw:±MAG`, `me:NAME`, `cp`.
Tokens (`,`-separated): `i.NAME`, `n.MAG`, `o.OP` (unspaced) / `O.OP` (spaced), `p.UOP`, `d`, `l`, `r`.
-/

def parseBOp (s : String) : Option BOp :=
  match s with
  | "or" => some .or_ | "and" => some .and_
  | "in" => some .in_ | "notin" => some .notIn | "is" => some .is_ | "isnot" => some .isNot
  | "lt" => some .lt | "le" => some .le | "gt" => some .gt | "ge" => some .ge
  | "ne" => some .ne | "eq" => some .eq
  | "bor" => some .bor | "bxor" => some .bxor | "band" => some .band
  | "shl" => some .shl | "shr" => some .shr | "add" => some .add | "sub" => some .sub
  | "mul" => some .mul | "matmul" => some .matmul | "div" => some .div
  | "floordiv" => some .floordiv | "mod" => some .mod | "pow" => some .pow
  | _ => none

def parseUOp (s : String) : Option UOp :=
  match s with
  | "not" => some .not_ | "pos" => some .pos | "neg" => some .neg | "inv" => some .inv
  | _ => none

/-- split `tag<sep>rest` at the first separator -/
def splitFirst (s sep : String) : Option (String × String) :=
  match s.splitOn sep with
  | tag :: r :: rest => some (tag, sep.intercalate (r :: rest))
  | _ => none

def parseTok (s : String) : Option Tok :=
  if s = "d" then some .dot else if s = "l" then some .lp else if s = "r" then some .rp else
  match splitFirst s "." with
  | some ("i", r) => if r.isEmpty then none else some (.id r)
  | some ("n", r) => if r.isEmpty then none else some (.num r)
  | some ("o", r) => (parseBOp r).map (Tok.bop · false)
  | some ("O", r) => (parseBOp r).map (Tok.bop · true)
  | some ("p", r) => (parseUOp r).map Tok.uop
  | _ => none

def parseToks (s : String) : Option (List Tok) :=
  if s = "-" then some [] else (s.splitOn ",").mapM parseTok

/-- one postfix item applied to the stack (top first) -/
def stepTree (quoted : String → Option (List Tok × Tree)) (st : List Tree) (item : String) :
    Option (List Tree) :=
  if item = "c" then
    match st with
    | c :: rest => some (.call c :: rest)
    | _ => none
  else
  match splitFirst item ":" with
  | some ("i", r) => if r.isEmpty then none else some (.leaf (.id r) :: st)
  | some ("n", r) => if r.isEmpty then none else some (.leaf (.num false r) :: st)
  | some ("m", r) => if r.isEmpty then none else some (.leaf (.num true r) :: st)
  | some ("u", r) =>
    match parseUOp r, st with
    | some o, c :: rest => some (.un o c :: rest)
    | _, _ => none
  | some ("b", r) =>
    match parseBOp r, st with
    | some o, rhs :: lhs :: rest => some (.bin o lhs rhs :: rest)
    | _, _ => none
  | some ("a", r) =>
    match st with
    | c :: rest => if r.isEmpty then none else some (.attr r c :: rest)
    | _ => none
  | some ("q", r) => (quoted r).map (fun (ts, u) => .quoted ts u :: st)
  | _ => none

def runTree (quoted : String → Option (List Tok × Tree)) (sep : String) (s : String) : Option Tree :=
  match (s.splitOn sep).foldlM (stepTree quoted) [] with
  | some [t] => some t
  | _ => none

/-- ghost trees (`|`-separated) contain no quoted leaves -/
def parseInner (s : String) : Option Tree := runTree (fun _ => none) "|" s

def parseQuoted (s : String) : Option (List Tok × Tree) := do
  let (ts, u) ← splitFirst s "@"
  some (← parseToks ts, ← parseInner u)

def parseTree (s : String) : Option Tree := runTree parseQuoted ";" s

def parseLit (s : String) : Option NumLit :=
  match s.toList with
  | '+' :: m => if m.isEmpty then none else some ⟨false, String.ofList m⟩
  | '-' :: m => if m.isEmpty then none else some ⟨true, String.ofList m⟩
  | _ => none

def un1 (f : E → E) (st : List E) : Option (List E) :=
  match st with
  | a :: rest => some (f a :: rest)
  | _ => none

def bin2 (f : E → E → E) (st : List E) : Option (List E) :=
  match st with
  | b :: a :: rest => some (f a b :: rest)
  | _ => none

def stepE (st : List E) (item : String) : Option (List E) :=
  match item with
  | "add" => bin2 .add st
  | "sub" => bin2 .sub st
  | "mul" => bin2 .mul st
  | "neg" => un1 .neg st
  | "inv" => un1 .inv st
  | "cp" => un1 .copy st
  | _ =>
    match splitFirst item ":" with
    | some ("s", r) => if r.isEmpty then none else some (.sym r :: st)
    | some ("t", r) => (parseQuoted r).map (fun (ts, u) => .text ts u :: st)
    | some ("sr", r) => do let x ← parseLit r; un1 (E.scaleR · x) st
    | some ("sl", r) => do let x ← parseLit r; un1 (E.scaleL x ·) st
    | some ("dv", r) => do let x ← parseLit r; un1 (E.divn · x) st
    | some ("pw", r) => do let x ← parseLit r; un1 (E.pow · x) st
    | some ("me", r) => if r.isEmpty then none else un1 (E.meth r) st
    | _ => none

def parseE (s : String) : Option E :=
  match (s.splitOn ";").foldlM stepE [] with
  | some [e] => some e
  | _ => none

def handle (op : String) (args : List String) : Option (Except String String) :=
  match op, args with
  | "str", [t] => do
      let t ← parseTree t
      some (.ok s!"{prec t} {str t}")
  | "sym", [e] => do
      let e ← parseE e
      match symTree e with
      | some t => some (.ok (str t))
      | none => some (.error "refused")
  | "name", [e] => do
      let e ← parseE e
      match nameTree e with
      | some t => some (.ok (str t))
      | none => some (.error "refused")
  | _, _ => none

def main : IO Unit := Proto.loop handle

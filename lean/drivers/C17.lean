/-
C17 driver: executes `C17.Hrr.Impl.*` over ℚ, the certificate checker `C17.Cert.check` over ℚ and
`C17.Vtb/Tvtb.Impl.{toVector, absWith}` over ℚ(√m).  Pure glue (parse, call, print).

  hsign  <v>                 -> ok dc,nyq,PNZI-bits,class|to_vector        | err nyquist-without-dc
  habs   <v>                 -> ok vector                                  | err …
  hcoef  <v>                 -> ok dc,nyq            (raw DC / Nyquist coefficients, Nyquist 0 for odd d)
  hmk    <dc> <nyq>          -> ok dc,nyq,bits,class (HrrSign constructor) | err nyquist-without-dc|bad-dc|bad-nyquist
  htovec <d> <dc> <nyq>      -> ok vector            (to_vector of an HrrSign with these stored slots)
  vsign  <alg> <v> <cert>    -> ok g,bits,class      (g = 1|-1|0|N)        | err certificate-rejected
         cert = pos:<G>:<c> | neg:<G>:<c> | zero | nonsymm | indef:<x>:<y>
  vabs   <alg> <v> <g>       -> ok vector over ℚ(√m)                       | err indefinite
  vtovec <alg> <d> <g>       -> ok vector over ℚ(√m)                       | err indefinite
-/
import SpaModel.AlgProto
import SpaModel.Basic.C17
import Mathlib.Algebra.Order.Ring.Rat

open Alg Proto C17

namespace D17

def showCls : Cls → String
  | .positive => "P" | .negative => "N" | .zero => "Z" | .indefinite => "I"

def errName : Hrr.SignErr → String
  | .nyquistWithoutDc => "nyquist-without-dc"
  | .badDc => "bad-dc"
  | .badNyquist => "bad-nyquist"

def showHSign (s : Hrr.Sign) : String :=
  s!"{s.dc},{s.nyq}," ++ showBool (Hrr.Impl.isPositive s) ++ showBool (Hrr.Impl.isNegative s)
    ++ showBool (Hrr.Impl.isZero s) ++ showBool (Hrr.Impl.isIndefinite s) ++ "," ++ showCls (Hrr.Impl.cls s)

def hsign (v : List Rat) : Option (Except String String) :=
  match v.length with
  | 0 => none
  | k + 1 =>
    match Hrr.Impl.sign (vecOfList k v) with
    | .error e => some (.error (errName e))
    | .ok s => some (.ok (showHSign s ++ "|" ++ showRatList (listOfVec (Hrr.Impl.toVector (R := Rat) k s))))

def habs (v : List Rat) : Option (Except String String) :=
  match v.length with
  | 0 => none
  | k + 1 =>
    match Hrr.Impl.abs (vecOfList k v) with
    | .error e => some (.error (errName e))
    | .ok w => some (.ok (showRatList (listOfVec w)))

def hcoef (v : List Rat) : Option (Except String String) :=
  match v.length with
  | 0 => none
  | k + 1 =>
    let x : Hrr.Vec k Rat := vecOfList k v
    some (.ok (showRat (Alg.Hrr.Impl.dc x) ++ "," ++ showRat (Hrr.Spec.nyqE x)))

def hmk (dc nyq : Int) : Option (Except String String) :=
  match Hrr.Impl.mkSign dc nyq with
  | .error e => some (.error (errName e))
  | .ok s => some (.ok (showHSign s))

def htovec (d : Nat) (dc nyq : Int) : Option (Except String String) :=
  match d with
  | 0 => none
  | k + 1 => some (.ok (showRatList (listOfVec (Hrr.Impl.toVector (R := Rat) k ⟨dc, nyq⟩))))

/-! VTB / TVTB -/

def parseG (s : String) : Option (Option Int) :=
  if s = "N" then some none else (s.toInt?).map some

def showG : Option Int → String
  | none => "N"
  | some z => toString z

def showGSign (g : Option Int) : String :=
  showG g ++ "," ++ showBool (Generic.isPositive g) ++ showBool (Generic.isNegative g)
    ++ showBool (Generic.isZero g) ++ showBool (Generic.isIndefinite g) ++ "," ++ showCls (Generic.cls g)

def matOf (m : ℕ) (l : List Rat) : Matrix (Fin m) (Fin m) Rat := toMat (vec2OfList m l)
def vecOf (m : ℕ) (l : List Rat) : Fin m → Rat := fun i => l.getD i.val 0

def parseCert (m : ℕ) (s : String) : Option (Cert.Reason m Rat) :=
  match s.splitOn ":" with
  | ["zero"] => some .zero
  | ["nonsymm"] => some .nonsymm
  | ["pos", g, c] => do
      let g ← parseRatList g
      let c ← parseRat c
      if g.length ≠ m * m then none else some (.pos (matOf m g) c)
  | ["neg", g, c] => do
      let g ← parseRatList g
      let c ← parseRat c
      if g.length ≠ m * m then none else some (.neg (matOf m g) c)
  | ["indef", x, y] => do
      let x ← parseRatList x
      let y ← parseRatList y
      if x.length ≠ m ∨ y.length ≠ m then none else some (.indef (vecOf m x) (vecOf m y))
  | _ => none

def vsign (alg : String) (v : List Rat) (cert : String) : Option (Except String String) := do
  if alg ≠ "vtb" ∧ alg ≠ "tvtb" then none
  let m ← AlgProto.isqrt? v.length
  if m = 0 then none
  let r ← parseCert m cert
  -- the class of the vector's m × m matrix (for TVTB the code inspects the transpose: same class,
  -- `DefL.classify_transpose`; the checker is run on the matrix itself in both cases)
  match Cert.check (matOf m v) r with
  | none => some (.error "certificate-rejected")
  | some g => some (.ok (showGSign g))

def showExc {m : ℕ} : Except Generic.VecErr (Vec2 m (QS m)) → Except String String
  | .error .indefinite => .error "indefinite"
  | .ok w => .ok (QS.showList (listOfVec2 w))

def vabs (alg : String) (v : List Rat) (g : Option Int) : Option (Except String String) := do
  let m ← AlgProto.isqrt? v.length
  if m = 0 then none
  match alg with
  | "vtb" => some (showExc (Vtb.Impl.absWith (QS.rt m) (QS.rtInv m) (AlgProto.v2 m v) g))
  | "tvtb" => some (showExc (Tvtb.Impl.absWith (QS.rt m) (QS.rtInv m) (AlgProto.v2 m v) g))
  | _ => none

def vtovec (alg : String) (d : Nat) (g : Option Int) : Option (Except String String) := do
  let m ← AlgProto.isqrt? d
  if m = 0 then none
  match alg with
  | "vtb" => some (showExc (Vtb.Impl.toVector m (QS.rtInv m) g))
  | "tvtb" => some (showExc (Tvtb.Impl.toVector m (QS.rtInv m) g))
  | _ => none

def handle (op : String) (args : List String) : Option (Except String String) :=
  match op, args with
  | "hsign", [v] => do hsign (← parseRatList v)
  | "habs", [v] => do habs (← parseRatList v)
  | "hcoef", [v] => do hcoef (← parseRatList v)
  | "hmk", [a, b] => do hmk (← a.toInt?) (← b.toInt?)
  | "htovec", [d, a, b] => do htovec (← d.toNat?) (← a.toInt?) (← b.toInt?)
  | "vsign", [alg, v, c] => do vsign alg (← parseRatList v) c
  | "vabs", [alg, v, g] => do vabs alg (← parseRatList v) (← parseG g)
  | "vtovec", [alg, d, g] => do vtovec alg (← d.toNat?) (← parseG g)
  | _, _ => none

end D17

def main : IO Unit :=
  Proto.loop fun op args => (D17.handle op args).orElse fun _ => AlgProto.handle op args

/-
C08 driver: executes the `C08.*.Impl` definitions (the ones the theorems are about) in exact
arithmetic: HRR over `ℚ(√d)` (the absorbing element is `1/√d`), VTB/TVTB over `ℚ(√m)`.

  elem   <alg> <id|neg|zero|abs> <L|R|T> <d>     -> `<w>|<vector>`   (w = DeprecationWarning issued)
  inv8   <alg> <L|R|T> <v>                       -> `<w>|<vector>`
  invmat8 <alg> <L|R|T> <d>                      -> `<w>|<matrix>`
  act    <alg> <id|neg|zero|abs> <L|R|T> <l|r> <v>  -> bind(element, v) (`l`) / bind(v, element) (`r`)
  unbind <alg> <L|R|T> <L|R> <a> <v>             -> inverse requested for the side; undo R: bind(bind(a, v), inverse(v)); undo L: bind(inverse(v), bind(v, a))
  unitary <alg> <v>                              -> 1/0 (`Spec.*.IsUnitary`, decided exactly)
errors: not-implemented | not-square | index-error.  `<v>` of unbind/unitary: entries `re` or `re~im`.
Shared algebra operations fall back to `AlgProto.handle`.
-/
import SpaModel.AlgProto
import SpaModel.Basic.C08
open C08 Alg Proto AlgProto

def parseSide : String → Option Side
  | "L" => some .left
  | "R" => some .right
  | "T" => some .twoSided
  | _ => none

def parseElem : String → Option Elem
  | "id" => some .identity
  | "neg" => some .negIdentity
  | "zero" => some .zero
  | "abs" => some .absorbing
  | _ => none

def refName : Refusal → String
  | .notImplemented => "not-implemented"
  | .notSquare => "not-square"
  | .indexError => "index-error"

def showRes {α} (f : α → String) : Result α → Except String String
  | .ok (a, w) => .ok (showBool w ++ "|" ++ f a)
  | .error r => .error (refName r)

def parseQS (m : ℕ) (s : String) : Option (QS m) :=
  match s.splitOn "~" with
  | [a] => (parseRat a).map fun r => ⟨r, 0⟩
  | [a, b] => do some ⟨← parseRat a, ← parseRat b⟩
  | _ => none

def parseQSList (m : ℕ) (s : String) : Option (List (QS m)) :=
  if s = "-" then some [] else (s.splitOn ",").mapM (parseQS m)

/-- glue only: the `Impl` definitions are functions, so nested binds would be re-evaluated on every
access; each stage below goes from tabulated data to tabulated data and runs the very `Impl.bind`. -/
def ofArrH {k : ℕ} {α} [Zero α] (arr : Array α) : Hrr.Vec k α := fun i => arr.getD i.val 0
def ofArr2 {m : ℕ} {α} [Zero α] (arr : Array α) : Vec2 m α := fun p => arr.getD (flatIdx p) 0

@[noinline] def tabH {k : ℕ} {α} (v : Hrr.Vec k α) : Array α := Array.ofFn v
@[noinline] def tab2 {m : ℕ} {α} (v : Vec2 m α) : Array α := (listOfVec2 v).toArray

@[noinline] def bindHrrA (k : ℕ) (a b : Array (QS (k+1))) : Array (QS (k+1)) :=
  tabH (Alg.Hrr.Impl.bind (k := k) (ofArrH a) (ofArrH b))
@[noinline] def bindVtbA (m : ℕ) (a b : Array (QS m)) : Array (QS m) :=
  tab2 (Alg.Vtb.Impl.bind (m := m) (QS.rt m) (ofArr2 a) (ofArr2 b))
@[noinline] def bindTvtbA (m : ℕ) (a b : Array (QS m)) : Array (QS m) :=
  tab2 (Alg.Tvtb.Impl.bind (m := m) (QS.rt m) (ofArr2 a) (ofArr2 b))

/-- the interface-level element functions, run in `ℚ(√d)` resp. `ℚ(√m)` -/
def elemD (alg : String) (el : Elem) (side : Side) (d : ℕ) : Option (Except String String) :=
  match alg with
  | "hrr" =>
    let r : Result (List (QS d)) := match el with
      | .identity => Hrr.Impl.identityD d side
      | .negIdentity => Hrr.Impl.negIdentityD d side
      | .zero => Hrr.Impl.zeroD d side
      | .absorbing => Hrr.Impl.absorbingD (fun _ => QS.rtInv d) d side
    some (showRes QS.showList r)
  | "vtb" =>
    let m := Nat.sqrt d
    let r : Result (List (QS m)) := match el with
      | .identity => Vtb.Impl.identityD (fun _ => QS.rtInv m) d side
      | .negIdentity => Vtb.Impl.negIdentityD (fun _ => QS.rtInv m) d side
      | .zero => Vtb.Impl.zeroD d side
      | .absorbing => Vtb.Impl.absorbingD d side
    some (showRes QS.showList r)
  | "tvtb" =>
    let m := Nat.sqrt d
    let r : Result (List (QS m)) := match el with
      | .identity => Tvtb.Impl.identityD (fun _ => QS.rtInv m) d side
      | .negIdentity => Tvtb.Impl.negIdentityD (fun _ => QS.rtInv m) d side
      | .zero => Tvtb.Impl.zeroD d side
      | .absorbing => Tvtb.Impl.absorbingD d side
    some (showRes QS.showList r)
  | _ => none

def invL (alg : String) (side : Side) (v : List Rat) : Option (Except String String) :=
  match alg with
  | "hrr" => some (showRes showRatList (Hrr.Impl.invertL v side))
  | "vtb" => some (showRes showRatList (Vtb.Impl.invertL v side))
  | "tvtb" => some (showRes showRatList (Tvtb.Impl.invertL v side))
  | _ => none

def invMatD (alg : String) (side : Side) (d : ℕ) : Option (Except String String) :=
  match alg, d with
  | "hrr", k + 1 =>
      some (showRes (fun M => showMat showRat (rowsOfMat M)) (Hrr.Impl.inversionMatrix (R := Rat) k side))
  | "vtb", d =>
      -- guard first, then `_get_sub_d`
      match Vtb.Impl.guardRight side with
      | .error r => some (.error (refName r))
      | .ok _ => match isqrt? d with
        | none => some (.error "not-square")
        | some m => some (showRes (fun M => showMat showRat (rowsOfMat2 M))
            (Vtb.Impl.inversionMatrix (R := Rat) m side))
  | "tvtb", d => match isqrt? d with
      | none => some (.error "not-square")
      | some m => some (showRes (fun M => showMat showRat (rowsOfMat2 M))
          (Tvtb.Impl.inversionMatrix (R := Rat) m side))
  | _, _ => none

/-- typed element of the model (square `d` only) -/
def hrrElem (k : ℕ) (el : Elem) (side : Side) : Result (Hrr.Vec k (QS (k+1))) :=
  match el with
  | .identity => Hrr.Impl.identityElement k side
  | .negIdentity => Hrr.Impl.negIdentityElement k side
  | .zero => Hrr.Impl.zeroElement k side
  | .absorbing => Hrr.Impl.absorbingElement k (QS.rtInv (k+1)) side

def vtbElem (m : ℕ) (el : Elem) (side : Side) : Result (Vec2 m (QS m)) :=
  match el with
  | .identity => Vtb.Impl.identityElement m (QS.rtInv m) side
  | .negIdentity => Vtb.Impl.negIdentityElement m (QS.rtInv m) side
  | .zero => Vtb.Impl.zeroElement m side
  | .absorbing => Vtb.Impl.absorbingElement m side

def tvtbElem (m : ℕ) (el : Elem) (side : Side) : Result (Vec2 m (QS m)) :=
  match el with
  | .identity => Tvtb.Impl.identityElement m (QS.rtInv m) side
  | .negIdentity => Tvtb.Impl.negIdentityElement m (QS.rtInv m) side
  | .zero => Tvtb.Impl.zeroElement m side
  | .absorbing => Tvtb.Impl.absorbingElement m side

def act (alg : String) (el : Elem) (side : Side) (left : Bool) (v : List Rat) : Option (Except String String) :=
  match alg, v.length with
  | "hrr", k + 1 =>
      let x : Array (QS (k+1)) := (v.map (QS.emb (k+1))).toArray
      some (showRes (fun e => QS.showList
        (if left then bindHrrA k (tabH e) x else bindHrrA k x (tabH e)).toList) (hrrElem k el side))
  | "vtb", d => match isqrt? d with
      | none => some (.error "not-square")
      | some m =>
        let x : Array (QS m) := (v.map (QS.emb m)).toArray
        some (showRes (fun e => QS.showList
          (if left then bindVtbA m (tab2 e) x else bindVtbA m x (tab2 e)).toList) (vtbElem m el side))
  | "tvtb", d => match isqrt? d with
      | none => some (.error "not-square")
      | some m =>
        let x : Array (QS m) := (v.map (QS.emb m)).toArray
        some (showRes (fun e => QS.showList
          (if left then bindTvtbA m (tab2 e) x else bindTvtbA m x (tab2 e)).toList) (tvtbElem m el side))
  | _, _ => none

def unbind (alg : String) (side : Side) (undoLeft : Bool) (a v : String) : Option (Except String String) := do
  let al ← parseRatList a
  match alg, al.length with
  | "hrr", k + 1 =>
      let vl ← parseQSList (k+1) v
      if vl.length ≠ k + 1 then none else
      let x : Array (QS (k+1)) := (al.map (QS.emb (k+1))).toArray
      let y : Array (QS (k+1)) := vl.toArray
      some (showRes (fun w => QS.showList
        (if undoLeft then bindHrrA k (tabH w) (bindHrrA k y x)
         else bindHrrA k (bindHrrA k x y) (tabH w)).toList) (Hrr.Impl.invert (ofArrH (k := k) y) side))
  | "vtb", d => match isqrt? d with
      | none => some (.error "not-square")
      | some m => do
        let vl ← parseQSList m v
        if vl.length ≠ d then none else
        let x : Array (QS m) := (al.map (QS.emb m)).toArray
        let y : Array (QS m) := vl.toArray
        some (showRes (fun w => QS.showList
          (if undoLeft then bindVtbA m (tab2 w) (bindVtbA m y x)
           else bindVtbA m (bindVtbA m x y) (tab2 w)).toList) (Vtb.Impl.invert (ofArr2 (m := m) y) side))
  | "tvtb", d => match isqrt? d with
      | none => some (.error "not-square")
      | some m => do
        let vl ← parseQSList m v
        if vl.length ≠ d then none else
        let x : Array (QS m) := (al.map (QS.emb m)).toArray
        let y : Array (QS m) := vl.toArray
        some (showRes (fun w => QS.showList
          (if undoLeft then bindTvtbA m (tab2 w) (bindTvtbA m y x)
           else bindTvtbA m (bindTvtbA m x y) (tab2 w)).toList) (Tvtb.Impl.invert (ofArr2 (m := m) y) side))
  | _, _ => none

/-- `Spec.Hrr.IsUnitary` / `Spec.Vec2.IsUnitary`, decided entry by entry -/
def isUnitary8 (alg : String) (v : String) : Option (Except String String) := do
  let n := if v = "-" then 0 else (v.splitOn ",").length
  match alg, n with
  | "hrr", k + 1 =>
      let vl ← parseQSList (k+1) v
      let y : Hrr.Vec k (QS (k+1)) := vecOfList k vl
      let lhs := listOfVec (Alg.Hrr.Spec.bind y (Alg.Hrr.Spec.inv y))
      let rhs := listOfVec (fun i : Fin (k+1) => if i = 0 then (1 : QS (k+1)) else 0)
      some (.ok (showBool (decide (lhs = rhs))))
  | "hrr", 0 => none
  | _, d => match isqrt? d with
      | none => some (.error "not-square")
      | some m => do
        let vl ← parseQSList m v
        let y : Vec2 m (QS m) := vec2OfList m vl
        let M : Matrix (Fin m) (Fin m) (QS m) := (m : QS m) • (toMat y * (toMat y).transpose)
        let lhs := (pairs m).map fun p => M p.1 p.2
        let rhs := (pairs m).map fun p => (1 : Matrix (Fin m) (Fin m) (QS m)) p.1 p.2
        some (.ok (showBool (decide (lhs = rhs))))

def handle8 (op : String) (args : List String) : Option (Except String String) :=
  match op, args with
  | "elem", [alg, el, side, d] => do elemD alg (← parseElem el) (← parseSide side) (← d.toNat?)
  | "inv8", [alg, side, v] => do invL alg (← parseSide side) (← parseRatList v)
  | "invmat8", [alg, side, d] => do invMatD alg (← parseSide side) (← d.toNat?)
  | "act", [alg, el, side, pos, v] => do
      let left ← (if pos = "l" then some true else if pos = "r" then some false else none)
      act alg (← parseElem el) (← parseSide side) left (← parseRatList v)
  | "unbind", [alg, side, undo, a, v] => do
      let ul ← (if undo = "L" then some true else if undo = "R" then some false else none)
      unbind alg (← parseSide side) ul a v
  | "unitary", [alg, v] => isUnitary8 alg v
  | _, _ => none

def handle (op : String) (args : List String) : Option (Except String String) :=
  (handle8 op args).orElse fun _ => AlgProto.handle op args

def main : IO Unit := Proto.loop _root_.handle

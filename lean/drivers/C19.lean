/-
Driver of C19: executes `C19.Impl.*` (SpaModel/Basic/C19.lean) and the exact residuals of the
`C19.Spec.*` predicates on the implementation's floats (transported as rationals).

  axis <d>                     answers of requests 0..d of AxisAlignedVectors(d): rows `;`-separated, `stop`
  gram <d> <v1;v2;…>           max-norm of the Gram matrix minus the identity (Spec.dot), exact
  ostep <d> <prev|-> <draw>    OrthonormalVectors.__next__ before normalisation (checked solve):
                               `stop` | `v:<vector>` | err singular
  dispatch <alg> <scipy> <d> <props|->   create_vector outcome (props: U, P, x:<name>, comma separated)
  sched <tie> <d> <n> <offset> phase table of EquallySpacedPositiveUnitaryHrrVectors (turns), rows `;`-separated;
                               tie = 1: the float root `-1` has a negative imaginary rounding error
  idx <d>                      cc, the root indices
  unitres <alg> <u>            max-norm of `u ⊛ ~u − δ` (HRR) resp. `m•(U Uᵀ) − 1` (VTB/TVTB), exact
  sign <u>                     HRR: DC and Nyquist coefficient (exact)
  ident <alg> <d>              VTB/TVTB identity element over ℚ(√m)
  + the shared algebra operations of AlgProto (bind, inv, …)
-/
import SpaModel.AlgProto
import SpaModel.Basic.C19
open Alg Proto AlgProto C19 C19.Impl

def ratAbs (q : Rat) : Rat := if q < 0 then -q else q
def maxAbs (l : List Rat) : Rat := l.foldl (fun a x => if ratAbs x > a then ratAbs x else a) 0

/-- a vector of `Fin d → ℚ` from a list (array-backed) -/
def fv (d : ℕ) (l : List Rat) : Fin d → Rat :=
  let a := l.toArray
  fun c => a.getD c.val 0

def showFv {d : ℕ} (v : Fin d → Rat) : String := showRatList (List.ofFn v)

def parseVecs (d : ℕ) (s : String) : Option (List (Fin d → Rat)) :=
  if s = "-" then some [] else do
    let ls ← (s.splitOn ";").mapM parseRatList
    if ls.any (fun l => l.length ≠ d) then none else some (ls.map (fv d))

def axisAll (d : ℕ) : String :=
  ";".intercalate ((List.range (d + 1)).map fun t =>
    match axisAligned (R := Rat) d t with
    | some v => showFv v
    | none => "stop")

def gramRes (d : ℕ) (vs : List (Fin d → Rat)) : Rat :=
  let idx := List.range vs.length
  let a := vs.toArray
  maxAbs (idx.flatMap fun i => (idx.filter (i ≤ ·)).map fun j =>
    match a[i]?, a[j]? with
    | some x, some y => Spec.dot x y - (if i = j then 1 else 0)
    | _, _ => 0)

def ostep (d : ℕ) (prev : List (Fin d → Rat)) (draw : Fin d → Rat) : Except String String :=
  match Ortho.stepFn Elim.cand prev draw with
  | none => .error "singular"
  | some none => .ok "stop"
  | some (some v) => .ok ("v:" ++ showFv v)

def parseProp (s : String) : Option PropTok :=
  if s = "U" then some .unitary else if s = "P" then some .positive
  else match s.splitOn ":" with
    | ["x", n] => some (.other n)
    | _ => none

def parseProps (s : String) : Option (List PropTok) :=
  if s = "-" then some [] else (s.splitOn ",").mapM parseProp

def showKind : Kind → String
  | .plain => "plain" | .positive => "positive" | .unitary => "unitary"
  | .positiveUnitary => "positive-unitary" | .identity => "identity"

def showOutcome : Outcome → String
  | .vector k n w => s!"vector:{showKind k}:{n}:{showBool w}"
  | .invalid n w => s!"invalid:{n}:{showBool w}"
  | .needsSciPy => "needs-scipy"
  | .notSquare n => s!"not-square:{n}"

def parseAlg (s : String) : Option AlgName :=
  if s = "hrr" then some .hrr else if s = "vtb" then some .vtb else if s = "tvtb" then some .tvtb else none

def unitRes (alg : String) (u : List Rat) : Option (Except String String) :=
  match alg, u.length with
  | "hrr", k + 1 =>
      let x : Hrr.Vec k Rat := vecOfList k u
      let r := Hrr.Impl.bind x (Hrr.Impl.invert x) - Hrr.Impl.identity k
      some (.ok (showRat (maxAbs (listOfVec r))))
  | a, d =>
      if a ≠ "vtb" ∧ a ≠ "tvtb" then none else
      match isqrt? d with
      | none => some (.error "not-square")
      | some m =>
        let U : Matrix (Fin m) (Fin m) Rat := toMat (vec2OfList m u)
        let E : Matrix (Fin m) (Fin m) Rat := (m : Rat) • (U * U.transpose) - 1
        some (.ok (showRat (maxAbs ((pairs m).map fun p => E p.1 p.2))))

def myHandle (op : String) (args : List String) : Option (Except String String) :=
  match op, args with
  | "axis", [d] => do some (.ok (axisAll (← d.toNat?)))
  | "gram", [d, vs] => do
      let d ← d.toNat?
      some (.ok (showRat (gramRes d (← parseVecs d vs))))
  | "ostep", [d, prev, draw] => do
      let d ← d.toNat?
      let dr ← parseRatList draw
      if dr.length ≠ d then none else
      some (ostep d (← parseVecs d prev) (fv d dr))
  | "dispatch", [alg, sc, d, props] => do
      some (.ok (showOutcome (create (← parseAlg alg) (← parseBool sc) (← d.toNat?) (← parseProps props))))
  | "sched", [tie, d, n, off] => do
      match schedule (← parseBool tie) (← d.toNat?) (← n.toNat?) (← parseRat off) with
      | .ok rows => some (.ok (showMat showRat rows))
      | .error .zeroDivision => some (.error "zero-division")
  | "idx", [d] => do
      let d ← d.toNat?
      some (.ok (s!"{cc d} " ++ ",".intercalate ((rootIdxs d).map toString)))
  | "unitres", [alg, u] => do unitRes alg (← parseRatList u)
  | "sign", [u] => do
      let l ← parseRatList u
      match l.length with
      | k + 1 =>
        let x : Hrr.Vec k Rat := vecOfList k l
        some (.ok (showRat (Hrr.Impl.dc x) ++ "," ++ showRat (Hrr.Impl.nyq x)))
      | 0 => none
  | "ident", [alg, d] => do
      let d ← d.toNat?
      match isqrt? d with
      | none => some (.error "not-square")
      | some m =>
        if alg = "vtb" then some (.ok (QS.showList (listOfVec2 (Vtb.Impl.identity m (QS.rtInv m)))))
        else if alg = "tvtb" then some (.ok (QS.showList (listOfVec2 (Tvtb.Impl.identity m (QS.rtInv m)))))
        else none
  | _, _ => none

def handle19 (op : String) (args : List String) : Option (Except String String) :=
  (myHandle op args).orElse fun _ => AlgProto.handle op args

def main : IO Unit := Proto.loop handle19

/-
C05 driver: executes the `C05.*.Impl` definitions (the ones the theorems are about) in exact
arithmetic: MatrixMult and the HRR network over `ℚ` (the HRR DFT table is passed in as the exact
rationals of the doubles NumPy produced), VTB/TVTB over `ℚ(√m)` with `s = √m`.

  mmt   <D1> <D2> <D3>                       -> `TL|TR|TC` of `MatrixMult.Impl.build` (rows `;`, entries `,`)
  mmb   <D1> <D2> <D3> <A|B;A|B;…>           -> outputs `v;v;…` of `ProdNet.eval` on each pair
  mmshape <sl> <sr>                          -> `<nL>,<nR>,<nC>,<nO>` | err not-two-dim | err incompatible
  perm  <inv|swap> <d>                       -> permutation matrix of `invF` / `swapF` | err not-square
  route <hrr|vtb|tvtb> <d> <ul> <ur>         -> `mat:<L|R>:<I|matrix>|vec:<L|R>:<I|matrix>|mml:<I|matrix>`
                                                (through `Bind.Impl.bindModule`; hrr: `conv`) | err not-square | err both-flags
  vnet  <vtb|tvtb> <d> <ul> <ur> <A|B;…>     -> outputs over `ℚ(√m)` (inputs: tokens `re` or `re~im`), through
                                                `Bind.Impl.bindModule` and `Bind.Impl.run (√m)`
  hrrtr <d> <ia> <ib> <re> <im>              -> `TL|TR|TO` of `Hrr.Impl.build` for the given table (`dinv = 1/d`)
  hnet  <d> <ul> <ur> <re> <im> <A|B;…>      -> outputs of the HRR network (through `Bind.Impl.bindModule`)
Shared algebra operations (`bind`, `inv`, …) fall back to `AlgProto.handle`.
-/
import SpaModel.AlgProto
import SpaModel.Basic.C05
open C05 Alg Proto AlgProto

def parseQS (m : ℕ) (s : String) : Option (QS m) :=
  match s.splitOn "~" with
  | [a] => (parseRat a).map fun r => ⟨r, 0⟩
  | [a, b] => do some ⟨← parseRat a, ← parseRat b⟩
  | _ => none

def parseQSList (m : ℕ) (s : String) : Option (List (QS m)) :=
  if s = "-" then some [] else (s.splitOn ",").mapM (parseQS m)

def parsePairs {α} (pv : String → Option (List α)) (s : String) : Option (List (Array α × Array α)) :=
  (s.splitOn ";").mapM fun p =>
    match p.splitOn "|" with
    | [a, b] => do some ((← pv a).toArray, (← pv b).toArray)
    | _ => none

def parseMatQ (s : String) : Option (Array (Array Rat)) :=
  ((s.splitOn ";").mapM parseRatList).map fun rows => (rows.map List.toArray).toArray

def showArrMat {α} (f : α → String) (M : Array (Array α)) : String :=
  showMat f (M.toList.map Array.toList)

def showVecs {α} (f : α → String) (vs : List (Array α)) : String :=
  ";".intercalate (vs.map fun v => Proto.showList f v.toList)

def errName5 : BuildErr → String
  | .notSquare => "not-square"
  | .bothFlags => "both-flags"

def parseAlg : String → Option Bind.AlgK
  | "hrr" => some .hrr
  | "vtb" => some .vtb
  | "tvtb" => some .tvtb
  | _ => none

/-- an unused table for the algebras that have none -/
def noTbl (R : Type) [Zero R] : Hrr.Tbl R := ⟨fun _ _ => 0, fun _ _ => 0, 0⟩

def tblOf (d : ℕ) (re im : Array (Array Rat)) : Hrr.Tbl Rat :=
  ⟨fun w x => rd2 re w x, fun w x => rd2 im w x, 1 / (d : Rat)⟩

def showFeed {α} (f : α → String) (name : String) (fd : Feed α) : String :=
  name ++ ":" ++ (match fd.src with | .left => "L" | .right => "R") ++ ":" ++
    (match fd.T with | none => "I" | some M => showArrMat f M)

def handle5 (op : String) (args : List String) : Option (Except String String) :=
  match op, args with
  | "mmt", [a, b, c] => do
      let N := MatrixMult.Impl.build (R := Rat) (← a.toNat?) (← b.toNat?) (← c.toNat?)
      some (.ok (showArrMat showRat N.TL ++ "|" ++ showArrMat showRat N.TR ++ "|" ++ showArrMat showRat N.TO))
  | "mmb", [a, b, c, ps] => do
      let N := MatrixMult.Impl.build (R := Rat) (← a.toNat?) (← b.toNat?) (← c.toNat?)
      let pairs ← parsePairs parseRatList ps
      some (.ok (showVecs showRat (pairs.map fun p => N.eval p.1 p.2)))
  | "mmshape", [sl, sr] => do
      match MatrixMult.Impl.buildShapes (R := Rat) (← parseNatList sl) (← parseNatList sr) with
      | .ok N => some (.ok s!"{N.nL},{N.nR},{N.nC},{N.nO}")
      | .error .notTwoDim => some (.error "not-two-dim")
      | .error .incompatible => some (.error "incompatible")
  | "perm", [kind, ds] => do
      let d ← ds.toNat?
      match subD d with
      | .error _ => some (.error "not-square")
      | .ok m =>
        match kind with
        | "inv" => some (.ok (showArrMat showRat (tab2 d d (Block.invF (R := Rat) d m))))
        | "swap" => some (.ok (showArrMat showRat (tab2 d d (Block.swapF (R := Rat) d m))))
        | _ => none
  | "route", [alg, ds, ul, ur] => do
      match Bind.Impl.bindModule (noTbl Rat) (← parseAlg alg) (← ds.toNat?) (← parseBool ul) (← parseBool ur) with
      | .error e => some (.error (errName5 e))
      | .ok (.conv N) => some (.ok s!"conv:{N.nL},{N.nR},{N.nC},{N.nO}")
      | .ok (.block N) =>
          some (.ok (showFeed showRat "mat" N.mat ++ "|" ++ showFeed showRat "vec" N.vec ++ "|mml:" ++
            (match N.mmLeftT with | none => "I" | some M => showArrMat showRat M) ++
            s!"|{N.d},{N.m},{N.matmul.nL},{N.matmul.nR},{N.matmul.nC},{N.matmul.nO}"))
  | "vnet", [alg, ds, ul, ur, ps] => do
      let alg ← parseAlg alg
      if alg = .hrr then none else
      let d ← ds.toNat?
      let ul ← parseBool ul
      let ur ← parseBool ur
      match subD d with
      | .error _ => some (.error "not-square")
      | .ok m =>
        match Bind.Impl.bindModule (noTbl (QS m)) alg d ul ur with
        | .error e => some (.error (errName5 e))
        | .ok net => do
          let pairs ← parsePairs (parseQSList m) ps
          some (.ok (showVecs QS.show' (pairs.map fun p => Bind.Impl.run (QS.rt m) net p.1 p.2)))
  | "hrrtr", [ds, ia, ib, re, im] => do
      let d ← ds.toNat?
      let N := Hrr.Impl.build (tblOf d (← parseMatQ re) (← parseMatQ im)) d (← parseBool ia) (← parseBool ib)
      some (.ok (showArrMat showRat N.TL ++ "|" ++ showArrMat showRat N.TR ++ "|" ++ showArrMat showRat N.TO))
  | "hnet", [ds, ul, ur, re, im, ps] => do
      let d ← ds.toNat?
      match Bind.Impl.bindModule (tblOf d (← parseMatQ re) (← parseMatQ im)) .hrr d (← parseBool ul) (← parseBool ur) with
      | .error e => some (.error (errName5 e))
      | .ok net => do
        let pairs ← parsePairs parseRatList ps
        some (.ok (showVecs showRat (pairs.map fun p => Bind.Impl.run (0 : Rat) net p.1 p.2)))
  | _, _ => none

def handleAll (op : String) (args : List String) : Option (Except String String) :=
  (handle5 op args).orElse fun _ => AlgProto.handle op args

def main : IO Unit := Proto.loop handleAll

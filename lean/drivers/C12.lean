/-
Driver of C12: executes `C12.Impl.*` (SpaModel/Basic/C12.lean) and the residual of
`C12.Spec.*.IsUnitary` on exact data.  HRR over ℚ, VTB/TVTB over ℚ(√m) (`s = √m`, `sinv = 1/√m`).

  pow   <alg> <v> <e>     binding_power(v, e): `ok v:<vector>` | `ok spectral` | `err <refusal>`
  gpow  <alg> <v> <e>     AbstractAlgebra.binding_power (generic default) on the algebra's operations
  unitres <alg> <u>       max-norm of `u ⊛ ~u − δ` (HRR) resp. `(s·s)•(U Uᵀ) − 1` (VTB/TVTB), exact
  mu    <v>               VTB/TVTB make_unitary row loop (checked solve): rows before normalisation | `err singular`
  hrrpos <v>              `HrrAlgebra.sign(v).is_positive()` on the modelled coefficients
  + the shared algebra operations of AlgProto (bind, inv, …)
-/
import SpaModel.AlgProto
import SpaModel.Basic.C12
open Alg Proto AlgProto C12

def errName : PowErr → String
  | .valueError => "value-error"
  | .importError => "import-error"
  | .notImplemented => "not-implemented"

def showRes {α} (f : α → String) : PowRes α → Except String String
  | .value v => .ok ("v:" ++ f v)
  | .spectral => .ok "spectral"
  | .refused e => .error (errName e)

def powAny (alg : String) (v : List Rat) (e : Rat) : Option (Except String String) :=
  match alg, v.length with
  | "hrr", k + 1 =>
      let x : Hrr.Vec k Rat := vecOfList k v
      some (showRes (fun r => showRatList (listOfVec r)) (Impl.Hrr.power (Impl.Hrr.isPositive x) x e))
  | "vtb", d => match isqrt? d with
      | none => some (.error "not-square")
      | some m => some (showRes (fun r => QS.showList (listOfVec2 r))
          (Impl.Vtb.power false false (QS.rt m) (QS.rtInv m) (v2 m v) e))
  | "tvtb", d => match isqrt? d with
      | none => some (.error "not-square")
      | some m => some (showRes (fun r => QS.showList (listOfVec2 r))
          (Impl.Tvtb.power false false (QS.rt m) (QS.rtInv m) (v2 m v) e))
  | _, _ => none

def gpowAny (alg : String) (v : List Rat) (e : Rat) : Option (Except String String) :=
  match alg, v.length with
  | "hrr", k + 1 =>
      let x : Hrr.Vec k Rat := vecOfList k v
      some (showRes (fun r => showRatList (listOfVec r))
        (Impl.Generic.power Hrr.Impl.bind (some (Hrr.Impl.identity k)) Hrr.Impl.invert x e))
  | "vtb", d => match isqrt? d with
      | none => some (.error "not-square")
      | some m => some (showRes (fun r => QS.showList (listOfVec2 r))
          (Impl.Generic.power (Vtb.Impl.bind (QS.rt m)) none Vtb.Impl.invert (v2 m v) e))
  | "tvtb", d => match isqrt? d with
      | none => some (.error "not-square")
      | some m => some (showRes (fun r => QS.showList (listOfVec2 r))
          (Impl.Generic.power (Tvtb.Impl.bind (QS.rt m)) (some (Tvtb.Impl.identity m (QS.rtInv m)))
            Tvtb.Impl.invert (v2 m v) e))
  | _, _ => none

def ratAbs (q : Rat) : Rat := if q < 0 then -q else q
def maxAbs (l : List Rat) : Rat := l.foldl (fun a x => if ratAbs x > a then ratAbs x else a) 0

/-- exact residual of the unitarity predicate -/
def unitRes (alg : String) (u : List Rat) : Option (Except String String) :=
  match alg, u.length with
  | "hrr", k + 1 =>
      let x : Hrr.Vec k Rat := vecOfList k u
      let r := Hrr.Impl.bind x (Hrr.Impl.invert x) - Hrr.Impl.identity k
      some (.ok (showRat (maxAbs (listOfVec r))))
  | a, d =>
      if a ≠ "vtb" ∧ a ≠ "tvtb" then none else
      match isqrt? d with
      | none => some (.error "not-square")
      | some m =>
        let U := toMat (v2 m u)
        let E : Matrix (Fin m) (Fin m) (QS m) := (QS.rt m * QS.rt m) • (U * U.transpose) - 1
        let es := (pairs m).map fun p => E p.1 p.2
        if es.any (fun x => x.im ≠ 0) then some (.error "irrational-residual")
        else some (.ok (showRat (maxAbs (es.map (·.re)))))

def muRows (v : List Rat) : Option (Except String String) :=
  match isqrt? v.length with
  | none => some (.error "not-square")
  | some m =>
    let M0 : Matrix (Fin m) (Fin m) Rat := toMat (vec2OfList m v)
    match Impl.MU.run Elim.cand M0 with
    | none => some (.error "singular")
    | some M => some (.ok (showMat showRat (List.ofFn fun i => List.ofFn fun j => M i j)))

def myHandle (op : String) (args : List String) : Option (Except String String) :=
  match op, args with
  | "pow", [alg, v, e] => do powAny alg (← parseRatList v) (← parseRat e)
  | "gpow", [alg, v, e] => do gpowAny alg (← parseRatList v) (← parseRat e)
  | "unitres", [alg, u] => do unitRes alg (← parseRatList u)
  | "mu", [v] => do muRows (← parseRatList v)
  | "hrrpos", [v] => do
      let l ← parseRatList v
      match l.length with
      | k + 1 => some (.ok (showBool (Impl.Hrr.isPositive (vecOfList k l : Hrr.Vec k Rat))))
      | 0 => none
  | _, _ => none

def handle12 (op : String) (args : List String) : Option (Except String String) :=
  (myHandle op args).orElse fun _ => AlgProto.handle op args

def main : IO Unit := Proto.loop handle12

import SpaModel.AlgProto
def main : IO Unit := Proto.loop AlgProto.handle

import SpaModel.Proto
import SpaModel.Basic.C18
open C18 C18.Impl Proto

/-- `n` = None, otherwise a natural number -/
def parseOptNat (s : String) : Option (Option Nat) :=
  if s = "n" then some none else s.toNat?.map some

def parseArg (s : String) : Option Arg :=
  if s = "b" then some .bad
  else if s.startsWith "d" then (s.drop 1).toString.toInt?.map .dim
  else if s.startsWith "v" then (s.drop 1).toString.toNat?.map .voc
  else none

def parseOp (s : String) : Option Op :=
  if s = "X" then some .exit
  else if s.startsWith "P" then (parseOptNat (s.drop 1).toString).map .enterPlain
  else if s.startsWith "S" then
    match (s.drop 1).toString.splitOn "/" with
    | [v, sd] => do some (.enterSpa (← parseOptNat v) (← parseOptNat sd))
    | _ => none
  else if s.startsWith "M" then
    match (s.drop 1).toString.splitOn "/" with
    | [v, sd, a] => do some (.module (← parseOptNat v) (← parseOptNat sd) (← parseArg a))
    | _ => none
  else none

def parsePair (s : String) : Option (Int × Nat) :=
  match s.splitOn "=" with
  | [d, v] => do some (← d.toInt?, ← v.toNat?)
  | _ => none

def parseDecl (s : String) : Option MapDecl :=
  match s.splitOn ":" with
  | [sd, ini] => do
      let seed ← parseOptNat sd
      let init ← if ini = "-" then some [] else (ini.splitOn ",").mapM parsePair
      some ⟨seed, init⟩
  | _ => none

def parseModel (s : String) : Option (Script × Bool) :=
  match s.splitOn ";" with
  | [dr, ds, os] => do
      let drop ← parseBool dr
      let decls ← if ds = "-" then some [] else (ds.splitOn "+").mapM parseDecl
      let ops ← if os = "-" then some [] else (os.splitOn ",").mapM parseOp
      if Spec.oneRoot ops then
        some (⟨decls, ops⟩, drop)
      else none
  | _ => none

def showOptNat : Option Nat → String
  | none => "n"
  | some k => toString k

def showMap : MapId → String
  | .expl m k => s!"E{m}.{k}"
  | .fresh m n => s!"F{m}.{n}"

def showRes : Res → String
  | .container => "C"
  | .vocab (.ext v) => s!"X{v}"
  | .vocab (.auto mp i) => s!"A{showMap mp}#{i}"
  | .rejectedDim => "RD"
  | .rejectedType => "RT"

def showLabel : Label → String
  | .user v => s!"u{v}"
  | .auto sd e w i => s!"a{showOptNat sd}.{showBool e}.{w}.{i}"

def showOut (W : World) (o : Out) : String :=
  let lab := match o.res with
    | .vocab v => showLabel (label W v)
    | _ => "-"
  s!"{o.net}:{o.root}:{showOptNat o.gov}:{showMap o.map}:{showOptNat (mapState W o.map).seed}:{showRes o.res}:{lab}"

def handle (op : String) (args : List String) : Option (Except String String) :=
  match op, args with
  | "seq", [ms] => do
      let models ← (ms.splitOn "|").mapM parseModel
      let (outs, p) := buildSeq models Proc.empty
      let txt := outs.map (fun os => showList (showOut p.W) os)
      some (.ok (s!"{p.W.master.length};" ++ "|".intercalate txt))
  | _, _ => none

def main : IO Unit := Proto.loop handle

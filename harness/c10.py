"""C10 — parse and populate evaluate pointer expressions in the vocabulary's algebra.

Tie (model = `C10.Impl.parseValue / populate / createPointer` run by drivers/C10.lean on the exact
instances of HrrAlgebra / VtbAlgebra / TvtbAlgebra over Q resp. Q(sqrt m)):

* expression strings printed from random trees (entries, special names, int/float literals, + - * / ~ **,
  unary minus, .dot(), .v, None, unknown names, ill-typed operands, random blanks/tabs and redundant
  parentheses) and a malformed stream, for the three algebras, d in {4, 9}, strict and non-strict
  vocabularies with a scripted `pointer_gen`; the model receives CPython's own `ast` of the text;
* populate strings mixing `Name`, `Name.method()`, `Name = expr` (failing items in the middle, trailing `;`,
  blank items, duplicate / invalid names, number right-hand sides, unknown names);
* `create_pointer(attempts=k, transform=…)` on scripted candidate streams: lengths 0..12, attempts 0..12, the
  first qualifying candidate at every position or nowhere, ties, empty vocabulary, transforms.

Oracle (independent of the Lean model): the written operators applied with exact arithmetic in this file
(`Q2` = Q(sqrt m) with `fractions`; published binding formulas; n-fold binding for `**`), Python's number
semantics, object identity for `.vocab` / `.algebra`, and the declarative description of the selected
candidate (first below the bound, else first of the least similar + warning).  Error classes the property
statement does not fix (TypeError, ZeroDivisionError, duplicate keys, exhausted generator, …) are only
compared between model and implementation.
"""
import ast
import math
import warnings

import numpy as np

import common
from common import Fraction as F
import nengo_spa as spa
from nengo.exceptions import ValidationError
from nengo_spa.algebras import HrrAlgebra, TvtbAlgebra, VtbAlgebra
from nengo_spa.exceptions import SpaParseError

PROPERTY = "C10"
LEAN_MODULES = ["SpaModel.Props.C10", "SpaModel.Lemmas.C10"]
AUDIT = "SpaModel/Audit/C10.lean"
DRIVER = "drivers/C10.lean"
RULE = ("one case = one call of parse / populate / create_pointer on a fresh vocabulary; key = algebra, d, strictness, "
        "bound, entries, candidate stream and the exact text (resp. attempts/transform); non-trivial = the expression "
        "is not a bare entry name / the populate text has >= 2 items or an assignment / the stream has >= 1 candidate "
        "or attempts = 0; distinct = distinct key")
ASSUMPTIONS = [
    "CPython's parser: the model is handed ast.parse(text) (converted node by node), eval evaluates operands left to right",
    "IEEE rounding in NumPy (fft, dot, kron): values compared at 1e-9 relative to the operand magnitudes",
    "names of Python built-ins are not used as unknown names (a strict vocabulary lets eval fall through to builtins)",
    "transforms of populate's `Name.method()` form: copy(), __neg__(), __invert__(), normalized() (rational norm), "
    "a missing method and malformed method text go through the model; unitary() items only for the prefix kept",
]

ALGS = {"hrr": HrrAlgebra(), "vtb": VtbAlgebra(), "tvtb": TvtbAlgebra()}


# ----------------------------------------------------------------------------------------------
# exact arithmetic in Q(sqrt m)  (oracle side; independent of the Lean model)
# ----------------------------------------------------------------------------------------------
class Q2:
    __slots__ = ("a", "b", "m")

    def __init__(self, a, b=0, m=2):
        self.a, self.b, self.m = F(a), F(b), m

    def _c(self, o):
        return o if isinstance(o, Q2) else Q2(o, 0, self.m)

    def __add__(self, o):
        o = self._c(o)
        return Q2(self.a + o.a, self.b + o.b, self.m)
    __radd__ = __add__

    def __neg__(self):
        return Q2(-self.a, -self.b, self.m)

    def __sub__(self, o):
        return self + (-self._c(o))

    def __rsub__(self, o):
        return self._c(o) - self

    def __mul__(self, o):
        o = self._c(o)
        return Q2(self.a * o.a + self.m * self.b * o.b, self.a * o.b + self.b * o.a, self.m)
    __rmul__ = __mul__

    def inv(self):
        n = self.a * self.a - self.m * self.b * self.b
        return Q2(self.a / n, -self.b / n, self.m)

    def sign(self):
        a, b, m = self.a, self.b, self.m
        sg = lambda x: (x > 0) - (x < 0)
        if b == 0:
            return sg(a)
        if a == 0:
            return sg(b)
        if a > 0 and b > 0:
            return 1
        if a < 0 and b < 0:
            return -1
        return sg(a * a - m * b * b) if a > 0 else sg(m * b * b - a * a)

    def is_zero(self):
        return self.a == 0 and self.b == 0

    def __lt__(self, o):
        return (self._c(o) - self).sign() > 0

    def __float__(self):
        return float(self.a) + float(self.b) * math.sqrt(self.m)

    def __repr__(self):
        return f"{self.a}~{self.b}"


class OAlg:
    """published formulas of the three algebras on lists of Q2"""

    def __init__(self, name, d):
        self.name, self.d = name, d
        self.m = math.isqrt(d)
        assert self.m * self.m == d and math.isqrt(self.m) ** 2 != self.m
        self.s = Q2(0, 1, self.m)                 # sqrt(m)
        self.sinv = Q2(0, F(1, self.m), self.m)   # 1/sqrt(m)

    def q(self, x):
        return x if isinstance(x, Q2) else Q2(x, 0, self.m)

    def vec(self, xs):
        return [self.q(x) for x in xs]

    def add(self, x, y):
        return [a + b for a, b in zip(x, y)]

    def neg(self, x):
        return [-a for a in x]

    def scale(self, c, x):
        return [a * c for a in x]

    def dot(self, x, y):
        acc = self.q(0)
        for a, b in zip(x, y):
            acc = acc + a * b
        return acc

    def bind(self, x, y):
        d, m = self.d, self.m
        if self.name == "hrr":
            out = []
            for i in range(d):
                acc = self.q(0)
                for j in range(d):
                    acc = acc + x[j] * y[(i - j) % d]
                out.append(acc)
            return out
        out = []
        for i in range(m):
            for j in range(m):
                acc = self.q(0)
                for k in range(m):
                    yy = y[j * m + k] if self.name == "vtb" else y[k * m + j]
                    acc = acc + yy * x[i * m + k]
                out.append(self.s * acc)
        return out

    def inv(self, x):
        d, m = self.d, self.m
        if self.name == "hrr":
            return [x[(-i) % d] for i in range(d)]
        return [x[j * m + i] for i in range(m) for j in range(m)]

    def identity(self):
        if self.name == "hrr":
            return self.vec([1] + [0] * (self.d - 1))
        return [self.sinv if i == j else self.q(0) for i in range(self.m) for j in range(self.m)]

    def zero(self):
        return self.vec([0] * self.d)

    def absorbing(self):
        if self.name == "hrr":
            return self.vec([F(1, self.m)] * self.d)     # 1/sqrt(d), d = m*m
        return None

    def power(self, x, n):
        """n-fold binding: identity for 0, the inverse first for negative n, then bind(bind(v, v), v) …"""
        if n == 0:
            return self.identity()
        w = self.inv(x) if n < 0 else x
        acc = w
        for _ in range(abs(n) - 1):
            acc = self.bind(acc, w)
        return acc


# ----------------------------------------------------------------------------------------------
# trees, printer, CPython-ast -> model token, oracle evaluation
# ----------------------------------------------------------------------------------------------
# tree nodes: ("name", s) ("int", k) ("flt", Fraction, text) ("none",) ("add"|"sub"|"mul"|"div"|"dot", a, b)
#             ("neg"|"inv"|"v", a) ("pow", a, n)
PREC = {"add": 1, "sub": 1, "mul": 2, "div": 2, "neg": 3, "inv": 3, "pow": 4}
SYM = {"add": "+", "sub": "-", "mul": "*", "div": "/"}
FLOATS = [(F(1, 2), "0.5"), (F(1, 4), ".25"), (F(2), "2."), (F(3, 2), "1.5"), (F(0), "0.0"), (F(10), "1e1"),
          (F(1, 8), "0.125"), (F(3), "3.0")]


def prec(t):
    return PREC.get(t[0], 5)


def toks(t, rng):
    """token list of the expression with minimal parentheses (+ random redundant ones)"""
    def wrap(x, need):
        ts = toks(x, rng)
        return ["("] + ts + [")"] if need else ts
    k = t[0]
    if k == "name":
        out = [t[1]]
    elif k == "int":
        out = [str(t[1])]
    elif k == "flt":
        out = [t[2]]
    elif k == "none":
        out = ["None"]
    elif k in SYM:
        p = PREC[k]
        out = wrap(t[1], prec(t[1]) < p) + [SYM[k]] + wrap(t[2], prec(t[2]) <= p)
    elif k in ("neg", "inv"):
        out = ["-" if k == "neg" else "~"] + wrap(t[1], prec(t[1]) < 3)
    elif k == "pow":
        out = wrap(t[1], prec(t[1]) < 5 or t[1][0] in ("int", "flt")) + ["**"] + \
              (["-", str(-t[2])] if t[2] < 0 else [str(t[2])])
    elif k == "dot":
        out = wrap(t[1], prec(t[1]) < 5 or t[1][0] in ("int", "flt")) + [".", "dot", "("] + toks(t[2], rng) + [")"]
    elif k == "v":
        out = wrap(t[1], prec(t[1]) < 5 or t[1][0] in ("int", "flt")) + [".", "v"]
    else:
        raise AssertionError(k)
    if rng.random() < 0.12:
        out = ["("] + out + [")"]
    return out


def render(t, rng, ws=True):
    ts = toks(t, rng)
    if not ws:
        return "".join(ts)
    out = []
    for i, tk in enumerate(ts):
        if i and tk not in ("dot", "v") and ts[i - 1] != ".":
            out.append(rng.choice(["", "", " ", " ", "  ", "\t", " \t"]))
        out.append(tk)
    return "".join(out)


def ast_token(node):
    """CPython's tree of the text -> driver token; None when outside the modelled fragment"""
    if isinstance(node, ast.Expression):
        return ast_token(node.body)
    if isinstance(node, ast.Name):
        return "n:" + node.id
    if isinstance(node, ast.Constant):
        v = node.value
        if v is None:
            return "N"
        if isinstance(v, bool):
            return None
        if isinstance(v, int):
            return f"i:{v}"
        if isinstance(v, float):
            return "f:" + common.q(v)
        return None
    if isinstance(node, ast.BinOp):
        if isinstance(node.op, ast.Pow):
            r = node.right
            if isinstance(r, ast.Constant) and type(r.value) is int:
                n = r.value
            elif (isinstance(r, ast.UnaryOp) and isinstance(r.op, ast.USub) and isinstance(r.operand, ast.Constant)
                  and type(r.operand.value) is int):
                n = -r.operand.value
            else:
                return None
            a = ast_token(node.left)
            return None if a is None else f"pow:{n}({a})"
        op = {ast.Add: "add", ast.Sub: "sub", ast.Mult: "mul", ast.Div: "div"}.get(type(node.op))
        a, b = ast_token(node.left), ast_token(node.right)
        return None if op is None or a is None or b is None else f"{op}({a},{b})"
    if isinstance(node, ast.UnaryOp):
        op = {ast.USub: "neg", ast.Invert: "inv"}.get(type(node.op))
        a = ast_token(node.operand)
        return None if op is None or a is None else f"{op}({a})"
    if isinstance(node, ast.Call):
        f = node.func
        if isinstance(f, ast.Attribute) and f.attr == "dot" and len(node.args) == 1 and not node.keywords:
            a, b = ast_token(f.value), ast_token(node.args[0])
            return None if a is None or b is None else f"dot({a},{b})"
        return None
    if isinstance(node, ast.Attribute) and node.attr == "v":
        a = ast_token(node.value)
        return None if a is None else f"v({a})"
    return None


def text_token(text):
    """what CPython's parser makes of `text`: a tree token, 'X' (SyntaxError) or None (outside the fragment)"""
    try:
        tree = ast.parse(text.strip(" \t"), mode="eval")   # eval() strips leading blanks/tabs itself
    except SyntaxError:
        return "X"
    except ValueError:
        return None
    return ast_token(tree)


class Unknown(Exception):          # evaluation reached an unknown name first
    pass


class Undetermined(Exception):     # an error class the property statement does not fix
    pass


def choose_candidate(oa, entries_vecs, cands, pos, attempts, bound, tr=None):
    """declarative reading of create_pointer: -> (kind, index consumed up to, chosen vector or None, warn)
    kind: 'first-below' | 'least' | 'zero' | 'empty' | 'exhausted'"""
    if attempts == 0:
        return "zero", pos, None, True
    avail = cands[pos:]
    if not entries_vecs:
        if not avail:
            return "exhausted", pos, None, False
        return "empty", pos + 1, (tr(avail[0]) if tr else avail[0]), False
    window = avail[:attempts]
    sims = []
    for c in window:
        p = tr(c) if tr else c
        s = None
        for e in entries_vecs:
            x = oa.dot(e, p)
            if s is None or s < x:
                s = x
        sims.append((s, p))
    for i, (s, p) in enumerate(sims):
        if s < oa.q(bound):
            return "first-below", pos + i + 1, p, False
    if len(window) < attempts:
        return "exhausted", len(cands), None, False
    best = 0
    for i, (s, p) in enumerate(sims):
        if s < sims[best][0]:
            best = i
    return "least", pos + attempts, sims[best][1], True


class OVocab:
    """oracle-side vocabulary: entries in order, position in the candidate stream"""

    def __init__(self, oa, strict, bound, entries, cands):
        self.oa, self.strict, self.bound = oa, strict, bound
        self.entries = [(n, oa.vec(v)) for n, v in entries]
        self.cands = [oa.vec(c) for c in cands]
        self.pos = 0
        self.warns = 0
        self.mag = 1.0

    def get(self, name):
        for n, v in self.entries:
            if n == name:
                return v
        return None

    def lookup(self, name):
        oa = self.oa
        if name == "Identity":
            return oa.identity()
        if name == "Zero":
            return oa.zero()
        if name == "AbsorbingElement":
            a = oa.absorbing()
            if a is None:
                raise Undetermined("no absorbing element")
            return a
        v = self.get(name)
        if v is not None:
            return v
        if self.strict:
            raise Unknown(name)
        # non-strict: a freshly generated pointer is stored under the name
        kind, pos, p, warn = choose_candidate(oa, [v for _, v in self.entries], self.cands, self.pos, 100, self.bound)
        if kind == "least":      # all 100 attempts too similar: the least similar one is stored, WITH a warning
            self.warns += 1
        elif kind != "first-below" and kind != "empty":
            raise Undetermined("generator exhausted")
        self.pos = pos
        if not valid_name(name):
            raise Undetermined("invalid name")
        self.entries.append((name, p))
        return p


def valid_name(s):
    return (len(s) > 0 and s[0].isascii() and s[0].isupper() and all(c.isascii() and (c.isalnum() or c == "_") for c in s)
            and s not in ("None", "True", "False", "Identity", "Zero", "AbsorbingElement"))


def o_eval(t, ov):
    """evaluation + record of the largest intermediate magnitude (the scale float errors are relative to)"""
    r = _o_eval(t, ov)
    if r[0] == "p":
        ov.mag = max([ov.mag] + [abs(float(x)) for x in r[1]])
    elif r[0] in ("i", "f"):
        ov.mag = max(ov.mag, abs(float(r[1])))
    return r


def _o_eval(t, ov):
    """('p', vec) | ('i', int) | ('f', Q2) | ('other',); raises Unknown / Undetermined"""
    oa = ov.oa
    k = t[0]
    if k == "name":
        return ("p", ov.lookup(t[1]))
    if k == "int":
        return ("i", t[1])
    if k == "flt":
        return ("f", oa.q(t[1]))
    if k == "none":
        return ("other",)
    if k in ("neg", "inv", "v", "pow"):
        a = o_eval(t[1], ov)
        if a[0] == "other":
            raise Undetermined()
        if k == "v":
            if a[0] != "p":
                raise Undetermined()
            return ("other",)
        if k == "neg":
            return ("p", oa.neg(a[1])) if a[0] == "p" else (a[0], -a[1])
        if k == "inv":
            if a[0] == "p":
                return ("p", oa.inv(a[1]))
            if a[0] == "i":
                return ("i", ~a[1])
            raise Undetermined()
        n = t[2]
        if a[0] == "p":
            return ("p", oa.power(a[1], n))
        if n >= 0:
            if a[0] == "i":
                return ("i", a[1] ** n)
            r = oa.q(1)
            for _ in range(n):
                r = r * a[1]
            return ("f", r)
        base = oa.q(a[1])
        if base.is_zero():
            raise Undetermined()
        r = oa.q(1)
        for _ in range(-n):
            r = r * base
        return ("f", r.inv())
    a = o_eval(t[1], ov)
    if k == "dot" and a[0] != "p":
        raise Undetermined()           # the attribute `.dot` is looked up before the argument is evaluated
    b = o_eval(t[2], ov)
    if a[0] == "other" or b[0] == "other":
        raise Undetermined()
    if k == "dot":
        if b[0] == "p":
            return ("f", oa.dot(a[1], b[1]))
        return ("other",)              # np.dot(vector, number): a bare array
    pa, pb = a[0] == "p", b[0] == "p"
    if k in ("add", "sub"):
        if pa and pb:
            return ("p", oa.add(a[1], b[1] if k == "add" else oa.neg(b[1])))
        if pa or pb:
            raise Undetermined()
        if a[0] == "i" and b[0] == "i":
            return ("i", a[1] + b[1] if k == "add" else a[1] - b[1])
        return ("f", oa.q(a[1]) + oa.q(b[1]) if k == "add" else oa.q(a[1]) - oa.q(b[1]))
    if k == "mul":
        if pa and pb:
            return ("p", oa.bind(a[1], b[1]))
        if pa:
            return ("p", oa.scale(oa.q(b[1]), a[1]))
        if pb:
            return ("p", oa.scale(oa.q(a[1]), b[1]))
        if a[0] == "i" and b[0] == "i":
            return ("i", a[1] * b[1])
        return ("f", oa.q(a[1]) * oa.q(b[1]))
    if k == "div":
        if pb:
            raise Undetermined()
        if oa.q(b[1]).is_zero():
            raise Undetermined()
        if pa:
            return ("p", oa.scale(oa.q(b[1]).inv(), a[1]))
        return ("f", oa.q(a[1]) * oa.q(b[1]).inv())
    raise AssertionError(k)


def o_parse(t, ov):
    """the Semantic Pointer the property requires: ('ptr', vec) | ('parseError', why) | ('undetermined',)"""
    try:
        r = o_eval(t, ov)
    except Unknown:
        return ("parseError", "unknown-name")
    except Undetermined:
        return ("undetermined",)
    if r[0] == "p":
        return ("ptr", r[1])
    if r[0] in ("i", "f"):
        return ("ptr", ov.oa.scale(ov.oa.q(r[1]), ov.oa.identity()))
    return ("parseError", "nonpointer")


# ----------------------------------------------------------------------------------------------
# generators
# ----------------------------------------------------------------------------------------------
NAMES = ["A", "B", "Cx", "D_1"]
UNKNOWN_VALID = ["Q", "Zz", "New_1"]
UNKNOWN_INVALID = ["q", "foo", "_X"]


def rand_vec(rng, d, kind=None):
    kind = kind or rng.choice(["int", "dyadic", "onehot", "sparse"])
    if kind == "int":
        return [F(rng.randint(-2, 2)) for _ in range(d)]
    if kind == "dyadic":
        return [F(rng.randint(-8, 8), 4) for _ in range(d)]
    if kind == "onehot":
        v = [F(0)] * d
        v[rng.randrange(d)] = F(rng.choice([1, -1, 2]))
        return v
    v = [F(0)] * d
    for _ in range(2):
        v[rng.randrange(d)] = F(rng.randint(-4, 4), 2)
    return v


NORM_PATTERNS = [[3, 4], [1, 2, 2], [2, 3, 6], [1, 4, 8], [5, 12], [1], [0], [2], [4, 4, 7], [6, 8]]


def rational_norm_vec(rng, d):
    pat = list(rng.choice(NORM_PATTERNS))
    sc = rng.choice([F(1), F(1, 2), F(1, 4), F(-1), F(2)])
    v = [F(x) * sc * rng.choice([1, -1]) for x in pat] + [F(0)] * (d - len(pat))
    rng.shuffle(v)
    return v


def gen_tree(rng, depth, want, names, unknown_rate=0.0, ill=0.0):
    """want: 'p' (pointer typed) or 'n' (number typed); `ill` = probability of an ill-typed / odd operand"""
    if rng.random() < ill:
        c = rng.random()
        if c < 0.25:
            return ("none",)
        if c < 0.45:
            return ("v", gen_tree(rng, 0, "p", names))
        if c < 0.6:
            return ("dot", gen_tree(rng, 0, "p", names), gen_tree(rng, 0, "n", names))
        want = "n" if want == "p" else "p"
    if rng.random() < unknown_rate:
        return ("name", rng.choice(UNKNOWN_VALID + UNKNOWN_INVALID))
    if depth <= 0 or rng.random() < 0.18:
        if want == "p":
            c = rng.random()
            if c < 0.7 and names:
                return ("name", rng.choice(names))
            return ("name", rng.choice(["Identity", "Zero", "AbsorbingElement", "Identity"]))
        if rng.random() < 0.55:
            return ("int", rng.choice([0, 1, 2, 3, 2, 4, 5]))
        q, txt = rng.choice(FLOATS)
        return ("flt", q, txt)
    sub = lambda w: gen_tree(rng, depth - 1, w, names, unknown_rate, ill)
    if want == "p":
        c = rng.random()
        if c < 0.16:
            return ("add", sub("p"), sub("p"))
        if c < 0.30:
            return ("sub", sub("p"), sub("p"))
        if c < 0.46:
            return ("mul", sub("p"), sub("p"))
        if c < 0.56:
            return ("mul", sub("n"), sub("p"))
        if c < 0.64:
            return ("mul", sub("p"), sub("n"))
        if c < 0.72:
            return ("div", sub("p"), sub("n"))
        if c < 0.81:
            return ("neg", sub("p"))
        if c < 0.90:
            return ("inv", sub("p"))
        return ("pow", sub("p"), rng.choice([0, 1, 2, 3, -1, -2, 2]))
    c = rng.random()
    if c < 0.15:
        return ("add", sub("n"), sub("n"))
    if c < 0.28:
        return ("sub", sub("n"), sub("n"))
    if c < 0.43:
        return ("mul", sub("n"), sub("n"))
    if c < 0.55:
        return ("div", sub("n"), sub("n"))
    if c < 0.68:
        return ("neg", sub("n"))
    if c < 0.76:
        return ("inv", sub("n"))
    if c < 0.88:
        return ("pow", sub("n"), rng.choice([0, 1, 2, 2, -1, -2]))
    return ("dot", sub("p"), sub("p"))


MALFORMED = ["", "A +", "* A", "A B", "(A", "A)", "A + * B", "A = B", "A ~ B", "2 A", "A..v", "A +\nB", "A $ B",
             "A ** ", "~", "A.dot(", "1.2.3 * A", "A +- * B"]


def uses_only_entry(t):
    return t[0] == "name"


# ----------------------------------------------------------------------------------------------
# running the implementation
# ----------------------------------------------------------------------------------------------
ERRMAP = [(SpaParseError, "parseError"), (SyntaxError, "syntaxError"), (TypeError, "typeError"),
          (ZeroDivisionError, "zeroDivision"), (AttributeError, "attributeError"), (ValidationError, "validation"),
          (StopIteration, "stopIteration"), (NotImplementedError, "notImplemented"), (NameError, "nameError")]


def errclass(e):
    for cls, name in ERRMAP:
        if isinstance(e, cls):
            return name
    return "other:" + type(e).__name__


class Stream:
    """scripted pointer generator that counts what was drawn"""

    def __init__(self, cands):
        self.cands = [np.array([float(x) for x in c]) for c in cands]
        self.pos = 0
        # every other script hands its candidates out through one buffer that is overwritten by the next
        # draw (a generator is free to do that: the vocabulary has to keep values, not references)
        self.buf = None
        if self.cands and (len(self.cands) + int(round(abs(float(self.cands[0][0])) * 8))) % 2 == 1:
            self.buf = np.zeros(len(self.cands[0]))

    def __iter__(self):
        return self

    def __next__(self):
        if self.pos >= len(self.cands):
            raise StopIteration
        self.pos += 1
        if self.buf is not None and len(self.cands[self.pos - 1]) == len(self.buf):
            self.buf[:] = self.cands[self.pos - 1]
            return self.buf
        return self.cands[self.pos - 1]


def make_vocab(alg, d, strict, bound, entries, cands):
    st = Stream(cands)
    v = spa.Vocabulary(d, strict=strict, max_similarity=float(bound), pointer_gen=st, algebra=ALGS[alg])
    for n, vec in entries:
        v.add(n, [float(x) for x in vec])
    return v, st


def run_impl(fn):
    """-> (status, result, n_warnings)"""
    with warnings.catch_warnings(record=True) as rec:
        warnings.simplefilter("always")
        try:
            r = fn()
            st = "ok"
        except BaseException as e:  # noqa: BLE001  (StopIteration etc. are what the code raises)
            if isinstance(e, (KeyboardInterrupt, SystemExit, MemoryError)):
                raise
            r, st = e, errclass(e)
    nw = sum(1 for w in rec if not issubclass(w.category, DeprecationWarning))
    return st, r, nw


def state_of(v, st):
    return [(k, np.array(v[k].v)) for k in v.keys()], len(st.cands) - st.pos


def enc_vec(vec):
    return common.qvec(vec)


def enc_entries(entries):
    return ";".join(f"{n}={enc_vec(v)}" for n, v in entries) if entries else "-"


def enc_vecs(vs):
    return ";".join(enc_vec(v) for v in vs) if vs else "-"


def enc_text(s):
    return ",".join(str(ord(c)) for c in s) if s else "-"


def dec_qsvec(tok, m):
    return [common.qs_float(p, m) for p in common.parse_qsvec(tok)]


def vclose(impl, exact_floats, scale=1.0):
    sc = max([1.0, scale] + [abs(x) for x in exact_floats])
    return len(impl) == len(exact_floats) and all(abs(float(a) - b) <= 1e-9 * sc for a, b in zip(impl, exact_floats))


def parse_reply(payload, m):
    """`status#value#entries#genlen#warns` -> dict"""
    st, val, ents, genlen, warns = payload.split("#")
    out = {"status": st, "value": None, "own": None, "entries": [], "genlen": int(genlen), "warns": int(warns)}
    if val.startswith("P:"):
        _, vec, own = val.split(":")
        out["value"], out["own"] = dec_qsvec(vec, m), own == "1"
    elif val not in ("-", "other"):
        out["value"] = None if val == "None" else dec_qsvec(val, m)
        out["none"] = val == "None"
    if ents != "-":
        for e in ents.split(";"):
            n, vec = e.split("=")
            out["entries"].append((n, dec_qsvec(vec, m)))
    return out


def cmp_state(model, impl_entries, impl_genlen, impl_warns):
    if [n for n, _ in model["entries"]] != [n for n, _ in impl_entries]:
        return "entry names"
    for (n, mv), (_, iv) in zip(model["entries"], impl_entries):
        if not vclose(iv, mv):
            return f"entry {n}"
    if model["genlen"] != impl_genlen:
        return "generator position"
    if model["warns"] != impl_warns:
        return "warnings"
    return None


def o_floats(vec):
    return [float(x) for x in vec]


# ----------------------------------------------------------------------------------------------
# part A: parse
# ----------------------------------------------------------------------------------------------
def setup(rng, alg, d, n_entries=None, n_cands=None):
    n_entries = rng.choice([0, 1, 2, 2, 3, 3]) if n_entries is None else n_entries
    names = NAMES[:n_entries]
    entries = [(n, rand_vec(rng, d)) for n in names]
    n_cands = rng.randint(0, 6) if n_cands is None else n_cands
    cands = [rand_vec(rng, d, rng.choice(["dyadic", "onehot", "sparse"])) for _ in range(n_cands)]
    bound = rng.choice([F(1, 8), F(1, 4), F(1, 2), F(8), F(-1), F(1, 8)])
    return entries, cands, bound


def check_parse(ctx, rng, alg, d, strict, entries, cands, bound, text, tree, nd):
    """tree: generator's tree (oracle) or None for the malformed stream"""
    oa = OAlg(alg, d)
    v, st = make_vocab(alg, d, strict, bound, entries, cands)
    status, r, nw = run_impl(lambda: v.parse(text))
    ents, genlen = state_of(v, st)
    case = {"op": "parse", "alg": alg, "d": d, "strict": strict, "bound": str(bound), "text": text,
            "entries": {n: [str(x) for x in vec] for n, vec in entries}, "candidates": [[str(x) for x in c] for c in cands]}
    impl_desc = status if status != "ok" else [float(x) for x in r.v]
    # ---- oracle ----
    scale = 1.0
    if tree is None:
        want = ("syntaxError",)
    else:
        ov = OVocab(oa, strict, bound, entries, cands)
        want = o_parse(tree, ov)
        scale = ov.mag
    branch = "parse-" + (want[0] if want[0] != "parseError" else want[1]) + ("" if strict else "-nonstrict")
    ctx.count(f"parse {alg} {d} {int(strict)} {bound} {enc_entries(entries)} {enc_vecs(cands)} {text!r}",
              nontrivial=tree is None or not uses_only_entry(tree), branch=branch)
    ctx.sample(dict(case, impl=impl_desc), limit=4)
    if want[0] == "syntaxError":
        if status != "syntaxError":
            ctx.fail(case, impl_desc, "SyntaxError (malformed text)", where="parse-syntax")
    elif want[0] == "parseError":
        if status != "parseError":
            ctx.fail(dict(case, reason=want[1]), impl_desc, "SpaParseError", where="parse-" + want[1])
    elif want[0] == "ptr":
        exact = o_floats(want[1])
        if status != "ok":
            ctx.fail(case, impl_desc, exact, where="parse-value")
        elif not isinstance(r, spa.SemanticPointer) or not vclose(r.v, exact, scale):
            ctx.fail(case, impl_desc, exact, where="parse-value")
        elif r.vocab is not v or r.algebra is not v.algebra:
            ctx.fail(case, f"vocab is self: {r.vocab is v}, algebra is vocab.algebra: {r.algebra is v.algebra}",
                     "a pointer of this vocabulary and its algebra", where="parse-owner")
        elif not strict:
            # non-strict: the entries created on the way are the ones the oracle selected
            if [n for n, _ in ov.entries] != [n for n, _ in ents] or any(
                    not vclose(iv, o_floats(ovv)) for (_, ovv), (_, iv) in zip(ov.entries, ents)):
                ctx.fail(case, [n for n, _ in ents], [n for n, _ in ov.entries], where="parse-nonstrict-created")
            elif nw != ov.warns:
                ctx.fail(dict(case, candidates=f"{len(cands)} candidates"), f"{nw} warning(s)",
                         f"{ov.warns}: one per name created from the least similar candidate after 100 attempts",
                         where="parse-nonstrict-warning")
    # ---- model ----
    if nd:
        return
    tok = text_token(text)
    if tok is None:
        ctx.dist["parse-outside-fragment"] = ctx.dist.get("parse-outside-fragment", 0) + 1
        return
    if tok == "X":
        if status != "syntaxError":
            ctx.diff(case, impl_desc, "syntaxError (CPython's ast.parse rejects the text)", op="parse")
        return

    def cb(s, payload, case=case, status=status, r=r, ents=ents, genlen=genlen, nw=nw, v=v, impl_desc=impl_desc,
           scale=scale):
        if s != "ok":
            ctx.diff(case, impl_desc, f"{s} {payload}", op="parse")
            return
        mo = parse_reply(payload, oa.m)
        if mo["status"] == "unmodelled":      # operators on bare NumPy arrays / NumPy inf: declared outside the model
            ctx.dist["parse-model-declines"] = ctx.dist.get("parse-model-declines", 0) + 1
            return
        if mo["status"] != status:
            ctx.diff(case, impl_desc, mo["status"], op="parse-status")
            return
        if status == "ok":
            if mo["value"] is None or not vclose(r.v, mo["value"], scale):
                ctx.diff(case, impl_desc, mo["value"], op="parse-value")
                return
            if mo["own"] != (r.vocab is v and r.algebra is v.algebra):
                ctx.diff(case, "owner differs", mo["own"], op="parse-owner")
                return
        why = cmp_state(mo, ents, genlen, nw)
        if why:
            ctx.diff(case, why, payload, op="parse-state")
    ctx.ask("parse", [alg, d, int(strict), common.q(bound), enc_entries(entries), enc_vecs(cands), tok], cb)


def part_parse(ctx, nd):
    rng = ctx.rng
    quick = ctx.tier == "quick"
    n_per = 90 if quick else 700
    for alg in ALGS:
        for d in (4, 9):
            # fixed probes: every special name, bare numbers, documented non-pointer results
            entries, cands, bound = setup(rng, alg, d, n_entries=2, n_cands=3)
            fixed = [("name", "Identity"), ("name", "Zero"), ("name", "AbsorbingElement"), ("int", 2), ("int", 0),
                     ("flt", F(1, 2), "0.5"), ("neg", ("int", 3)), ("inv", ("int", 2)), ("none",),
                     ("v", ("name", "A")), ("dot", ("name", "A"), ("name", "B")), ("dot", ("name", "A"), ("int", 2)),
                     ("name", "Q"), ("name", "q"), ("add", ("name", "A"), ("name", "Q")),
                     ("mul", ("dot", ("name", "A"), ("name", "B")), ("name", "A")),
                     ("pow", ("name", "A"), 0), ("pow", ("name", "A"), -2), ("pow", ("int", 2), -1),
                     ("div", ("name", "A"), ("int", 0)), ("add", ("name", "A"), ("int", 2)),
                     ("mul", ("int", 2), ("name", "Identity")), ("sub", ("int", 1), ("flt", F(1, 4), ".25")),
                     # every spelling of a Python number is a number (upper-case exponent and radix letters included)
                     ("mul", ("flt", F(10), "1E1"), ("name", "A")), ("flt", F(2), "2E0"),
                     ("mul", ("flt", F(1, 4), "2.5E-1"), ("name", "A")),
                     ("add", ("mul", ("flt", F(10), "0XA"), ("name", "A")), ("name", "B")),
                     ("mul", ("flt", F(3), "0B11"), ("name", "A")), ("mul", ("name", "A"), ("flt", F(15), "0O17")),
                     ("mul", ("flt", F(1, 2), "5e-1"), ("name", "A")), ("mul", ("flt", F(10), "0xa"), ("name", "B"))]
            for t in fixed:
                for strict in (True, False):
                    check_parse(ctx, rng, alg, d, strict, entries, cands, bound, render(t, rng, ws=False), t, nd)
            # entries whose names read like float literals (valid pointer names): a name is a name
            odd_names = ["Inf", "NaN", "Infinity", "Nan", "E1"]
            entries_odd = [(n, rand_vec(rng, d)) for n in odd_names[:4]]
            for t in [("name", "Inf"), ("name", "NaN"), ("name", "Infinity"), ("add", ("name", "Inf"), ("name", "Nan")),
                      ("mul", ("int", 2), ("name", "NaN")), ("name", "E1")]:
                for strict in (True, False):
                    check_parse(ctx, rng, alg, d, strict, entries_odd, cands, bound, render(t, rng, ws=False), t, nd)
            for text_, t_ in [("nan", ("name", "nan")), ("inf", ("name", "inf")), ("-inf", ("neg", ("name", "inf"))),
                              ("infinity", ("name", "infinity")), (" nan ", ("name", "nan")), ("1_0", ("int", 10))]:
                check_parse(ctx, rng, alg, d, True, entries, cands, bound, text_, t_, nd)
            # a non-strict vocabulary whose generator only offers too-similar candidates: each name met in the text is
            # created from the least similar of its 100 attempts, with one warning per creation
            e0 = [F(1)] + [F(0)] * (d - 1)
            near = [[F(1) + F((k * 7) % 13, 16)] + [F((k * 5) % 11, 8)] + [F(0)] * (d - 2) for k in range(230)]
            for text_, t_, ncand in (("A + Q", ("add", ("name", "A"), ("name", "Q")), 100),
                                     ("Q", ("name", "Q"), 101),
                                     ("Q * R", ("mul", ("name", "Q"), ("name", "R")), 200),
                                     ("A + Q - R", ("sub", ("add", ("name", "A"), ("name", "Q")), ("name", "R")), 230)):
                check_parse(ctx, rng, alg, d, False, [("A", e0)], near[:ncand], F(1, 2), text_, t_, nd)
            for i in range(n_per):
                entries, cands, bound = setup(rng, alg, d)
                names = [n for n, _ in entries]
                strict = rng.random() < 0.7
                mode = rng.random()
                if mode < 0.55:
                    t = gen_tree(rng, rng.randint(1, 3), rng.choice("ppn"), names)
                elif mode < 0.75:
                    t = gen_tree(rng, rng.randint(1, 3), rng.choice("ppn"), names, unknown_rate=0.15)
                else:
                    t = gen_tree(rng, rng.randint(1, 3), rng.choice("ppn"), names, ill=0.12)
                text = render(t, rng)
                if rng.random() < 0.3:
                    text = rng.choice(["", " ", "\t", "  "]) + text + rng.choice(["", " ", "\t ", "\n"])
                check_parse(ctx, rng, alg, d, strict, entries, cands, bound, text, t, nd)
            for text in MALFORMED:
                entries, cands, bound = setup(rng, alg, d, n_entries=2)
                check_parse(ctx, rng, alg, d, True, entries, cands, bound, text, None, nd)
    # parse_n: the list of the individual parses, in order
    for alg in ALGS:
        for d in (4, 9):
            for _ in range(6 if quick else 40):
                entries, cands, bound = setup(rng, alg, d, n_entries=3)
                names = [n for n, _ in entries]
                trees = [gen_tree(rng, 2, "p", names) for _ in range(rng.randint(0, 3))]
                texts = [render(t, rng) for t in trees]
                v, st = make_vocab(alg, d, True, bound, entries, cands)
                status, r, _ = run_impl(lambda: v.parse_n(*texts))
                oa = OAlg(alg, d)
                wants = [o_parse(t, OVocab(oa, True, bound, entries, cands)) for t in trees]
                case = {"op": "parse_n", "alg": alg, "d": d, "texts": texts}
                ctx.count(f"parse_n {alg} {d} {enc_entries(entries)} {texts!r}", nontrivial=len(texts) > 0, branch="parse_n")
                if all(w[0] == "ptr" for w in wants):
                    if status != "ok" or len(r) != len(wants) or any(
                            not vclose(x.v, o_floats(w[1])) for x, w in zip(r, wants)):
                        ctx.fail(case, status if status != "ok" else [list(x.v) for x in r],
                                 [o_floats(w[1]) for w in wants], where="parse_n-values")


# ----------------------------------------------------------------------------------------------
# part B: populate
# ----------------------------------------------------------------------------------------------
TRANSFORMS = {"copy()": "id", "__neg__()": "neg", "__invert__()": "inv", "normalized()": "norm",
              "nosuch()": "E:attributeError", "5": "E:syntaxError", "copy(": "E:syntaxError"}


def o_transform(oa, kind):
    if kind == "id":
        return lambda c: c
    if kind == "neg":
        return oa.neg
    if kind == "inv":
        return oa.inv
    if kind == "norm":
        def nrm(c):
            nsq = sum((x.a * x.a for x in c), F(0))
            if nsq == 0:
                return c
            r = F(math.isqrt(nsq.numerator), math.isqrt(nsq.denominator))
            assert r * r == nsq
            return oa.scale(oa.q(1 / r), c)
        return nrm
    return None


def gen_items(rng, names_present, d):
    """list of (text, structure); structure = ('bare', name) | ('method', name, trtext) | ('assign', name, tree|None, exprtext)
    | ('blank',)"""
    items = []
    known = list(names_present)
    fresh = [n for n in ["E", "F1", "G_g", "H", "K", "Lm"] if n not in known]
    rng.shuffle(fresh)
    n_items = rng.randint(1, 5)
    for _ in range(n_items):
        c = rng.random()
        # white space as in the documented multi-line populate strings: blanks, tabs, newlines with indentation
        pad = lambda s: (rng.choice(["", " ", "  ", "\t", "", " ", "\n", "\n    ", " \n\t"]) + s
                         + rng.choice(["", " ", "\t", " \t", "", " ", "\n", "\n    ", " \n  "]))
        if c < 0.06:
            items.append((rng.choice(["", " ", "\t"]), ("blank",)))
            continue
        if c < 0.12:
            name = rng.choice(known + ["lower", "1A", "Zero", "A b"]) if known else "lower"   # duplicate or invalid
        elif fresh:
            name = fresh.pop()
        else:
            name = "N%d" % rng.randint(0, 99)
        c = rng.random()
        if c < 0.3:
            items.append((pad(name), ("bare", name)))
        elif c < 0.5:
            tr = rng.choice(["copy()", "__neg__()", "__invert__()", "normalized()", "normalized()", "nosuch()"]
                            + (["unitary()"] if rng.random() < 0.3 else []))
            items.append((pad(name) + "." + tr, ("method", name, tr)))
        else:
            m = rng.random()
            if m < 0.6:
                t = gen_tree(rng, rng.randint(0, 2), rng.choice("pppn"), known)
            elif m < 0.75:
                t = gen_tree(rng, rng.randint(0, 2), "n", known)
            elif m < 0.87:
                t = gen_tree(rng, rng.randint(0, 2), "p", known, unknown_rate=0.3)
            elif m < 0.94:
                t = gen_tree(rng, rng.randint(1, 2), "p", known, ill=0.3)
            else:
                t = None
            etext = render(t, rng) if t is not None else rng.choice(["A +", "= A", "", "A B"])
            items.append((pad(name) + "=" + pad(etext), ("assign", name, t, etext)))
        if valid_name(name) and name not in known:
            known.append(name)
    return items


def o_populate(oa, strict, bound, entries, cands, items):
    """-> (expected entries [(name, vec)], expected outcome, determined)
    outcome: 'ok' | 'parseError' | None (class not fixed by the property); determined False = stop comparing at this
    item (the prefix is still required)"""
    ov = OVocab(oa, strict, bound, entries, cands)
    for text, st in items:
        if st[0] == "blank":
            # '' as a name: a candidate is drawn, then add rejects the name — class not fixed by the statement
            return ov, None
        name = st[1]
        if st[0] == "assign":
            if st[2] is None:
                return ov, None          # malformed right-hand side (SyntaxError; '= A' etc.)
            want = o_parse(st[2], ov)
            if want[0] == "parseError":
                return ov, "parseError"
            if want[0] != "ptr":
                return ov, None
            value = want[1]
        else:
            tr = None
            if st[0] == "method":
                kind = TRANSFORMS.get(st[2])
                tr = o_transform(oa, kind) if kind else None
                if tr is None:
                    return ov, None      # failing transform / unitary(): outside the exact oracle
            kind, pos, p, warn = choose_candidate(oa, [v for _, v in ov.entries], ov.cands, ov.pos, 100, ov.bound, tr)
            if kind not in ("first-below", "empty"):
                return ov, None          # exhausted generator: StopIteration is what the code does
            ov.pos = pos
            value = p
        if not valid_name(name) or ov.get(name) is not None:
            return ov, None              # invalid / duplicate name: class not fixed by the statement
        ov.entries.append((name, value))
    return ov, "ok"


def check_populate(ctx, rng, alg, d, strict, entries, cands, bound, items, text, nd):
    oa = OAlg(alg, d)
    v, st = make_vocab(alg, d, strict, bound, entries, cands)
    status, r, nw = run_impl(lambda: v.populate(text))
    ents, genlen = state_of(v, st)
    case = {"op": "populate", "alg": alg, "d": d, "strict": strict, "bound": str(bound), "text": text,
            "entries": {n: [str(x) for x in vec] for n, vec in entries}, "candidates": [[str(x) for x in c] for c in cands]}
    impl_desc = {"status": status, "keys": [n for n, _ in ents]}
    ov, outcome = o_populate(oa, strict, bound, entries, cands, items)
    ctx.count(f"populate {alg} {d} {int(strict)} {bound} {enc_entries(entries)} {enc_vecs(cands)} {text!r}",
              nontrivial=len(items) >= 2 or any(s[0] == "assign" for _, s in items),
              branch="populate-" + (status if status == "ok" else "fail-" + status) + ("" if strict else "-nonstrict"))
    ctx.sample(dict(case, impl=impl_desc), limit=6)
    # the oracle's entries are required as a prefix (all of them when the outcome is determined)
    exp = ov.entries
    got_names = [n for n, _ in ents]
    if got_names[:len(exp)] != [n for n, _ in exp] or any(
            not vclose(iv, o_floats(ovv)) for (_, ovv), (_, iv) in zip(exp, ents)):
        ctx.fail(case, {"status": status, "entries": [(n, [float(x) for x in vec]) for n, vec in ents]},
                 {"entries_prefix": [(n, o_floats(vec)) for n, vec in exp]}, where="populate-store")
    elif outcome == "ok" and (status != "ok" or len(ents) != len(exp)):
        ctx.fail(case, impl_desc, {"status": "ok", "keys": [n for n, _ in exp]}, where="populate-store")
    elif outcome == "parseError" and status != "parseError":
        ctx.fail(case, impl_desc, "SpaParseError from the right-hand side", where="populate-assign-error")
    elif outcome == "parseError" and len(ents) != len(exp) and strict:
        ctx.fail(case, impl_desc, {"keys": [n for n, _ in exp]}, where="populate-prefix")
    if nd:
        return
    # tables for the model: what CPython makes of each right-hand side; the transform dictionary
    ptab, ttab, ok = {}, {}, True
    if text.strip():
        for it in text.split(";"):
            if "=" in it:
                key = it.split("=", 1)[1].strip()
                tok = text_token(key) if key.strip(" \t") == key or True else None
                # eval() itself strips blanks/tabs; str.strip() already removed all surrounding whitespace
                if tok is None:
                    ok = False
                ptab[key] = tok
            elif "." in it:
                key = it.split(".", 1)[1]
                kind = TRANSFORMS.get(key)
                if kind is None:
                    ok = False
                ttab[key] = kind
    if not ok:
        ctx.dist["populate-outside-fragment"] = ctx.dist.get("populate-outside-fragment", 0) + 1
        return
    enc_tab = lambda tab: "|".join(f"{enc_text(k)}={v}" for k, v in tab.items()) if tab else "-"

    def cb(s, payload, case=case, status=status, ents=ents, genlen=genlen, nw=nw, impl_desc=impl_desc):
        if s != "ok":
            ctx.diff(case, impl_desc, f"{s} {payload}", op="populate")
            return
        mo = parse_reply(payload, oa.m)
        if mo["status"] == "unmodelled":
            ctx.dist["populate-model-declines"] = ctx.dist.get("populate-model-declines", 0) + 1
            return
        if mo["status"] != status:
            ctx.diff(case, impl_desc, mo["status"], op="populate-status")
            return
        why = cmp_state(mo, ents, genlen, nw)
        if why:
            ctx.diff(case, dict(impl_desc, why=why, genlen=genlen, warns=nw), payload, op="populate-state")
    ctx.ask("populate", [alg, d, int(strict), common.q(bound), enc_entries(entries), enc_vecs(cands), enc_text(text),
                         enc_tab(ptab), enc_tab(ttab)], cb)


def part_populate(ctx, nd):
    rng = ctx.rng
    quick = ctx.tier == "quick"
    n_per = 70 if quick else 500
    for alg in ALGS:
        for d in (4, 9):
            # documented forms and the two repaired defects' inputs
            entries = [("A", rand_vec(rng, d, "int")), ("B", rand_vec(rng, d, "dyadic"))]
            cands = [rational_norm_vec(rng, d) for _ in range(4)]
            fixed = [
                [("C = 1", ("assign", "C", ("int", 1), "1"))],
                [("C = Q", ("assign", "C", ("name", "Q"), "Q"))],
                [("C=0.5*A+B", ("assign", "C", ("add", ("mul", ("flt", F(1, 2), "0.5"), ("name", "A")), ("name", "B")),
                                "0.5*A+B")), (" D = C * A ", ("assign", "D", ("mul", ("name", "C"), ("name", "A")), "C * A"))],
                [("C", ("bare", "C")), (" D.normalized()", ("method", "D", "normalized()")), ("", ("blank",))],
                [("C = A.dot(B)", ("assign", "C", ("dot", ("name", "A"), ("name", "B")), "A.dot(B)"))],
                [("C = A", ("assign", "C", ("name", "A"), "A")), ("E = A +", ("assign", "E", None, "A +")),
                 ("G = B", ("assign", "G", ("name", "B"), "B"))],
            ]
            for items in fixed:
                for strict in (True, False):
                    check_populate(ctx, rng, alg, d, strict, entries, cands, F(8), items,
                                   ";".join(t for t, _ in items), nd)
            for text in ["", "  ", "\t", ";", " ; "]:
                check_populate(ctx, rng, alg, d, True, entries, cands, F(8),
                               [] if not text.strip() else [("", ("blank",))], text, nd)
            for i in range(n_per):
                n_e = rng.choice([0, 1, 2, 3])
                entries = [(n, rand_vec(rng, d)) for n in NAMES[:n_e]]
                items = gen_items(rng, [n for n, _ in entries], d)
                exact_norm = any(st[0] == "method" and st[2] == "normalized()" for _, st in items)
                cands = [rational_norm_vec(rng, d) if exact_norm or rng.random() < 0.6 else rand_vec(rng, d, "dyadic")
                         for _ in range(rng.randint(0, 12))]
                bound = rng.choice([F(1, 8), F(1, 2), F(8), F(8), F(100), F(-1)])
                strict = rng.random() < 0.75
                text = ";".join(t for t, _ in items)
                if rng.random() < 0.1:
                    text += ";"
                    items = items + [("", ("blank",))]
                check_populate(ctx, rng, alg, d, strict, entries, cands, bound, items, text, nd)


# ----------------------------------------------------------------------------------------------
# part C: create_pointer on scripted streams
# ----------------------------------------------------------------------------------------------
def stream_for(rng, d, sims, n_entries):
    """candidates whose maximum similarity to the entries e_0 … e_{k-1} (unit vectors) is the given value: the
    maximum sits at a random entry, the other components are lower"""
    cands = []
    for s in sims:
        c = [F(rng.randint(-8, 8), 8) for _ in range(d)]
        for j in range(n_entries):
            c[j] = s - F(rng.randint(0, 6), 8)
        c[rng.randrange(n_entries)] = s
        cands.append(c)
    return cands


def check_create(ctx, rng, alg, d, entries, cands, bound, attempts, trtext, nd, label):
    oa = OAlg(alg, d)
    v, st = make_vocab(alg, d, True, bound, entries, cands)
    kw = {} if trtext is None else {"transform": trtext}
    status, r, nw = run_impl(lambda: v.create_pointer(attempts=attempts, **kw))
    ents, genlen = state_of(v, st)
    case = {"op": "create_pointer", "alg": alg, "d": d, "bound": str(bound), "attempts": attempts, "transform": trtext,
            "entries": {n: [str(x) for x in vec] for n, vec in entries}, "candidates": [[str(x) for x in c] for c in cands]}
    impl_desc = {"status": status, "returned": None if status != "ok" or r is None else [float(x) for x in r.v],
                 "warnings": nw, "consumed": len(cands) - genlen}
    kindname = TRANSFORMS.get(trtext, None) if trtext is not None else "id"
    tr = o_transform(oa, kindname) if kindname else None
    if trtext is not None and tr is None:
        okind = "transform"
    else:
        okind, pos, p, warn = choose_candidate(oa, [oa.vec(x) for _, x in entries], [oa.vec(c) for c in cands], 0,
                                               attempts, bound, tr if trtext is not None else None)
    ctx.count(f"create {alg} {d} {bound} {attempts} {trtext} {enc_entries(entries)} {enc_vecs(cands)}",
              nontrivial=len(cands) >= 1 or attempts == 0, branch=f"create-{okind}" + ("" if trtext is None else "-tr"))
    ctx.sample(dict(case, impl=impl_desc), limit=8)
    if okind in ("first-below", "least", "empty"):
        exact = o_floats(p)
        if status != "ok" or r is None or not vclose(r.v, exact):
            ctx.fail(dict(case, clause=okind), impl_desc, {"returned": exact, "warning": warn},
                     where="create-pointer-choice")
        elif (nw > 0) != warn:
            ctx.fail(dict(case, clause=okind), impl_desc, {"returned": exact, "warning": warn},
                     where="create-pointer-warning")
        elif len(cands) - genlen != pos:
            ctx.fail(dict(case, clause=okind), impl_desc, {"consumed": pos}, where="create-pointer-consumed")
        elif r.vocab is not v:
            ctx.fail(case, "vocab is not the vocabulary", "a pointer of this vocabulary", where="create-pointer-owner")
    elif okind == "zero":
        # the docstring promises nothing for 0 attempts; the statement: least similar of none -> nothing + warning
        if status == "ok" and (r is not None or nw == 0):
            ctx.fail(dict(case, clause="zero"), impl_desc, {"returned": None, "warning": True},
                     where="create-pointer-zero")
    if len(ents) != len(entries):
        ctx.fail(case, [n for n, _ in ents], "create_pointer must not add entries", where="create-pointer-adds")
    if nd or (trtext is not None and kindname is None):
        return

    def cb(s, payload, case=case, status=status, r=r, genlen=genlen, nw=nw, impl_desc=impl_desc):
        if s != "ok":
            ctx.diff(case, impl_desc, f"{s} {payload}", op="create")
            return
        mo = parse_reply(payload, oa.m)
        if mo["status"] != status:
            ctx.diff(case, impl_desc, mo["status"], op="create-status")
        elif status == "ok" and (r is None) != bool(mo.get("none")):
            ctx.diff(case, impl_desc, payload, op="create-none")
        elif status == "ok" and r is not None and not vclose(r.v, mo["value"]):
            ctx.diff(case, impl_desc, mo["value"], op="create-choice")
        elif mo["genlen"] != genlen or mo["warns"] != nw:
            ctx.diff(case, impl_desc, payload, op="create-state")
    ctx.ask("create", [alg, d, common.q(bound), enc_entries(entries), enc_vecs(cands), attempts,
                       kindname if trtext is not None else "id"], cb)


def part_create(ctx, nd):
    rng = ctx.rng
    quick = ctx.tier == "quick"
    SIMS = [F(1, 2), F(3, 8), F(1, 4), F(1, 8), F(5, 8), F(1, 4), F(3, 4)]     # all >= bound 1/8 … with ties
    for alg in ALGS:
        for d in (4, 9):
            n_e = 2
            unit = lambda j: [F(1) if i == j else F(0) for i in range(d)]
            entries = [(NAMES[j], unit(j)) for j in range(n_e)]
            lens = range(0, 13)
            for L in lens:
                atts = range(0, 13) if (not quick or L % 3 == 0 or L == 12) else [0, 1, L, L + 1 if L < 12 else 12, 12]
                for attempts in sorted(set(atts)):
                    # no qualifying candidate, with ties among the least similar ones
                    sims = [rng.choice(SIMS) for _ in range(L)]
                    bound = F(1, 8)
                    check_create(ctx, rng, alg, d, entries, stream_for(rng, d, sims, n_e), bound, attempts, None, nd, "none")
                    # the first qualifying candidate at position q (every position for small L, sampled in quick)
                    qs = range(L) if (not quick or L <= 4) else sorted({0, L - 1, rng.randrange(L)})
                    for qpos in qs:
                        sims = [rng.choice(SIMS) for _ in range(L)]
                        sims[qpos] = rng.choice([F(0), F(-1, 4), F(1, 16)])
                        for j in range(qpos + 1, L):       # later candidates may qualify too
                            if rng.random() < 0.3:
                                sims[j] = F(-1, 2)
                        check_create(ctx, rng, alg, d, entries, stream_for(rng, d, sims, n_e), bound, attempts, None, nd, "q")
            # bounds, empty vocabulary, random vectors, transforms
            for _ in range(40 if quick else 400):
                n_e2 = rng.choice([0, 1, 2, 3])
                ents = [(NAMES[j], rand_vec(rng, d)) for j in range(n_e2)]
                L = rng.randint(0, 12)
                trtext = rng.choice([None, None, "copy()", "__neg__()", "__invert__()", "normalized()", "nosuch()", "5"])
                cands = [rational_norm_vec(rng, d) if trtext == "normalized()" or rng.random() < 0.5
                         else rand_vec(rng, d, "dyadic") for _ in range(L)]
                bound = rng.choice([F(1, 8), F(1, 4), F(0), F(-1), F(8), F(1, 2), F(-1, 4)])
                check_create(ctx, rng, alg, d, ents, cands, bound, rng.randint(0, 12), trtext, nd, "rand")


def run(ctx):
    warnings.simplefilter("ignore")
    nd = getattr(ctx, "no_driver", False)
    part_create(ctx, nd)
    part_parse(ctx, nd)
    part_populate(ctx, nd)
    if not nd:
        ctx.flush(DRIVER)
    ctx.extra["algebras"] = list(ALGS)
    ctx.extra["dimensions"] = [4, 9]

"""C05 — binding networks bind; unbind options recover the bound operand.

Tie: the real networks returned by each algebra's `implement_binding`, the `spa.Bind` module inside a
`spa.Network`, and `MatrixMult`, built with Direct ensembles (config set on the enclosing network
BEFORE construction), every synapse removed after construction, driven by ONE time-multiplexed
`nengo.Node` per input so that many input pairs are evaluated in one simulation (pipeline delay
measured with a calibration pair, not assumed).  Compared with the Lean model `C05.*.Impl`
executed exactly by drivers/C05.lean (ℚ for MatrixMult / HRR, ℚ(√m) for VTB/TVTB).

Oracle (independent of the model, elementary formulas with Python integers / `fractions`):
  * default flags: output on every basis pair = the published binding formula;
  * unbind_right: inputs (bind(y, x), x) give y, unbind_left: inputs (x, bind(x, y)) give y, for a
    numerically verified spanning set of >= d exactly-unitary x and every basis y;
  * a non-unitary x is NOT recovered for every basis y;
  * additivity / homogeneity probes in each input;
  * MatrixMult output on basis pairs = the integer matrix product.
Bilinearity + these finitely many cases determine each map on all inputs (Lean: `IsBilin.ext_basis`).

HRR: the DFT coefficients are irrational, so the driver receives the table `dft_half(d)` of the implementation
(exact transport of its floats) and the layout of the three transforms around ANY table is compared exactly.
That the network with the REAL table `cos(2πwx/d) − i·sin(2πwx/d)` is circular convolution (resp. the unbind
forms) for EVERY d and all inputs is a Lean theorem (`Props/C05S.lean: Hrr.net_real_eq_spec`, from the
half-spectrum cosine sum `Spectral.sum_cos_half`).  The tie of that table to the code is the entry-wise check
`dft_half(d)[w, x] = (cos, −sin)(2π·(w·x mod d)/d)` at 1e-12 (op `hrr-real-table`).  The per-d coefficient table
`Σ_c out[k,c]·A[c,i]·B[c,j] = [k = ±i ± j mod d]` computed numerically from the transforms read back from the
built connections stays as the property oracle on the implementation (it is what exhibits a failing input).
"""
import math
import warnings

import numpy as np

import common
from common import Fraction as F

import nengo
import nengo_spa as spa
from nengo_spa.algebras import HrrAlgebra, TvtbAlgebra, VtbAlgebra
from nengo_spa.networks.matrix_multiplication import MatrixMult
from nengo_spa.networks import circularconvolution as cc
from nengo_spa.networks import vtb as vtbnet
from nengo_spa.networks import tvtb as tvtbnet

PROPERTY = "C05"
LEAN_MODULES = ["SpaModel.Props.C05", "SpaModel.Props.C05S", "SpaModel.Spectral.CosSum"]
AUDIT = "SpaModel/Audit/C05.lean"
DRIVER = "drivers/C05.lean"
RULE = ("per algebra, dimensionality d and accepted flag combination: all d*d basis pairs, >= d exactly-unitary x "
        "(rank-checked spanning set) x all basis y for each unbind flag, non-unitary x, 6 random bilinearity probes, "
        "through implement_binding (all) and through spa.Bind inside spa.Network (sampled); MatrixMult: every shape "
        "of the tier on all basis pairs; structural read-back of every transform matrix and of the VTB/TVTB routing; "
        "rejections.  non-trivial = both operands non-zero; distinct by (builder, alg, d, flags, kind, operand tokens)")
ASSUMPTIONS = [
    "Nengo builder/simulator: a connection with transform T adds T*x, Direct ensembles compute their function exactly, "
    "pass-through nodes add their inputs (trusted; all synapses removed, pipeline delay measured per simulation)",
    "IEEE rounding: outputs compared at 1e-9 relative to the operand norms; HRR coefficient table at 1e-12",
    "HRR: the all-d theorem Hrr.net_real_eq_spec is about the real table (cos, -sin)(2*pi*w*x/d); the implementation's "
    "dft_half(d) is compared with it entry-wise at 1e-12 (np.exp / IEEE rounding trusted below that)",
]

ALGS = {"hrr": HrrAlgebra(), "vtb": VtbAlgebra(), "tvtb": TvtbAlgebra()}
DT = 0.001
CHUNK = 40


# ------------------------------------------------------------------------------------------------
# simulation of many input pairs in one run
# ------------------------------------------------------------------------------------------------
FILTERS = []


def simulate(make, pairs, dl, dr, root=nengo.Network):
    """`make()` (called inside the root network, Direct config already set) returns
    (input_left, input_right, output).  Returns (outputs per pair, measured delay)."""
    pad = 4
    calib = (np.full(dl, 0.75), np.full(dr, 1.25))
    seq = [calib] + [(np.zeros(dl), np.zeros(dr))] * (pad - 1) + list(pairs) + [(np.zeros(dl), np.zeros(dr))] * pad
    A = np.array([p[0] for p in seq], dtype=float).reshape(len(seq), dl)
    B = np.array([p[1] for p in seq], dtype=float).reshape(len(seq), dr)
    n = len(seq)
    with root(seed=1) as model:
        model.config[nengo.Ensemble].neuron_type = nengo.Direct()
        il, ir, out = make()
        na = nengo.Node(lambda t: A[min(int(round(t / DT)) - 1, n - 1)], size_out=dl)
        nb = nengo.Node(lambda t: B[min(int(round(t / DT)) - 1, n - 1)], size_out=dr)
        nengo.Connection(na, il, synapse=None)
        nengo.Connection(nb, ir, synapse=None)
        pr = nengo.Probe(out, synapse=None)
    # "a map of its two inputs": with ideal neurons any filter inside the network would make the output depend on
    # earlier inputs.  The filters found are reported by the caller (FILTERS), then removed for the value comparison.
    del FILTERS[:]
    for c in model.all_connections:
        if c.synapse is not None:
            FILTERS.append(f"{c.pre} -> {c.post} ({c.synapse})"[:120])
        c.synapse = None
    with nengo.Simulator(model, dt=DT, progress_bar=False) as sim:
        sim.run_steps(n)
    Y = np.array(sim.data[pr])
    delay = None
    for k in range(pad):
        if np.abs(Y[k]).max() > 1e-12:
            delay = k
            break
    if delay is None:
        return None, None
    return Y[pad + delay: pad + delay + len(pairs)], delay


# ------------------------------------------------------------------------------------------------
# independent oracle
# ------------------------------------------------------------------------------------------------
def o_bind(alg, a, b):
    """published binding formula on exact numbers; VTB/TVTB WITHOUT the sqrt(m) factor"""
    d = len(a)
    if alg == "hrr":
        return [sum(a[j] * b[(i - j) % d] for j in range(d) if a[j]) for i in range(d)]
    m = math.isqrt(d)
    out = []
    for i in range(m):
        for j in range(m):
            if alg == "vtb":
                out.append(sum(b[j * m + k] * a[i * m + k] for k in range(m)))
            else:
                out.append(sum(b[k * m + j] * a[i * m + k] for k in range(m)))
    return out


def o_inv(alg, v):
    d = len(v)
    if alg == "hrr":
        return [v[(-i) % d] for i in range(d)]
    m = math.isqrt(d)
    return [v[(k % m) * m + k // m] for k in range(d)]


def basis(d):
    return [[1 if i == k else 0 for i in range(d)] for k in range(d)]


def unitary_set(ctx, alg, d):
    """>= d exactly unitary vectors as (exact description, float vector, driver token).
    HRR: +-e_k.  VTB/TVTB: signed permutation matrices / sqrt(m) (entries 0, +-1/sqrt(m); in Q(sqrt m):
    0~+-1/m).  The set is topped up until it spans R^d (rank check)."""
    out = []
    if alg == "hrr":
        for k in range(d):
            sg = 1 if k % 3 else -1
            v = [sg if i == k else 0 for i in range(d)]
            out.append((v, np.array(v, dtype=float), common.qvec(v)))
        return out
    m = math.isqrt(d)
    mats = []

    def add(perm, signs):
        P = [[0] * m for _ in range(m)]
        for r in range(m):
            P[r][perm[r]] = signs[r]
        flat = [P[r][c] for r in range(m) for c in range(m)]
        mats.append(flat)
        tok = ",".join("0" if e == 0 else f"0~{e}/{m}" for e in flat)
        out.append(([F(e) for e in flat], np.array(flat, dtype=float) / math.sqrt(m), tok))
    add(list(range(m)), [1] * m)
    guard = 0
    while (len(out) < d or np.linalg.matrix_rank(np.array(mats, dtype=float)) < d) and guard < 20 * d + 50:
        guard += 1
        perm = list(range(m))
        ctx.rng.shuffle(perm)
        add(perm, [ctx.rng.choice((1, -1)) for _ in range(m)])
    return out


def dims(alg, tier):
    if alg == "hrr":
        return list(range(1, 17)) if tier == "quick" else list(range(1, 33))
    return [1, 4, 9, 16] if tier == "quick" else [1, 4, 9, 16, 25, 36]


def flag_combos(alg):
    return [(0, 0), (0, 1), (1, 0)] + ([(1, 1)] if alg == "hrr" else [])


def fl(v):
    return np.array([float(x) for x in v], dtype=float)


# ------------------------------------------------------------------------------------------------
# one (builder, algebra, d, flags) configuration
# ------------------------------------------------------------------------------------------------
def make_cases(ctx, alg, d, ul, ur, full):
    """list of (kind, left_float, right_float, left_tok, right_tok, extra)"""
    m = math.isqrt(d)
    bs = basis(d)
    cases = []
    pairs = [(i, j) for i in range(d) for j in range(d)]
    if not full and len(pairs) > 3 * d + 6:
        pairs = ctx.rng.sample(pairs, 3 * d + 6)
    for i, j in pairs:
        cases.append(("basis", fl(bs[i]), fl(bs[j]), common.qvec(bs[i]), common.qvec(bs[j]), (i, j)))
    # recovery on unitary x
    if (ul, ur) in ((0, 1), (1, 0)):
        us = unitary_set(ctx, alg, d)
        if not full:
            us = us[:3]
        sfac = 1 if alg == "hrr" else m      # bind of the exact vectors carries sqrt(m)*(1/sqrt(m)) = 1
        for (xe, xf, xtok) in us:
            ys = range(d) if full else ctx.rng.sample(range(d), min(d, 4))
            for yi in ys:
                y = bs[yi]
                if ur:   # (bind(y, x), x) -> y
                    bound = o_bind(alg, [F(v) for v in y], xe)
                    cases.append(("rec-right", fl(bound), xf, common.qvec(bound), xtok, yi))
                else:    # (x, bind(x, y)) -> y
                    bound = o_bind(alg, xe, [F(v) for v in y])
                    cases.append(("rec-left", xf, fl(bound), xtok, common.qvec(bound), yi))
        # a non-unitary x: scaled / perturbed
        xe = [F(2)] + [F(0)] * (d - 1) if d > 1 else [F(2)]
        if alg != "hrr":
            xe = [F(3 if (k // m == k % m) else (1 if k == 1 else 0)) for k in range(d)]
        for yi in range(d):
            y = bs[yi]
            if ur:
                bound = o_bind(alg, [F(v) for v in y], xe)
                bf = fl(bound) * (1.0 if alg == "hrr" else math.sqrt(m))
                btok = common.qvec(bound) if alg == "hrr" else ",".join(f"0~{common.q(b)}" for b in bound)
                cases.append(("nonunit-right", bf, fl(xe), btok, common.qvec(xe), yi))
            else:
                bound = o_bind(alg, xe, [F(v) for v in y])
                bf = fl(bound) * (1.0 if alg == "hrr" else math.sqrt(m))
                btok = common.qvec(bound) if alg == "hrr" else ",".join(f"0~{common.q(b)}" for b in bound)
                cases.append(("nonunit-left", fl(xe), bf, common.qvec(xe), btok, yi))
    # bilinearity probes
    r = ctx.rng
    for gid in range(2 if full else 1):
        a = fl([F(r.randint(-8, 8), 4) for _ in range(d)])
        a2 = fl([F(r.randint(-8, 8), 8) for _ in range(d)])
        b = fl([F(r.randint(-8, 8), 4) for _ in range(d)])
        b2 = fl([F(r.randint(-8, 8), 8) for _ in range(d)])
        c = float(F(r.choice([-7, -3, 3, 5, 9]), 4))
        grp = [("p-ab", a, b), ("p-a2b", a2, b), ("p-sum-l", a + a2, b), ("p-scale-l", c * a, b),
               ("p-ab2", a, b2), ("p-sum-r", a, b + b2), ("p-scale-r", a, c * b)]
        for kind, x, y in grp:
            cases.append((kind, x, y, common.qvec(x), common.qvec(y), (gid, c)))
    return cases


def check_config(ctx, builder, alg, d, ul, ur, full, model_budget):
    A = ALGS[alg]
    m = math.isqrt(d)
    sq = 1.0 if alg == "hrr" else math.sqrt(m)
    tag = f"{builder}:{alg}:{d}:{ul}{ur}"
    cases = make_cases(ctx, alg, d, ul, ur, full)

    base = {"builder": builder, "alg": alg, "d": d, "unbind_left": ul, "unbind_right": ur}
    try:
        if builder == "impl":
            def make():
                net, (il, ir), out = A.implement_binding(20, d, bool(ul), bool(ur))
                return il, ir, out
            Y, delay = simulate(make, [(c[1], c[2]) for c in cases], d, d)
        else:
            vocab = spa.Vocabulary(d, algebra=A, pointer_gen=np.random.RandomState(ctx.rng.randrange(2 ** 31)))

            def make():
                b = spa.Bind(vocab, unbind_left=bool(ul), unbind_right=bool(ur))
                return b.input_left, b.input_right, b.output
            Y, delay = simulate(make, [(c[1], c[2]) for c in cases], d, d, root=spa.Network)
    except Exception as e:      # an accepted configuration must build and run
        ctx.count(f"{tag} raises", branch="net-raises")
        ctx.fail(dict(base, op="build-and-run"), f"{type(e).__name__}: {str(e)[:200]}",
                 "the binding network of an accepted configuration builds and runs", where=f"net-raises-{alg}")
        return
    if FILTERS:
        ctx.fail(dict(base, op="memoryless"), FILTERS[:3], "no filtered connection between the inputs and the output: "
                 "with ideal neurons the network is a map of its two CURRENT inputs", where=f"net-not-memoryless-{alg}")
    if Y is None:
        ctx.fail(dict(base, op="calibration"), "all-zero output for a positive calibration pair",
                 "non-zero (binding of positive vectors)", where=f"net-dead-{alg}")
        return
    ctx.extra.setdefault("pipeline_delay_steps", {})[f"{builder}:{alg}"] = delay

    probes = {}
    nonunit_ok = {}
    for idx, (kind, xl, xr, tl, tr, extra) in enumerate(cases):
        y = Y[idx]
        case = dict(base, kind=kind, left=tl, right=tr)
        nontriv = bool(np.any(xl) and np.any(xr))
        ctx.count(f"{tag} {kind} {tl} {tr}", nontrivial=nontriv, branch=f"{builder}-{alg}-{ul}{ur}-{kind.split('-')[0]}")
        if idx % 97 == 0:
            ctx.sample({k: (v if not isinstance(v, str) else v[:48]) for k, v in case.items()}, limit=6)
        sc = float(np.linalg.norm(xl) * np.linalg.norm(xr)) * sq
        # ---- oracle ----------------------------------------------------------------------------
        if kind == "basis" and (ul, ur) == (0, 0):
            want = [float(w) * sq for w in o_bind(alg, [int(v) for v in xl], [int(v) for v in xr])]
            if not common.vec_close(y, want, sc):
                ctx.fail(case, [float(v) for v in y][:16], want[:16], where=f"bind-net-{alg}")
        elif kind in ("rec-right", "rec-left"):
            want = [1.0 if i == extra else 0.0 for i in range(d)]
            if not common.vec_close(y, want, max(1.0, sc)):
                ctx.fail(dict(case, y_index=extra), [float(v) for v in y][:16], want[:16],
                         where=f"unbind-{'right' if ur else 'left'}-{alg}")
        elif kind.startswith("nonunit"):
            want = np.array([1.0 if i == extra else 0.0 for i in range(d)])
            nonunit_ok.setdefault(kind, []).append(bool(np.abs(y - want).max() <= 1e-6))
        elif kind.startswith("p-"):
            probes.setdefault(extra[0], {})[kind] = (y, xl, xr, extra[1], case)
        # ---- model -----------------------------------------------------------------------------
        cases[idx] = cases[idx] + (y, sc)
    for kind, oks in nonunit_ok.items():
        if all(oks):
            ctx.fail(dict(base, kind=kind), "every basis y recovered although x is not unitary",
                     "recovery exactly for unitary x", where=f"unbind-nonunitary-{alg}")
    for g in probes.values():
        if len(g) != 7:
            continue
        c = g["p-ab"][3]
        sc = float((np.linalg.norm(g["p-ab"][1]) + np.linalg.norm(g["p-a2b"][1])) *
                   (np.linalg.norm(g["p-ab"][2]) + np.linalg.norm(g["p-ab2"][2])) * (abs(c) + 1)) * sq
        laws = [("add-left", g["p-sum-l"][0], g["p-ab"][0] + g["p-a2b"][0]),
                ("smul-left", g["p-scale-l"][0], c * g["p-ab"][0]),
                ("add-right", g["p-sum-r"][0], g["p-ab"][0] + g["p-ab2"][0]),
                ("smul-right", g["p-scale-r"][0], c * g["p-ab"][0])]
        for name, l, r in laws:
            ctx.count(f"{tag} law {name} {g['p-ab'][4]['left'][:40]}", branch=f"law-{name}")
            if not np.allclose(l, r, rtol=0, atol=1e-9 * max(1.0, sc)):
                ctx.fail(dict(base, law=name, a=g["p-ab"][4]["left"], b=g["p-ab"][4]["right"], c=c),
                         [float(v) for v in l][:8], [float(v) for v in r][:8], where=f"bilinear-{name}-{alg}")
    return cases, base


# ------------------------------------------------------------------------------------------------
# model side
# ------------------------------------------------------------------------------------------------
def pick_cases(ctx, cases, budget):
    sel = list(range(len(cases)))
    if budget is None or len(sel) <= budget:
        return sel
    other = [i for i in sel if cases[i][0] != "basis"]
    bas = [i for i in sel if cases[i][0] == "basis"]
    if len(other) > budget // 2:
        other = ctx.rng.sample(other, budget // 2)
    bas = ctx.rng.sample(bas, min(len(bas), budget - len(other)))
    return sorted(bas + other)


def ask_model(ctx, alg, d, ul, ur, cases, base, table_tok, budget, bind_budget):
    """path-faithful model (vnet / hnet) on (a sample of) the cases + the shared exact `bind`"""
    m = math.isqrt(d)
    sel = pick_cases(ctx, cases, budget)
    for s0 in range(0, len(sel), CHUNK):
        chunk = sel[s0:s0 + CHUNK]
        ptok = ";".join(f"{cases[i][3]}|{cases[i][4]}" for i in chunk)

        def cb(st, payload, chunk=chunk):
            if st != "ok":
                ctx.diff(dict(base, op="net"), "values", f"{st} {payload[:100]}", op="net-model")
                return
            vs = payload.split(";")
            for i, tok in zip(chunk, vs):
                r = [common.qs_float(p, m) for p in common.parse_qsvec(tok)]
                y, sc = cases[i][6], cases[i][7]
                if not common.vec_close(y, r, max(1.0, sc)):
                    ctx.diff(dict(base, kind=cases[i][0], left=cases[i][3], right=cases[i][4]),
                             [float(v) for v in y][:12], r[:12], op=f"net-model-{alg}")
                    return
        if alg == "hrr":
            ctx.ask("hnet", [d, ul, ur, table_tok[0], table_tok[1], ptok], cb)
        else:
            ctx.ask("vnet", [alg, d, ul, ur, ptok], cb)
    # the algebra's own exact bind (AlgProto) on basis pairs: bind(l', r') with the inversions of the flags
    bsel = [i for i in range(len(cases)) if cases[i][0] == "basis"]
    if bind_budget is not None and len(bsel) > bind_budget:
        bsel = ctx.rng.sample(bsel, bind_budget)
    for i in bsel:
        kind, xl, xr, tl, tr, extra, y, sc = cases[i]
        a = [int(v) for v in xl]
        b = [int(v) for v in xr]
        if alg == "hrr":
            l2, r2 = (o_inv(alg, a) if ul else a), (o_inv(alg, b) if ur else b)
        elif alg == "vtb":
            l2, r2 = (o_inv(alg, b), o_inv(alg, a)) if ul else (a, o_inv(alg, b) if ur else b)
        else:
            l2, r2 = (o_inv(alg, a) if ul else a), (o_inv(alg, b) if ur else b)

        def cb2(st, payload, y=y, sc=sc, tl=tl, tr=tr):
            r = [common.qs_float(p, m) for p in common.parse_qsvec(payload)] if st == "ok" else None
            if r is None or not common.vec_close(y, r, max(1.0, sc)):
                ctx.diff(dict(base, kind="basis-vs-algebra-bind", left=tl, right=tr),
                         [float(v) for v in y][:12], (r or [st])[:12], op=f"net-vs-bind-{alg}")
        ctx.ask("bind", [alg, common.qvec(l2), common.qvec(r2)], cb2)


# ------------------------------------------------------------------------------------------------
# structural read-back
# ------------------------------------------------------------------------------------------------
def mat_tok(M):
    return ";".join(common.qvec(row) for row in np.atleast_2d(M))


def parse_mat(tok):
    return np.array([[float(x) for x in common.parse_qvec(r)] for r in tok.split(";")], dtype=float)


def tr_of(conn):
    t = conn.transform
    if type(t).__name__ == "NoTransform":
        return None
    init = np.array(t.init, dtype=float)
    if init.ndim == 0:
        return None if float(init) == 1.0 else init
    return init


def readback_block(ctx, alg, d, ul, ur):
    A = ALGS[alg]
    with nengo.Network() as model:
        net, _, _ = A.implement_binding(10, d, bool(ul), bool(ur))
    role = {}
    for c in net.connections:
        if c.post_obj in (net.mat, net.vec) and c.pre_obj in (net.input_left, net.input_right):
            role["mat" if c.post_obj is net.mat else "vec"] = ("L" if c.pre_obj is net.input_left else "R", tr_of(c))
    mml, scales, slices_ok = [], [], True
    for i, mm in enumerate(net.matmuls):
        for c in net.connections:
            if c.post_obj is mm.input_left:
                mml.append(tr_of(c))
                slices_ok &= c.pre_obj is net.mat
            if c.post_obj is mm.input_right:
                slices_ok &= c.pre_obj is net.vec and c.pre_slice == slice(i * len(net.matmuls), (i + 1) * len(net.matmuls))
            if c.pre_obj is mm.output:
                slices_ok &= c.post_slice == slice(i * len(net.matmuls), (i + 1) * len(net.matmuls))
                scales.append(float(np.array(c.transform.init)))
    base = {"op": "route", "alg": alg, "d": d, "unbind_left": ul, "unbind_right": ur}
    ctx.count(f"route {alg} {d} {ul}{ur}", branch="readback-route")
    m = math.isqrt(d)
    if not slices_ok or len(scales) != m or any(abs(s - math.sqrt(m)) > 1e-12 for s in scales):
        ctx.diff(base, f"slices_ok={slices_ok} scales={scales[:3]}", "block i: vec[i*m:(i+1)*m] -> out slice, sqrt(m)", op="route-blocks")

    def cb(st, payload):
        if st != "ok":
            ctx.diff(base, "built", f"{st} {payload}", op="route")
            return
        parts = payload.split("|")
        got = {}
        for p in parts[:2]:
            name, src, mt = p.split(":")
            got[name] = (src, None if mt == "I" else parse_mat(mt))
        mm_model = None if parts[2] == "mml:I" else parse_mat(parts[2][4:])
        for name in ("mat", "vec"):
            if name not in role or role[name][0] != got[name][0] or not same(role[name][1], got[name][1]):
                ctx.diff(dict(base, node=name), f"{role.get(name, ('?',))[0]}", got[name][0], op="route")
        if any(not same(t, mm_model) for t in mml) or len(mml) != m:
            ctx.diff(dict(base, node="mm.input_left"), "transform differs", "model", op="route")
    ctx.ask("route", [alg, d, ul, ur], cb)


def same(a, b):
    if a is None or b is None:
        return a is None and b is None
    return a.shape == b.shape and np.array_equal(a, b)


def hrr_tables(d):
    dft = cc.dft_half(d)
    return mat_tok(dft.real), mat_tok(dft.imag)


def check_real_table(ctx, d):
    """tie of `C05.Hrr.realTbl d` (the table of the all-d theorem) to `dft_half(d)` of the code"""
    dft = np.asarray(cc.dft_half(d))
    base = {"op": "hrr-real-table", "d": d}
    ctx.count(f"hrr-real-table {d}", branch="hrr-real-table")
    if dft.shape != (d // 2 + 1, d):
        ctx.diff(base, list(dft.shape), [d // 2 + 1, d], op="hrr-real-table")
        return
    worst = 0.0
    for w in range(d // 2 + 1):
        for x in range(d):
            ang = 2.0 * math.pi * ((w * x) % d) / d
            worst = max(worst, abs(dft[w, x].real - math.cos(ang)), abs(dft[w, x].imag + math.sin(ang)))
    ctx.extra.setdefault("hrr_real_table_max_err", {})[str(d)] = worst
    if worst > 1e-12:
        ctx.diff(base, worst, "dft_half(d)[w,x] = cos(2*pi*w*x/d) - i sin(2*pi*w*x/d) within 1e-12", op="hrr-real-table")


def readback_hrr(ctx, d, ia, ib, table_tok):
    """transforms of the built CircularConvolution: layout vs model (exact table in, 1e-12), and the finite
    coefficient table  sum_c out[k,c] A[c,i] B[c,j] = [k == +-i +-j mod d]  (numerical certificate, 1e-12)"""
    with nengo.Network():
        net, _, _ = ALGS["hrr"].implement_binding(10, d, bool(ia), bool(ib))
    TA = TB = TO = None
    for c in net.connections:
        if c.pre_obj is net.input_a:
            TA = np.array(c.transform.init)
        elif c.pre_obj is net.input_b:
            TB = np.array(c.transform.init)
        elif c.post_obj is net.output:
            TO = np.array(c.transform.init)
    base = {"op": "hrr-table", "d": d, "invert_a": ia, "invert_b": ib}
    ctx.count(f"hrr-table {d} {ia}{ib}", branch="hrr-coefficient-table")
    coef = np.einsum("kc,ci,cj->kij", TO, TA, TB)
    want = np.zeros((d, d, d))
    for i in range(d):
        for j in range(d):
            want[((-i if ia else i) + (-j if ib else j)) % d, i, j] = 1.0
    err = float(np.abs(coef - want).max())
    ctx.extra.setdefault("hrr_coefficient_table_max_err", {})[f"{d}:{ia}{ib}"] = err
    if err > 1e-12 * max(1, d) and (ia, ib) != (1, 1):
        k, i, j = np.unravel_index(np.abs(coef - want).argmax(), coef.shape)
        ctx.fail(dict(base, k=int(k), i=int(i), j=int(j)), float(coef[k, i, j]), float(want[k, i, j]),
                 where="hrr-coefficient-table")
    elif err > 1e-12 * max(1, d):
        ctx.diff(base, err, "bind(inv a, inv b) table", op="hrr-coefficient-table-both")

    def cb(st, payload):
        if st != "ok":
            ctx.diff(base, "transforms", f"{st} {payload[:80]}", op="hrrtr")
            return
        MA, MB, MO = [parse_mat(p) for p in payload.split("|")]
        for name, real, mod in (("tr_a", TA, MA), ("tr_b", TB, MB), ("tr_out", TO, MO)):
            if real.shape != mod.shape or np.abs(real - mod).max() > 1e-12:
                ctx.diff(dict(base, transform=name), "real transform", "model layout differs", op="hrrtr")
    ctx.ask("hrrtr", [d, ia, ib, table_tok[0], table_tok[1]], cb)


def readback_perm(ctx, d):
    for kind, fn in (("inv", vtbnet.inversion_matrix), ("swap", vtbnet.swapping_matrix), ("inv-tvtb", tvtbnet.inversion_matrix)):
        M = fn(d)
        ctx.count(f"perm {kind} {d}", branch="readback-perm")
        m = math.isqrt(d)
        T = np.zeros((d, d))
        for a in range(m):
            for b in range(m):
                T[a * m + b, b * m + a] = 1.0
        if not np.array_equal(M, T):
            # the transposition is what the recovery laws need; report through the model comparison
            ctx.diff({"op": "perm", "kind": kind, "d": d}, "matrix", "not the transposition", op="perm-transposition")

        def cb(st, payload, M=M, kind=kind):
            if st != "ok" or not np.array_equal(parse_mat(payload), M):
                ctx.diff({"op": "perm", "kind": kind, "d": d}, "matrix", f"{st}", op="perm")
        ctx.ask("perm", [kind.split("-")[0], d], cb)


# ------------------------------------------------------------------------------------------------
# MatrixMult
# ------------------------------------------------------------------------------------------------
def check_matmult(ctx, D1, D2, D3, max_pairs):
    nl, nr = D1 * D2, D2 * D3
    pairs = [(i, j) for i in range(nl) for j in range(nr)]
    if len(pairs) > max_pairs:
        pairs = ctx.rng.sample(pairs, max_pairs)
    bl, br = basis(nl), basis(nr)
    extra = [(fl([F(ctx.rng.randint(-6, 6), 2) for _ in range(nl)]), fl([F(ctx.rng.randint(-6, 6), 4) for _ in range(nr)]))
             for _ in range(2)]
    ins = [(fl(bl[i]), fl(br[j])) for i, j in pairs] + extra
    holder = {}

    def make():
        mm = MatrixMult(10, (D1, D2), (D2, D3))
        holder["mm"] = mm
        return mm.input_left, mm.input_right, mm.output
    base = {"op": "matmult", "shape_left": [D1, D2], "shape_right": [D2, D3]}
    try:
        Y, delay = simulate(make, ins, nl, nr)
    except Exception as e:
        ctx.count(f"mm {D1}x{D2}x{D3} raises", branch="net-raises")
        ctx.fail(base, f"{type(e).__name__}: {str(e)[:200]}", "MatrixMult of compatible shapes builds and runs",
                 where="matmult-raises")
        return
    if FILTERS:
        ctx.fail(dict(base, op="memoryless"), FILTERS[:3], "no filtered connection inside the network", where="matmult-not-memoryless")
    if Y is None:
        ctx.fail(base, "all-zero output for positive inputs", "matrix product", where="matmult-dead")
        return
    ctx.extra.setdefault("pipeline_delay_steps", {})["matmult"] = delay
    toks = []
    for idx, (a, b) in enumerate(ins):
        y = Y[idx]
        ea = [F(float(v)) for v in a]
        eb = [F(float(v)) for v in b]
        wex = [float(sum(ea[i * D2 + j] * eb[j * D3 + k] for j in range(D2))) for i in range(D1) for k in range(D3)]
        case = dict(base, a=common.qvec(a), b=common.qvec(b))
        ctx.count(f"mm {D1}x{D2}x{D3} {case['a']} {case['b']}", nontrivial=bool(np.any(a) and np.any(b)),
                  branch="matmult-basis" if idx < len(pairs) else "matmult-random")
        sc = float(np.linalg.norm(a) * np.linalg.norm(b))
        if not common.vec_close(y, wex, sc):
            ctx.fail(case, [float(v) for v in y][:12], wex[:12], where="matmult-product")
        toks.append((case, y, sc))
    for s0 in range(0, len(toks), CHUNK):
        chunk = toks[s0:s0 + CHUNK]

        def cb(st, payload, chunk=chunk):
            if st != "ok":
                ctx.diff(base, "values", f"{st} {payload[:80]}", op="mmb")
                return
            for (case, y, sc), tok in zip(chunk, payload.split(";")):
                r = [float(x) for x in common.parse_qvec(tok)]
                if not common.vec_close(y, r, sc):
                    ctx.diff(case, [float(v) for v in y][:12], r[:12], op="mmb")
                    return
        ctx.ask("mmb", [D1, D2, D3, ";".join(f"{c['a']}|{c['b']}" for c, _, _ in chunk)], cb)
    # the three transforms read from the built connections
    mm = holder["mm"]
    T = {}
    for c in mm.connections:
        if c.pre_obj is mm.input_left:
            T["L"] = np.array(c.transform.init)
        elif c.pre_obj is mm.input_right:
            T["R"] = np.array(c.transform.init)
        elif c.post_obj is mm.output:
            T["C"] = np.array(c.transform.init)
    ctx.count(f"mmt {D1}x{D2}x{D3}", branch="readback-matmult")

    def cbt(st, payload):
        if st != "ok":
            ctx.diff(base, "transforms", f"{st}", op="mmt")
            return
        for name, tok in zip("LRC", payload.split("|")):
            if not same(T.get(name), parse_mat(tok)):
                ctx.diff(dict(base, transform=name), "real transform", "model differs", op="mmt")
    if D1 * D2 * D3 > 0:
        ctx.ask("mmt", [D1, D2, D3], cbt)


def matmult_malformed(ctx):
    for sl, sr in [((2, 3), (2, 4)), ((3, 3), (4, 3)), ((2,), (2, 2)), ((2, 2), (2,)), ((2, 2, 2), (2, 2)), ((1, 5), (4, 1))]:
        try:
            with nengo.Network():
                MatrixMult(10, sl, sr)
            impl = "accepted"
        except ValueError:
            impl = "rejected"
        ctx.count(f"mmshape {sl} {sr}", branch="matmult-malformed")

        def cb(st, payload, sl=sl, sr=sr, impl=impl):
            if (st == "err") != (impl == "rejected"):
                ctx.diff({"op": "mmshape", "sl": list(sl), "sr": list(sr)}, impl, f"{st} {payload}", op="mmshape")
        ctx.ask("mmshape", [",".join(map(str, sl)), ",".join(map(str, sr))], cb)


def rejections(ctx):
    for alg in ("vtb", "tvtb", "hrr"):
        for d, ul, ur in [(4, 1, 1), (9, 1, 1), (5, 0, 0), (8, 1, 0), (12, 1, 1), (4, 0, 0)]:
            if alg == "hrr" and d not in (4, 5):
                continue
            for builder in ("impl", "bind"):
                try:
                    if builder == "impl":
                        with nengo.Network():
                            ALGS[alg].implement_binding(10, d, bool(ul), bool(ur))
                    else:
                        if alg != "hrr" and math.isqrt(d) ** 2 != d:
                            continue        # no such vocabulary can be created
                        with spa.Network():
                            spa.Bind(spa.Vocabulary(d, algebra=ALGS[alg]), unbind_left=bool(ul), unbind_right=bool(ur))
                    impl = "ok"
                except ValueError as e:
                    # the cause is read from the inputs, not from the message wording
                    impl = "not-square" if (alg != "hrr" and math.isqrt(d) ** 2 != d) else "both-flags"
                ctx.count(f"reject {builder} {alg} {d} {ul}{ur}", branch="rejections")

                def cb(st, payload, impl=impl, alg=alg, d=d, ul=ul, ur=ur, builder=builder):
                    got = "ok" if st == "ok" else payload
                    if got != impl:
                        ctx.diff({"op": "reject", "builder": builder, "alg": alg, "d": d, "ul": ul, "ur": ur}, impl, got, op="rejections")
                ctx.ask("route", [alg, d, ul, ur], cb)


# ------------------------------------------------------------------------------------------------
def run(ctx):
    warnings.simplefilter("ignore")
    nd = getattr(ctx, "no_driver", False)
    if nd:
        ctx.ask = lambda *a, **k: None
    quick = ctx.tier == "quick"
    # ---- binding networks ---------------------------------------------------------------------
    for alg in ("hrr", "vtb", "tvtb"):
        for d in dims(alg, ctx.tier):
            table_tok = hrr_tables(d) if alg == "hrr" else None
            if alg == "hrr":
                check_real_table(ctx, d)
            for ul, ur in flag_combos(alg):
                res = check_config(ctx, "impl", alg, d, ul, ur, True, None)
                if res:
                    if alg == "hrr":
                        budget = 24 if d > 8 else 80
                    else:
                        budget = None if d <= 9 else (120 if quick else (None if d <= 16 else 160))
                    ask_model(ctx, alg, d, ul, ur, res[0], res[1], table_tok, budget,
                              (None if d <= 9 else 120) if quick else (None if d <= 16 else 200))
                # the Bind module (thin wrapper): sampled cases
                if d in (1, 2, 3, 4, 5, 8, 9, 16, 25, 31, 32, 36) or (not quick and d in (6, 7, 12, 13, 17, 24)):
                    res = check_config(ctx, "bind", alg, d, ul, ur, False, None)
                    if res:
                        ask_model(ctx, alg, d, ul, ur, res[0], res[1], table_tok, 12 if alg == "hrr" else 40, 20)
                try:
                    if alg == "hrr":
                        readback_hrr(ctx, d, ul, ur, table_tok)
                    else:
                        readback_block(ctx, alg, d, ul, ur)
                except Exception as e:
                    ctx.diff({"op": "readback", "alg": alg, "d": d, "ul": ul, "ur": ur}, f"{type(e).__name__}: {str(e)[:120]}",
                             "structure readable", op="readback-raises")
            if alg == "vtb":
                readback_perm(ctx, d)
    rejections(ctx)
    # ---- MatrixMult -----------------------------------------------------------------------------
    top = 3 if quick else 5
    shapes = [(a, b, c) for a in range(1, top + 1) for b in range(1, top + 1) for c in range(1, top + 1)]
    if quick:
        shapes += [(5, 5, 5), (4, 5, 2), (1, 5, 4), (5, 1, 5), (2, 4, 5), (5, 2, 1)]
    for (a, b, c) in shapes:
        check_matmult(ctx, a, b, c, 10 ** 6 if (not quick or a * b * c <= 27) else 60)
    matmult_malformed(ctx)
    import time as _t
    t0 = _t.time()
    if not nd:
        ctx.flush(DRIVER)
    ctx.note(f"driver wall {_t.time() - t0:.1f}s for the batched requests")
    ctx.note("HRR: all-d theorem Hrr.net_real_eq_spec (Props/C05S.lean) for the real cos/-sin table; dft_half(d) of the code is "
             "tied to that table entry-wise (hrr_real_table_max_err); the numerical coefficient table per d "
             "(hrr_coefficient_table_max_err) remains as the oracle on the implementation's transforms")

"""C03 — operands from different vocabularies or algebras never combine silently.

Tie: short programs over a world of operand objects (SemanticPointer with / without vocabulary, named,
PointerSymbol fresh / bound, module (spa.State, spa.Scalar), transformed node, Python and NumPy numbers,
ndarray) are run against the real nengo_spa and against `C03.Impl.run` (drivers/C03.lean):
  * the full matrix  operator/method x left kind x right kind x vocabulary relation, every accepted
    expression completed with `>> sink`;
  * histories: every order in which one vocabulary-less pointer / one symbol / one reinterpreted node
    meets <= 3 vocabularies, interleaved with each operator;
  * explicit casts (reinterpret / translate) followed by an operator.
Observables: exception family or none, result kind, identity label of result.vocab / result.algebra /
length, the type of every operand before/after.

Oracle (independent of the Lean model; evaluates the clauses of the statement on the observed outcomes
from the labels the generator attached to the operands): see `oracle_*` below.
"""
import itertools
import warnings

import numpy as np

import nengo
import nengo_spa as spa
from nengo.exceptions import ValidationError
from nengo_spa import types as T
from nengo_spa.algebras.hrr_algebra import HrrAlgebra
from nengo_spa.algebras.tvtb_algebra import TvtbAlgebra
from nengo_spa.algebras.vtb_algebra import VtbAlgebra
from nengo_spa.ast.base import Node
from nengo_spa.ast.dynamic import DynamicNode
from nengo_spa.ast.symbolic import FixedScalar, PointerSymbol
from nengo_spa.connectors import as_ast_node
from nengo_spa.exceptions import SpaTypeError
from nengo_spa.semantic_pointer import SemanticPointer

PROPERTY = "C03"
LEAN_MODULES = ["SpaModel.Props.C03"]
AUDIT = "SpaModel/Audit/C03.lean"
DRIVER = "drivers/C03.lean"
TABLES = True          # the operator tables of the operand classes are regenerated from the source
RULE = ("one case = one program (operand objects + operations, accepted expressions completed with `>> sink`); "
        "key = canonical token string of the program + realisation variant (named / NumPy number kind / operand "
        "position); a case is non-trivial when it has two operands of which at least one carries a vocabulary, a "
        "symbol type or an algebra (i.e. everything except number-with-number-like fillers); distinct = distinct key")
ASSUMPTIONS = [
    "Python's binary-operator protocol (left method, NotImplemented -> reflected method -> TypeError) and NumPy's "
    "deferral to operands with __array_ufunc__ = None are modelled as documented",
    "vocabulary / algebra identity is modelled by a number per object; algebras are the three shipped singletons",
    "NumPy: np.dot of two 1-D arrays requires equal lengths (ValueError otherwise); Nengo: a Connection whose pre "
    "size (after transform) differs from the post size raises ValidationError",
    "symbols use keys present in every vocabulary of the universe (no SpaParseError path)",
]

ALGS = [HrrAlgebra(), VtbAlgebra(), TvtbAlgebra()]
ALGN = ["H", "V", "T"]


# --------------------------------------------------------------------------
# universe and object realisation
# --------------------------------------------------------------------------
class Universe:
    """vocabularies: index -> (dimensions, algebra index)"""

    def __init__(self, spec, populate=True):
        self.spec = list(spec)
        self.populated = populate
        self.vocabs = []
        for d, a in self.spec:
            v = spa.Vocabulary(d, algebra=ALGS[a], pointer_gen=np.random.RandomState(7 + len(self.vocabs)))
            if populate:
                v.populate("A;B")       # an unpopulated universe: every vocabulary has 0 keys (len(v) == 0, falsy)
            self.vocabs.append(v)

    def tok(self):
        return ",".join(str(d) for d, _ in self.spec) + "|" + ",".join(str(a) for _, a in self.spec)

    def vidx(self, vocab):
        if vocab is None:
            return None
        for i, v in enumerate(self.vocabs):
            if v is vocab:
                return i
        return "foreign"

    def aidx(self, alg):
        for i, a in enumerate(ALGS):
            if a is alg:
                return i
        return "foreign"

    def vocab_of_dim(self, d):
        for i, (dd, _) in enumerate(self.spec):
            if dd == d:
                return i
        return None

    def ty_tok(self, t):
        if t == T.TScalar:
            return "S"
        if isinstance(t, T.TAnyVocabOfDim):
            return f"D{t.dimensions}"
        if isinstance(t, T.TVocabulary):
            return f"V{self.vidx(t.vocab)}"
        if t == T.TAnyVocab:          # equality, not identity: a copied pointer carries an equal type object
            return "A"
        return f"?{t!r}"


def vec(n, salt=0, zero=False):
    # fixed, non-degenerate data; the "zero" realisation variant gives the zero vector (acceptance must not depend
    # on values: compare() special-cases scale == 0)
    if zero:
        return np.zeros(n)
    return np.array([1.0 + ((i * 7 + salt * 3) % 5) * 0.25 for i in range(n)])


def mkstate(U, i):
    return spa.State(U.vocabs[i], subdimensions=U.spec[i][0], neurons_per_dimension=2)


def realise(U, tok, variant=""):
    """Create a fresh real object for a descriptor token (inside a spa.Network context)."""
    p = tok.split(":")
    k = p[0]
    if k == "P":
        alg, n = int(p[2]), int(p[3])
        name = "N" if "named" in variant else None
        zero = "zero" in variant
        if p[1] == "-":
            q = SemanticPointer(vec(n, zero=zero), algebra=ALGS[alg], name=name)
            if "deepcopy" in variant:       # a copy is the same pointer: its type object is equal, not identical
                import copy as _copy
                q = _copy.deepcopy(q)
            elif "pickled" in variant:
                import pickle as _pickle
                q = _pickle.loads(_pickle.dumps(q))
            return q
        v = U.vocabs[int(p[1])]
        if "identity" in variant:
            return v["Identity"]     # the special elements a vocabulary hands out belong to it
        if "zeroelem" in variant:
            return v["Zero"]
        if "named" in variant:
            return v["A"]            # vocabulary members carry their key as name
        if zero or not U.populated:
            return SemanticPointer(vec(n, zero=zero), vocab=v)
        return SemanticPointer(v["A"].v, vocab=v)   # unnamed
    if k == "S":
        if p[1] == "A":
            return spa.sym.A
        return PointerSymbol("A", T.TVocabulary(U.vocabs[int(p[1][1:])]))
    if k == "M":
        if p[1] == "S":
            return spa.Scalar()
        i = int(p[1][1:])
        if "tcsink" in variant or "tcsrc" in variant:
            # a Transcode whose input and output vocabularies DIFFER (same dimensionality): as a sink it belongs to
            # its input vocabulary, as a source to its output vocabulary — one object, two connectors
            j = next(j for j, (d, _) in enumerate(U.spec) if j != i and d == U.spec[i][0])
            vin, vout = (U.vocabs[i], U.vocabs[j]) if "tcsink" in variant else (U.vocabs[j], U.vocabs[i])
            m = spa.Transcode(input_vocab=vin, output_vocab=vout)
            m._verif_role = tok
            return m
        return mkstate(U, i)
    if k == "Y":
        if p[1] == "S":
            return -spa.Scalar()
        if p[1][0] == "V":
            s = mkstate(U, int(p[1][1:]))
            return as_ast_node(s) if "mo" in variant else -s
        if p[1][0] == "D":
            i = U.vocab_of_dim(int(p[1][1:]))
            return mkstate(U, i).reinterpret()
    if k == "N":
        return 2 if "int" in variant else 2.0
    if k == "G":
        return np.array(2.0) if "0d" in variant else (np.int64(2) if "int" in variant else np.float64(2.0))
    if k == "R":
        return vec(int(p[1]), salt=1)
    raise ValueError("bad token " + tok)


def describe(U, o):
    """Descriptor token of a real object as it is now (kind, type / vocabulary / algebra / length)."""
    if isinstance(o, SemanticPointer):
        vi = U.vidx(o.vocab)
        tt = U.ty_tok(o.type)
        want = "A" if vi is None else f"V{vi}"
        extra = "" if tt == want else f"!type={tt}"
        return f"P:{'-' if vi is None else vi}:{U.aidx(o.algebra)}:{len(o.v)}{extra}"
    if isinstance(o, PointerSymbol):
        return "S:" + U.ty_tok(o.type)
    if isinstance(o, FixedScalar):
        return "F"
    if isinstance(o, DynamicNode):
        return "Y:" + U.ty_tok(o.type)
    if getattr(o, "_verif_role", None):
        return o._verif_role
    if isinstance(o, spa.Scalar):
        return "M:S"
    if isinstance(o, spa.State):
        return "M:V" + str(U.vidx(o.vocab))
    if isinstance(o, np.ndarray) and o.ndim > 0:
        if o.dtype == object:
            return "OBJARRAY"
        return f"R:{len(o)}"
    if isinstance(o, (np.generic, np.ndarray)):
        return "G"
    if isinstance(o, (int, float)):
        return "N"
    if o is None:
        return "none"
    if o is NotImplemented:
        return "NI"
    return "?" + type(o).__name__


def family(e):
    if isinstance(e, SpaTypeError):
        return "spatype"
    if isinstance(e, ValidationError):
        return "validation"
    if isinstance(e, NotImplementedError):
        return "notimpl"
    if isinstance(e, TypeError):
        return "type"
    if isinstance(e, ValueError):
        return "value"
    if isinstance(e, AttributeError):
        return "attr"
    if isinstance(e, AssertionError):
        return "assert"
    return "other:" + type(e).__name__


BINOPS = {
    "add": lambda a, b: a + b,
    "sub": lambda a, b: a - b,
    "mul": lambda a, b: a * b,
    "matmul": lambda a, b: a @ b,
    "dot": lambda a, b: a.dot(b),
    "compare": lambda a, b: a.compare(b),
    "mse": lambda a, b: a.mse(b),
    "distance": lambda a, b: a.distance(b),
    "spadot": lambda a, b: spa.dot(a, b),
    "rshift": lambda a, b: a >> b,
}
UNOPS = {
    "neg": lambda a: -a,
    "inv": lambda a: ~a,
    "linv": lambda a: a.linv(),
    "rinv": lambda a: a.rinv(),
    "normalized": lambda a: a.normalized(),
    "unitary": lambda a: a.unitary(),
}
ARITH = ("add", "sub", "mul")
METHODS_OF = {  # which left kinds have the method at all
    "dot": "PSYM", "compare": "P", "mse": "P", "distance": "P",
}


def run_program(U, objs, ops, variants=None):
    """Run a program on the real code.  Returns (outcomes, before, after, results).
    outcome = ("ok", result-descriptor) | ("err", family)."""
    variants = variants or {}
    out, results = [], []
    with warnings.catch_warnings():
        warnings.simplefilter("ignore")
        with spa.Network():
            world = [realise(U, t, variants.get(i, "")) for i, t in enumerate(objs)]
            before = [describe(U, o) for o in world]
            for op in ops:
                f = op.split(",")
                try:
                    if f[0] in BINOPS:
                        r = BINOPS[f[0]](world[int(f[1])], world[int(f[2])])
                    elif f[0] == "un":
                        r = UNOPS[f[1]](world[int(f[2])])
                    elif f[0] == "reinterp":
                        tgt = None if f[2] == "-" else U.vocabs[int(f[2][1:])]
                        r = spa.reinterpret(world[int(f[1])], tgt)
                    elif f[0] == "translate":
                        r = spa.translate(world[int(f[1])], U.vocabs[int(f[2][1:])], populate=False)
                    else:
                        raise ValueError("bad op " + op)
                    out.append(("ok", describe(U, r)))
                    world.append(r)
                    results.append(r)
                except Exception as e:  # noqa: every exception family is an outcome
                    out.append(("err", family(e)))
                    world.append(None)
                    results.append(None)
            after = [describe(U, o) for o in world]
    return out, before, after, results



# --------------------------------------------------------------------------
# oracle: labels attached by the generator (never read from the model)
# --------------------------------------------------------------------------
def label(U, tok):
    """(kind, vocabulary index or None, pointer dimensionality or None, algebra of a vocabulary-less pointer or None)"""
    p = tok.split(":")
    k = p[0]
    if k == "P":
        if p[1] == "-":
            return ("P", None, int(p[3]), int(p[2]))
        return ("P", int(p[1]), U.spec[int(p[1])][0], None)
    if k in "SMY":
        t = p[1]
        if t[0] == "V":
            return (k, int(t[1:]), U.spec[int(t[1:])][0], None)
        if t[0] == "D":
            return (k, None, int(t[1:]), None)
        return (k, None, None, None)       # scalar module / node, unbound symbol
    if k == "R":
        return ("R", None, None, None)
    return (k, None, None, None)


def result_vocab(tok):
    """vocabulary label carried by a result descriptor: index, None, or 'n/a' (not a pointer-like result)"""
    p = tok.split(":")
    if p[0] == "P":
        return None if p[1] == "-" else (int(p[1]) if p[1].isdigit() else p[1])
    if p[0] in "SY":
        return int(p[1][1:]) if p[1][0] == "V" and p[1][1:].isdigit() else (None if p[1][0] != "V" else p[1])
    return "n/a"


POINTERLIKE = "PSYM"
VALUE_TOKENS_NOT = ("NI", "foreign")


def sink_candidates(U, la, lb, tier):
    """sinks used to complete an accepted expression: the matching one first"""
    vs = [x for x in (la[1], lb[1]) if x is not None]
    ds = [x for x in (la[2], lb[2]) if x is not None]
    match = None
    if vs:
        match = f"M:V{vs[0]}"
    elif ds:
        i = U.vocab_of_dim(ds[0])
        match = f"M:V{i}" if i is not None else "M:S"
    else:
        match = "M:S"
    others = [f"M:V{i}" for i in range(len(U.spec))] + ["M:S"]
    others = [o for o in others if o != match]
    if tier == "quick":
        # one different vocabulary, of the same dimensionality if there is one
        md = None if match == "M:S" else U.spec[int(match[3:])][0]
        same = [o for o in others if o != "M:S" and U.spec[int(o[3:])][0] == md]
        others = (same or [o for o in others if o != "M:S"])[:1]
    return match, others


class Checker:
    def __init__(self, ctx, U):
        self.ctx, self.U = ctx, U
        self.pairs = {}
        self.fresh_cache = {}

    # -- run one program on both sides --------------------------------------
    def program(self, objs, ops, variants=None, branch="matrix", nontrivial=True, oracle=None, pre=None):
        ctx, U = self.ctx, self.U
        variants = variants or {}
        out, before, after, _ = pre if pre is not None else run_program(U, objs, ops, variants)
        key = f"{';'.join(objs)} {';'.join(ops)} {sorted(variants.items())}"
        outs = ";".join((o[0] + ":" + o[1]) for o in out)
        ctx.count(key, nontrivial=nontrivial, branch=f"{branch}:{ops[0].split(',')[0]}:{out[0][0]}"
                  + ("" if out[0][0] == "ok" else "-" + out[0][1]))
        case = {"objs": objs, "ops": ops, "variants": {str(k): v for k, v in variants.items()}, "universe": U.tok()}
        ctx.sample(dict(case, impl=outs, world_after=after), limit=8)
        # invariant of the statement's last sentence, checked on every program: a SemanticPointer never changes
        for i, (t_, b) in enumerate(zip(objs, before)):
            if t_.startswith("P:") and b != t_:
                ctx.fail(dict(case, **{"class": "operand does not belong to what handed it out"}), f"operand {i} is {b}",
                         f"{t_} (a pointer obtained from a vocabulary carries that vocabulary and its algebra)",
                         where="operand-membership")
        for i, (b, a) in enumerate(zip(before, after)):
            if b.startswith("P:") and a != b:
                ctx.fail(dict(case, **{"class": "pointer changed by an operation"}), f"operand {i}: {b} -> {a}",
                         "a Semantic Pointer (vocabulary, algebra, type) is not changed by operations on it",
                         where="pointer-mutated")
        if oracle:
            oracle(case, out, before, after)
        if not getattr(ctx, "no_driver", False):
            def cb(st, payload, case=case, out=out, after=after):
                impl = self.norm_impl(out, after)
                if st != "ok":
                    ctx.diff(case, impl, f"{st} {payload}", op="run")
                    return
                mo, mw = payload.split("|")
                zero = any(v_ in ("zero", "zeroelem") for v_ in case["variants"].values())
                if zero:
                    # compare()/distance() of a zero vector return the Python literal 0 / 1 instead of a NumPy float:
                    # the kind of number is outside the statement, so both count as "a number" for zero operands
                    num = lambda t: "G" if t == "N" else t   # noqa: E731
                    out = [(s_, num(t_)) for s_, t_ in out]
                    after = [num(a_) for a_ in after]
                if not self.same(out, after, mo.split(";"), mw.split(";")):
                    ctx.diff(case, impl, payload, op="run:" + case["ops"][0].split(",")[0])
            margs = [U.tok(), ";".join(self.model_obj(t) for t in objs), ";".join(ops)]
            ctx.ask("run", margs, cb)
        return out, before, after

    @staticmethod
    def model_obj(t):
        return t + ":1" if t.startswith("Y:") else t

    @staticmethod
    def norm_impl(out, after):
        return ";".join(o[0] + ":" + o[1] for o in out) + "|" + ";".join(after)

    @staticmethod
    def same(out, after, mo, mw):
        if len(mo) != len(out) or len(mw) != len(after):
            return False
        for (st, tok), m in zip(out, mo):
            if m == "err:badref":
                continue                                   # an operand slot left empty by a failed earlier step
            if st == "err":
                if m == "err:connect":
                    if tok not in ("validation", "attr", "spatype", "value"):
                        return False
                elif m in ("err:numpy", "err:badref"):
                    pass                                   # any exception raised inside NumPy
                elif m != "err:" + tok:
                    return False
            elif m != "ok:" + tok:
                return False
        for a, m in zip(after, mw):
            a = "-" if a in ("F", "NI", "none") else a
            if a != m:
                return False
        return True

    # -- the clauses of the statement ------------------------------------------
    def oracle_pair(self, op, a, b, completions):
        """returns an oracle callback for the program `[a, b] op` ; `completions` is filled by the caller with
        the outcomes of `result >> sink` programs (label of the sink's vocabulary -> accepted?)"""
        U, ctx = self.U, self.ctx
        la, lb = label(U, a), label(U, b)

        def check(case, out, before, after):
            st, tok = out[0]
            if st == "ok" and tok == "OBJARRAY":
                ctx.fail(dict(case, **{"class": "array operand broadcast over the SPA operand"}), tok,
                         "a bare array operand is rejected (TypeError), not broadcast into an object array",
                         where="bare-array-broadcast")
                return
            produced = st == "ok" and tok not in VALUE_TOKENS_NOT
            if not produced:
                # positive clause: pointer with pointer, compatible -> accepted
                if la[0] == "P" and lb[0] == "P" and op != "rshift" and self.compatible_pointers(la, lb):
                    ctx.fail(dict(case, **{"class": "compatible pointers rejected"}), f"{st}:{tok}",
                             "compatible Semantic Pointers combine (a vocabulary-less pointer adopts the vocabulary)",
                             where="compatible-rejected")
                return
            node_result = tok[0] in "SY" or tok == "none" and False
            # a deferred rejection is allowed for node results: accepted only if some completion connects
            def accepted_finally():
                if tok[0] in "PSY" and tok != "P" and completions is not None and tok[0] in "SY":
                    return any(completions.values())
                return True
            if op in ARITH or op == "rshift":
                if "R" in (la[0], lb[0]):
                    ctx.fail(dict(case, **{"class": "bare array accepted"}), tok, "TypeError/SpaTypeError",
                             where="bare-array-accepted")
                    return
            if la[0] in POINTERLIKE and lb[0] in POINTERLIKE:
                if la[1] is not None and lb[1] is not None and la[1] != lb[1] and accepted_finally():
                    ctx.fail(dict(case, **{"class": "different vocabularies combined"}), tok,
                             "rejected (different vocabularies)", where="different-vocab-accepted")
                    return
                # both TYPES carry a dimensionality when the expression is written (vocabulary or any-vocabulary-of-d):
                # no deferral to the connection; only a vocabulary-less pointer's length is checked as late as the build
                bare = (la[0] == "P" and la[1] is None) or (lb[0] == "P" and lb[1] is None)
                if la[2] is not None and lb[2] is not None and la[2] != lb[2] and (not bare or accepted_finally()):
                    one = (la[0] == "P" and la[1] is None and la[2] == 1) or (lb[0] == "P" and lb[1] is None and lb[2] == 1)
                    if one:
                        ctx.fail(dict(case, **{"class": "vocabulary-less pointer of length 1 broadcast by NumPy"}), tok,
                                 "rejected (different dimensionalities)", where="length1-broadcast")
                    else:
                        ctx.fail(dict(case, **{"class": "different dimensionalities combined"}), tok,
                                 "rejected (different dimensionalities)", where="different-dim-accepted")
                    return
                if (la[0] == "P" and lb[0] == "P" and la[1] is None and lb[1] is None and la[3] != lb[3]):
                    ctx.fail(dict(case, **{"class": "vocabulary-less pointers of different algebras combined"}), tok,
                             "rejected (different algebras)", where="different-algebra-accepted")
                    return
            # result carries the operands' vocabulary (and its algebra)
            rv = result_vocab(tok)
            if rv != "n/a" and op != "rshift":
                vs = {x for x in (la[1], lb[1]) if x is not None}
                want = next(iter(vs)) if len(vs) == 1 else None
                if rv != want and not (tok[0] == "Y" and tok[2:] == "S"):
                    ctx.fail(dict(case, **{"class": "result vocabulary"}), tok,
                             f"result carries vocabulary {want}", where="result-vocab")
                if tok[0] == "P" and rv is not None and isinstance(rv, int):
                    if int(tok.split(":")[2]) != U.spec[rv][1]:
                        ctx.fail(dict(case, **{"class": "result algebra"}), tok,
                                 "a result with a vocabulary uses the vocabulary's algebra", where="result-algebra")
            # completions: a result tainted by vocabulary v must not connect into a sink of another vocabulary / size
            if completions and tok not in ("Y:S", "F", "N", "G"):     # a scalar result carries no vocabulary
                vs = {x for x in (la[1], lb[1]) if x is not None}
                ds = {x for x in (la[2], lb[2]) if x is not None}
                for sink, okc in completions.items():
                    if not okc or sink == "M:S":
                        continue
                    si = int(sink[3:])
                    if vs and si not in vs:
                        ctx.fail(dict(case, sink=sink, **{"class": "result connected into a foreign vocabulary"}),
                                 f"{tok} >> {sink} accepted", "rejected (different vocabularies)",
                                 where="different-vocab-connected")
                    elif ds and U.spec[si][0] not in ds:
                        ctx.fail(dict(case, sink=sink, **{"class": "result connected into a different dimensionality"}),
                                 f"{tok} >> {sink} accepted", "rejected", where="different-dim-connected")
        return check

    def compatible_pointers(self, la, lb):
        U = self.U
        if la[1] is not None and lb[1] is not None:
            return la[1] == lb[1]
        if la[1] is None and lb[1] is None:
            return la[3] == lb[3] and la[2] == lb[2]
        bare, voc = (la, lb) if la[1] is None else (lb, la)
        return bare[2] == voc[2] and bare[3] == U.spec[voc[1]][1]     # same dimensionality and algebra


REPR = ("P:0:0:4", "P:1:0:4", "P:3:1:4", "P:-:0:4", "P:-:1:4", "S:A", "M:V0", "R:4")   # partners against which the realisation variants are run


def kinds_for(U, tier):
    ks = []
    for i, (d, a) in enumerate(U.spec):
        ks.append((f"P:{i}:{a}:{d}", ["", "named", "zero", "identity", "zeroelem"] if i == 0 else ["", "zero", "identity"]))
    bare = [(0, 4), (1, 4), (0, 9), (0, 1)]
    if tier != "quick":
        bare += [(2, 4), (1, 9)]
    for j, (a, n) in enumerate(bare):
        ks.append((f"P:-:{a}:{n}", ["", "named", "zero", "deepcopy", "pickled"] if j == 0 else ["", "zero", "deepcopy"]))
    ks.append(("S:A", [""]))
    for i in range(len(U.spec)):
        if tier != "quick" or i < 3:
            ks.append((f"S:V{i}", [""]))
    for i in range(len(U.spec)):
        if tier != "quick" or i < 3:
            ks.append((f"M:V{i}", ["", "tc"] if i in (0, 3) else [""]))
    ks.append(("M:S", [""]))
    ks.append(("Y:V0", ["", "mo"]))
    if tier != "quick":
        ks.append(("Y:V1", [""]))
        ks.append(("Y:V2", [""]))
        ks.append(("Y:D9", [""]))
    ks.append(("Y:D4", [""]))
    ks.append(("Y:S", [""]))
    ks.append(("N", ["", "int"]))
    ks.append(("G", ["", "int", "0d"] if tier != "quick" else ["", "0d"]))
    ks.append(("R:4", [""]))
    ks.append(("R:9", [""]))
    return ks


def kinds_small(U):
    """kinds of the dimension-1 corner universe: pointers, symbols, modules and nodes of every vocabulary"""
    ks = []
    for i, (d, a) in enumerate(U.spec):
        ks.append((f"P:{i}:{a}:{d}", [""]))
        ks.append((f"S:V{i}", [""]))
        ks.append((f"M:V{i}", [""]))
        ks.append((f"Y:V{i}", [""]))
    # (no vocabulary-less length-1 pointer here: `p + scalar_node >> State(1-d)` is accepted by size, but the model's
    #  node descriptor of an untyped sum carries no source width; that pointer kind meets the 4-d universe above)
    ks += [("S:A", [""]), ("M:S", [""]), ("Y:S", [""]), ("N", [""]), ("R:1", [""])]
    return ks


def run(ctx):
    spec = [(4, 0), (4, 0), (9, 0), (4, 1)]
    if ctx.tier != "quick":
        spec += [(4, 2), (9, 1)]
    U = Universe(spec)
    ck = Checker(ctx, U)
    kinds = kinds_for(U, ctx.tier)
    pair_counts = {}

    # ---- 1. the full matrix (populated universe, then the same universe with 0-key vocabularies) ----
    def matrix(U, ck, kinds, extra_variant):
        for op in BINOPS:
            for (a, avs), (b, bvs) in itertools.product(kinds, repeat=2):
                if a[0] in "NGR" and b[0] in "NGR":
                    continue                                    # no SPA operand: Python/NumPy only
                if op in METHODS_OF and a[0] in "NGR":
                    continue                                    # ndarray.dot etc. are NumPy's methods
                # variants: the first operand's variants with the default of the second, and vice versa
                vlist = [("", "")]
                if b in REPR:
                    vlist += [(x, "") for x in avs if x]
                if a in REPR:
                    vlist += [("", y) for y in bvs if y]
                for va, vb in vlist:
                    if va == "tc":
                        va = "tcsrc"
                    if vb == "tc":
                        vb = "tcsink" if op == "rshift" else "tcsrc"
                    variants = {**{k: v for k, v in ((0, va), (1, vb)) if v}, **extra_variant}
                    la, lb = label(U, a), label(U, b)
                    nontrivial = any(x[1] is not None or x[3] is not None or x[0] in "SY" for x in (la, lb))
                    completions = {}
                    # run the operation alone first to see what has to be completed
                    pre = run_program(U, [a, b], [f"{op},0,1"], variants)
                    st, tok = pre[0][0]
                    pair_counts[f"{a[0]}x{b[0]}"] = pair_counts.get(f"{a[0]}x{b[0]}", 0) + 1
                    if st == "ok" and tok[0] in "PSY" and op != "rshift":
                        match, others = sink_candidates(U, la, lb, ctx.tier)
                        if tok == "Y:S":                 # scalar-valued node (dot product): its sink is a Scalar
                            others = [match] + [o for o in others if o != "M:S"]
                            match = "M:S"
                        for sink in dict.fromkeys([match] + others):
                            o2, _, _ = ck.program([a, b, sink], [f"{op},0,1", "rshift,3,2"], variants,
                                                  branch="completion", nontrivial=nontrivial)
                            completions[sink] = (o2[0][0] == "ok" and o2[1] == ("ok", "none"))
                    ck.program([a, b], [f"{op},0,1"], variants, branch="matrix", nontrivial=nontrivial,
                               oracle=ck.oracle_pair(op, a, b, completions), pre=pre)
    matrix(U, ck, kinds, {})
    # value/emptiness independence: vocabularies without keys are falsy Python objects; acceptance, the result's
    # vocabulary and algebra must be the same as for populated ones (symbols need keys and are left out)
    U0 = Universe(spec, populate=False)
    ck0 = Checker(ctx, U0)
    kinds0 = [(k, [v for v in vs if v != "named"]) for k, vs in kinds if k[0] != "S"]
    matrix(U0, ck0, kinds0, {-1: "emptyvocab"})
    # dimension-1 corner: two different 1-dimensional vocabularies and a 4-dimensional one (a module output of
    # size 1 must still belong to its vocabulary, not be taken for a scalar)
    U1 = Universe([(1, 0), (1, 0), (4, 0)])
    ck1 = Checker(ctx, U1)
    matrix(U1, ck1, kinds_small(U1), {-2: "dim1"})

    # ---- 1a'. `>>` written INSIDE an action-selection block: the operands are checked where the statement is
    # written (the connection itself is made later, when the block ends), exactly as outside a block
    # (operands that carry a vocabulary or a dimensionality, and the bare array: the relations the statement names)
    srcs_b = ["M:V0", "M:V1", "M:V2", "M:V3", "P:0:0:4", "P:1:0:4", "P:2:0:9", "P:-:0:4", "P:-:0:9", "S:V0", "S:V1",
              "Y:V0", "Y:D4", "R:4"]
    sinks_b = ["M:V0", "M:V1", "M:V2", "M:V3"]
    for a in srcs_b:
        for b in sinks_b:
            plain = run_program(U, [a, b], ["rshift,0,1"])[0][0]
            with warnings.catch_warnings():
                warnings.simplefilter("ignore")
                st_in = None
                try:
                    with spa.Network():
                        world = [realise(U, a), realise(U, b)]
                        with spa.ActionSelection():
                            try:
                                world[0] >> world[1]
                                st_in = ("ok", "none")
                            except Exception as e:  # noqa: BLE001
                                st_in = ("err", family(e))
                except Exception:  # noqa: BLE001  (a routing statement outside any action ends the block with an error)
                    pass
            case = {"objs": [a, b], "ops": ["rshift,0,1"], "inside": "with spa.ActionSelection()", "universe": U.tok()}
            ctx.count(f"in-block {a} >> {b}", nontrivial=True, branch="rshift-in-block")
            if plain[0] == "err" and plain[1] not in ("spatype", "type"):
                continue     # refused by Nengo when the connection is made (sizes): inside a block that happens at its end
            if st_in is None or st_in[0] != plain[0] or (st_in[0] == "err" and st_in[1] != plain[1]):
                ctx.fail(dict(case, **{"class": "operands of >> not checked where written (inside a block)"}),
                         list(st_in) if st_in else None, list(plain), where="rejected-when-written-in-block")

    # ---- 1b. unary operator / method, then a binary operation -------------------------------------------
    # a unary result belongs to what its operand belongs to: the second step is accepted/rejected exactly like the
    # same operation on the operand itself (fresh world), and a typed symbol stays typed
    n_un = 0
    for sbj in ["P:0:0:4", "P:3:1:4", "P:-:0:4", "P:-:1:4", "S:V0", "S:V3", "S:A", "Y:V0", "Y:V3", "Y:D4"]:
        for u in UNOPS:
            for prt in ["P:0:0:4", "P:1:0:4", "P:2:0:9", "P:3:1:4", "S:V1", "M:V0", "M:V1", "M:V2", "M:V3"]:
                if u == "linv" and sbj[0] == "S" and (sbj == "S:V3" or prt in ("P:3:1:4", "M:V3")):
                    continue      # a symbol's linv() is evaluated later in a VTB vocabulary: NotImplementedError there
                for op2 in (["rshift"] if prt[0] == "M" else ["add", "mul", "dot"]):
                    for side in ((0,) if op2 == "rshift" else (0, 1)):
                        second = f"{op2},2,1" if side == 0 else f"{op2},1,2"

                        def orc(case, out, before, after, sbj=sbj, prt=prt, op2=op2, side=side, u=u):
                            if out[0][0] != "ok":
                                return            # the unary step itself was refused (VTB linv, node.normalized(), ...)
                            if out[0][1] != before[0]:
                                ctx.fail(dict(case, **{"class": "unary result changed membership"}), out[0][1],
                                         f"same vocabulary / type / algebra as the operand: {before[0]}",
                                         where="unary-membership")
                            key = (op2, sbj, prt, side)
                            if key not in ck.fresh_cache:
                                f, _, _, _ = run_program(U, [sbj, prt], [f"{op2},0,1" if side == 0 else f"{op2},1,0"])
                                ck.fresh_cache[key] = f[0]
                            fresh = ck.fresh_cache[key]
                            if (out[1][0] == "ok") != (fresh[0] == "ok"):
                                ctx.fail(dict(case, **{"class": "acceptance changed by a unary operation"}),
                                         f"{u} then {op2} with {prt}: {out[1]}", f"as for the operand itself: {fresh}",
                                         where="unary-then-binop")
                        ck.program([sbj, prt], [f"un,{u},0", second], branch=f"unary-{sbj[0]}", oracle=orc)
                        n_un += 1
    ctx.extra["unary_programs"] = n_un
    ctx.extra["kind_pairs"] = pair_counts

    # ---- 2. explicit casts --------------------------------------------------
    subjects = ["P:0:0:4", "P:-:0:4", "P:-:1:4", "P:3:1:4", "S:A", "S:V0", "M:V0", "Y:V0", "Y:D4", "M:S", "N", "R:4"]
    for sbj in subjects:
        for tgt in ["-"] + [f"V{i}" for i in range(len(U.spec))]:
            for cast in ("reinterp", "translate"):
                if cast == "translate" and tgt == "-":
                    continue
                partners = ["P:0:0:4", "P:1:0:4", "M:V1"]
                for prt in partners:
                    op2 = "rshift" if prt[0] == "M" else "add"

                    def orc(case, out, before, after, tgt=tgt, cast=cast):
                        st, tok = out[0]
                        if st == "ok" and result_vocab(tok) != "n/a":
                            want = None if tgt == "-" else int(tgt[1:])
                            if result_vocab(tok) != want:
                                ctx.fail(dict(case, **{"class": "cast result"}), tok,
                                         f"{cast} yields vocabulary {want}", where="cast-vocab")
                    ck.program([sbj, prt], [f"{cast},0,{tgt}", f"{op2},2,1"], branch="cast",
                               nontrivial=sbj[0] in "PSMY", oracle=orc)

    # ---- 2b. a cast creates a NEW object: the original combines afterwards exactly as before ----------------
    n_orig = 0
    for sbj in ["P:0:0:4", "P:-:0:4", "S:V0", "S:A", "M:V0", "Y:V0", "Y:D4"]:
        for tgt in ["-", "V0", "V1", "V3"]:
            for cast in ("reinterp", "translate"):
                if cast == "translate" and tgt == "-":
                    continue
                for prt in ["P:0:0:4", "P:1:0:4", "M:V0", "M:V1"]:
                    op2 = "rshift" if prt[0] == "M" else "add"

                    def orc(case, out, before, after, sbj=sbj, prt=prt, op2=op2):
                        key = (op2, sbj, prt, 0)
                        if key not in ck.fresh_cache:
                            f, _, _, _ = run_program(U, [sbj, prt], [f"{op2},0,1"])
                            ck.fresh_cache[key] = f[0]
                        fresh = ck.fresh_cache[key]
                        if (out[1][0] == "ok") != (fresh[0] == "ok"):
                            ctx.fail(dict(case, **{"class": "the original operand changed by reinterpret/translate"}),
                                     f"after the cast, {op2} of the ORIGINAL with {prt}: {out[1]}",
                                     f"as without the cast: {fresh}", where="cast-mutates-original")
                    ck.program([sbj, prt], [f"{cast},0,{tgt}", f"{op2},0,1"], branch="cast-original", oracle=orc)
                    n_orig += 1
    ctx.extra["cast_original_programs"] = n_orig

    # ---- 3. histories ---------------------------------------------------------
    hist_ops = ["add", "sub", "mul", "dot", "rshift"]
    vocs = [0, 1, 3]                      # two vocabularies of d=4 (HRR), one of d=4 (VTB)
    orders = [p for n in (1, 2, 3) for p in itertools.permutations(vocs, n)]
    subjects = ["P:-:0:4", "S:A", "Y:D4"]
    n_hist = 0
    for sbj in subjects:
        for order in orders:
            n = len(order)
            if ctx.tier == "quick":
                opseqs = [(o,) * n for o in hist_ops] + [tuple(ctx.rng.choice(hist_ops) for _ in range(n))
                                                         for _ in range(3)]
            else:
                opseqs = list(itertools.product(hist_ops, repeat=n))
            for opseq in dict.fromkeys(opseqs):
                for side in (0, 1):
                    objs, ops, steps = [sbj], [], []
                    for v, o in zip(order, opseq):
                        if o == "rshift":
                            prt = f"M:V{v}"
                            objs.append(prt)
                            steps.append((o, prt, 0))
                        elif sbj[0] == "S" and o == "dot":
                            prt = f"S:V{v}"            # symbol.dot needs a symbol
                            objs.append(prt)
                            steps.append((o, prt, side))
                        else:
                            prt = f"P:{v}:{U.spec[v][1]}:{U.spec[v][0]}"
                            objs.append(prt)
                            steps.append((o, prt, side))
                    for k, (o, prt, sd) in enumerate(steps):
                        ops.append(f"{o},0,{k + 1}" if sd == 0 else f"{o},{k + 1},0")

                    def orc(case, out, before, after, sbj=sbj, steps=steps):
                        if sbj[0] != "P":
                            return
                        # history clause: each step behaves as in a fresh world
                        for (o, prt, sd), got in zip(steps, out):
                            ck_key = (o, sbj, prt, sd)
                            if ck_key not in ck.fresh_cache:
                                oo = [sbj, prt]
                                f, _, _, _ = run_program(U, oo, [f"{o},0,1" if sd == 0 else f"{o},1,0"])
                                ck.fresh_cache[ck_key] = f[0]
                            if got != ck.fresh_cache[ck_key]:
                                ctx.fail(dict(case, **{"class": "outcome depends on the pointer's history"}),
                                         f"step {o} with {prt}: {got}", f"as in a fresh world: {ck.fresh_cache[ck_key]}",
                                         where="history-dependent")
                                break
                    ck.program(objs, ops, branch=f"history-{sbj[0]}", oracle=orc)
                    n_hist += 1
    ctx.extra["histories"] = n_hist
    ctx.extra["universe"] = U.tok()
    if not getattr(ctx, "no_driver", False):
        ctx.flush(DRIVER)


def dump(U, objs, ops, variants=None):
    o, b, a, _ = run_program(U, objs, ops, variants)
    return o, b, a


if __name__ == "__main__":
    import sys
    U = Universe([(4, 0), (4, 0), (9, 0), (4, 1)])
    kinds = ["P:0:0:4", "P:1:0:4", "P:2:0:9", "P:3:1:4", "P:-:0:4", "P:-:1:4", "P:-:0:9", "P:-:0:1", "S:A", "S:V0", "S:V1",
             "M:V0", "M:V1", "M:V2", "M:S", "Y:V0", "Y:D4", "Y:S", "N", "G", "R:4", "R:9"]
    only = sys.argv[1:] or list(BINOPS)
    for op in only:
        for a in kinds:
            for b in kinds:
                o, bf, af = dump(U, [a, b], [f"{op},0,1"])
                chg = "" if bf == af[:2] else f"   CHANGED {bf} -> {af[:2]}"
                print(f"{op:8s} {a:10s} {b:10s} {o[0]}{chg}")

"""C06 — symbolic expressions and pointer names mean what Python syntax says.

Tie (three streams, all compared with the Lean model `C06.Impl` through drivers/C06.lean):

(a) printer: expression trees built from the real `expr_tree` classes over every unary/binary operator
    of the precedence table + attribute access + call: `str(tree)` and `tree.precedence` against the
    model's `Impl.str` / `Impl.prec`.  Oracle (independent of the model): CPython's `ast.parse` of the
    printed text, converted back to a tree, must be structurally the tree that was printed.
(b) symbols: operator expressions over `PointerSymbol`s: `.expr` against `Impl.symTree`.  Oracle:
    `vocab.parse(expr).v` and `PointerSymbol.evaluate().v` against the same Python operators applied
    directly to the vocabulary's SemanticPointers (NumPy, 1e-9).
(c) names: the same operators on SemanticPointers: `.name` against `Impl.nameTree`.  Oracle: whenever
    the name contains no '...', `vocab.parse(name).v` equals the pointer's own vector (1e-9).
"""
import ast
import itertools

import warnings
import numpy as np

import nengo_spa as spa
from nengo_spa.ast import expr_tree as et
from nengo_spa.ast.symbolic import PointerSymbol
from nengo_spa.algebras import HrrAlgebra, VtbAlgebra, TvtbAlgebra
from nengo_spa.types import TVocabulary

PROPERTY = "C06"
LEAN_MODULES = ["SpaModel.Props.C06"]
AUDIT = "SpaModel/Audit/C06.lean"
DRIVER = "drivers/C06.lean"
TABLES = True
RULE = ("one evaluation = one tree (printer stream) or one (algebra, expression) pair (symbol / name streams); "
        "non-trivial = contains at least one operator / method and, for the value streams, the direct "
        "computation on the vocabulary's pointers succeeded; distinct = distinct canonical postfix text "
        "(leaves are renamed A, B, C, ... in reading order so that operand swaps are visible)")
ASSUMPTIONS = [
    "Python evaluates an expression along its parse tree, operands before operator (trusted; eval is CPython's)",
    "the stratified grammar of the Lean model is a transcription of the language reference (expressions, with "
    "`term: term '@' factor` as in CPython's grammar); its agreement with CPython is validated on every run "
    "through ast.parse, its unambiguity is not proved",
    "`a or b or c` is read as `(a or b) or c` (reference grammar: or_test ::= or_test 'or' and_test); CPython's "
    "flat BoolOp(values=[a,b,c]) is folded to the left by the converter; a chained Compare never matches a tree",
    "a negative number leaf Leaf('-2') is identified with the negation of the literal 2 (CPython parses '-2' as "
    "UnaryOp(USub, Constant(2))): same value",
    "str()/repr() of Python ints and finite floats are literals that evaluate back to the same number",
    "table entries that are not unary/binary operators (':=', lambda, if/else, await, subscription, slicing, "
    "displays) cannot be made into a well-formed UnaryOperator/BinaryOperator text and are outside the universe; "
    "number leaves occur only where the library creates them (never as left operand of ** or under an attribute "
    "access / call); sym('...') texts contain no keyword operators (white space is removed from them)",
    "automatic names shortened with an ellipsis (len > MAX_NAME) are outside the property; limit_str_length is "
    "not modelled (observed to be the identity on every name without '...')",
]

# --------------------------------------------------------------------------
# operators
# --------------------------------------------------------------------------
BOPS = [("or", "or"), ("and", "and"), ("in", "in"), ("notin", "not in"), ("is", "is"), ("isnot", "is not"),
        ("lt", "<"), ("le", "<="), ("gt", ">"), ("ge", ">="), ("ne", "!="), ("eq", "=="),
        ("bor", "|"), ("bxor", "^"), ("band", "&"), ("shl", "<<"), ("shr", ">>"), ("add", "+"), ("sub", "-"),
        ("mul", "*"), ("matmul", "@"), ("div", "/"), ("floordiv", "//"), ("mod", "%"), ("pow", "**")]
UOPS = [("not", "not "), ("pos", "+"), ("neg", "-"), ("inv", "~")]
BSYM = dict(BOPS)
USYM = dict(UOPS)
AST_BIN = {ast.BitOr: "bor", ast.BitXor: "bxor", ast.BitAnd: "band", ast.LShift: "shl", ast.RShift: "shr",
           ast.Add: "add", ast.Sub: "sub", ast.Mult: "mul", ast.MatMult: "matmul", ast.Div: "div",
           ast.FloorDiv: "floordiv", ast.Mod: "mod", ast.Pow: "pow"}
AST_CMP = {ast.In: "in", ast.NotIn: "notin", ast.Is: "is", ast.IsNot: "isnot", ast.Lt: "lt", ast.LtE: "le",
           ast.Gt: "gt", ast.GtE: "ge", ast.NotEq: "ne", ast.Eq: "eq"}
AST_BOOL = {ast.Or: "or", ast.And: "and"}
AST_UN = {ast.Not: "not", ast.UAdd: "pos", ast.USub: "neg", ast.Invert: "inv"}

# texts for sym('...'): (text as the user writes it, tokens for the model, ghost tree)
A_, B_, C_ = ("id", "A"), ("id", "B"), ("id", "C")
TEXTS = [
    ("A+B", "i.A,o.add,i.B", ("bin", "add", A_, B_)),
    ("A * B", "i.A,o.mul,i.B", ("bin", "mul", A_, B_)),
    ("~A", "p.inv,i.A", ("un", "inv", A_)),
    ("A - B*C", "i.A,o.sub,i.B,o.mul,i.C", ("bin", "sub", A_, ("bin", "mul", B_, C_))),
    ("(A+B) * C", "l,i.A,o.add,i.B,r,o.mul,i.C", ("bin", "mul", ("bin", "add", A_, B_), C_)),
    # texts that begin with "(" and end with ")" without being ONE parenthesised group, and one that is
    ("(A+B) * (C - A)", "l,i.A,o.add,i.B,r,o.mul,l,i.C,o.sub,i.A,r",
     ("bin", "mul", ("bin", "add", A_, B_), ("bin", "sub", C_, A_))),
    ("(A + B) - (C*A)", "l,i.A,o.add,i.B,r,o.sub,l,i.C,o.mul,i.A,r",
     ("bin", "sub", ("bin", "add", A_, B_), ("bin", "mul", C_, A_))),
    ("(B - C)", "l,i.B,o.sub,i.C,r", ("bin", "sub", B_, C_)),
]


# --------------------------------------------------------------------------
# trees (printer stream).  Tuples: ("id", s) ("num", neg, mag) ("q", textindex) ("un", op, c)
# ("bin", op, l, r) ("attr", name, c) ("call", c)
# --------------------------------------------------------------------------
def real_tree(t):
    k = t[0]
    if k == "id":
        return et.Leaf(t[1])
    if k == "num":
        return et.Leaf(("-" if t[1] else "") + t[2])
    if k == "q":
        return spa.sym(TEXTS[t[1]][0])._expr_tree
    if k == "un":
        return et.UnaryOperator(USYM[t[1]], real_tree(t[2]))
    if k == "bin":
        return et.BinaryOperator(BSYM[t[1]], real_tree(t[2]), real_tree(t[3]))
    if k == "attr":
        return et.AttributeAccess(t[1], real_tree(t[2]))
    if k == "call":
        return et.FunctionCall(tuple(), real_tree(t[1]))
    raise ValueError(t)


def rpn(t, sep=";"):
    k = t[0]
    if k == "id":
        return "i:" + t[1]
    if k == "num":
        return ("m:" if t[1] else "n:") + t[2]
    if k == "q":
        _, toks, inner = TEXTS[t[1]]
        return f"q:{toks}@{rpn(inner, '|')}"
    if k == "un":
        return rpn(t[2], sep) + sep + "u:" + t[1]
    if k == "bin":
        return rpn(t[2], sep) + sep + rpn(t[3], sep) + sep + "b:" + t[1]
    if k == "attr":
        return rpn(t[2], sep) + sep + "a:" + t[1]
    if k == "call":
        return rpn(t[1], sep) + sep + "c"
    raise ValueError(t)


def is_negnum(t):
    return t[0] == "num" and t[1]


def wf(t):
    """the universe of the printer clause: where the library can put a number"""
    k = t[0]
    if k in ("id", "num", "q"):
        return True
    if k == "un":
        return wf(t[2])
    if k == "bin":
        return wf(t[2]) and wf(t[3]) and not (t[1] == "pow" and is_negnum(t[2]))
    if k == "attr":
        return wf(t[2]) and t[2][0] != "num"      # "2.x" is lexed as a float prefix
    if k == "call":
        return wf(t[1]) and not is_negnum(t[1])


def canon(t):
    """what CPython must read back: number texts by value, '-2' as negation of 2, quoted text by its meaning"""
    k = t[0]
    if k == "id":
        return t
    if k == "num":
        c = ("num", ast.literal_eval(t[2]))
        return ("un", "neg", c) if t[1] else c
    if k == "q":
        return canon(TEXTS[t[1]][2])
    if k == "un":
        return ("un", t[1], canon(t[2]))
    if k == "bin":
        return ("bin", t[1], canon(t[2]), canon(t[3]))
    if k == "attr":
        return ("attr", t[1], canon(t[2]))
    if k == "call":
        return ("call", canon(t[1]))


def from_ast(n):
    """CPython's parse tree as a tuple tree (the referee of the grammar)."""
    if isinstance(n, ast.Expression):
        return from_ast(n.body)
    if isinstance(n, ast.Name):
        return ("id", n.id)
    if isinstance(n, ast.Constant) and type(n.value) in (int, float):
        return ("num", n.value)
    if isinstance(n, ast.UnaryOp):
        return ("un", AST_UN[type(n.op)], from_ast(n.operand))
    if isinstance(n, ast.BinOp):
        return ("bin", AST_BIN[type(n.op)], from_ast(n.left), from_ast(n.right))
    if isinstance(n, ast.BoolOp):
        vals = [from_ast(v) for v in n.values]
        acc = vals[0]
        for v in vals[1:]:          # reference grammar: left recursive
            acc = ("bin", AST_BOOL[type(n.op)], acc, v)
        return acc
    if isinstance(n, ast.Compare):
        if len(n.ops) != 1:
            return ("CHAINED-COMPARE", len(n.ops))
        return ("bin", AST_CMP[type(n.ops[0])], from_ast(n.left), from_ast(n.comparators[0]))
    if isinstance(n, ast.Attribute):
        return ("attr", n.attr, from_ast(n.value))
    if isinstance(n, ast.Call) and not n.args and not n.keywords:
        return ("call", from_ast(n.func))
    return ("UNSUPPORTED", type(n).__name__)


def relabel(t, names=None):
    """rename identifier leaves A, B, C, ... in reading order"""
    if names is None:
        names = iter([a for a in "ABCDEFGHIJKLMNOPQRSTUVWXYZ"] + [f"X{i}" for i in range(4000)])
    k = t[0]
    if k == "id":
        return ("id", next(names))
    if k in ("num", "q"):
        return t
    if k == "un":
        return ("un", t[1], relabel(t[2], names))
    if k == "bin":
        l = relabel(t[2], names)
        return ("bin", t[1], l, relabel(t[3], names))
    if k == "attr":
        return ("attr", t[1], relabel(t[2], names))
    if k == "call":
        return ("call", relabel(t[1], names))


def size(t):
    return 0 if t[0] in ("id", "num", "q") else 1 + sum(size(c) for c in t[1:] if isinstance(c, tuple))


def grow(pool, attr_names=("normalized",)):
    out = []
    for o, _ in UOPS:
        out += [("un", o, c) for c in pool]
    for o, _ in BOPS:
        out += [("bin", o, l, r) for l in pool for r in pool]
    for a in attr_names:
        out += [("attr", a, c) for c in pool]
    out += [("call", c) for c in pool]
    return out


def random_tree(rng, depth, leafkinds):
    if depth == 0 or rng.random() < 0.12:
        lk = rng.choice(leafkinds)
        if lk == "id":
            return ("id", "A")
        if lk == "num":
            return ("num", False, rng.choice(["2", "0.5", "10", "1e-05", "3.25"]))
        if lk == "neg":
            return ("num", True, rng.choice(["2", "0.5", "1.5"]))
        return ("q", rng.randrange(len(TEXTS)))
    r = rng.random()
    if r < 0.22:
        return ("un", rng.choice(UOPS)[0], random_tree(rng, depth - 1, leafkinds))
    if r < 0.80:
        return ("bin", rng.choice(BOPS)[0], random_tree(rng, depth - 1, leafkinds),
                random_tree(rng, depth - 1, leafkinds))
    if r < 0.90:
        return ("attr", rng.choice(["normalized", "unitary", "x", "rinv"]), random_tree(rng, depth - 1, leafkinds))
    return ("call", random_tree(rng, depth - 1, leafkinds))


def printer_stream(ctx, budget):
    leaf = ("id", "A")
    s1 = [leaf] + grow([leaf])
    trees = [(t, "depth<=2") for t in s1]
    # depth <= 2 with every kind of leaf at every position
    kinds = [leaf, ("num", False, "2"), ("num", True, "2"), ("num", False, "0.5"), ("q", 0), ("q", 3)]
    for t in grow(kinds, attr_names=("normalized", "x")):
        trees.append((t, "depth<=2-leafkinds"))
    if budget == "quick":
        # depth 3: every pair (outer operator, inner operator) on every operand side
        s2 = grow(s1)
        rng = ctx.rng
        keep = [t for t in s2 if not (t[0] == "bin" and t[2][0] != "id" and t[3][0] != "id")]
        both = [t for t in s2 if (t[0] == "bin" and t[2][0] != "id" and t[3][0] != "id")]
        trees += [(t, "depth3-one-compound-operand") for t in keep]
        trees += [(t, "depth3-sample") for t in rng.sample(both, 4000)]
        nrand, ndeep = 2500, 6
    else:
        trees += [(t, "depth3-exhaustive") for t in grow(s1)]
        nrand, ndeep = 30000, 7
    if budget == "deep":
        nrand = 120000
    for _ in range(nrand):
        t = random_tree(ctx.rng, ctx.rng.randint(3, ndeep), ["id", "id", "id", "num", "neg", "q"])
        trees.append((t, "random-deeper"))

    for t, branch in trees:
        t = relabel(t)
        ok_wf = wf(t)
        try:
            node = real_tree(t)
            text = str(node)
            impl = f"{node.precedence} {text}"
        except Exception as e:  # the printer is total on these
            ctx.fail({"stream": "printer", "tree": rpn(t)}, f"{type(e).__name__}: {e}", "str(tree)",
                     where="printer-raises")
            continue
        key = rpn(t)
        case = {"stream": "printer", "tree": key, "text": text}
        ctx.count("P " + key, nontrivial=size(t) > 0, branch="printer-" + branch + ("" if ok_wf else "-outside-universe"))
        if size(t) >= 3 and ok_wf:
            ctx.sample(case, limit=2)
        if ok_wf:
            want = canon(t)
            try:
                got = from_ast(ast.parse(text, mode="eval"))
            except SyntaxError as e:
                got = ("SYNTAX-ERROR", str(e))
            if got != want:
                ctx.fail(case, repr(got), repr(want), where="printer-reparse")

        def cb(st, payload, case=case, impl=impl):
            if st != "ok" or payload != impl:
                ctx.diff(case, impl, f"{st} {payload}", op="str")
        if not getattr(ctx, "no_driver", False):
            ctx.ask("str", [key], cb)


# --------------------------------------------------------------------------
# operator expressions (symbol and name streams).  Tuples: ("s", name) ("t", textindex) ("add", a, b)
# ("sub", a, b) ("mul", a, b) ("neg", a) ("inv", a) ("sr", a, num) ("sl", num, a) ("dv", a, num)
# ("pw", a, num) ("me", m, a) ("cp", kind, a); num = index into NUMS / EXPS
# --------------------------------------------------------------------------
NUMS = [2, -3, 0.5, -1.5, np.float64(0.25), np.float64(-2.0), np.int64(3), np.float32(-0.5),
        np.array(1.5), np.int32(-2), 1e-05, 7,
        # NumPy scalars whose exact value has no short decimal form (the factor is the scalar's VALUE)
        np.float32(0.1), np.float16(0.1), np.array(0.3, dtype=np.float32), np.float16(-1.3)]
EXPS = [2, 3, np.int64(2), -1, 1, 0]
METHODS = ["normalized", "unitary", "linv", "rinv"]
CPKINDS = ["copy", "reinterpret", "translate", "reinterpret_none"]


def lit(x):
    """the literal text of a number, computed here (not by the library): sign, magnitude"""
    x = x.item() if isinstance(x, (np.ndarray, np.generic)) else x
    s = repr(int(x)) if isinstance(x, int) else repr(float(x))
    return ("-" + s[1:]) if s.startswith("-") else ("+" + s)


def erpn(e):
    k = e[0]
    if k == "s":
        return "s:" + e[1]
    if k == "t":
        _, toks, inner = TEXTS[e[1]]
        return f"t:{toks}@{rpn(inner, '|')}"
    if k in ("add", "sub", "mul"):
        return erpn(e[1]) + ";" + erpn(e[2]) + ";" + k
    if k == "rb":                       # reflected binding: the same expression as e[1] * e[2]
        return erpn(e[1]) + ";" + erpn(e[2]) + ";mul"
    if k in ("neg", "inv"):
        return erpn(e[1]) + ";" + k
    if k == "sr":
        return erpn(e[1]) + ";sr:" + lit(NUMS[e[2]])
    if k == "sl":
        return erpn(e[2]) + ";sl:" + lit(NUMS[e[1]])
    if k == "dv":
        return erpn(e[1]) + ";dv:" + lit(NUMS[e[2]])
    if k == "pw":
        return erpn(e[1]) + ";pw:" + lit(EXPS[e[2]])
    if k == "me":
        return erpn(e[2]) + ";me:" + e[1]
    if k == "cp":
        return erpn(e[2]) + ";cp"
    raise ValueError(e)


def describe(e):
    """readable Python source of the expression (for replays)"""
    k = e[0]
    if k == "s":
        return e[1]
    if k == "t":
        return f"sym({TEXTS[e[1]][0]!r})"
    if k in ("add", "sub", "mul"):
        return f"({describe(e[1])} {dict(add='+', sub='-', mul='*')[k]} {describe(e[2])})"
    if k == "rb":
        return f"{describe(e[2])}.__rmul__({describe(e[1])})"
    if k == "neg":
        return f"(-{describe(e[1])})"
    if k == "inv":
        return f"(~{describe(e[1])})"
    if k == "sr":
        return f"({describe(e[1])} * {NUMS[e[2]]!r})"
    if k == "sl":
        return f"({NUMS[e[1]]!r} * {describe(e[2])})"
    if k == "dv":
        return f"({describe(e[1])} / {NUMS[e[2]]!r})"
    if k == "pw":
        return f"({describe(e[1])} ** {EXPS[e[2]]!r})"
    if k == "me":
        return f"{describe(e[2])}.{e[1]}()"
    if k == "cp":
        return f"{describe(e[2])}.{e[1]}(...)"


def esize(e):
    return 0 if e[0] in ("s", "t") else 1 + sum(esize(c) for c in e[1:] if isinstance(c, tuple))


def text_expr(inner):
    """the ghost tree of a sym text as an operator expression (its direct meaning)"""
    k = inner[0]
    if k == "id":
        return ("s", inner[1])
    if k == "un":
        return ({"neg": "neg", "inv": "inv"}[inner[1]], text_expr(inner[2]))
    if k == "bin":
        return (inner[1], text_expr(inner[2]), text_expr(inner[3]))
    raise ValueError(inner)


def has_translate(e):
    return (e[0] == "cp" and e[1] == "translate") or any(has_translate(c) for c in e[1:] if isinstance(c, tuple))


def no_translate(e):
    if e[0] == "cp" and e[1] == "translate":
        return ("cp", "copy", no_translate(e[2]))
    return tuple(no_translate(c) if isinstance(c, tuple) else c for c in e)


class Refused(Exception):
    pass


def build(e, leaf, text, vocab, memo):
    """apply the Python operators / methods of `e` to the objects `leaf(name)` / `text(i)`"""
    if e in memo:
        r = memo[e]
        if isinstance(r, Refused):
            raise r
        return r
    try:
        r = _build(e, leaf, text, vocab, memo)
    except Refused as ex:
        memo[e] = ex
        raise
    except (TypeError, AttributeError, NotImplementedError, ZeroDivisionError, ValueError, ImportError,
            np.linalg.LinAlgError) as ex:
        r = Refused(f"{type(ex).__name__}: {str(ex)[:80]}")
        memo[e] = r
        raise r
    memo[e] = r
    return r


def _build(e, leaf, text, vocab, memo):
    k = e[0]
    b = lambda x: build(x, leaf, text, vocab, memo)
    if k == "s":
        return leaf(e[1])
    if k == "t":
        return text(e[1])
    if k == "add":
        return b(e[1]) + b(e[2])
    if k == "sub":
        return b(e[1]) - b(e[2])
    if k == "mul":
        return b(e[1]) * b(e[2])
    if k == "rb":
        # the reflected path Python takes for `x * y` when type(x) does not handle it: y.__rmul__(x) (= y.rbind(x))
        x, y = b(e[1]), b(e[2])
        r = y.__rmul__(x)
        if r is NotImplemented:
            raise TypeError("__rmul__ returned NotImplemented")
        return r
    if k == "neg":
        return -b(e[1])
    if k == "inv":
        return ~b(e[1])
    if k == "sr":
        return b(e[1]) * NUMS[e[2]]
    if k == "sl":
        return NUMS[e[1]] * b(e[2])
    if k == "dv":
        return b(e[1]) / NUMS[e[2]]
    if k == "pw":
        return b(e[1]) ** EXPS[e[2]]
    if k == "me":
        return getattr(b(e[2]), e[1])()
    if k == "cp":
        x = b(e[2])
        if e[1] == "copy":
            return x.copy()
        if e[1] == "reinterpret":
            return x.reinterpret(vocab)
        if e[1] == "reinterpret_none":
            return x.reinterpret(None)
        if x.vocab is None:
            raise Refused("translate without vocabulary")
        return x.translate(vocab, populate=False)
    raise ValueError(e)


def make_vocab(ctx, alg, d):
    """a vocabulary whose keys form an orthonormal basis (then translate(vocab) is the identity map,
    so that names that went through translate can be checked by value as well)"""
    rs = ctx.np_rng()
    qmat, _ = np.linalg.qr(rs.randn(d, d))
    v = spa.Vocabulary(d, algebra=alg, pointer_gen=rs)
    for i in range(d):
        v.add("ABCDEFGHIJKLMNOPQRSTUVWXYZ"[i], qmat[:, i])
    return v


def expr_universe(rng, which, depth3, nrandom, maxdepth):
    """`which` = 'sym' (with sym('...') texts) or 'name' (with ** and copy/reinterpret/translate)"""
    def num():
        return rng.randrange(len(NUMS))

    def unaries(a):
        out = [("neg", a), ("inv", a), ("sr", a, num()), ("sl", num(), a), ("dv", a, num())]
        out += [("me", m, a) for m in METHODS]
        if which == "name":
            out += [("pw", a, rng.randrange(len(EXPS)))] + [("cp", k, a) for k in CPKINDS]
        return out

    atoms = [("s", "A"), ("s", "B")] + ([("t", rng.randrange(len(TEXTS)))] if which == "sym" else [("s", "C")])

    def level(pool):
        out = []
        for a in pool:
            out += unaries(a)
        for k in ("add", "sub", "mul") + (("rb",) if which == "name" else ()):
            out += [(k, a, b) for a in pool for b in pool]
        return out
    l1 = atoms
    l2 = l1 + level(l1)
    res = [(e, "depth<=2") for e in l2]
    if depth3:
        res += [(e, "depth3-exhaustive") for e in level(l2)]
    else:
        res += [(e, "depth3-sample") for e in rng.sample(level(l2), 2500)]

    def rnd(depth):
        if depth == 0 or rng.random() < 0.1:
            r = rng.random()
            if which == "sym" and r < 0.25:
                return ("t", rng.randrange(len(TEXTS)))
            return ("s", rng.choice("ABCD"))
        if rng.random() < 0.45:
            return (rng.choice(["add", "sub", "mul"] + (["rb"] if which == "name" else [])), rnd(depth - 1), rnd(depth - 1))
        return rng.choice(unaries(rnd(depth - 1)))
    for _ in range(nrandom):
        res.append((rnd(rng.randint(3, maxdepth)), "random-deeper"))
    if which == "sym":
        # refusals: operations symbols do not have
        res += [(("pw", ("s", "A"), 0), "refusal"), (("cp", "copy", ("add", ("s", "A"), ("s", "B"))), "refusal")]
    return res


def value_streams(ctx, budget):
    algebras = [("hrr", HrrAlgebra, 16), ("vtb", VtbAlgebra, 16), ("tvtb", TvtbAlgebra, 16)]
    if budget != "quick":
        algebras += [("vtb9", VtbAlgebra, 9), ("tvtb9", TvtbAlgebra, 9), ("hrr9", HrrAlgebra, 9)]
    nrandom = {"quick": 400, "thorough": 4000, "deep": 15000}[budget]
    maxdepth = 5 if budget == "quick" else 6
    no_driver = getattr(ctx, "no_driver", False)
    asked = set()
    for tag, Alg, d in algebras:
        vocab = make_vocab(ctx, Alg(), d)
        depth3 = True
        # ---------------- symbols ----------------
        uni = expr_universe(ctx.rng, "sym", depth3, nrandom, maxdepth)
        m_direct, m_typed, m_untyped = {}, {}, {}
        typed_leaf = lambda n: PointerSymbol(n, TVocabulary(vocab))
        untyped_leaf = lambda n: getattr(spa.sym, n)
        for e, branch in uni:
            key = erpn(e)
            case = {"stream": "symbol", "algebra": tag, "d": d, "expr": describe(e), "rpn": key}
            # the symbolic expression, twice: typed leaves / spa.sym leaves
            try:
                se = build(e, typed_leaf, lambda i: spa.sym(TEXTS[i][0]), vocab, m_typed)
                su = build(e, untyped_leaf, lambda i: spa.sym(TEXTS[i][0]), vocab, m_untyped)
                text = se.expr
                if su.expr != text:
                    ctx.fail(case, su.expr, text, where="symbol-expr-depends-on-type")
            except Refused as ex:
                se, text = None, None
                refusal = str(ex)
            # direct meaning
            try:
                sp = build(e, lambda n: vocab[n],
                           lambda i: build(text_expr(TEXTS[i][2]), lambda n: vocab[n], None, vocab, m_direct),
                           vocab, m_direct)
                direct = sp.v
                if not np.all(np.isfinite(direct)):     # 0/0 in a degenerate operand: nothing to compare
                    raise Refused("non-finite direct value")
            except Refused as ex:
                direct = None
                direct_ref = str(ex)
            if se is None:
                ctx.count("S " + tag + " " + key, nontrivial=False, branch=f"symbol-{tag}-refused-by-symbol")
                case["impl"] = "refused: " + refusal
                if branch != "refusal" and direct is not None and "pw" not in key and ";cp" not in key:
                    ctx.fail(case, refusal, "a symbolic expression", where="symbol-build-raises")
            else:
                case["text"] = text
                nontriv = esize(e) > 0 and direct is not None
                ctx.count("S " + tag + " " + key, nontrivial=nontriv,
                          branch=f"symbol-{tag}-{branch}" + ("" if direct is not None else "-direct-refused"))
                if esize(e) >= 3 and direct is not None:
                    ctx.sample(case, limit=4)
                # oracle 1: vocab.parse(expr)
                try:
                    pv = vocab.parse(text).v
                    perr = None
                except Exception as ex:
                    pv, perr = None, f"{type(ex).__name__}: {str(ex)[:120]}"
                if direct is not None:
                    scale = max(1.0, float(np.max(np.abs(direct))))
                    if pv is None:
                        ctx.fail(case, perr, "parse(expr) evaluates like the direct computation", where="symbol-parse-raises")
                    elif not np.allclose(pv, direct, rtol=0, atol=1e-9 * scale):
                        ctx.fail(dict(case, maxdiff=float(np.max(np.abs(pv - direct)))), "parse(expr).v differs",
                                 "equal to the direct computation (1e-9)", where="symbol-value")
                    elif not np.array_equal(pv, direct):
                        # the statement says "exactly": same operations, same nesting, same float arithmetic
                        ctx.extra["symbol_inexact"] = ctx.extra.get("symbol_inexact", 0) + 1
                        ctx.fail(dict(case, maxdiff=float(np.max(np.abs(pv - direct)))), "parse(expr).v differs in the last bits",
                                 "bitwise equal to the direct computation (same operations, same nesting)", where="symbol-value-exact")
                    # oracle 2: PointerSymbol.evaluate()
                    try:
                        ev = se.evaluate().v
                        if not np.allclose(ev, direct, rtol=0, atol=1e-9 * scale):
                            ctx.fail(dict(case, maxdiff=float(np.max(np.abs(ev - direct)))), "evaluate().v differs",
                                     "equal to the direct computation (1e-9)", where="symbol-value")
                    except spa.exceptions.SpaTypeError:
                        ctx.dist["symbol-untyped-no-evaluate"] = ctx.dist.get("symbol-untyped-no-evaluate", 0) + 1
                    except Exception as ex:
                        ctx.fail(case, f"{type(ex).__name__}: {str(ex)[:120]}", "evaluate() succeeds",
                                 where="symbol-evaluate-raises")
                elif pv is not None and np.all(np.isfinite(pv)):
                    # the direct computation raised (e.g. VTB has no left inverse): the text must not evaluate either
                    ctx.fail(dict(case, direct=direct_ref), "parse(expr) succeeded", "the same refusal",
                             where="symbol-refusal-differs")
            if not no_driver and key not in asked:
                asked.add(key)

                def cb(st, payload, case=case, text=text):
                    impl = ("ok", text) if text is not None else ("err", "refused")
                    if (st, payload) != impl:
                        ctx.diff(case, list(impl), [st, payload], op="sym")
                ctx.ask("sym", [key], cb)

        # ---------------- names ----------------
        uni = expr_universe(ctx.rng, "name", depth3, nrandom, maxdepth)
        m_direct = {}
        for e, branch in uni:
            key = erpn(e)
            case = {"stream": "name", "algebra": tag, "d": d, "expr": describe(e), "rpn": key}
            try:
                sp = build(e, lambda n: vocab[n], None, vocab, m_direct)
            except Refused as ex:
                ctx.count("N " + tag + " " + key, nontrivial=False, branch=f"name-{tag}-refused")
                continue
            name = sp.name
            case["name"] = name
            if not np.all(np.isfinite(sp.v)):
                ctx.count("N " + tag + " " + key, nontrivial=False, branch=f"name-{tag}-nonfinite")
                continue
            if name is None:
                ctx.fail(case, None, "an automatic name", where="name-missing")
                continue
            if "..." in name:
                ctx.count("N " + tag + " " + key, nontrivial=False, branch=f"name-{tag}-ellipsis")
                continue
            target = sp.v
            if has_translate(e):
                # translate(vocab) is the identity map only up to rounding (1e-16), which later
                # normalisations of cancelling terms amplify: compare with the same expression in which
                # translate is the exact identity (the name must still denote that nesting)
                try:
                    target = build(no_translate(e), lambda n: vocab[n], None, vocab, m_direct).v
                except Refused:
                    ctx.count("N " + tag + " " + key, nontrivial=False, branch=f"name-{tag}-refused")
                    continue
                branch += "-translate"
            ctx.count("N " + tag + " " + key, nontrivial=esize(e) > 0, branch=f"name-{tag}-{branch}")
            if esize(e) >= 3:
                ctx.sample(case, limit=6)
            scale = max(1.0, float(np.max(np.abs(target))))
            try:
                pv = vocab.parse(name).v
                if not np.allclose(pv, target, rtol=0, atol=1e-9 * scale):
                    ctx.fail(dict(case, maxdiff=float(np.max(np.abs(pv - target)))), "parse(name).v differs",
                             "equal to the pointer's vector (1e-9)", where="name-value")
            except Exception as ex:
                ctx.fail(case, f"{type(ex).__name__}: {str(ex)[:120]}", "parse(name) succeeds", where="name-parse-raises")
            if not no_driver and ("n", key) not in asked:
                asked.add(("n", key))

                def cb(st, payload, case=case, name=name):
                    if (st, payload) != ("ok", name):
                        ctx.diff(case, ["ok", name], [st, payload], op="name")
                ctx.ask("name", [key], cb)

        # a name longer than MAX_NAME is shortened: outside the property, only observed
        long_sp = vocab["A"]
        for i in range(260):
            long_sp = long_sp + vocab["B"]
        ctx.count("N " + tag + " long", nontrivial=False,
                  branch=f"name-{tag}-" + ("ellipsis" if "..." in long_sp.name else "long-without-ellipsis"))
        if "..." not in long_sp.name:
            ctx.note(f"name of 261 summands not shortened (len {len(long_sp.name)})")

        # the same nesting as a SYMBOLIC expression of this vocabulary (first clause of the statement)
        for uname, ufn in (("neg", lambda p, i: -p), ("inv", lambda p, i: ~p)):
            for n in (60, 150, 199, 230, 300):
                case = {"stream": "symbol", "algebra": tag, "d": d, "expr": f"{uname} x {n} on sym A", "nesting": n}
                ctx.count(f"S {tag} deep {uname} {n}", branch=f"symbol-{tag}-deep-unary")
                direct = vocab["A"]
                try:
                    with warnings.catch_warnings():
                        warnings.simplefilter("ignore")
                        sy = PointerSymbol("A", TVocabulary(vocab))
                        for i in range(n):
                            sy = ufn(sy, i)
                            direct = ufn(direct, i)
                        got = sy.evaluate().v
                    if not np.array_equal(got, direct.v):
                        ctx.fail(case, "evaluate().v differs", "the direct computation", where="symbol-deep-unary-value")
                except Exception as ex:  # noqa: BLE001
                    cls = ("cpython-nesting-limit" if isinstance(ex, SyntaxError) and "too many nested parentheses" in str(ex)
                           and n > 199 else "other")
                    ctx.fail(dict(case, **{"class": cls}), f"{type(ex).__name__}: {str(ex)[:80]}",
                             "evaluates like the direct computation", where="symbol-deep-unary-evaluate")

        # directly nested unary operators: three characters per level, the deepest nesting a name can reach
        # below MAX_NAME.  Unshortened names must parse to the pointer's vector; building the pointer must work.
        for uname, ufn in (("neg", lambda p, i: -p), ("inv", lambda p, i: ~p), ("alt", lambda p, i: -p if i % 2 else ~p)):
            for n in (60, 150, 199, 201, 230, 300, 341, 345, 600, 1100):
                case = {"stream": "name", "algebra": tag, "d": d, "expr": f"{uname} x {n} on A", "nesting": n}
                sp = vocab["A"]
                try:
                    with warnings.catch_warnings():
                        warnings.simplefilter("ignore")
                        for i in range(n):
                            sp = ufn(sp, i)
                    name = sp.name
                except BaseException as ex:  # noqa: BLE001
                    if isinstance(ex, (KeyboardInterrupt, SystemExit)):
                        raise
                    ctx.fail(case, f"{type(ex).__name__}"[:80], "a pointer with a name", where="name-deep-unary-raises")
                    continue
                if name is None or "..." in name:
                    ctx.count(f"N {tag} deep {uname} {n}", nontrivial=False, branch=f"name-{tag}-deep-ellipsis")
                    continue
                ctx.count(f"N {tag} deep {uname} {n}", branch=f"name-{tag}-deep-unary")
                case["name_length"] = len(name)
                try:
                    with warnings.catch_warnings():
                        warnings.simplefilter("ignore")
                        pv = vocab.parse(name).v
                    if not np.allclose(pv, sp.v, rtol=0, atol=1e-9):
                        ctx.fail(case, "parse(name).v differs", "equal to the pointer's vector (1e-9)", where="name-deep-unary-value")
                except Exception as ex:  # noqa: BLE001
                    cls = ("cpython-nesting-limit" if isinstance(ex, SyntaxError) and "too many nested parentheses" in str(ex)
                           and n > 199 else "other")
                    ctx.fail(dict(case, **{"class": cls}), f"{type(ex).__name__}: {str(ex)[:80]}",
                             "parse(name) succeeds: the name carries no ellipsis", where="name-deep-unary-parse")


def _run(ctx, budget):
    printer_stream(ctx, budget)
    value_streams(ctx, budget)
    if not getattr(ctx, "no_driver", False):
        ctx.flush(DRIVER)
    ctx.extra["exhaustive"] = budget != "quick"
    ctx.extra["exhaustive_scope"] = ("printer: all trees of depth <= 2 with every leaf kind" +
                                     (", all trees of depth <= 3 over all operators" if budget != "quick" else
                                      ", depth 3 with one compound operand exhaustive + sample of the rest") +
                                     "; symbols/names: all expressions of depth <= 3 per algebra; plus random deeper ones")
    ctx.extra["programs"] = len({k.split(" ", 2)[-1] for k in ctx.nontrivial})
    ctx.extra["universe"] = {"binary": [s for _, s in BOPS], "unary": [s for _, s in UOPS],
                             "left_out_table_entries": [":=", "lambda", "if", "else", "await x", "x[index]",
                                                        "x[index:index]", "[expressions...]", "{key: value...}",
                                                        "{expressions...}"],
                             "numbers": [repr(x) for x in NUMS], "exponents": [repr(x) for x in EXPS],
                             "sym_texts": [t for t, _, _ in TEXTS]}
    ctx.extra["not_proved"] = "unambiguity of the stratified grammar (ast.parse is the referee); Python's evaluator"


def run(ctx):
    _run(ctx, ctx.tier)


def search(ctx):
    """deeper oracle-only search after a broken proof / correspondence"""
    ctx.no_driver = True
    _run(ctx, "thorough" if ctx.tier == "quick" else "deep")

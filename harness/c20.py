"""C20 — similarity, text and pairs report true similarities for all input shapes.

Tie: `nengo_spa.examine.similarity / text / pairs` of the real tree against the
Lean model `C20.Impl` (drivers/C20.lean) on
  * all data shapes {(d,), SemanticPointer, (1,d), (T,d) with T in 0..5} x vocabulary forms
    {Vocabulary, (N,d) ndarray, (d,) ndarray, list / tuple of arrays, list of lists, list of
    SemanticPointers} x normalize x N in 0..8 x zero rows, plus a malformed stream (dimension mismatch,
    ragged list, empty list, empty 1-D array, non-iterable, 2-D `v` for text);
  * the grid minimum in {None,-1,0..4} x maximum in {None,-1,0..4} x threshold in {None,-1,0.1,0.5,2} x
    terms in {None, subsets, repetitions, compound expressions} x normalize x join for vocabularies of
    0..8 keys with small dyadic entries (equal similarities included);
  * pairs on key lists of 0..8 keys (Vocabulary and dict);
  * the two-decimal formatting on dyadic values (exact ties k/8 included).
Oracle (independent of the Lean model): the statement evaluated with `fractions.Fraction`
(dot products, cosine through math.sqrt of the exact squared norms, Fraction.__round__ for half-even
rounding, the text clauses checked on the parsed output string, a double loop for the pairs).
"""
import math
import re
from fractions import Fraction as Fr

import numpy as np

import nengo_spa as spa
from nengo_spa.examine import pairs, similarity, text

from common import q, qvec

PROPERTY = "C20"
LEAN_MODULES = ["SpaModel.Props.C20"]
AUDIT = "SpaModel/Audit/C20.lean"
DRIVER = "drivers/C20.lean"
RULE = ("one evaluation = one call of similarity / text / pairs / float formatting on a generated case, compared "
        "with the Lean model and judged by the Fraction oracle; non-trivial: similarity with N >= 1 vectors and a "
        "non-zero dot product, text with >= 2 candidate terms, pairs with >= 2 keys, every formatting value; "
        "distinct = distinct canonical JSON of the case")
ASSUMPTIONS = [
    "arrays are float64 (integer-typed data AND vocabulary with normalize=True raise a casting TypeError in "
    "`dots /= dnorm`; outside the quantified inputs, recorded in the evidence notes)",
    "IEEE rounding is outside the model: cases are generated with small dyadic entries so that every float "
    "operation of the unnormalised path is exact; normalised values are compared at 1e-12",
    "the model answers normalised similarities only for vectors with a rational Euclidean norm; other vectors are "
    "judged by the oracle alone (branch `oracle-only-irrational-norm`)",
    "`vocab.parse` (compound terms) is C10's subject: the model receives the parsed term vectors",
    "Python compares str by code point, as Lean's String order does; list.sort on a total order yields the unique "
    "sorted list",
]

TOL = 1e-12
DYADIC = [0.0, 0.0, 1.0, -1.0, 0.5, -0.5, 0.25, 2.0, -2.0, 0.125, 0.375, 1.5, -0.75, 0.0625]
PYTH = {
    1: [(1,), (2,), (0,), (3,)],
    2: [(3, 4), (1, 0), (0, 0), (5, 12), (8, 6), (2, 0)],
    3: [(1, 2, 2), (2, 3, 6), (1, 4, 8), (4, 4, 7), (3, 4, 0), (2, 0, 0), (0, 0, 0), (2, 6, 9)],
    4: [(3, 4, 0, 0), (1, 2, 2, 0), (1, 1, 1, 1), (2, 0, 0, 0), (0, 0, 0, 0), (2, 3, 6, 0), (1, 4, 8, 0),
        (4, 4, 7, 0), (1, 2, 2, 4), (2, 4, 5, 6), (1, 1, 3, 5), (1, 3, 3, 9)],
}
KEYS = ["A", "B", "C", "D", "Ab", "A1", "Zed", "B_x", "Ca", "E"]
JOINS = [";", " + ", ", ", "|"]


# --------------------------------------------------------------------------
# helpers
# --------------------------------------------------------------------------
def rows_tok(rows):
    return "|".join(qvec(r) for r in rows) if len(rows) else "~"


def names_tok(names):
    return ";".join(names) if len(names) else "~"


def opt_tok(x, rat=False):
    if x is None:
        return "!"
    return q(x) if rat else str(int(x))


def codes_tok(s):
    return ",".join(str(ord(c)) for c in s) if s else "-"


def fdot(a, b):
    return sum((Fr(x) * Fr(y) for x, y in zip(a, b)), Fr(0))


def rat_sqrt(fr):
    """exact square root of a non-negative Fraction or None"""
    n, d = fr.numerator, fr.denominator
    a, b = math.isqrt(n), math.isqrt(d)
    return Fr(a, b) if a * a == n and b * b == d else None


def fmt_oracle(fr):
    """two decimals, correctly rounded half-even, sign kept (C printf)"""
    r = abs(round(fr, 2))
    h = int(r * 100)
    return ("-" if fr < 0 else "") + f"{h // 100}.{h % 100:02d}"


def gen_vec(rng, d, mode, zero_p=0.12):
    if rng.random() < zero_p:
        return [0.0] * d
    if mode == "rational":
        base = list(rng.choice(PYTH[min(d, 4)])) + [0] * max(0, d - 4)
        rng.shuffle(base)
        s = 2.0 ** rng.randint(-2, 2)
        return [float(x) * s * rng.choice((1, -1)) for x in base]
    if mode == "pow2":   # norm is a power of two
        k = 2.0 ** rng.randint(-2, 2)
        if d >= 4 and rng.random() < 0.6:
            idx = rng.sample(range(d), 4)
            v = [0.0] * d
            for i in idx:
                v[i] = k * rng.choice((1, -1))
            return v
        v = [0.0] * d
        v[rng.randrange(d)] = k * rng.choice((1, -1))
        return v
    return [rng.choice(DYADIC) for _ in range(d)]


def exc_class(e):
    if isinstance(e, StopIteration):
        return "StopIteration"
    if isinstance(e, ValueError):
        return "ValueError"
    return "other:" + type(e).__name__


def model_err_class(payload):
    return {"ValueError": "ValueError", "not-a-vocabulary": "ValueError",
            "not-a-vector": "ValueError"}.get(payload, payload)


# --------------------------------------------------------------------------
# similarity
# --------------------------------------------------------------------------
def _dt(case):
    return np.float32 if case.get("dtype") == "f32" else float


def build_data(case):
    a = np.array(case["data"], dtype=_dt(case))
    if case["data_form"] == "series":
        return a.reshape(len(case["data"]), case["d"])
    if case["data_form"] == "pointer":
        return spa.SemanticPointer(a)
    return a


def build_vocab(case):
    f, vs = case["vocab_form"], case["vectors"]
    if case.get("vdtype") == "int":      # integer-typed vocabulary arrays / lists of Python ints (values are integral)
        iv = [[int(x) for x in r] for r in vs]
        if f == "array2":
            return np.array(iv, dtype=np.int64).reshape(len(iv), case["vd"])
        if f == "list_arrays":
            return [np.array(r, dtype=np.int32) for r in iv]
        if f == "tuple_arrays":
            return tuple(np.array(r, dtype=np.int64) for r in iv)
        if f == "list_lists":
            return iv
    if f == "vocabulary":
        v = spa.Vocabulary(case["vd"], strict=False)
        for i, r in enumerate(vs):
            v.add(f"K{i}", np.array(r, dtype=float))
            if i == 0 and len(vs) % 2 == 1:
                try:                     # history: a refused addition (wrong length) lies between the entries
                    v.add("Refused", np.ones(case["vd"] + 1))
                except Exception:  # noqa: BLE001
                    pass
        return v
    if f == "array2":
        return np.array(vs, dtype=_dt(case)).reshape(len(vs), case["vd"])
    if f == "array1":
        return np.array(vs[0], dtype=_dt(case))
    if f == "list_arrays":
        return [np.array(r, dtype=_dt(case)) for r in vs]
    if f == "tuple_arrays":
        return tuple(np.array(r, dtype=_dt(case)) for r in vs)
    if f == "list_lists":
        return [list(map(float, r)) for r in vs]
    if f == "list_pointers":
        return [spa.SemanticPointer(np.array(r, dtype=float)) for r in vs]
    if f == "not_iterable":
        return 3.5
    raise KeyError(f)


def sim_tokens(case):
    if case["data_form"] == "series":
        dt = f"S:{case['d']}:{rows_tok(case['data'])}"
    else:
        dt = ("P:" if case["data_form"] == "pointer" else "V:") + qvec(case["data"])
    f, vs = case["vocab_form"], case["vectors"]
    if f == "vocabulary":
        vt = f"K:{case['vd']}:{rows_tok(vs)}"
    elif f == "array2":
        vt = f"A2:{case['vd']}:{rows_tok(vs)}"
    elif f == "array1":
        vt = "A1:" + qvec(vs[0])
    elif f == "list_pointers":
        vt = "LP:" + rows_tok(vs)
    elif f == "not_iterable":
        vt = "X"
    else:
        vt = "LA:" + rows_tok(vs)
    return ["1" if case["normalize"] else "0", dt, vt]


def sim_valid(case):
    """inputs inside the property's quantifier: well-formed, matching dimensions; a Vocabulary or a 2-D array
    may have N = 0 vectors (result shape (0,) / (T,0) is demanded); an empty *list* is a degenerate input that
    NumPy turns into a (1,0) array and refuses in np.dot: mirrored by the model, not demanded"""
    f, vs = case["vocab_form"], case["vectors"]
    if f == "not_iterable":
        return False
    if f not in ("vocabulary", "array2") and len(vs) == 0:
        return False
    if f == "array1" and len(vs[0]) == 0:
        return False
    return all(len(r) == case["d"] for r in vs) and case.get("vd", case["d"]) == case["d"]


def exec_sim(ctx, case, ask=True):
    data_rows = case["data"] if case["data_form"] == "series" else [case["data"]]
    vs = case["vectors"]
    try:
        out = similarity(build_data(case), build_vocab(case), normalize=case["normalize"])
        impl = ("ok", tuple(out.shape), [float(y) for y in np.asarray(out).ravel()])
    except (Exception, StopIteration) as e:  # noqa
        impl = ("err", exc_class(e), str(e)[:120])
    valid = sim_valid(case)
    nontrivial = valid and len(vs) >= 1 and any(fdot(x, v) != 0 for x in data_rows for v in vs)
    branch = (f"sim-{case['data_form']}{'1' if case['data_form'] == 'series' and len(data_rows) == 1 else ''}"
              f"-{case['vocab_form']}-{'norm' if case['normalize'] else 'dot'}"
              f"-{'valid' if valid else 'malformed'}-{impl[0] if impl[0] == 'ok' else impl[1]}")
    ctx.count(case, nontrivial=nontrivial, branch=branch)
    ctx.sample({"case": case, "impl": impl[:2]}, limit=4)

    # ---- oracle ----------------------------------------------------------
    if valid:
        n = len(vs)
        if impl[0] != "ok":
            ctx.fail(case, f"raised {impl[1]}: {impl[2]}", "an array of similarities", where="similarity-raises")
        else:
            want_shape = (len(data_rows), n) if case["data_form"] == "series" else (n,)
            if impl[1] != want_shape:
                ctx.fail(case, f"shape {impl[1]}", f"shape {want_shape}", where="similarity-shape")
            else:
                bad = None
                tol = 1e-5 if case.get("dtype") == "f32" else TOL      # float32 inputs are computed in float32
                for t, x in enumerate(data_rows):
                    xx = fdot(x, x)
                    for i, v in enumerate(vs):
                        y = impl[2][t * n + i]
                        d = fdot(x, v)
                        if case["normalize"]:
                            vv = fdot(v, v)
                            if xx == 0 or vv == 0:
                                want, ok = 0.0, (y == 0.0)
                            else:
                                want = float(d) / (math.sqrt(xx) * math.sqrt(vv))
                                ok = abs(y - want) <= tol
                        else:
                            want = float(d)
                            ok = abs(y - want) <= tol * max(1.0, abs(want))
                        if not ok or y != y:
                            bad = bad or (t, i, y, want)
                if bad:
                    ctx.fail(case, f"result[{bad[0]}][{bad[1]}] = {bad[2]!r}", f"{bad[3]!r}",
                             where="similarity-nan" if bad[2] != bad[2] else "similarity-value")

    # ---- model -----------------------------------------------------------
    if not ask or getattr(ctx, "no_driver", False):
        return

    def cb(st, payload, case=case, impl=impl):
        if st == "err":
            if payload == "irrational-norm":
                ctx.dist["oracle-only-irrational-norm"] = ctx.dist.get("oracle-only-irrational-norm", 0) + 1
                return
            if impl[0] != "err" or model_err_class(payload) != impl[1]:
                ctx.diff(case, list(impl[:2]), ["err", payload], op="sim")
            return
        if impl[0] != "ok":
            ctx.diff(case, list(impl[:2]), payload[:80], op="sim")
            return
        if payload.startswith("F:"):
            vals = [] if payload[2:] == "-" else [Fr(t) for t in payload[2:].split(",")]
            shape = (len(vals),)
        else:
            _, n, rows = payload.split(":")
            rows = [] if rows == "~" else [([] if r == "-" else [Fr(t) for t in r.split(",")]) for r in rows.split("|")]
            shape = (len(rows), int(n))
            vals = [y for r in rows for y in r]
        if shape != impl[1] or len(vals) != len(impl[2]):
            ctx.diff(case, f"shape {impl[1]}", f"shape {shape}", op="sim-shape")
            return
        tolm = 1e-5 if case.get("dtype") == "f32" else TOL
        for y, r in zip(impl[2], vals):
            if not abs(y - float(r)) <= tolm * max(1.0, abs(float(r))):
                ctx.diff(case, impl[2][:12], [str(v) for v in vals[:12]], op="sim-value")
                return
    ctx.ask("sim", sim_tokens(case), cb)


def sim_cases(ctx, tier):
    rng = ctx.rng
    dims = [4, 2] if tier == "quick" else [4, 2, 3, 5, 1, 7]
    rounds = 1 if tier == "quick" else 4
    forms = ["vocabulary", "array2", "list_arrays", "tuple_arrays", "list_lists", "list_pointers"]
    shapes = [("vec", 1), ("pointer", 1), ("series", 1), ("series", 0), ("series", 2), ("series", 3), ("series", 5)]
    for _ in range(rounds):
        for d in dims:
            for n in range(0, 9):
                for form in forms:
                    for df, T in shapes:
                        if tier == "quick" and T in (0, 5) and n % 3 != 1:
                            continue
                        for nz in (False, True):
                            mode = rng.choice(["rational", "rational", "dyadic"]) if nz else "dyadic"
                            vs = [gen_vec(rng, d, mode) for _ in range(n)]
                            if n >= 2 and rng.random() < 0.3:
                                vs[rng.randrange(n)] = list(vs[0])          # equal similarities
                            rows = [gen_vec(rng, d, mode, zero_p=0.2) for _ in range(T if df == "series" else 1)]
                            f32 = form in ("array2", "list_arrays", "tuple_arrays") and rng.random() < 0.25
                            if f32:
                                # 32-bit data and vocabulary arrays (dyadic entries are exact in float32); zero rows still give 0
                                vs = [gen_vec(rng, d, "dyadic") for _ in range(n)]
                                rows = [gen_vec(rng, d, "dyadic", zero_p=0.3) for _ in range(T if df == "series" else 1)]
                                yield {"op": "sim", "normalize": nz, "data_form": df, "d": d,
                                       "data": rows if df == "series" else rows[0],
                                       "vocab_form": form, "vd": d, "vectors": vs, "dtype": "f32"}
                                continue
                            if not nz and form in ("array2", "list_arrays", "tuple_arrays", "list_lists") and n >= 1 \
                                    and rng.random() < 0.3:
                                # integer-typed vocabulary vectors meet real-valued data: still exactly the dot products
                                vs = [[float(rng.randint(-3, 3)) for _ in range(d)] for _ in range(n)]
                                yield {"op": "sim", "normalize": False, "data_form": df, "d": d,
                                       "data": rows if df == "series" else rows[0],
                                       "vocab_form": form, "vd": d, "vectors": vs, "vdtype": "int"}
                                continue
                            if nz and rng.random() < 0.2:
                                # very small but exactly representable magnitudes: the cosine does not depend on scale
                                sc_ = 2.0 ** -rng.choice([60, 64, 70])
                                if rng.random() < 0.5:
                                    rows = [[x * sc_ for x in r_] for r_ in rows]
                                else:
                                    vs = [[x * sc_ for x in v_] for v_ in vs]
                            yield {"op": "sim", "normalize": nz, "data_form": df, "d": d,
                                   "data": rows if df == "series" else rows[0],
                                   "vocab_form": form, "vd": d, "vectors": vs}
            # a single 1-D array as the vocabulary
            for df, T in shapes[:5]:
                for nz in (False, True):
                    rows = [gen_vec(rng, d, "rational") for _ in range(T if df == "series" else 1)]
                    yield {"op": "sim", "normalize": nz, "data_form": df, "d": d,
                           "data": rows if df == "series" else rows[0],
                           "vocab_form": "array1", "vd": d, "vectors": [gen_vec(rng, d, "rational")]}
    # malformed stream
    for _ in range(30 if tier == "quick" else 200):
        d = rng.choice([2, 3, 4])
        kind = rng.choice(["dim", "ragged", "empty-array1", "not-iterable", "dim-vocabulary"])
        df, T = rng.choice(shapes[:5])
        rows = [gen_vec(rng, d, "dyadic") for _ in range(T if df == "series" else 1)]
        case = {"op": "sim", "normalize": rng.random() < 0.5, "data_form": df, "d": d,
                "data": rows if df == "series" else rows[0]}
        n = rng.randint(1, 4)
        if kind == "dim":
            case.update(vocab_form=rng.choice(forms[1:]), vd=d + 1, vectors=[gen_vec(rng, d + 1, "dyadic") for _ in range(n)])
        elif kind == "dim-vocabulary":
            case.update(vocab_form="vocabulary", vd=d + 1,
                        vectors=[gen_vec(rng, d + 1, "dyadic") for _ in range(rng.randint(0, 3))])
        elif kind == "ragged":
            vs = [gen_vec(rng, d, "dyadic") for _ in range(n + 1)]
            vs[rng.randrange(1, n + 1)] = gen_vec(rng, d + rng.choice((-1, 1)), "dyadic")
            case.update(vocab_form=rng.choice(["list_arrays", "list_pointers", "list_lists"]), vd=d, vectors=vs)
        elif kind == "empty-array1":
            case.update(vocab_form="array1", vd=0, vectors=[[]])
        else:
            case.update(vocab_form="not_iterable", vd=d, vectors=[])
        yield case


# --------------------------------------------------------------------------
# text
# --------------------------------------------------------------------------
def build_text_vocab(case):
    v = spa.Vocabulary(case["d"], strict=True)
    for i, (k, r) in enumerate(zip(case["keys"], case["vectors"])):
        v.add(k, np.array(r, dtype=float))
        if i == 0 and len(case["keys"]) % 2 == 0:
            try:                         # history: a refused addition (wrong length) lies between the entries
                v.add("Refused", np.ones(case["d"] + 1))
            except Exception:  # noqa: BLE001
                pass
    return v


def parse_text_output(s, join, terms):
    """-> list of (number string, key) or None"""
    if s == "":
        return []
    items = []
    for part in s.split(join):
        m = re.fullmatch(r"(-?\d+\.\d\d)(.*)", part, flags=re.S)
        if not m or m.group(2) not in terms:
            return None
        items.append((m.group(1), m.group(2)))
    return items


def exec_text(ctx, case, ask=True):
    vocab = build_text_vocab(case)
    terms = case["terms"]
    cand = list(case["keys"]) if terms is None else list(terms)
    x = np.array(case["v"], dtype=float)
    arg = spa.SemanticPointer(x) if case["v_form"] == "pointer" else x
    kw = {}
    if not case.get("defaults"):
        kw = dict(minimum_count=case["minimum"], maximum_count=case["maximum"], threshold=case["threshold"],
                  join=case["join"])
    try:
        tvecs = [[float(t) for t in vocab.parse(t).v] for t in cand] if terms is not None else case["vectors"]
    except Exception as e:
        ctx.note(f"term did not parse: {terms}: {e}")
        return
    try:
        out = text(arg, vocab, terms=terms, normalize=case["normalize"], **kw)
        impl = ("ok", out)
    except (Exception, StopIteration) as e:  # noqa
        impl = ("err", exc_class(e), str(e)[:120])
    # a Vocabulary with 0 keys is inside the quantifier (text must be ''); terms=[] is the degenerate empty
    # list that NumPy refuses (mirrored, not demanded)
    valid = case["v_form"] != "matrix" and len(case["v"]) == case["d"] and (len(cand) >= 1 or terms is None)

    # the similarities the statement speaks about: exact, or float-based with tolerance
    exact, sims, tol = False, None, TOL
    negzero = False
    if case["v_form"] != "matrix" and len(case["v"]) == case["d"]:
        xs = [Fr(a) for a in case["v"]]
        xx = fdot(xs, xs)
        if case["normalize"] and xx != 0:
            r = rat_sqrt(xx)
            nrm = float(np.linalg.norm(x))
            xf = x / nrm
            if r is not None:
                xe = [a / r for a in xs]
                sims = [fdot(xe, v) for v in tvecs]
            else:
                sims = [Fr(float(np.dot(np.array(v), x))) / Fr(math.sqrt(xx)) for v in tvecs]
        else:
            xf = x
            sims = [fdot(xs, v) for v in tvecs]
            r = Fr(1)
        if len(tvecs):
            fl = np.dot(np.array(tvecs, dtype=float).reshape(len(tvecs), case["d"]), xf)
            exact = r is not None and all(Fr(float(a)) == b for a, b in zip(fl, sims))
            negzero = any(a == 0 and np.signbit(a) for a in fl)
        else:
            exact = r is not None
        if exact:
            tol = 0
    n = len(cand)
    branch = (f"text-{'valid' if valid else 'malformed'}-{'exact' if exact else 'inexact'}"
              f"-terms{'None' if terms is None else ('compound' if any(t not in case['keys'] for t in terms) else 'subset')}"
              f"-{'norm' if case['normalize'] else 'raw'}-{impl[0] if impl[0] == 'ok' else impl[1]}")
    ctx.count(case, nontrivial=valid and n >= 2, branch=branch)
    ctx.sample({"case": case, "impl": impl[:2]}, limit=6)

    mn, mx, thr = case["minimum"], case["maximum"], case["threshold"]
    if valid:
        if impl[0] != "ok":
            ctx.fail(case, f"raised {impl[1]}: {impl[2]}", "a string", where="text-raises")
        else:
            items = parse_text_output(impl[1], case["join"], set(cand))
            simof = {}
            for t, s in zip(cand, sims):
                simof.setdefault(t, s)
            if items is None:
                ctx.fail(case, impl[1], "terms of the candidate list formatted '<d.dd><key>' and joined", where="text-format")
            else:
                k = len(items)
                listed = [simof[key] for _, key in items]
                rest = list(cand)
                over = False
                for _, key in items:
                    if key in rest:
                        rest.remove(key)
                    else:
                        over = True
                if over:
                    ctx.fail(case, impl[1], "each candidate listed at most as often as it occurs", where="text-duplicates")
                for (num, key), s in zip(items, listed):
                    okf = num == fmt_oracle(s) or (tol and num in (fmt_oracle(s - Fr(tol)), fmt_oracle(s + Fr(tol))))
                    if not okf:
                        ctx.fail(case, f"{num}{key}", f"{fmt_oracle(s)}{key} (similarity {float(s)!r})", where="text-two-decimals")
                        break
                if any(listed[i] < listed[i + 1] - tol for i in range(k - 1)):
                    ctx.fail(case, impl[1], "non-increasing similarity", where="text-order")
                if mn is not None and k < min(mn, n):
                    ctx.fail(case, f"{k} terms: {impl[1]!r}", f"at least min({mn}, {n}) terms", where="text-minimum")
                if mx is not None and mx >= 0 and (mn is None or mn <= mx) and k > mx:
                    ctx.fail(case, f"{k} terms: {impl[1]!r}", f"at most {mx} terms", where="text-maximum")
                if thr is not None:
                    for i in range(max(mn or 0, 0), k):
                        if not listed[i] > Fr(thr) - tol:
                            ctx.fail(case, impl[1], f"beyond the minimum only similarities > {thr}", where="text-threshold")
                            break
                if listed and rest and max(simof[t] for t in rest) > min(listed) + tol:
                    ctx.fail(case, impl[1], "no omitted term is more similar than a listed one", where="text-omits")

    if not ask or getattr(ctx, "no_driver", False):
        return
    if not exact and valid:
        ctx.dist["text-oracle-only-inexact"] = ctx.dist.get("text-oracle-only-inexact", 0) + 1
        return
    if negzero:
        ctx.dist["text-oracle-only-negative-zero"] = ctx.dist.get("text-oracle-only-negative-zero", 0) + 1
        return
    if case["v_form"] == "matrix":
        dt = f"S:{case['d']}:{rows_tok(case['v'])}"
    else:
        dt = ("P:" if case["v_form"] == "pointer" else "V:") + qvec(case["v"])
    d = case.get("defaults")
    args = ["1" if case["normalize"] else "0", dt, case["d"], names_tok(case["keys"]), rows_tok(case["vectors"]),
            opt_tok(1 if d else mn), opt_tok(None if d else mx), opt_tok(0.1 if d else thr, rat=True),
            codes_tok(";" if d else case["join"]),
            "!" if terms is None else names_tok(terms), "~" if terms is None else rows_tok(tvecs)]

    def cb(st, payload, case=case, impl=impl):
        if st == "err":
            if payload == "irrational-norm":
                ctx.dist["oracle-only-irrational-norm"] = ctx.dist.get("oracle-only-irrational-norm", 0) + 1
            elif impl[0] != "err" or model_err_class(payload) != impl[1]:
                ctx.diff(case, list(impl[:2]), ["err", payload], op="text")
            return
        s = "" if payload == "-" else "".join(chr(int(c)) for c in payload.split(","))
        if impl != ("ok", s):
            ctx.diff(case, list(impl[:2]), ["ok", s], op="text")
    ctx.ask("text", args, cb)


def gen_terms(rng, keys, d):
    n = len(keys)
    out = [None]
    if n == 0:
        return out + [[]]
    sub = [k for k in keys if rng.random() < 0.6] or [keys[0]]
    rng.shuffle(sub)
    out.append(sub)
    out.append([rng.choice(keys) for _ in range(rng.randint(1, 4))])      # repetitions allowed
    comp = []
    for _ in range(rng.randint(2, 5)):
        a, b = rng.choice(keys), rng.choice(keys)
        forms = [f"{a}+{b}", f"{a}-{b}", f"2*{a}", f"-{a}", f"{a}*0.5", a, f"({a}+{b})*0.25"]
        if d == 4:
            forms += [f"{a}*{b}", f"{a}*{b}", f"{a}*{b}+{a}"]     # HRR binding is exact for d = 4 dyadic entries
        comp.append(rng.choice(forms))
    out.append(comp)
    return out


def text_cases(ctx, tier):
    rng = ctx.rng
    mins = [None, 0, 1, 2, 3, 4]
    maxs = [None, 0, 1, 2, 3, 4]
    thrs = [None, -1, 0.1, 0.5, 2]
    vocabs = []
    reps = 1 if tier == "quick" else 3
    for _ in range(reps):
        for n in range(0, 9):
            d = 4 if rng.random() < 0.7 else rng.choice([2, 3, 5])
            keys = rng.sample(KEYS, n)
            vs = [gen_vec(rng, d, "dyadic", zero_p=0.08) for _ in range(n)]
            if n >= 2 and rng.random() < 0.6:
                vs[rng.randrange(1, n)] = list(vs[0])                      # equal similarities, different keys
            vocabs.append((d, keys, vs))
    for d, keys, vs in vocabs:
        for terms in gen_terms(rng, keys, d):
            for nz in (False, True):
                grid = [(a, b, c) for a in mins for b in maxs for c in thrs]
                if tier == "quick":
                    # the whole grid for terms=None on the raw path, a third of it elsewhere
                    if not (terms is None and not nz):
                        grid = [g for g in grid if rng.random() < 0.22]
                else:
                    if not (terms is None or not nz):
                        grid = [g for g in grid if rng.random() < 0.5]
                # one vector per (vocabulary, terms, normalize) block + fresh ones now and then
                x = None
                for mn, mx, thr in grid:
                    if x is None or rng.random() < 0.15:
                        mode = rng.choice(["pow2", "pow2", "rational", "dyadic"]) if nz else "dyadic"
                        x = gen_vec(rng, d, mode, zero_p=0.1)
                        if rng.random() < 0.25 and len(vs):   # a scaled vocabulary vector: similarities on both sides of the thresholds
                            x = [a * rng.choice((0.5, 1, 2, 0.125)) for a in rng.choice(vs)]
                    yield {"op": "text", "d": d, "keys": keys, "vectors": vs, "v": x,
                           "v_form": rng.choice(["array", "pointer"]), "minimum": mn, "maximum": mx, "threshold": thr,
                           "join": rng.choice(JOINS) if rng.random() < 0.3 else ";", "terms": terms, "normalize": nz}
    # similarities that differ only in the third decimal, on both sides of a threshold (exact dyadic values): order and
    # threshold are decided by the similarities themselves, not by their printed two-decimal form
    e = 1.0 / 256
    close_vs = [[0.5 + e, 0, 0, 0], [0.5 + 3 * e, 0, 0, 0], [0.5 - e, 0, 0, 0], [0.5, 0, 0, 0], [0.5 + 2 * e, 0, 0, 0]]
    close_keys = ["A", "B", "C", "D", "E"]
    for thr in (0.5, None, 0.1, 0.5 + e):
        for mn, mx in ((None, None), (0, 3), (1, 2), (2, None), (0, None)):
            for form in ("array", "pointer"):
                yield {"op": "text", "d": 4, "keys": close_keys, "vectors": close_vs, "v": [1.0, 0.25, -0.5, 2.0],
                       "v_form": form, "minimum": mn, "maximum": mx, "threshold": thr, "join": ";", "terms": None,
                       "normalize": False}
    # defaults, negative counts, malformed
    for d, keys, vs in vocabs:
        for _ in range(3):
            x = gen_vec(rng, d, "dyadic")
            yield {"op": "text", "d": d, "keys": keys, "vectors": vs, "v": x, "v_form": "array", "minimum": 1,
                   "maximum": None, "threshold": 0.1, "join": ";", "terms": None, "normalize": False, "defaults": True}
            yield {"op": "text", "d": d, "keys": keys, "vectors": vs, "v": x, "v_form": "pointer",
                   "minimum": rng.choice([-1, None, 9, 2]), "maximum": rng.choice([-1, 9, 1]),
                   "threshold": rng.choice([0.125, 0.25, -0.5, 0.0]), "join": ";", "terms": None,
                   "normalize": rng.random() < 0.5}
        yield {"op": "text", "d": d, "keys": keys, "vectors": vs, "v": gen_vec(rng, d + 1, "dyadic"), "v_form": "array",
               "minimum": 1, "maximum": None, "threshold": 0.1, "join": ";", "terms": None, "normalize": False}
        yield {"op": "text", "d": d, "keys": keys, "vectors": vs, "v": [gen_vec(rng, d, "dyadic") for _ in range(2)],
               "v_form": "matrix", "minimum": 1, "maximum": None, "threshold": 0.1, "join": ";", "terms": None,
               "normalize": False}


# --------------------------------------------------------------------------
# pairs and formatting
# --------------------------------------------------------------------------
def exec_pairs(ctx, case, ask=True):
    keys = case["keys"]
    if case["container"] == "vocabulary":
        v = spa.Vocabulary(2, strict=False)
        for i, k in enumerate(keys):
            v.add(k, np.array([1.0, float(i)]))
        obj = v
    else:
        obj = {k: i for i, k in enumerate(keys)}
    try:
        out = pairs(obj)
        impl = ("ok", out)
    except Exception as e:
        impl = ("err", exc_class(e), str(e)[:100])
    n = len(keys)
    ctx.count(case, nontrivial=n >= 2, branch=f"pairs-{case['container']}-n{n}")
    ctx.sample({"case": case, "impl": sorted(impl[1]) if impl[0] == "ok" else impl[1]}, limit=8)
    # the statement: exactly the n(n-1)/2 unordered pairs of keys (either orientation names the pair; the
    # orientation itself is compared with the model only)
    want = set()
    for i in range(n):
        for j in range(i + 1, n):
            want.add(frozenset((keys[i], keys[j])))
    if impl[0] != "ok":
        ctx.fail(case, f"raised {impl[1]}", "a set of pairs", where="pairs-raises")
    else:
        got, bad = set(), not isinstance(out, set)
        for s in (out if not bad else []):
            parts = s.split("*") if isinstance(s, str) else []
            if len(parts) != 2 or parts[0] not in keys or parts[1] not in keys or parts[0] == parts[1]:
                bad = True
            else:
                got.add(frozenset(parts))
        if bad or got != want or len(out) != n * (n - 1) // 2:
            ctx.fail(case, sorted(map(str, out)), f"the {n * (n - 1) // 2} unordered pairs of {keys}", where="pairs-set")
    if not ask or getattr(ctx, "no_driver", False):
        return

    def cb(st, payload, case=case, impl=impl):
        lst = [] if payload == "~" else payload.split(";")
        if st != "ok" or impl[0] != "ok" or set(lst) != impl[1] or len(lst) != len(impl[1]):
            ctx.diff(case, sorted(impl[1]) if impl[0] == "ok" else impl[1], [st, payload], op="pairs")
    ctx.ask("pairs", [names_tok(keys)], cb)


def pairs_cases(ctx, tier):
    rng = ctx.rng
    for n in range(0, 9):
        for _ in range(2 if tier == "quick" else 8):
            keys = rng.sample(KEYS, n)
            yield {"op": "pairs", "keys": keys, "container": "vocabulary"}
            yield {"op": "pairs", "keys": keys, "container": "dict"}


def exec_fmt(ctx, case, ask=True):
    x = float(case["x"])
    impl = f"{np.float64(x):0.2f}"
    ctx.count(case, nontrivial=True, branch="fmt-tie" if (Fr(x) * 200).denominator == 1 and (Fr(x) * 100).denominator != 1 else "fmt")
    if not ask or getattr(ctx, "no_driver", False):
        return

    def cb(st, payload, case=case, impl=impl):
        if st != "ok" or payload != impl:
            ctx.diff(case, impl, [st, payload], op="fmt")
    ctx.ask("fmt", [q(x)], cb)


def fmt_cases(ctx, tier):
    rng = ctx.rng
    for k in range(-40, 41):
        yield {"op": "fmt", "x": k / 8}            # exact ties x.xx5 at odd k
    for k in (1, 3, 5, 7, 9, 11, 13, 15, 101, 203, 1001):
        for s in (1, -1):
            yield {"op": "fmt", "x": s * k / 200}
    for _ in range(100 if tier == "quick" else 1500):
        e = rng.choice([8, 16, 64, 1024, 2 ** 20, 2 ** 40])
        yield {"op": "fmt", "x": rng.randint(-5 * e, 5 * e) / e}
    for x in (-0.001, -0.004, -0.005, -0.0051, 0.005, 0.015, 0.025, 1e-9, -1e-9, 99.995, 12345.678, 0.0, 1e15 + 0.5):
        yield {"op": "fmt", "x": x}


# --------------------------------------------------------------------------
EXEC = {"sim": exec_sim, "text": exec_text, "pairs": exec_pairs, "fmt": exec_fmt}


def all_cases(ctx, tier):
    yield from sim_cases(ctx, tier)
    yield from text_cases(ctx, tier)
    yield from pairs_cases(ctx, tier)
    yield from fmt_cases(ctx, tier)


def run(ctx):
    if getattr(ctx, "replay", None) and isinstance(ctx.replay.get("case"), dict) and ctx.replay["case"].get("op") in EXEC:
        case = ctx.replay["case"]
        EXEC[case["op"]](ctx, case)
    else:
        for case in all_cases(ctx, ctx.tier):
            EXEC[case["op"]](ctx, case)
    if not getattr(ctx, "no_driver", False):
        ctx.flush(DRIVER)
    ctx.note("observed, mirrored by the model, not demanded by the oracle: an empty *list* as vocabulary (and "
             "text(..., terms=[])) becomes a (1,0) array and is refused by np.dot with ValueError (shapes not "
             "aligned); an empty Vocabulary / (0,d) array gives shape (0,) / (T,0) and text '' (demanded, proved)")
    ctx.note("observed, outside the quantified inputs: integer-typed data and vectors with normalize=True raise "
             "UFuncTypeError (in-place true division of an int64 array)")


def search(ctx):
    """deeper oracle-only search after a broken proof / correspondence difference"""
    tier = "thorough"
    for case in all_cases(ctx, tier):
        if case["op"] in ("sim", "text", "pairs"):
            EXEC[case["op"]](ctx, case, ask=False)
        if len(ctx.oracle_failures) > 0:
            return

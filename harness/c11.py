"""C11 — type coercion returns the least upper bound of a partial order.

Tie: exhaustive over the property's universe — all pairs x all comparison
operators (+ hash), all tuples of length 1..4 (thorough: 1..5 over a larger
universe, plus random tuples to length 8) through `coerce_types`, compared with
the Lean model `C11.Impl` (drivers/C11.lean).  Oracle (independent of the model):
the documented chains written out as a rank function in this file.
"""
import itertools

import nengo_spa as spa
from nengo_spa import types as T
from nengo_spa.exceptions import SpaTypeError

PROPERTY = "C11"
LEAN_MODULES = ["SpaModel.Props.C11"]
AUDIT = "SpaModel/Audit/C11.lean"
DRIVER = "drivers/C11.lean"
RULE = ("all ordered pairs of the universe x {<,<=,>,>=,==,!=,hash}; all tuples (with repetition, all orders) "
        "up to the tier's length through coerce_types; a case is non-trivial when its operands are not all the "
        "same object (pairs) / the tuple has >= 2 distinct members (tuples); distinct = distinct token string")
ASSUMPTIONS = ["Python's max() scans left to right replacing the maximum when `item > maximum` (CPython builtin)",
               "vocabulary identity is modelled by a number per Vocabulary object"]


def fresh(d):
    """an int object of its own (CPython shares the objects of small ints only): equal dimensionalities must be
    recognised by value, not by object identity"""
    return int(str(d))


def universe(tier):
    dims = [16, 512] if tier == "quick" else [16, 512, 7]
    vocs = [spa.Vocabulary(16), spa.Vocabulary(16), spa.Vocabulary(fresh(512))]
    if tier != "quick":
        vocs += [spa.Vocabulary(7), spa.Vocabulary(fresh(512))]
    objs = [(T.TScalar, "S"), (T.TAnyVocab, "A")]
    objs += [(T.TAnyVocabOfDim(fresh(d)), f"D:{d}") for d in dims]
    objs += [(T.TVocabulary(v), f"V:{i}") for i, v in enumerate(vocs)]
    objs.append((T.Type("Custom"), "B:Custom"))
    # second, equal-but-not-identical instances (equality/hash clauses)
    import numpy as np
    twins = [(T.TAnyVocabOfDim(16), "D:16"), (T.TAnyVocabOfDim(fresh(512)), "D:512"), (T.TVocabulary(vocs[0]), "V:0"),
             (T.TAnyVocabOfDim(np.int64(16)), "D:16"), (T.TAnyVocabOfDim(np.int32(512)), "D:512"),   # NumPy integer dimensionalities
             (T.Type("TScalar"), "S"), (T.Type("Custom"), "B:Custom")]
    return objs, twins, [v.dimensions for v in vocs]


def rank(tok):
    return {"S": 0, "A": 1, "D": 2, "V": 3}.get(tok.split(":")[0])


def spec_lt(a, b, vdims):
    """documented chains scalar < any < any-of-d < vocabulary of dimensionality d"""
    ra, rb = rank(a), rank(b)
    if ra is None or rb is None or ra >= rb:
        return False
    if ra == 2 and rb == 3:
        return int(a.split(":")[1]) == vdims[int(b.split(":")[1])]
    return True


def spec_le(a, b, vdims):
    return a == b or spec_lt(a, b, vdims)


n_alarm_tmp = [0]


def quick_tier(ctx):
    return ctx.tier == "quick"


def run(ctx):
    objs, twins, vdims = universe(ctx.tier)
    ds = ",".join(str(d) for d in vdims)
    allobjs = objs + twins

    # ---- pairs ----------------------------------------------------------
    for (a, ta), (b, tb) in itertools.product(allobjs, repeat=2):
        try:
            ha, hb = hash(a), hash(b)
            hash_eq = "1" if ha == hb else "0"
            hash_err = None
        except TypeError as e:
            hash_eq, hash_err = "E", str(e)
        bits = "".join("1" if x else "0" for x in (a < b, a <= b, a > b, a >= b, a == b, a != b))
        case = {"op": "cmp", "a": ta, "b": tb}
        ctx.count(f"cmp {ta} {tb}", nontrivial=a is not b, branch="pair")
        ctx.sample(dict(case, impl=bits + hash_eq), limit=3)
        want = "".join("1" if x else "0" for x in (
            spec_lt(ta, tb, vdims), spec_le(ta, tb, vdims), spec_lt(tb, ta, vdims),
            spec_le(tb, ta, vdims), ta == tb, ta != tb))
        if bits != want:
            ctx.fail(case, bits, want, where="comparison-operators")
        if hash_err is not None:
            ctx.fail(dict(case, unhashable=(ta if "TAnyVocabOfDim" in hash_err else "?")),
                     f"TypeError: {hash_err}", "hash defined on every type", where="hash-defined")
        elif ta == tb and hash_eq != "1":
            ctx.fail(case, "hash differs", "equal types hash equally", where="hash-equal")

        def cb(st, payload, case=case, bits=bits, hash_eq=hash_eq):
            if st != "ok":
                ctx.diff(case, bits, f"{st} {payload}", op="cmp")
            elif payload[:6] != bits:
                ctx.diff(case, bits, payload[:6], op="cmp")
            elif payload[6] == "1" and hash_eq == "0":
                ctx.diff(case, "hash differs", "hashKey equal", op="cmp-hash")
        if not getattr(ctx, "no_driver", False):
            ctx.ask("cmp", [ds, ta, tb], cb)

    # ---- copies: a copied / unpickled type equals a type rebuilt from its own data, and hashes like it ---------
    import copy
    import pickle
    for o, tok in objs:
        for how, f in (("deepcopy", copy.deepcopy), ("pickle", lambda x: pickle.loads(pickle.dumps(x)))):
            try:
                c = f(o)
            except Exception:  # noqa: BLE001  (not every object graph can be pickled)
                continue
            if isinstance(c, T.TVocabulary):
                u = T.TVocabulary(c.vocab)
            elif isinstance(c, T.TAnyVocabOfDim):
                u = T.TAnyVocabOfDim(c.dimensions)
            else:
                u = c
            ctx.count(f"copy {how} {tok}", nontrivial=True, branch=f"copied-{how}")
            try:
                same, hs = (c == u), (hash(c) == hash(u))
            except Exception as e:  # noqa: BLE001
                same, hs = f"{type(e).__name__}", False
            if same is not True or not hs:
                ctx.fail({"op": "copied-type", "how": how, "type": tok}, f"equal: {same}, equal hashes: {hs}",
                         "a copied type equals the type rebuilt from its data and hashes like it", where="hash-equal")

    # ---- tuples ---------------------------------------------------------
    maxlen = 4 if ctx.tier == "quick" else 5
    base = objs if ctx.tier == "quick" else objs[:8] + objs[-1:]
    tuples = []
    for n in range(1, maxlen + 1):
        if ctx.tier == "quick" and n == 4:
            # all 4-tuples over the property's universe (scalar, any, 2 any-of-d, 3 vocabularies) + custom
            pool = base
        else:
            pool = base
        tuples += list(itertools.product(pool, repeat=n))
    # equal-but-not-identical instances take part in coercion like the originals
    tuples += list(itertools.product(twins + objs[:4], repeat=2))
    tuples += [(a, b, c) for a in twins for b in objs[:6] for c in (objs[0], objs[1])]
    if ctx.tier != "quick":
        for _ in range(20000):
            n = ctx.rng.randint(6, 8)
            tuples.append(tuple(ctx.rng.choice(allobjs) for _ in range(n)))
    for tup in tuples:
        toks = [t for _, t in tup]
        case = {"op": "coerce", "types": ";".join(toks)}
        try:
            r = T.coerce_types(*[o for o, _ in tup])
            rt = [t for o, t in tup if o is r]
            impl = ("ok", rt[0] if rt else "not-a-member")
        except SpaTypeError as e:
            msg = str(e)
            kind = {"Different vocabularies": "different-vocab", "Dimensionality mismatch": "dim-mismatch",
                    "Incompatible types": "incompatible"}.get(msg.split(":")[0], "other:" + msg[:40])
            impl = ("err", kind)
        except Exception as e:  # not the documented type error
            impl = ("err", "other:" + type(e).__name__)
        distinct = len(set(toks))
        ctx.count("coerce " + case["types"], nontrivial=distinct >= 2,
                  branch=f"tuple-len{len(toks)}-{impl[0]}" + ("" if impl[0] == "ok" else "-" + impl[1]))
        ctx.sample(dict(case, impl=list(impl)), limit=6)
        # oracle: greatest member
        greatest = [t for t in set(toks) if all(spec_le(u, t, vdims) for u in toks)]
        if greatest:
            if impl != ("ok", greatest[0]):
                ctx.fail(case, list(impl), ["ok", greatest[0]], where="coerce-lub")
        else:
            if impl[0] != "err":
                ctx.fail(case, list(impl), "SpaTypeError (no member bounds all)", where="coerce-error")
            else:
                vs = {t for t in toks if t.startswith("V")}
                dd = {(int(t[2:]) if t.startswith("D") else vdims[int(t[2:])]) for t in toks if t[0] in "DV"}
                if impl[1] == "different-vocab" and len(vs) < 2:
                    ctx.fail(case, impl[1], "reason must be true of the arguments", where="coerce-reason")
                if impl[1] == "dim-mismatch" and len(dd) < 2:
                    ctx.fail(case, impl[1], "reason must be true of the arguments", where="coerce-reason")
                if impl[1].startswith("other"):
                    ctx.fail(case, impl[1], "one of the three documented reasons", where="coerce-reason")

        def cb(st, payload, case=case, impl=impl):
            if (st, payload) != impl:
                ctx.diff(case, list(impl), [st, payload], op="coerce")
        if not getattr(ctx, "no_driver", False):
            ctx.ask("coerce", [ds, case["types"]], cb)
    if not getattr(ctx, "no_driver", False):
        ctx.flush(DRIVER)
    # short-lived type objects: the same questions asked of temporaries that are created, compared and dropped
    # (their addresses are reused by later objects); the answer depends on what the object IS, not on where it lives
    import gc
    vt = [o for o in objs if isinstance(o[0], T.TVocabulary)]
    n_tmp = 4000 if quick_tier(ctx) else 40000
    for i in range(n_tmp):
        kind = i % 4
        d_ = (16, 32, 64, 16)[(i // 4) % 4]
        tmp = (T.TAnyVocabOfDim(d_) if kind < 2 else (T.Type("TScalar") if kind == 2 else __import__("copy").copy(T.TAnyVocab)))
        V, vtok = vt[i % len(vt)]
        vd = V.vocab.dimensions
        want_lt = spec_lt(f"D:{d_}" if kind < 2 else ("S" if kind == 2 else "A"), vtok, vdims)
        got_lt = bool(tmp < V)
        if got_lt != want_lt and n_alarm_tmp[0] < 20:
            n_alarm_tmp[0] += 1
            ctx.fail({"op": "temporary-compared", "temporary": repr(tmp), "with": vtok, "iteration": i}, got_lt, want_lt,
                     where="comparison-operators")
        del tmp
        if i % 500 == 499:
            gc.collect()
    ctx.count("temporaries compared with the vocabulary types", nontrivial=True, branch="temporaries")
    ctx.extra["exhaustive"] = True
    ctx.extra["universe"] = [t for _, t in objs]

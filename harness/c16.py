"""C16 — State represents every dimension; neuron-level access covers each neuron once.

Tie: every (d, s) with s | d, d <= 32 (quick) / <= 64 (thorough), both representation modes.
The real networks are built; their wiring is read from the built connections by following
pass-through nodes (`pre_obj/pre_slice/post_obj/post_slice`, `ens.dimensions`, `ens.n_neurons`)
and diffed with the tables of the Lean model (`C16.Impl`, drivers/C16.lean); Direct-mode runs
(every synapse None, 3 steps) give State.output and the add_output nodes for an exact dyadic
input and are diffed with the model's exact values.

Oracle (independent of the Lean model, written out here): output == input (1e-12); every output
entry is fed by exactly one ensemble component which reads the same input entry; the neuron slice
tables cover [0, npd*d) exactly once with slice k == all_ensembles[k].n_neurons and are
equal for input and output (the order relative to all_ensembles is left to the model diff); add_output == the function applied to the documented parts
([0], [1..s-1], blocks of s) concatenated, and *defined* for every split; non-divisible splits
raise; feedback 1 holds / feedback 0 follows (validation of the modelled recurrence);
rate-neuron perturbation: driving entry i changes entry i only, inhibiting all silences all.
"""
import math

import nengo
import numpy as np
from nengo.exceptions import ValidationError

import nengo_spa as spa
from nengo_spa.networks import IdentityEnsembleArray

import common

PROPERTY = "C16"
LEAN_MODULES = ["SpaModel.Props.C16"]
AUDIT = "SpaModel/Audit/C16.lean"
DRIVER = "drivers/C16.lean"
RULE = ("one case = one (observable, d, s, mode/function, npd or input) on a really built network: wiring table, "
        "Direct-mode output, neuron slice tables, add_output per function form, rejection, feedback run, neuron "
        "perturbation; non-trivial when d > 1 (wiring/output/neuron/add_output), always for rejections and runs; "
        "distinct = distinct canonical key string")
ASSUMPTIONS = [
    "Nengo semantics (trusted): a slice-to-slice connection without transform copies entries, several connections "
    "into one object add up, pass-through nodes forward their input, Direct ensembles compute the connection "
    "function exactly; validated on every case by the Direct-mode run",
    "the feedback theorems are about the stated discrete recurrence r' = a r + (1-a) f (u + r), a = exp(-dt/tau) "
    "(modelled, not verified, w.r.t. nengo.Lowpass; compared with Direct-mode runs at 1e-9)",
    "neuron-level locality/inhibition is proved on the slice tables for an arbitrary per-neuron response; the "
    "rate-neuron perturbation runs are validation only",
    "add_output: decoded functions must have an input-size-determined, positive output size (what Nengo requires)",
]

DT = 0.001


# --------------------------------------------------------------------------
# reading the wiring of a built network
# --------------------------------------------------------------------------
class Unexpected(Exception):
    pass


def _plain(c):
    return isinstance(c.transform, nengo.transforms.NoTransform)


def _sl(lst, s):
    if isinstance(s, slice):
        return lst[s]
    return [lst[i] for i in s]


class Wiring:
    """Follows connections through pass-through nodes of `net` (feedback connections = those with a
    transform are ignored; they are read separately)."""

    def __init__(self, net, root_in, ensembles):
        self.root_in = root_in
        self.ens_index = {e: k for k, e in enumerate(ensembles)}
        self.into = {}
        for c in net.all_connections:
            if not _plain(c):
                continue
            self.into.setdefault(c.post_obj, []).append(c)
        self._memo = {}

    def sources(self, obj):
        """for a pass-through node / ensemble: per entry, the list of root-input indices arriving"""
        if obj is self.root_in and obj not in self._memo:
            self._memo[obj] = [[j] for j in range(obj.size_in)]
        if obj in self._memo:
            return self._memo[obj]
        size = obj.dimensions if isinstance(obj, nengo.Ensemble) else obj.size_in
        if isinstance(obj, nengo.Node) and obj.output is not None:
            raise Unexpected(f"not a pass-through node: {obj}")
        entries = [[] for _ in range(size)]
        for c in self.into.get(obj, []):
            if c.function is not None:
                raise Unexpected("function on an input-side connection")
            pre = c.pre_obj
            if isinstance(pre, nengo.Ensemble):
                raise Unexpected("ensemble feeding the input side")
            src = _sl(self.sources(pre), c.pre_slice)
            idx = _sl(list(range(size)), c.post_slice)
            if len(src) != len(idx):
                raise Unexpected("size mismatch")
            for i, sv in zip(idx, src):
                entries[i] = entries[i] + sv
        self._memo[obj] = entries
        return entries

    def contributions(self, node):
        """for a collecting node: per entry, the list of (ensemble index, component) arriving"""
        entries = [[] for _ in range(node.size_in)]
        for c in self.into.get(node, []):
            pre = c.pre_obj
            if isinstance(pre, nengo.Ensemble):
                k = self.ens_index[pre]
                n = pre.dimensions if c.function is None else c.size_mid
                src = _sl([[(k, t)] for t in range(n)], c.pre_slice if c.function is None else slice(None))
            elif isinstance(pre, nengo.Node) and pre.output is None and pre is not self.root_in:
                src = _sl(self.contributions(pre), c.pre_slice)
            else:
                raise Unexpected(f"unexpected source {pre}")
            idx = _sl(list(range(node.size_in)), c.post_slice)
            if len(src) != len(idx):
                raise Unexpected("size mismatch")
            for i, sv in zip(idx, src):
                entries[i] = entries[i] + sv
        return entries


def runs(idx_lists):
    """[[3],[4],[5]] -> (3, 3) if each entry has exactly one source and they are consecutive, else None"""
    flat = []
    for e in idx_lists:
        if len(e) != 1:
            return None
        flat.append(e[0])
    if not flat:
        return None
    if flat != list(range(flat[0], flat[0] + len(flat))):
        return None
    return (flat[0], len(flat))


def table_tok(tab):
    return ",".join(f"{a}:{b}" for a, b in tab) if tab else "-"


def read_array(net, root_in, root_out, ensembles):
    """-> (ens list [(dims, neurons)], ins table, outs table, problems)"""
    w = Wiring(net, root_in, ensembles)
    problems = []
    ins = []
    for e in ensembles:
        r = runs(w.sources(e))
        if r is None:
            problems.append(f"ensemble {w.ens_index[e]} input is not one contiguous slice: {w.sources(e)}")
            r = (-1, e.dimensions)
        ins.append(r)
    contrib = w.contributions(root_out)
    outs = out_table(contrib, len(ensembles), problems)
    return [(e.dimensions, e.n_neurons) for e in ensembles], ins, outs, contrib, problems


def out_table(contrib, n_ens, problems):
    per = {k: [] for k in range(n_ens)}
    for j, cs in enumerate(contrib):
        if len(cs) != 1:
            problems.append(f"entry {j} receives {len(cs)} contributions")
        for (k, t) in cs:
            per[k].append((t, j))
    outs = []
    for k in range(n_ens):
        tj = sorted(per[k])
        if not tj or [t for t, _ in tj] != list(range(len(tj))) or \
                [j for _, j in tj] != list(range(tj[0][1], tj[0][1] + len(tj))):
            problems.append(f"ensemble {k} output is not one contiguous slice: {tj}")
            outs.append((-1, len(tj)))
        else:
            outs.append((tj[0][1], len(tj)))
    return outs


def neuron_table(arr, node, incoming):
    """slice of `node` per ensemble of arr.all_ensembles (None if absent/duplicated)"""
    ens = arr.all_ensembles
    idx = {e: k for k, e in enumerate(ens)}
    tab = [None] * len(ens)
    order = []
    problems = []
    for c in arr.all_connections:
        if incoming and c.pre_obj is node:
            neurons, sl, other = c.post_obj, c.pre_slice, c.post_slice
        elif (not incoming) and c.post_obj is node:
            neurons, sl, other = c.pre_obj, c.post_slice, c.pre_slice
        else:
            continue
        if not isinstance(neurons, nengo.ensemble.Neurons) or other != slice(None) or not _plain(c):
            problems.append("unexpected neuron connection")
            continue
        k = idx[neurons.ensemble]
        ii = list(range(node.size_in))[sl]
        if tab[k] is not None:
            problems.append(f"ensemble {k} connected twice")
        if not ii or ii != list(range(ii[0], ii[0] + len(ii))):
            problems.append(f"ensemble {k}: empty or non-contiguous slice")
            tab[k] = (-1, len(ii))
        else:
            tab[k] = (ii[0], len(ii))
        order.append(k)
    return tab, order, problems


# --------------------------------------------------------------------------
# the property's own description (oracle side)
# --------------------------------------------------------------------------
def doc_parts(d, s, cc=True):
    """the documented split: [0], [1..s-1] (if any), blocks of s; regular: d/s blocks of s"""
    if not cc:
        return [(i * s, s) for i in range(d // s)]
    p = [(0, 1)]
    if s > 1:
        p.append((1, s - 1))
    p += [(s + i * s, s) for i in range(d // s - 1)]
    return p


FUNCS = {
    "aff": lambda v: 2 * v + 1,
    "sq": lambda v: v * v,
    "sumfirst": lambda v: [np.sum(v), v[0]],
    "dup": lambda v: np.concatenate([v, v]),
    "sum": lambda v: [np.sum(v)],
    "empty": lambda v: [],
}


def const_fn(k):
    return lambda v: v * 0 + k


def py_fn(code):
    if code in FUNCS:
        return FUNCS[code]
    return const_fn(int(code[1:]))


def err_kind(e):
    if isinstance(e, ValidationError):
        m = str(e)
        if "must be divisible" in m:
            return "not-divisible"
        if "greater than or equal to" in m or "must be an int" in m.lower():
            return "param"
        if "one function per ensemble" in m:
            return "fn-count"
        return "size-mismatch"
    if isinstance(e, IndexError):
        return "index"
    if isinstance(e, ZeroDivisionError):
        return "zero-div"
    return "other:" + type(e).__name__


def divisors(d):
    return [s for s in range(1, d + 1) if d % s == 0]


def distinct_input(rng, d):
    mags = rng.sample(range(1, 4 * d + 8), d)
    return np.array([(m / 64.0) * rng.choice((-1, 1)) for m in mags])


# --------------------------------------------------------------------------
# main parts
# --------------------------------------------------------------------------
def input_rows(ctx, d):
    """exact dyadic input vectors: distinct magnitudes, one scaled basis vector, (thorough: more)"""
    rng = ctx.rng
    rows = [distinct_input(rng, d)]
    e = np.zeros(d)
    e[rng.randrange(d)] = rng.choice([1.0, -0.5, 0.75])
    rows.append(e)
    rows.append(distinct_input(rng, d))
    if ctx.tier != "quick":
        rows += [distinct_input(rng, d) * rng.choice([1.0, 2.0, -4.0]) for _ in range(3)]
    return np.array(rows)


def check_wiring_and_output(ctx, d, use_driver):
    """One model for dimension d holding, for every s | d: State(cc), State(regular) and an
    IdentityEnsembleArray with add_output nodes; structure is read, then one Direct-mode run in which
    every step presents another input vector (every synapse None: each step is one exact evaluation)."""
    rng = ctx.rng
    X = input_rows(ctx, d)
    probes = []   # (probe, kind, case, expected rows (oracle), token)
    with spa.Network(seed=rng.randrange(2 ** 30)) as model:
        model.config[nengo.Ensemble].neuron_type = nengo.Direct()
        inp = nengo.Node(nengo.processes.PresentInput(X, DT))
        for s in divisors(d):
            for cc in (True, False):
                npd = rng.randint(1, 9)
                case = {"op": "state", "d": d, "s": s, "cc": cc, "npd": npd}
                try:
                    st = spa.State(d, subdimensions=s, neurons_per_dimension=npd, represent_cc_identity=cc)
                except Exception as e:  # the property says: constructed for every s | d
                    ctx.count(f"state {d} {s} {int(cc)}", nontrivial=d > 1, branch="state-raises")
                    ctx.fail(case, f"{type(e).__name__}: {e}"[:200], "State is constructed for every s | d",
                             where="state-defined")
                    continue
                nengo.Connection(inp, st.input, synapse=None)
                probes.append((nengo.Probe(st.output, synapse=None), "out", case, X, None))
                check_state_structure(ctx, st, case, use_driver)
            check_add_output_build(ctx, d, s, X, inp, probes, use_driver)
    for c in model.all_connections:
        c.synapse = None
    try:
        with nengo.Simulator(model, progress_bar=False, dt=DT) as sim:
            sim.run_steps(len(X))
    except Exception as e:
        ctx.count(f"run d={d}", nontrivial=True, branch="run-raises")
        ctx.fail({"op": "run", "d": d, "splits": divisors(d)}, f"{type(e).__name__}: {e}"[:300],
                 "State networks of every split can be built and run", where="state-run")
        return
    for probe, kind, case, expected, token in probes:
        Y = sim.data[probe]
        for r in range(len(X)):
            y, xs = Y[r], common.qvec(X[r])
            exp = np.asarray(expected[r], dtype=float)
            if kind == "out":
                ctx.count(f"out {d} {case['s']} {int(case['cc'])} x={xs}", nontrivial=d > 1,
                          branch="output-cc" if case["cc"] else "output-regular")
                ctx.sample(dict(case, x=[float(v) for v in exp[:4]], y=[float(v) for v in y[:4]]), limit=2)
                if y.shape != exp.shape or np.abs(y - exp).max() > 1e-12:
                    bad = [int(j) for j in np.nonzero(np.abs(y - exp) > 1e-12)[0][:5]] if y.shape == exp.shape else "shape"
                    ctx.fail(dict(case, x=xs), {"y": [float(v) for v in y], "dims": bad},
                             "output == input in every dimension", where="output-identity")
                if use_driver:
                    def cb(st_, payload, case=case, y=y, xs=xs):
                        if st_ != "ok":
                            return ctx.diff(case, "built", f"{st_} {payload}", op="out")
                        vals, cnt = payload.split("|")
                        mv = common.parse_qvec(vals)
                        if not common.vec_close(list(y), mv, 1.0, 1e-9) or set(cnt.split(",")) != {"1"}:
                            ctx.diff(dict(case, x=xs), [float(v) for v in y], payload[:300], op="out")
                    ctx.ask("out", [case["npd"], d, case["s"], int(case["cc"]), xs], cb)
            else:  # add_output value
                ctx.count(f"addout-run {d} {case['s']} {case['fn']} x={xs}", nontrivial=d > 1,
                          branch="addout-value-" + case["form"])
                if y.shape != exp.shape or (exp.size and np.abs(y - exp).max() > 1e-12):
                    ctx.fail(dict(case, x=xs), [float(v) for v in y], [float(v) for v in exp], where="add_output-concat")
                if use_driver:
                    def cb(st_, payload, case=case, y=y, xs=xs):
                        if st_ != "ok":
                            return ctx.diff(case, "ran", f"{st_} {payload}", op="addout-value")
                        vals = payload.split("|")[2]
                        if not common.vec_close(list(y), common.parse_qvec(vals), 64.0, 1e-9):
                            ctx.diff(dict(case, x=xs), [float(v) for v in y], vals[:300], op="addout-value")
                    ctx.ask("addout", [d, case["s"], token["tok"], xs], cb)


def check_state_structure(ctx, st, case, use_driver):
    d, s, cc, npd = case["d"], case["s"], case["cc"], case["npd"]
    ctx.count(f"wiring {d} {s} {int(cc)} npd={npd}", nontrivial=d > 1,
              branch="wiring-cc" if cc else "wiring-regular")
    expected_cls = IdentityEnsembleArray if cc else nengo.networks.EnsembleArray
    if type(st.state_ensembles) is not expected_cls:
        ctx.fail(case, type(st.state_ensembles).__name__, expected_cls.__name__, where="representation-switch")
    try:
        ens, ins, outs, contrib, problems = read_array(st, st.input, st.output, st.all_ensembles)
    except Unexpected as e:
        ctx.diff(case, f"unreadable wiring: {e}", "", op="state")
        return
    ctx.sample(dict(case, ins=table_tok(ins), outs=table_tok(outs)), limit=3)
    # oracle: every output entry is fed by exactly one ensemble component, which reads the same input entry
    if st.input.size_in != d or st.output.size_in != d:
        problems.append("node sizes")
    w = Wiring(st, st.input, st.all_ensembles)
    for j, cs in enumerate(contrib):
        if len(cs) == 1:
            k, t = cs[0]
            if w.sources(st.all_ensembles[k])[t] != [j]:
                problems.append(f"output {j} shows input {w.sources(st.all_ensembles[k])[t]}")
    used = sorted(j for e in st.all_ensembles for srcs in w.sources(e) for j in srcs)
    if used != list(range(d)):
        problems.append(f"input dimensions represented: {used}")
    # (neuron counts per ensemble are not part of the property statement: they are compared with the model only)
    if problems:
        ctx.fail(case, problems[:4], "each dimension represented exactly once", where="wiring-partition")
    if use_driver:
        impl = f"{d}|{table_tok(ens)}|{table_tok(ins)}|{table_tok(outs)}"

        def cb(st_, payload, impl=impl):
            if (st_, payload) != ("ok", impl):
                ctx.diff(case, impl, f"{st_} {payload}", op="state")
        ctx.ask("state", [npd, d, s, int(cc)], cb)


ADD_FORMS_ONE = ["aff", "sq", "sumfirst", "dup"]


def check_add_output_build(ctx, d, s, X, inp, probes, use_driver):
    """add_output on a fresh IdentityEnsembleArray(d, s) for several function forms: dry run first (an
    exception for a valid split is a violation), then the nodes are added to the model being run."""
    n_rem = d // s - 1
    parts = doc_parts(d, s)
    x, xs = X[0], common.qvec(X[0])
    forms = [("one", c, "one=" + c) for c in ADD_FORMS_ONE]
    # one function per ensemble (n_remainder + 2 entries; the second entry is unused when s == 1)
    codes = [f"c{i + 1}" for i in range(n_rem + 2)]
    forms.append(("many-per-ensemble", ";".join(codes), "many=" + ";".join(codes)))
    forms.append(("many-three", "c1;c2;c3", "many=c1;c2;c3"))
    forms.append(("many-wrong", ";".join(f"c{i + 1}" for i in range(n_rem + 4)),
                  "many=" + ";".join(f"c{i + 1}" for i in range(n_rem + 4))))
    forms.append(("one", "empty", "one=empty"))
    arr = None
    for form, code, tok in forms:
        case = {"op": "add_output", "d": d, "s": s, "form": form, "fn": code}
        fn = py_fn(code) if form == "one" else [py_fn(c) for c in code.split(";")]
        # dry run on a throw-away array
        with nengo.Network(add_to_container=False):
            probe_arr = IdentityEnsembleArray(2, d, s)
            try:
                probe_arr.add_output("fo", fn)
                dry = ("ok", "")
            except Exception as e:
                dry = ("err", err_kind(e), f"{type(e).__name__}: {e}"[:160])
        ctx.count(f"addout {d} {s} {tok}", nontrivial=d > 1, branch=f"addout-{form}-{dry[0]}")
        valid_single = form == "one" and code != "empty"
        if dry[0] == "err":
            if valid_single:
                ctx.fail(case, dry[2], "add_output is defined for every split (incl. s = 1, s = d, d = 1)",
                         where="add_output-defined")
            if use_driver:
                def cb(st_, payload, case=case, dry=dry):
                    if st_ != "err" or payload != dry[1]:
                        ctx.diff(case, list(dry), f"{st_} {payload}", op="addout")
                ctx.ask("addout", [d, s, tok, xs], cb)
            continue
        if form == "one" and code == "empty":
            ctx.diff(case, "accepted a size-0 function", "size-mismatch", op="addout")
            continue
        # real one, inside the model being simulated
        if arr is None:
            arr = IdentityEnsembleArray(2, d, s)
            nengo.Connection(inp, arr.input, synapse=None)
        name = f"fo_{len(probes)}"
        node = arr.add_output(name, fn)
        w = Wiring(arr, arr.input, arr.all_ensembles)
        problems = []
        try:
            outs = out_table(w.contributions(node), len(arr.all_ensembles), problems)
        except Unexpected as e:
            ctx.diff(case, f"unreadable wiring: {e}", "", op="addout")
            continue
        # oracle: per-part results concatenated in dimension order
        if form == "one":
            fl = [fn] * len(parts)
        else:
            fl = [fn[0]] + ([fn[1]] if s > 1 else []) + fn[2:][:n_rem]
            if len(fl) != len(parts):
                fl = None
        if fl is not None:
            exp = [np.concatenate([np.atleast_1d(np.asarray(f(xr[a:a + n]), dtype=float)) for f, (a, n) in zip(fl, parts)])
                   for xr in X]
        else:
            exp = None
        if problems:
            ctx.fail(case, problems[:4], "each ensemble writes one slice, in dimension order", where="add_output-slices")
        elif exp is not None:
            sizes = [np.atleast_1d(np.asarray(f(x[a:a + n]))).size for f, (a, n) in zip(fl, parts)]
            starts = [int(v) for v in np.concatenate([[0], np.cumsum(sizes)[:-1]])]
            if outs != list(zip(starts, sizes)) or node.size_in != sum(sizes):
                ctx.fail(case, table_tok(outs), table_tok(list(zip(starts, sizes))), where="add_output-slices")
        if exp is not None:
            probes.append((nengo.Probe(node, synapse=None), "addout", case, exp, {"tok": tok}))
        if use_driver:
            def cb(st_, payload, case=case, outs=outs, node=node):
                if st_ != "ok":
                    return ctx.diff(case, "built", f"{st_} {payload}", op="addout")
                size, mo, vals, cnt = payload.split("|")
                if int(size) != node.size_in or mo != table_tok(outs) or set(cnt.split(",")) != {"1"}:
                    return ctx.diff(case, f"{node.size_in}|{table_tok(outs)}", payload[:300], op="addout")
            ctx.ask("addout", [d, s, tok, xs], cb)


def check_neuron_tables(ctx, d, s, use_driver):
    npd = ctx.rng.randint(1, 6)
    case = {"op": "neuron-access", "d": d, "s": s, "npd": npd}
    ctx.count(f"neuron {d} {s} npd={npd}", nontrivial=d > 1, branch="neuron-table")
    with nengo.Network(add_to_container=False):
        arr = IdentityEnsembleArray(npd, d, s)
        if (d + 2 * s + npd) % 3 == 1:
            # history: the access was asked for while (some of) the ensembles were in Direct mode — refused —, the
            # ensembles were switched back, and it is asked for again: the array must not keep anything of the refusal
            which = arr.all_ensembles if npd % 2 else arr.all_ensembles[-1:]
            saved = [(e, e.neuron_type) for e in which]
            for e in which:
                e.neuron_type = nengo.Direct()
            for req in (arr.add_neuron_input, arr.add_neuron_output):
                try:
                    req()
                except Exception:  # noqa: BLE001  (the refusal itself is not judged here)
                    pass
            for e, t in saved:
                e.neuron_type = t
            case["history"] = f"request refused while {len(which)} ensemble(s) used Direct neurons, then retried"
        try:
            ni = arr.add_neuron_input()
            no = arr.add_neuron_output()
            if (d + s + npd) % 2 == 0:
                # asking again hands back the same nodes and wires nothing a second time
                import warnings as _w
                with _w.catch_warnings():
                    _w.simplefilter("ignore")
                    ni2, no2 = arr.add_neuron_input(), arr.add_neuron_output()
                if ni2 is not ni or no2 is not no:
                    ctx.fail(dict(case, history="requested twice"), "another node", "the node created by the first request",
                             where="neuron-slices")
        except Exception as e:
            ctx.fail(case, f"{type(e).__name__}: {e}"[:200], "neuron input/output exist for every split",
                     where="neuron-defined")
            return
    N = sum(e.n_neurons for e in arr.all_ensembles)
    tin, oin, pin = neuron_table(arr, ni, True)
    tout, oout, pout = neuron_table(arr, no, False)
    problems = pin + pout
    ens = arr.all_ensembles
    if ni.size_in != N or no.size_in != N:
        problems.append(f"node sizes {ni.size_in}, {no.size_in} != number of neurons {N}")
    for name, tab in (("input", tin), ("output", tout)):
        if any(t is None for t in tab):
            problems.append(f"neuron {name}: an ensemble is not connected")
            continue
        for k, (a, n) in enumerate(tab):   # slice k addresses exactly the neurons of ensemble k
            if n != ens[k].n_neurons:
                problems.append(f"neuron {name}: ensemble {k} ({ens[k].n_neurons} neurons) has slice {a}:{n}")
        covered = sorted(i for (a, n) in tab for i in range(a, a + n))
        if covered != list(range(N)):      # every entry of the node exactly once
            problems.append(f"neuron {name}: entries addressed {len(covered)} (distinct {len(set(covered))}) of {N}")
    if tin != tout:
        problems.append("input and output tables differ")
    if problems:
        ctx.fail(case, problems[:4], "every neuron addressed exactly once, same order for input and output",
                 where="neuron-slices")
    ctx.sample(dict(case, table=table_tok([t for t in tin if t])), limit=5)
    if use_driver and all(t is not None for t in tin + tout):
        impl = f"{table_tok(tin)}|{table_tok(tout)}"

        def cb(st_, payload, impl=impl):
            if (st_, payload) != ("ok", impl):
                ctx.diff(case, impl, f"{st_} {payload}", op="neuron")
        ctx.ask("neuron", [npd, d, s], cb)


def check_neuron_perturbation(ctx, d, s):
    """validation: seeded rate neurons; drive the first/last neuron of each ensemble, then inhibit all"""
    rng = ctx.rng
    npd = rng.randint(2, 3)
    case = {"op": "neuron-perturbation", "d": d, "s": s, "npd": npd}
    seed = rng.randrange(2 ** 30)
    ctx.count(f"perturb {d} {s} npd={npd} seed={seed}", nontrivial=True, branch="neuron-perturbation")
    try:
        with nengo.Network(seed=seed) as model:
            model.config[nengo.Ensemble].neuron_type = nengo.RectifiedLinear()
            arr = IdentityEnsembleArray(npd, d, s)
            ni, no = arr.add_neuron_input(), arr.add_neuron_output()
            N = ni.size_in
            idx, pos = [], 0
            for e in arr.all_ensembles:
                idx += [pos, pos + e.n_neurons - 1]
                pos += e.n_neurons
            idx = sorted(set(i for i in idx if i < N))
            if len(idx) > 12:
                idx = sorted(rng.sample(idx, 12))
            U = np.zeros((len(idx) + 2, N))
            for r, i in enumerate(idx):
                U[r + 1, i] = 200.0
            U[-1, :] = -500.0
            nengo.Connection(nengo.Node(nengo.processes.PresentInput(U, DT)), ni, synapse=None)
            nengo.Connection(nengo.Node(np.full(d, 0.3) / math.sqrt(d)), arr.input, synapse=None)
            p = nengo.Probe(no, synapse=None)
            po = nengo.Probe(arr.output, synapse=None)
        for c in model.all_connections:
            c.synapse = None
        with nengo.Simulator(model, progress_bar=False, dt=DT) as sim:
            sim.run_steps(len(idx) + 2)
    except Exception as e:
        ctx.fail(dict(case, seed=seed), f"{type(e).__name__}: {e}"[:300],
                 "neuron input/output exist and can be driven for every split", where="neuron-defined")
        return
    r = sim.data[p]
    if r.shape[1] != N:
        ctx.fail(dict(case, seed=seed), f"neuron_output has {r.shape[1]} entries, neuron_input {N}",
                 "same addressing for input and output", where="neuron-slices")
        return
    for row, i in enumerate(idx):
        changed = [int(j) for j in np.nonzero(r[row + 1] != r[0])[0]]
        if changed != [i]:
            ctx.fail(dict(case, seed=seed, entry=i), changed, [i], where="neuron-locality")
            break
    if np.abs(r[-1]).max() != 0.0 or np.abs(sim.data[po][-1]).max() > 1e-12:
        ctx.fail(dict(case, seed=seed), {"active": [int(j) for j in np.nonzero(r[-1])[0][:8]],
                                          "out": float(np.abs(sim.data[po][-1]).max())},
                 "inhibiting all neuron inputs silences the whole state", where="neuron-inhibit-all")


def check_rejections(ctx, use_driver):
    rng = ctx.rng
    pairs = [(d, s) for d in range(1, 13) for s in range(0, d + 3) if s == 0 or d % s != 0]
    extra = 40 if ctx.tier == "quick" else 300
    while extra:
        d, s = rng.randint(2, 64), rng.randint(2, 70)
        if d % s != 0:
            pairs.append((d, s))
            extra -= 1
    for d, s in pairs:
        for cc in (True, False):
            case = {"op": "reject", "d": d, "s": s, "cc": cc}
            ctx.count(f"reject-state {d} {s} {int(cc)}", nontrivial=True, branch="reject-state")
            try:
                with spa.Network():
                    spa.State(d, subdimensions=s, represent_cc_identity=cc)
                impl = ("ok", "")
            except Exception as e:
                impl = ("err", err_kind(e), type(e).__name__)
            if impl[0] == "ok" or impl[2] != "ValidationError":
                ctx.fail(case, list(impl), "ValidationError (dimensions not divisible by subdimensions)",
                         where="rejects-non-divisible")
            if use_driver:
                def cb(st_, payload, case=case, impl=impl):
                    if (st_, payload) != impl[:2]:
                        ctx.diff(case, list(impl), f"{st_} {payload}", op="state-reject")
                ctx.ask("state", [3, d, s, int(cc)], cb)
        # the array used directly
        case = {"op": "reject-array", "d": d, "s": s}
        ctx.count(f"reject-array {d} {s}", nontrivial=True, branch="reject-array")
        try:
            with nengo.Network(add_to_container=False):
                IdentityEnsembleArray(3, d, s)
            impl = ("ok", "")
        except Exception as e:
            impl = ("err", err_kind(e))
        if use_driver:
            def cb(st_, payload, case=case, impl=impl):
                if st_ != impl[0] or (st_ == "err" and payload != impl[1]):
                    ctx.diff(case, list(impl), f"{st_} {payload}", op="idarr-reject")
            ctx.ask("idarr", [3, d, s], cb)


def check_feedback(ctx, use_driver):
    rng = ctx.rng
    n = 12 if ctx.tier == "quick" else 48
    steps, pulse = 14, 4
    for i in range(n):
        d = rng.choice([1, 2, 4, 6, 8, 12, 16])
        s = rng.choice(divisors(d))
        cc = rng.random() < 0.5
        f = [1.0, 0.0, 1.0, 0.0, 0.5, 1.0][i % 6]
        tau = rng.choice([0.1, 0.05, 0.02, 0.005])
        x = distinct_input(rng, d)
        amp = [rng.choice([1.0, 0.5, -0.25, 2.0]) for _ in range(pulse)]
        U = np.zeros((steps, d))
        for t in range(pulse):
            U[t] = amp[t] * x
        case = {"op": "feedback", "d": d, "s": s, "cc": cc, "feedback": f, "tau": tau}
        try:
            with spa.Network(seed=rng.randrange(2 ** 30)) as model:
                model.config[nengo.Ensemble].neuron_type = nengo.Direct()
                if i % 3 == 2:
                    # the same parameters given through the network's configuration instead of the constructor
                    model.config[spa.State].feedback = f
                    model.config[spa.State].feedback_synapse = tau
                    st = spa.State(d, subdimensions=s, represent_cc_identity=cc)
                    case["given_by"] = "config"
                else:
                    st = spa.State(d, subdimensions=s, represent_cc_identity=cc, feedback=f, feedback_synapse=tau)
                nengo.Connection(nengo.Node(nengo.processes.PresentInput(U, DT)), st.input, synapse=None)
                p = nengo.Probe(st.output, synapse=None)
            fb = [c for c in st.all_connections if c.pre_obj is st.output and c.post_obj is st.input]
            with nengo.Simulator(model, progress_bar=False, dt=DT) as sim:
                sim.run_steps(steps)
        except Exception as e:
            ctx.count(f"feedback-raises d={d} s={s} f={f}", nontrivial=True, branch="feedback-raises")
            ctx.fail(case, f"{type(e).__name__}: {e}"[:300], "a State with feedback can be built and run",
                     where="feedback-run")
            continue
        y = sim.data[p]
        ctx.count(f"feedback d={d} s={s} cc={int(cc)} f={f} tau={tau} x={common.qvec(x)} amp={amp}",
                  nontrivial=True, branch=f"feedback-{f}")
        if f == 1.0:
            held = y[pulse]
            if np.abs(y[pulse:] - held).max() > 1e-12 or np.abs(held).min() == 0.0 or len(fb) != 1:
                ctx.fail(case, {"y_first_dim": [float(v) for v in y[:, 0]], "feedback_connections": len(fb)},
                         "value held after the input ends (feedback 1)", where="feedback-holds")
        if f == 0.0:
            if np.abs(y - U).max() > 1e-12 or len(fb) != 0:
                ctx.fail(case, [float(v) for v in y[:, 0]], "output follows the input, no memory (feedback 0)",
                         where="feedback-zero")
        if use_driver:
            a = math.exp(-DT / tau)
            for j in sorted({0, d - 1}):
                def cb(st_, payload, case=case, j=j, y=y):
                    if st_ != "ok":
                        return ctx.diff(case, "ran", f"{st_} {payload}", op="fb")
                    mv = common.parse_qvec(payload)
                    if not common.vec_close(list(y[:, j]), mv, 4.0, 1e-9):
                        ctx.diff(dict(case, dim=j), [float(v) for v in y[:, j]], [float(v) for v in mv], op="fb")
                ctx.ask("fb", [common.q(a), common.q(f), common.qvec(U[:, j])], cb)


def _run(ctx, maxd, use_driver, n_perturb):
    for d in range(1, maxd + 1):
        check_wiring_and_output(ctx, d, use_driver)
        for s in divisors(d):
            check_neuron_tables(ctx, d, s, use_driver)
    check_rejections(ctx, use_driver)
    check_feedback(ctx, use_driver)
    # neuron perturbation (validation): the three special splits + a sample
    pairs = [(1, 1), (4, 1), (4, 4), (6, 2), (12, 4)]
    allp = [(d, s) for d in range(2, min(maxd, 24) + 1) for s in divisors(d)]
    pairs += ctx.rng.sample(allp, n_perturb)
    for d, s in pairs:
        check_neuron_perturbation(ctx, d, s)
    if use_driver:
        ctx.flush(DRIVER)


def run(ctx):
    use_driver = not getattr(ctx, "no_driver", False)
    quick = ctx.tier == "quick"
    _run(ctx, 32 if quick else 64, use_driver, 8 if quick else 40)
    ctx.extra["exhaustive"] = f"all (d, s) with s | d, d <= {32 if quick else 64}, both representation modes"
    ctx.note("list form of add_output: a 3-entry list [first, second, rest] is rejected by the code whenever the "
             "remainder has more than one ensemble (function[2:] is handed to EnsembleArray.add_output, which wants "
             "one function per ensemble); the model mirrors this (fn-count); outside the property statement")


def search(ctx):
    """deeper oracle-only search (no model involved) after a difference / broken proof"""
    if ctx.tier == "quick":
        _run(ctx, 64, False, 20)

"""C14 — action-selection blocks leave no residue, whatever happens inside them.

Tie: programs over the statement language of the Lean model (`a >> b`, `ifmax`, `raise`, `with block`,
`try/except`) are interpreted with the **real** `ActionSelection` inside a real `spa.Network`; the recorded
trace (what every `>>` did, every `ifmax` result, the process-wide switches and the block's Mapping interface
after every `with`) is compared token by token with `C14.Impl.exec` (drivers/C14.lean).

Oracle (independent of the Lean model; only what the property statement says):
  * after every top-level `with`, however it ended: active is None, routed_mode False, free_floating empty;
  * a `>>` written lexically outside any block returns None and adds a connection to the model at once; a `>>`
    written lexically inside a block adds nothing and yields a RoutedConnection (the harness knows where it is
    because it executes the `with` statements itself);
  * `built` only on a block whose `with` raised nothing; an exception of the body is the one that leaves the `with`;
  * the five documented errors in single-fault situations (routing outside an action, ifmax outside, nested block,
    non-scalar condition, non-routing effect); a valid ifmax is accepted and "routing outside an action" is not
    reported for a block all of whose routes are effects of accepted ifmax calls;
  * every top-level block on fresh objects behaves exactly (exception class, built, keys, inner trace) as the
    same block run alone in a fresh interpreter state (re-run, cached per block text);
  * keys()/len/[i]/[name]: one key per declared action in declaration order, the name where the action is the
    last one with that name, else the index; look-ups return the utility object `ifmax` returned (object identity).
The globals are reset by the harness only between programs.
"""
import itertools

import numpy as np

import nengo
import nengo_spa as spa
from nengo_spa.action_selection import ActionSelection
from nengo_spa.connectors import ModuleInput, RoutedConnection

PROPERTY = "C14"
LEAN_MODULES = ["SpaModel.Props.C14"]
AUDIT = "SpaModel/Audit/C14.lean"
DRIVER = "drivers/C14.lean"
RULE = ("one evaluation = one program run on the real objects and on the model (or one name list through the "
        "Mapping interface); non-trivial = the program contains at least one `with` block or ifmax (name lists: "
        "at least one action); distinct = distinct program text / name list")
ASSUMPTIONS = [
    "CPython `with` protocol: __exit__ is not called when __enter__ raises; a falsy __exit__ result re-raises",
    "asserts are enabled (python without -O): re-entering a built block raises AssertionError",
    "argument expressions of a call are evaluated left to right before the call",
    "the Nengo part of _build either completes or raises on an effect that cannot be connected; it does not touch "
    "the three class attributes",
]


class UserError(Exception):
    pass


class UserInterrupt(BaseException):
    """an exception that is not an `Exception` (like KeyboardInterrupt / SystemExit): a body left by it did not
    complete either"""


CAUGHT = (Exception, UserInterrupt)


EXC_TOKEN = {"SpaActionSelectionError": "AS", "SpaTypeError": "TY", "ValueError": "VAL",
             "AssertionError": "ASSERT", "ValidationError": "NVAL"}


def exc_token(e):
    if e is None:
        return "-"
    if isinstance(e, (UserError, UserInterrupt)):
        return f"U{e.args[0]}"
    return EXC_TOKEN.get(type(e).__name__, type(e).__name__)


# ---------------------------------------------------------------------------
# program text (shared with the Lean driver)
# ---------------------------------------------------------------------------
def ser_stmt(s):
    k = s[0]
    if k == "r":
        return ["r", s[1]]
    if k == "i":
        return ["i", "~" if s[1] is None else "=" + s[1], s[2], str(len(s[3]))] + list(s[3])
    if k == "x":
        return ["x", str(s[1])]
    if k == "b":
        return ["b", str(s[1])] + ser_seq(s[2]) + ["e"]
    if k == "t":
        return ["t"] + ser_seq(s[1]) + ["e"]
    raise ValueError(s)


def ser_seq(seq):
    out = []
    for s in seq:
        out += ser_stmt(s)
    return out


def ser_top(prog):
    """the harness runs every top-level statement under try/except: `t,<stmt>,e`"""
    out = []
    for s in prog:
        out += ["t"] + ser_stmt(s) + ["e"]
    return ",".join(out) if out else "-"


def ids_of(seq, acc=None):
    acc = [] if acc is None else acc
    for s in seq:
        if s[0] == "b":
            if s[1] not in acc:
                acc.append(s[1])
            ids_of(s[2], acc)
        elif s[0] == "t":
            ids_of(s[1], acc)
    return acc


def rename(seq, m):
    out = []
    for s in seq:
        if s[0] == "b":
            out.append(("b", m[s[1]], rename(s[2], m)))
        elif s[0] == "t":
            out.append(("t", rename(s[1], m)))
        else:
            out.append(s)
    return out


def has_block_or_ifmax(seq):
    return any(s[0] in "bi" or (s[0] == "t" and has_block_or_ifmax(s[1])) for s in seq)


# ---------------------------------------------------------------------------
# expected keys (property statement, written out)
# ---------------------------------------------------------------------------
class SubActionSelection(ActionSelection):
    """what a user writes to add convenience methods: behaves like its base class in every respect"""


def expected_keys(names):
    out = []
    for i, n in enumerate(names):
        out.append(n if n is not None and n not in names[i + 1:] else i)
    return out


def key_token(k):
    return f"={k}" if isinstance(k, str) else f"#{k}"


def globals_now():
    return (ActionSelection.active is None, bool(ModuleInput.routed_mode), len(RoutedConnection.free_floating))


def reset_globals():
    ActionSelection.active = None
    ModuleInput.routed_mode = False
    RoutedConnection.free_floating.clear()


# ---------------------------------------------------------------------------
# interpreter on the real objects
# ---------------------------------------------------------------------------
class Runner:
    def __init__(self, fails, prog_text):
        reset_globals()
        self.fails = fails          # list of (where, detail-dict)
        self.prog_text = prog_text
        self.model = spa.Network()
        with self.model:
            self.a = spa.State(16)
            self.a1 = spa.State(1, subdimensions=1)      # a pointer of a 1-dimensional vocabulary is not a scalar
            self.b = spa.State(16)
            self.c32 = spa.State(32)
            self.s = spa.Scalar()
        self.blocks = {}
        self.decl = {}              # id -> [(name, utility object)]
        self.lex = []               # lexical stack of open blocks (what the program text says)
        self.unclaimed = {}         # id -> list of RoutedConnection written in that block, not taken by an ifmax
        self.rejected = {}          # id -> names carried by ifmax calls of that block that were refused
        self.trace = []             # tuples
        self.block_results = []     # (stmt, id, start, end) of top-level blocks

    def fail(self, where, **detail):
        self.fails.append((where, dict(detail, program=self.prog_text)))

    # -- a >> b ------------------------------------------------------------
    def route(self, kind):
        src, dst = {"g": (self.a, self.b), "i": (self.a, self.c32), "u": (self.a, self.s)}[kind]
        n0 = len(self.model.all_connections)
        inside = bool(self.lex)
        try:
            v = src >> dst
        except Exception as e:
            delta = len(self.model.all_connections) - n0
            self.trace.append(("r", "!" + exc_token(e), globals_now()[2]))
            if delta != 0:
                self.fail("route-raised-but-connected", kind=kind, inside=inside, delta=delta)
            raise
        delta = len(self.model.all_connections) - n0
        if v is None and delta > 0:
            tok = "c"
        elif isinstance(v, RoutedConnection) and delta == 0:
            tok = "r"
        else:
            tok = f"?{type(v).__name__}/{delta}"
        self.trace.append(("r", tok, globals_now()[2]))
        if inside and tok != "r":
            self.fail("route-inside-block-connected", kind=kind, result=type(v).__name__, new_connections=delta)
        if not inside and tok != "c":
            self.fail("route-outside-not-immediate", kind=kind, result=type(v).__name__, new_connections=delta)
        if inside and isinstance(v, RoutedConnection):
            self.unclaimed[self.lex[-1]].append(v)
        return v

    # -- ifmax -------------------------------------------------------------
    def ifmax(self, name, cond, effs):
        vals = []
        for e in effs:
            if e == "o":
                # a non-routing effect of any Python kind (hashable or not) must be reported with the documented error
                self.n_other = getattr(self, "n_other", 0) + 1
                pool = ["not-a-route", 3.5, [], {"k": 1}, {1, 2}, np.zeros(2), ["x"], (1, 2), object()]
                # (`None` is left out: `ifmax(cond, None)` is read as "no name given", i.e. `ifmax(cond)`)
                vals.append(pool[self.n_other % len(pool)])
            else:
                vals.append(self.route(e))
        self.n_p = getattr(self, "n_p", 0) + (cond == "p")
        c = {"z": 0, "s": spa.dot(self.a, spa.sym.A), "p": self.a if self.n_p % 2 else self.a1, "u": object(),
             "m": None}[cond]
        inside = bool(self.lex)
        try:
            if name is None:
                u = spa.ifmax(c, *vals)
            else:
                u = spa.ifmax(name, c, *vals)
        except Exception as e:
            self.trace.append(("i", exc_token(e), globals_now()[2]))
            self.check_ifmax_error(name, cond, effs, inside, e)
            if inside and name is not None:
                self.rejected.setdefault(self.lex[-1], []).append(name)     # a refused action declares nothing
            raise
        self.trace.append(("i", "-", globals_now()[2]))
        self.check_ifmax_error(name, cond, effs, inside, None)
        if inside:
            bid = self.lex[-1]
            self.decl[bid].append((name, u))
            taken = [v for v in vals if isinstance(v, RoutedConnection)]
            self.unclaimed[bid] = [r for r in self.unclaimed[bid] if not any(r is t for t in taken)]
        return u

    def check_ifmax_error(self, name, cond, effs, inside, e):
        """documented errors, single-fault situations only"""
        routes_ok = all(x in "go" for x in effs) if not inside else all(x in "guo" for x in effs)
        got = exc_token(e)
        case = dict(name=name, cond=cond, effects=list(effs), inside=inside)
        if not routes_ok:
            return
        if not inside and cond in "zs":
            if got != "AS":
                self.fail("ifmax-outside-not-reported", observed=got, required="SpaActionSelectionError", **case)
        elif inside and cond == "p" and "o" not in effs:
            if got != "TY":
                self.fail("nonscalar-condition-not-reported", observed=got, required="SpaTypeError", **case)
        elif inside and cond in "zs" and "o" in effs:
            if got != "AS":
                self.fail("nonrouting-effect-not-reported", observed=got, required="SpaActionSelectionError", **case)
        elif inside and cond in "zs" and "o" not in effs:
            if got != "-":
                self.fail("valid-ifmax-rejected", observed=got, required="no exception", **case)

    # -- with block --------------------------------------------------------
    def block(self, bid, body, stmt):
        if bid not in self.blocks:
            self.blocks[bid] = (SubActionSelection if bid % 2 else ActionSelection)()   # a user subclass is a block too
            self.decl[bid] = []
            self.unclaimed[bid] = []
        blk = self.blocks[bid]
        outer = self.lex[-1] if self.lex else None
        built_before = blk.built
        start = len(self.trace)
        body_exc, entered, exc = None, False, None
        try:
            with blk:
                entered = True
                self.lex.append(bid)
                try:
                    self.run(body)
                except BaseException as e:
                    body_exc = e
                    raise
                finally:
                    self.lex.pop()
        except CAUGHT as e:
            exc = e
        g = globals_now()
        self.trace.append(("b", bid, exc_token(exc), g, blk.built, len(blk)))
        case = dict(block=bid, exception=exc_token(exc))
        if outer is None:
            if g != (True, False, 0):
                self.fail("residue-after-block", observed=dict(active_is_None=g[0], routed_mode=g[1], free_floating=g[2]),
                          required="(None, False, 0)", **case)
        else:
            if not built_before and exc_token(exc) != "AS":
                self.fail("nested-block-not-reported", observed=exc_token(exc), required="SpaActionSelectionError", **case)
            if entered:
                self.fail("nested-block-entered", **case)
        if blk.built and not built_before and exc is not None:
            self.fail("built-despite-error", **case)
        if body_exc is not None and exc is not body_exc:
            self.fail("body-exception-replaced", observed=exc_token(exc), required=exc_token(body_exc), **case)
        if entered and body_exc is None and self.unclaimed[bid] and exc_token(exc) != "AS":
            self.fail("free-floating-routing-not-reported", observed=exc_token(exc),
                      required="SpaActionSelectionError", unclaimed=len(self.unclaimed[bid]), **case)
        if (entered and body_exc is None and not self.unclaimed[bid] and exc_token(exc) == "AS"):
            self.fail("free-floating-routing-reported-without-cause", observed="SpaActionSelectionError",
                      required="no such error: every route of the block is an effect of an accepted ifmax", **case)
        if entered:
            self.unclaimed[bid] = []
        self.check_mapping(bid)
        if outer is None:
            self.block_results.append((stmt, bid, start, len(self.trace)))
        if exc is not None:
            raise exc

    def check_mapping(self, bid):
        blk, decl = self.blocks[bid], self.decl[bid]
        names = [n for n, _ in decl]
        want = expected_keys(names)
        case = dict(block=bid, actions=[("unnamed" if n is None else n) for n in names])
        try:
            got = list(blk.keys())
        except Exception as e:
            got = f"{type(e).__name__}"
        if got != want:
            self.fail("keys-not-declaration-order", observed=got, required=want, **case)
            return
        if len(blk) != len(names):
            self.fail("len-wrong", observed=len(blk), required=len(names), **case)
        for n in dict.fromkeys(self.rejected.get(bid, [])):
            if n in names:
                continue
            try:
                got_r = blk[n]
                self.fail("rejected-action-retrievable", key=n, observed="an action" if got_r is not None else None,
                          required="KeyError: the ifmax that carried this name was refused", **case)
            except KeyError:
                pass
            except Exception as e:  # noqa: BLE001
                self.fail("getitem-raised", key=n, observed=type(e).__name__, **case)
        for i, (n, u) in enumerate(decl):
            try:
                if blk[i] is not u:
                    self.fail("getitem-position", index=i, **case)
                if blk[want[i]] is not u:
                    self.fail("getitem-key", key=want[i], **case)
                if n is not None and blk[n] is not decl[max(j for j, (m, _) in enumerate(decl) if m == n)][1]:
                    self.fail("getitem-name", key=n, **case)
            except Exception as e:
                self.fail("getitem-raised", index=i, observed=type(e).__name__, **case)

    # -- statements ----------------------------------------------------------
    def run(self, seq):
        for s in seq:
            k = s[0]
            if k == "r":
                self.route(s[1])
            elif k == "i":
                self.ifmax(s[1], s[2], s[3])
            elif k == "x":
                raise (UserInterrupt(s[1]) if s[1] % 3 == 2 else UserError(s[1]))
            elif k == "b":
                self.block(s[1], s[2], s)
            elif k == "t":
                try:
                    self.run(s[1])
                except CAUGHT as e:
                    self.trace.append(("c", exc_token(e)))

    def run_top(self, prog):
        with self.model:
            for s in prog:
                try:
                    self.run([s])
                except CAUGHT as e:
                    self.trace.append(("c", exc_token(e)))
        return self

    # -- rendering -----------------------------------------------------------
    def block_summary(self, bid):
        blk = self.blocks.get(bid)
        if blk is None:
            return f"{bid}/0:0:-:-"
        keys = list(blk.keys())
        util = [u for _, u in self.decl[bid]]
        gets = []
        for k in keys:
            try:
                v = blk[k]
                pos = [i for i, u in enumerate(util) if u is v]
                gets.append(str(pos[0]) if pos else "?")
            except KeyError:
                gets.append("K")
            except IndexError:
                gets.append("I")
        return (f"{bid}/{int(blk.built)}:{len(blk)}:{','.join(key_token(k) for k in keys) or '-'}:"
                f"{','.join(gets) or '-'}")


def fmt_event(ev, idmap=None):
    if ev[0] == "r" or ev[0] == "i":
        return f"{ev[0]}:{ev[1]}:{ev[2]}"
    if ev[0] == "b":
        bid = ev[1] if idmap is None else idmap.get(ev[1], f"x{ev[1]}")
        g = ev[3]
        return f"b:{bid}:{ev[2]}:{int(g[0])}{int(g[1])}:{g[2]}:{int(ev[4])}:{ev[5]}"
    return f"c:{ev[1]}"


def event_class(ev):
    if ev[0] in "ri":
        return f"{ev[0]}:{ev[1]}"
    if ev[0] == "b":
        return f"b:{ev[2]}:{'built' if ev[4] else 'unbuilt'}"
    return "caught"


# ---------------------------------------------------------------------------
# generators
# ---------------------------------------------------------------------------
GOOD = ("i", None, "s", ["g"])


def ok_block(rng, bid):
    k = rng.choice([0, 1, 1, 2, 3])
    body = []
    for _ in range(k):
        name = rng.choice([None, None, "a", "b"])
        cond = rng.choice("zs")
        effs = [rng.choice("g") for _ in range(rng.choice([0, 1, 1, 2]))]
        body.append(("i", name, cond, effs))
    return [("b", bid, body)]


def kind_stmts(kind, rng, bid):
    """the outcome kinds of the property's quantifier; block objects bid, bid+1 are fresh"""
    if kind == "ok":
        return ok_block(rng, bid)
    if kind == "exc-before":
        return [("b", bid, [("x", 1), GOOD])]
    if kind == "exc-after":
        return [("b", bid, [GOOD, ("x", 2)])]
    if kind == "free-floating":
        return [("b", bid, [GOOD, ("r", "g")])]
    if kind == "nested":
        return [("b", bid, [GOOD, ("b", bid + 1, [GOOD])])]
    if kind == "bad-condition":
        return [("b", bid, [("i", None, "p", ["g"])])]
    if kind == "non-routing":
        return [("b", bid, [("i", None, "s", ["o"])])]
    if kind == "ifmax-outside":
        return [("i", None, "s", [])]
    if kind == "build-fails":
        return [("b", bid, [("i", None, "s", ["u"])])]
    raise ValueError(kind)


KINDS = ["ok", "exc-before", "exc-after", "free-floating", "nested", "bad-condition", "non-routing",
         "ifmax-outside", "build-fails"]


def rand_effs(rng):
    n = rng.choice([0, 1, 1, 2, 3])
    return [rng.choice("gggguio") for _ in range(n)]


def rand_seq(rng, depth, ids, n):
    seq = []
    for _ in range(n):
        x = rng.random()
        if x < 0.22:
            seq.append(("r", rng.choice("ggggiu")))
        elif x < 0.55:
            seq.append(("i", rng.choice([None, None, "a", "b", "c", ""]), rng.choice("zssssspum"), rand_effs(rng)))
        elif x < 0.62:
            seq.append(("x", rng.randint(0, 9)))
        elif x < 0.85 and depth < 3:
            if ids and rng.random() < 0.25:
                bid = rng.choice(ids)          # re-entering an object used before
            else:
                bid = (max(ids) + 1) if ids else 0
                ids.append(bid)
            seq.append(("b", bid, rand_seq(rng, depth + 1, ids, rng.randint(0, 4))))
        elif depth < 3:
            seq.append(("t", rand_seq(rng, depth + 1, ids, rng.randint(1, 3))))
        else:
            seq.append(("r", "g"))
    return seq


# ---------------------------------------------------------------------------
# run
# ---------------------------------------------------------------------------
class Alone:
    """outcome of a top-level block statement run alone in a fresh interpreter state (cached by text)"""

    def __init__(self):
        self.cache = {}
        self.runs = 0

    def outcome(self, stmt):
        ids = ids_of([stmt])
        m = {b: i for i, b in enumerate(ids)}
        canon = rename([stmt], m)
        text = ser_top(canon)
        if text not in self.cache:
            sink = []
            r = Runner(sink, text).run_top(canon)
            self.runs += 1
            ident = {i: i for i in range(len(ids))}
            _, _, start, end = r.block_results[0]
            self.cache[text] = ([fmt_event(e, ident) for e in r.trace[start:end]],
                                [r.block_summary(i) for i in range(len(ids))])
        return m, self.cache[text]


def run_program(ctx, prog, alone, branch, events):
    text = ser_top(prog)
    fails = []
    r = Runner(fails, text).run_top(prog)
    ids = sorted(r.blocks)
    # independence oracle: top-level blocks on objects not used before in this program
    seen = set()
    for s in prog:
        sids = ids_of([s])
        fresh = not (set(sids) & seen)
        seen |= set(sids)
        if s[0] != "b" or not fresh:
            continue
        res = [b for b in r.block_results if b[0] is s]
        if not res:
            continue
        _, bid, start, end = res[0]
        m, (tr_alone, sum_alone) = alone.outcome(s)
        tr_here = [fmt_event(e, m) for e in r.trace[start:end]]
        if tr_here != tr_alone:
            fails.append(("later-block-differs-from-alone", dict(program=text, block=bid, in_sequence=tr_here,
                                                                   alone=tr_alone)))
    for e in r.trace:
        c = event_class(e)
        events[c] = events.get(c, 0) + 1
    ctx.count(text, nontrivial=has_block_or_ifmax(prog), branch=branch)
    g = globals_now()
    impl = ("- " + f"{int(g[0])}{int(g[1])}:{g[2]} " + (",".join(fmt_event(e) for e in r.trace) or "-") + " "
            + (",".join(r.block_summary(i) for i in ids) or "-"))
    case = {"op": "run", "program": text}
    ctx.sample(dict(case, impl=impl), limit=5)
    for where, detail in fails:
        ctx.fail(dict(detail, op="run"), detail.get("observed", "see case"), detail.get("required", "see docstring"),
                 where=where)
    reset_globals()

    def cb(st, payload, case=case, impl=impl):
        if st != "ok" or payload != impl:
            ctx.diff(case, impl, f"{st} {payload}", op="run")
    if not getattr(ctx, "no_driver", False):
        ctx.ask("run", [text, ",".join(str(i) for i in ids) or "-"], cb)


def run_names(ctx, names, alphabet):
    """Mapping interface after declaring actions with these names in one block"""
    text = ",".join("~" if n is None else "=" + n for n in names) or "-"
    fails = []
    prog = [("b", 0, [("i", n, "s", []) for n in names])]
    r = Runner(fails, ser_top(prog)).run_top(prog)
    blk = r.blocks[0]
    util = [u for _, u in r.decl[0]]
    probes = [i for i in range(len(names) + 2)] + [a for a in alphabet if a is not None] + ["zz"]
    got = []
    want_fail = []
    for p in probes:
        try:
            v = blk[p]
            pos = [i for i, u in enumerate(util) if u is v]
            got.append(str(pos[0]) if pos else "?")
            # oracle: position p -> action p; name -> last action with that name
            exp = p if isinstance(p, int) else max((i for i, n in enumerate(names) if n == p), default=None)
            if exp is None or not pos or pos[0] != exp:
                want_fail.append((p, pos, exp))
        except KeyError:
            got.append("K")
            if isinstance(p, str) and p in names:
                want_fail.append((p, "KeyError", "declared name"))
        except IndexError:
            got.append("I")
            if isinstance(p, int) and p < len(names):
                want_fail.append((p, "IndexError", "declared position"))
    case = {"op": "keys", "actions": [("unnamed" if n is None else n) for n in names]}
    for where, detail in fails:
        ctx.fail(dict(case, **{k: v for k, v in detail.items() if k != "program"}), detail.get("observed", ""),
                 detail.get("required", ""), where=where)
    for p, o, e in want_fail:
        ctx.fail(dict(case, probe=p), str(o), str(e), where="getitem-probe")
    ctx.count("keys " + text, nontrivial=len(names) > 0, branch=f"names-len{len(names)}")
    impl = r.block_summary(0).split("/", 1)[1].split(":", 1)[1] + " " + (",".join(got) or "-")
    ctx.sample(dict(case, impl=impl), limit=8)
    reset_globals()

    def cb(st, payload, case=case, impl=impl):
        if st != "ok" or payload != impl:
            ctx.diff(case, impl, f"{st} {payload}", op="keys")
    if not getattr(ctx, "no_driver", False):
        ctx.ask("keys", [text, ",".join(key_token(p) for p in probes)], cb)


def run(ctx):
    quick = ctx.tier == "quick"
    alone = Alone()
    events = {}
    rep = getattr(ctx, "replay", None)
    if rep and isinstance(rep.get("case"), dict) and rep["case"].get("program"):
        ctx.note("replay of one program")
        prog = parse_text(rep["case"]["program"])
        run_program(ctx, prog, alone, "replay", events)
        if not getattr(ctx, "no_driver", False):
            ctx.flush(DRIVER)
        return

    # 1. all sequences of outcome kinds, each followed by a plain `a >> b`
    maxlen = 3 if quick else 4
    for n in range(1, maxlen + 1):
        for kinds in itertools.product(KINDS, repeat=n):
            prog = []
            for j, k in enumerate(kinds):
                prog += kind_stmts(k, ctx.rng, 2 * j)
                prog.append(("r", "g"))
            run_program(ctx, prog, alone, f"sequence-len{n}", events)
    # 2. random longer programs: every construct, nesting, try/except, re-entered objects
    for _ in range(300 if quick else 2000):
        ids = []
        prog = rand_seq(ctx.rng, 0, ids, ctx.rng.randint(3, 9))
        run_program(ctx, prog, alone, "random-program", events)
    # 3. named/unnamed mixes of 0..5 actions, duplicate names included (exhaustive)
    alphabet = [None, "a", "b"] if quick else [None, "a", "b", "c"]
    for n in range(0, 6):
        for names in itertools.product(alphabet, repeat=n):
            run_names(ctx, list(names), alphabet)
    if not quick:
        for _ in range(600):
            n = ctx.rng.randint(6, 9)
            run_names(ctx, [ctx.rng.choice(alphabet) for _ in range(n)], alphabet)
    if not getattr(ctx, "no_driver", False):
        ctx.flush(DRIVER)
    ctx.extra["event_classes"] = dict(sorted(events.items()))
    ctx.extra["alone_reruns"] = alone.runs
    ctx.extra["exhaustive"] = f"all sequences of {len(KINDS)} outcome kinds up to length {maxlen}; all name lists " \
                              f"over {len(alphabet)} labels up to length 5"


def parse_text(text):
    """inverse of ser_top (for --replay)"""
    toks = [] if text == "-" else text.split(",")
    pos = 0

    def seq(in_body):
        nonlocal pos
        out = []
        while pos < len(toks):
            t = toks[pos]
            pos += 1
            if t == "e":
                return out
            if t == "r":
                out.append(("r", toks[pos])); pos += 1
            elif t == "x":
                out.append(("x", int(toks[pos]))); pos += 1
            elif t == "i":
                nm = None if toks[pos] == "~" else toks[pos][1:]
                c, n = toks[pos + 1], int(toks[pos + 2])
                out.append(("i", nm, c, toks[pos + 3:pos + 3 + n])); pos += 3 + n
            elif t == "b":
                bid = int(toks[pos]); pos += 1
                out.append(("b", bid, seq(True)))
            elif t == "t":
                out.append(("t", seq(True)))
        return out
    top = seq(False)
    # top-level statements were wrapped in `t … e` by ser_top
    return [s[1][0] for s in top if s[0] == "t" and len(s[1]) == 1]

import argparse
import importlib
import os
import sys
import traceback

sys.path.insert(0, os.path.dirname(os.path.abspath(__file__)))
import common


def main():
    ap = argparse.ArgumentParser()
    ap.add_argument("prop")
    ap.add_argument("--tier", default=os.environ.get("VERIF_TIER", "quick"), choices=["quick", "thorough"])
    ap.add_argument("--replay", default=None)
    a = ap.parse_args()
    seed = int(os.environ.get("VERIF_SEED", "0") or 0)
    try:
        mod = importlib.import_module(a.prop.lower())
    except ModuleNotFoundError as e:
        if e.name == a.prop.lower():
            print(f"no check for {a.prop}", file=sys.stderr)
            sys.exit(2)
        raise
    try:
        rc = common.run_check(mod, a.tier, seed, a.replay)
    except Exception:
        traceback.print_exc()
        sys.exit(2)
    sys.exit(rc)


main()

import argparse
import importlib
import os
import sys
import traceback

sys.path.insert(0, os.path.dirname(os.path.abspath(__file__)))
import common


def main():
    ap = argparse.ArgumentParser()
    ap.add_argument("prop")
    ap.add_argument("--tier", default=os.environ.get("VERIF_TIER", "quick"), choices=["quick", "thorough"])
    ap.add_argument("--replay", default=None)
    a = ap.parse_args()
    seed = int(os.environ.get("VERIF_SEED", "0") or 0)
    tier = a.tier
    if a.replay:
        # a replay file records the seed and tier of the run that wrote it: every random choice derives from the seed,
        # so re-running with them regenerates the recorded case (modules with a targeted replay run only that case)
        import json
        try:
            rec = json.load(open(a.replay))
            seed = int(rec.get("seed", seed))
            tier = rec.get("tier", tier) if rec.get("tier") in ("quick", "thorough") else tier
        except (OSError, ValueError) as e:
            print(f"cannot read replay file: {e}", file=sys.stderr)
            sys.exit(2)
    try:
        mod = importlib.import_module(a.prop.lower())
    except ModuleNotFoundError as e:
        if e.name == a.prop.lower():
            print(f"no check for {a.prop}", file=sys.stderr)
            sys.exit(2)
        raise
    try:
        rc = common.run_check(mod, tier, seed, a.replay)
    except Exception:
        traceback.print_exc()
        sys.exit(2)
    sys.exit(rc)


main()

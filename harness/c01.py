"""C01 — networks built from SPA expressions compute the expression's value.

Tie: expression programs (1-3 statements `e >> sink`) are built with the REAL operators inside a
real `spa.Network` (sources: `Transcode` in each accepted form / `State` / `Scalar`; sinks: `State`,
`Scalar`, `Transcode` reading a pointer), evaluated with ideal neurons at steady state (Direct
neurons, every synapse None, run until the sink no longer changes) and compared with

  (i)   the property oracle: the SAME expression evaluated with Semantic Pointer arithmetic on the
        current source values (sources replaced by `SemanticPointer` / float) — independent of the
        Lean model and of ast/dynamic.py;  disagreement -> ctx.fail (VIOLATION with the program);
  (ii)  the Lean driver: `Impl.value (Impl.compileStmt e)` and `Spec.evalStmt e`, exact over Q(sqrt m)
        (accept/refuse class, value, numbers of Bind/Product/Compare/Superposition modules);
        disagreement -> ctx.diff.

Streams: `valid` (typed generator over the whole operator grammar x operand kinds x orders, depth to
5/6, must be accepted), `small` (ALL trees with at most one operator over every leaf kind, both sink
kinds: accept/refuse class compared), `two-level` (stratified sample of trees with two operator levels).
"""
import itertools
import math
import multiprocessing
import os
import warnings
from fractions import Fraction

import numpy as np

import common

PROPERTY = "C01"
LEAN_MODULES = ["SpaModel.Props.C01", "SpaModel.Lemmas.C01"]
AUDIT = "SpaModel/Audit/C01.lean"
DRIVER = "drivers/C01.lean"
RULE = ("one case = one program (algebra, dimensionalities, vocabulary vectors, source forms and values, sink kind, "
        "1-3 expression trees) built with the real operators and simulated; distinct = distinct canonical program "
        "text; non-trivial = at least one operator in some statement and a non-zero source/fixed vector")
ASSUMPTIONS = [
    "Nengo builder/simulator semantics are trusted: Direct ensembles compute their function exactly, a connection "
    "with transform T adds T.x, connections into one object add up, synapse=None is a pure delay-free/one-step copy",
    "steady state = the sink value no longer changes between the last two simulation steps",
    "Python operator dispatch (reflected operators, evaluation order) as documented",
    "a program uses one algebra object; VTB/TVTB programs one dimensionality (the driver computes in Q(sqrt m)); "
    "vocabulary keys, fixed pointers and source values are dyadic rationals (exact transport to the model)",
    "PointerSymbol expression text evaluated by Vocabulary.parse = pointer arithmetic (properties C06/C10)",
    "Vocabulary.transform_to supplies the translate matrix (property C13): it is read from the real code and given to the model",
]

KEYS = ["A", "B", "C"]
_Y = [("Y", 0), ("Y", 1), ("Y", 2)]
# spa.sym('...') texts with the tree each one stands for (second oracle: the tree applied to the vocabulary's pointers)
SYM_TEXTS = [
    ("(A + B) * (C + A)", ("mul", ("add", _Y[0], _Y[1]), ("add", _Y[2], _Y[0]))),
    ("(A * B) + (C * A)", ("add", ("mul", _Y[0], _Y[1]), ("mul", _Y[2], _Y[0]))),
    ("A + B", ("add", _Y[0], _Y[1])),
    ("(B - C)", ("sub", _Y[1], _Y[2])),
]
SIDES = {"2": "inv2", "L": "invL", "R": "invR"}
REFUSALS = {"SpaTypeError", "NotImplementedError", "AssertionError", "AttributeError", "ZeroDivisionError",
            "ValidationError", "TypeError"}


# --------------------------------------------------------------------------------------------
# program text  (trees are nested tuples)
# --------------------------------------------------------------------------------------------
def tokens(t):
    k = t[0]
    if k == "P":
        return [f"P:{t[1]}:{t[2]}"]
    if k == "S":
        return [f"S:{t[1]}"]
    if k == "Y":
        return [f"Y:{t[1]}"]
    if k == "T":
        return [f"T:{t[1]}"]
    if k == "Z":
        return [f"Z:{t[1]}:{t[2]}"]
    if k == "F":
        return [f"F:{t[1]}:{common.qvec(t[2])}"]
    if k == "N":
        return [f"N:{t[1]}:{common.qvec(t[2])}"]
    if k == "C":
        return [f"C:{common.q(t[1])}"]
    if k == "neg":
        return ["neg"] + tokens(t[1])
    if k == "inv":
        return [SIDES[t[1]]] + tokens(t[2])
    if k in ("add", "sub", "mul", "dot"):
        return [k] + tokens(t[1]) + tokens(t[2])
    if k == "div":
        return [f"div:{common.q(t[2])}"] + tokens(t[1])
    if k == "rei":
        return [f"rei:{'-' if t[2] is None else t[2]}"] + tokens(t[1])
    if k == "tra":
        return [f"tra:{t[2]}"] + tokens(t[1])
    raise ValueError(k)


def depth(t):
    subs = [x for x in t[1:] if isinstance(x, tuple) and x and isinstance(x[0], str) and x[0] in ALLK]
    return 0 if not subs else 1 + max(depth(s) for s in subs)


ALLK = {"P", "S", "Y", "T", "Z", "F", "N", "C", "neg", "inv", "add", "sub", "mul", "dot", "div", "rei", "tra"}


def contains(t, pred):
    if pred(t):
        return True
    return any(contains(x, pred) for x in t[1:] if isinstance(x, tuple) and x and isinstance(x[0], str) and x[0] in ALLK)


def is_scalar_times_typed_symbol(t):
    return t[0] == "mul" and {t[1][0], t[2][0]} == {"S", "Z"}


# --------------------------------------------------------------------------------------------
# worker: build + simulate the real network, and evaluate the oracle
# --------------------------------------------------------------------------------------------
def make_algebra(name):
    from nengo_spa import algebras
    return {"hrr": algebras.HrrAlgebra, "vtb": algebras.VtbAlgebra, "tvtb": algebras.TvtbAlgebra}[name]()


def src_expected(form, vec, keyvecs):
    """value a pointer source of the given form must output (independent of Transcode)"""
    if form[0] in ("sp", "ft_array", "ft_sp", "state"):
        return np.array(vec, float)
    if form[0] in ("symstr", "psym", "ft_str"):
        return np.array(keyvecs[form[1]], float)
    if form[0] == "exprstr":     # 'a*K1 + b*K2'
        return form[1] * np.array(keyvecs[form[2]], float) + form[3] * np.array(keyvecs[form[4]], float)
    if form[0] == "ftsp":        # f(t, sp) -> sp * c  (SemanticPointer return)
        return form[1] * np.array(vec, float)
    if form[0] == "ftsp_arr":    # f(t, sp) -> (sp.v * c) array return
        return form[1] * np.array(vec, float)
    raise ValueError(form)


def run_program(prog):
    """-> dict(status, ...) ; executed in a forked worker"""
    warnings.simplefilter("ignore")
    import nengo
    import nengo_spa as spa
    from nengo_spa.ast.symbolic import PointerSymbol
    from nengo_spa.types import TVocabulary
    from nengo_spa.semantic_pointer import SemanticPointer

    alg = make_algebra(prog["alg"])
    vocabs = []
    for vi, d in enumerate(prog["dims"]):
        v = spa.Vocabulary(d, strict=True, algebra=alg, pointer_gen=np.random.RandomState(0))
        for kname, kv in zip(KEYS, prog["keys"][vi]):
            v.add(kname, np.array(kv, float))
        vocabs.append(v)
    out = {"trans": {}}
    # translate matrices of the real code for the model
    tkeys = prog.get("trans_keys")      # None | requested key subset of every translate of this program
    tkw = {} if tkeys is None else {"keys": list(tkeys)}
    for (a, b) in prog["trans_pairs"]:
        out["trans"][(a, b)] = np.array(vocabs[a].transform_to(vocabs[b], populate=False, **tkw), float).tolist()

    srcs = prog["sources"]   # list of ("P", vid, form, vec) | ("S", value)
    keyvecs_of = lambda vid: dict(zip(KEYS, prog["keys"][vid]))
    expected_src = []
    for s in srcs:
        if s[0] == "P" and s[2][0] == "ftsp_inv":
            # f(t, sp) -> ~sp read through an input vocabulary WITHOUT keys (a falsy object): the function still gets
            # a Semantic Pointer of the program's algebra
            with warnings.catch_warnings():
                warnings.simplefilter("ignore")
                expected_src.append(np.array((~SemanticPointer(np.array(s[3], float), algebra=alg)).v, float))
        elif s[0] == "P" and s[2][0] == "ftsp_own":
            # f(t, sp) -> sp * sp.vocab['A']: the pointer handed to the function belongs to the INPUT vocabulary, whose
            # 'A' is the output vocabulary's 'B'
            with warnings.catch_warnings():
                warnings.simplefilter("ignore")
                kv = keyvecs_of(s[1])
                expected_src.append(np.array((SemanticPointer(np.array(s[3], float), algebra=alg)
                                              * SemanticPointer(np.array(kv["B"], float), algebra=alg)).v, float))
        elif s[0] == "P":
            expected_src.append(src_expected(s[2], s[3], keyvecs_of(s[1])))
        else:
            expected_src.append(np.array([s[1]], float))
    out["expected_src"] = [e.tolist() for e in expected_src]

    def leafnum(c):
        return int(c) if float(c).is_integer() and abs(c) < 100 and prog.get("intnum", True) else float(c)

    shared = {}

    def build(t, mods, oracle):
        # "share": structurally identical compound sub-expressions of the real program are ONE Python object
        # reused across statements (`base = a + b; base + C >> s; base - C >> s`), as users write them
        if prog.get("share") and not oracle and t[0] not in ("P", "S", "Y", "Z", "F", "N", "C"):
            key = repr(t)
            if key not in shared:
                shared[key] = build1(t, mods, oracle)
            return shared[key]
        return build1(t, mods, oracle)

    def build1(t, mods, oracle):
        k = t[0]
        if k == "P":
            return mods[t[1]]
        if k == "S":
            return mods[t[1]]
        if k == "Y":
            if oracle == 2:       # second oracle: no PointerSymbol at all, the key's pointer of the sink vocabulary
                return vocabs[prog["sink"][1]][KEYS[t[1]]]
            return getattr(spa.sym, KEYS[t[1]])
        if k == "T":
            if oracle == 2:
                return build(SYM_TEXTS[t[1]][1], mods, 2)
            return spa.sym(SYM_TEXTS[t[1]][0])
        if k == "Z":
            if oracle:
                return vocabs[t[2]].parse(KEYS[t[1]])
            return PointerSymbol(KEYS[t[1]], TVocabulary(vocabs[t[2]]))
        if k == "F":
            if len(t) > 3:     # a special element handed out by the vocabulary itself (the model sees its vector)
                return vocabs[t[1]][t[3]]
            return SemanticPointer(np.array(t[2], float), vocab=vocabs[t[1]])
        if k == "N":
            return SemanticPointer(np.array(t[2], float), algebra=alg)
        if k == "C":
            return leafnum(t[1])
        if k == "neg":
            return -build(t[1], mods, oracle)
        if k == "inv":
            x = build(t[2], mods, oracle)
            return ~x if t[1] == "2" else (x.linv() if t[1] == "L" else x.rinv())
        if k in ("add", "sub", "mul", "dot"):
            a = build(t[1], mods, oracle)
            b = build(t[2], mods, oracle)
            if k == "add":
                return a + b
            if k == "sub":
                return a - b
            if k == "mul":
                return a * b
            if oracle:   # a symbolic operand of a dot product is read in the other operand's vocabulary
                if isinstance(a, PointerSymbol) and isinstance(b, SemanticPointer) and b.vocab is not None:
                    a = b.vocab.parse(a.expr)
                if isinstance(b, PointerSymbol) and isinstance(a, SemanticPointer) and a.vocab is not None:
                    b = a.vocab.parse(b.expr)
            return spa.dot(a, b)
        if k == "div":
            return build(t[1], mods, oracle) / leafnum(t[2])
        if k == "rei":
            return spa.reinterpret(build(t[1], mods, oracle), None if t[2] is None else vocabs[t[2]])
        if k == "tra":
            x = build(t[1], mods, oracle)
            if tkeys is not None and not oracle and hasattr(x, "translate") and prog.get("trans_method"):
                return x.translate(vocabs[t[2]], populate=False, keys=list(tkeys))   # the method form of the same request
            return spa.translate(x, vocabs[t[2]], populate=False, **tkw)
        raise ValueError(k)

    sink_kind = prog["sink"]          # ("P", vid, kind) | ("S",)
    res = {"status": "ok"}
    try:
        with spa.Network() as model:
            model.config[nengo.Ensemble].neuron_type = nengo.Direct()
            mods, probes_src = [], []
            for s in srcs:
                if s[0] == "S":
                    m = spa.Scalar()
                    nengo.Connection(nengo.Node([s[1]]), m.input, synapse=None)
                else:
                    v = vocabs[s[1]]
                    form, vec = s[2], np.array(s[3], float)
                    f0 = form[0]
                    if f0 == "sp":
                        m = spa.Transcode(SemanticPointer(vec, vocab=v), output_vocab=v)
                    elif f0 == "symstr":
                        m = spa.Transcode(form[1], output_vocab=v)
                    elif f0 == "psym":
                        m = spa.Transcode(getattr(spa.sym, form[1]), output_vocab=v)
                    elif f0 == "exprstr":
                        m = spa.Transcode(f"{form[1]!r} * {form[2]} + {form[3]!r} * {form[4]}", output_vocab=v)
                    elif f0 == "ft_array":
                        m = spa.Transcode(lambda t, vec=vec: vec, output_vocab=v)
                    elif f0 == "ft_str":
                        m = spa.Transcode(lambda t, nm=form[1]: nm, output_vocab=v)
                    elif f0 == "ft_sp":
                        m = spa.Transcode(lambda t, vec=vec, v=v: SemanticPointer(vec, vocab=v), output_vocab=v)
                    elif f0 == "ftsp":
                        m = spa.Transcode(lambda t, sp, c=form[1]: sp * c, input_vocab=v, output_vocab=v)
                        nengo.Connection(nengo.Node(vec), m.input, synapse=None)
                    elif f0 == "ftsp_arr":
                        m = spa.Transcode(lambda t, sp, c=form[1]: sp.v * c, input_vocab=v, output_vocab=v)
                        nengo.Connection(nengo.Node(vec), m.input, synapse=None)
                    elif f0 == "ftsp_inv":
                        v_in = spa.Vocabulary(v.dimensions, strict=True, algebra=alg)      # no keys: len(v_in) == 0
                        m = spa.Transcode(lambda t, sp: ~sp, input_vocab=v_in, output_vocab=v)
                        nengo.Connection(nengo.Node(vec), m.input, synapse=None)
                    elif f0 == "ftsp_own":
                        kv_ = keyvecs_of(s[1])
                        v_in = spa.Vocabulary(v.dimensions, strict=True, algebra=alg)
                        v_in.add("A", np.array(kv_["B"], float))
                        v_in.add("B", np.array(kv_["A"], float))
                        m = spa.Transcode(lambda t, sp: sp * sp.vocab["A"], input_vocab=v_in, output_vocab=v)
                        nengo.Connection(nengo.Node(vec), m.input, synapse=None)
                    elif f0 == "state":
                        m = spa.State(v, subdimensions=1 if v.dimensions % 16 else 16)
                        nengo.Connection(nengo.Node(vec), m.input, synapse=None)
                    else:
                        raise ValueError(form)
                mods.append(m)
                probes_src.append(nengo.Probe(m.output, synapse=None))
            if sink_kind[0] == "S":
                sink = spa.Scalar()
            else:
                v = vocabs[sink_kind[1]]
                if sink_kind[2] == "state":
                    sink = spa.State(v, subdimensions=1 if v.dimensions % 16 else 16)
                elif sink_kind[2] == "read":      # pointer read through make_sp_func
                    sink = spa.Transcode(lambda t, sp: sp.v, input_vocab=v, size_out=v.dimensions)
                else:                              # pass-through returning a SemanticPointer
                    sink = spa.Transcode(lambda t, sp: sp, input_vocab=v, output_vocab=v)
            built = 0
            for i, st in enumerate(prog["stmts"]):
                try:
                    build(st, mods, False) >> sink
                    built += 1
                except Exception as e:  # refusal of statement i
                    res = {"status": "refused", "stmt": i, "cls": type(e).__name__, "msg": str(e)[:160]}
                    break
            p = nengo.Probe(sink.output, synapse=None)
            counts = [0, 0, 0, 0]
            for net in model.all_networks:
                for j, cls in enumerate((spa.Bind, spa.Product, spa.Compare, spa.Superposition)):
                    if type(net) is cls:
                        counts[j] += 1
            res["counts"] = counts
        if res["status"] == "ok":
            for c in model.all_connections:
                c.synapse = None
            dmax = max(depth(st) for st in prog["stmts"])
            with nengo.Simulator(model, progress_bar=False) as sim:
                steps = 3 * dmax + 6
                sim.run_steps(steps)
                tries = 0
                while not np.array_equal(sim.data[p][-1], sim.data[p][-2]) and tries < 4:
                    sim.run_steps(steps)
                    tries += 1
                res["value"] = sim.data[p][-1].tolist()
                res["converged"] = bool(np.array_equal(sim.data[p][-1], sim.data[p][-2]))
                res["src_values"] = [sim.data[q][-1].tolist() for q in probes_src]
    except Exception as e:   # failure outside a statement (simulation build)
        res = {"status": "refused", "stmt": -1, "cls": type(e).__name__, "msg": str(e)[:160]}
    out.update(res)

    # ---- oracle: the same expressions on SemanticPointer / float values ------------------------------
    omods = []
    for s, ev in zip(srcs, expected_src):
        omods.append(SemanticPointer(ev, vocab=vocabs[s[1]]) if s[0] == "P" else float(ev[0]))
    total, ostat = None, "ok"
    for st in prog["stmts"]:
        try:
            with spa.Network():     # symbols/pointers create no objects, but stay inside a context like the real run
                r = build(st, omods, True)
            if isinstance(r, PointerSymbol):
                if sink_kind[0] != "P":
                    raise TypeError("symbol into scalar sink")
                r = vocabs[sink_kind[1]].parse(r.expr)
            if isinstance(r, SemanticPointer):
                val = np.array(r.v, float)
            elif isinstance(r, (int, float, np.floating, np.integer)):
                val = np.array([float(r)])
            else:
                val = np.array(r.evaluate() if hasattr(r, "evaluate") else r, float).reshape(-1)
            want = 1 if sink_kind[0] == "S" else vocabs[sink_kind[1]].dimensions
            if val.shape != (want,):
                raise TypeError("oracle value has the wrong dimensionality for the sink")
            total = val if total is None else total + val
        except Exception as e:
            ostat = "undefined:" + type(e).__name__
            break
    out["oracle"] = ostat
    out["oracle_value"] = None if total is None or ostat != "ok" else total.tolist()

    # ---- second oracle, independent of PointerSymbol's text: every symbol replaced by the sink vocabulary's pointer.
    # Defined when the sink is a pointer sink and every vocabulary-carrying leaf belongs to the sink vocabulary and
    # nothing is reinterpreted / translated (then every symbol of the statement is read in that vocabulary).
    out["oracle2_value"] = None
    if sink_kind[0] == "P":
        sv = sink_kind[1]

        def simple(t):
            if t[0] in ("rei", "tra", "dot", "N"):
                return False
            if t[0] == "P":
                return srcs[t[1]][1] == sv
            if t[0] in ("Z",):
                return t[2] == sv
            if t[0] == "F":
                return t[1] == sv
            return all(simple(x) for x in t[1:] if isinstance(x, tuple))
        if all(simple(st) for st in prog["stmts"]) and any(contains(st, lambda x: x[0] in ("Y", "T")) for st in prog["stmts"]):
            try:
                tot2 = None
                for st in prog["stmts"]:
                    r = build1(st, omods, 2)
                    val = np.array(r.v, float) if isinstance(r, SemanticPointer) else None
                    if val is None or val.shape != (vocabs[sv].dimensions,):
                        raise TypeError("not a pointer")
                    tot2 = val if tot2 is None else tot2 + val
                out["oracle2_value"] = tot2.tolist()
            except Exception:  # noqa: the second oracle is optional
                out["oracle2_value"] = None
    return out


# --------------------------------------------------------------------------------------------
# generators
# --------------------------------------------------------------------------------------------
def special_leaf(alg, vid, d, name):
    """`vocab['Identity']` / `vocab['Zero']` as a fixed operand: for the model an F leaf with the element's vector
    (HRR: e0; VTB/TVTB: eye(m)/d**0.25 flattened, VTB's is a right identity only), for the code the vocabulary's own object"""
    if name == "Zero":
        vec = [0.0] * d
    elif alg == "hrr":
        vec = [1.0] + [0.0] * (d - 1)
    else:
        m = math.isqrt(d)
        vec = (np.eye(m) / d ** 0.25).flatten().tolist()
    return ("F", vid, vec, name)


def dyadic_vec(rng, d, kind=None):
    kind = kind or rng.choice(["dense", "dense", "basis", "sparse", "zero"] if d > 1 else ["dense", "dense", "zero"])
    if kind == "zero":
        return [0.0] * d
    if kind == "basis":
        v = [0.0] * d
        v[rng.randrange(d)] = rng.choice([1.0, -1.0, 0.5])
        return v
    if kind == "sparse":
        v = [0.0] * d
        for _ in range(2):
            v[rng.randrange(d)] = rng.choice([-4, -3, -2, -1, 1, 2, 3, 4]) / 4
        return v
    return [rng.choice([-4, -3, -2, -1, 0, 1, 2, 3, 4]) / 4 for _ in range(d)]


def shape_tok(alg, d):
    return f"l{d - 1}" if alg == "hrr" else f"q{math.isqrt(d)}"


NUMS = [2.0, -1.0, 0.5, -0.25, 3.0, 1.5]
DIVS = [2.0, -4.0, 0.5, 8.0]


class Gen:
    """typed generator of the valid stream for one program context"""

    def __init__(self, rng, prog):
        self.rng, self.p = rng, prog
        self.alg = prog["alg"]
        self.dims = prog["dims"]

    # helpers on the context
    def psrc(self, vid):
        c = [i for i, s in enumerate(self.p["sources"]) if s[0] == "P" and s[1] == vid]
        return ("P", self.rng.choice(c), vid)

    def ssrc(self):
        c = [i for i, s in enumerate(self.p["sources"]) if s[0] == "S"]
        return ("S", self.rng.choice(c))

    def other_vocabs_same_dim(self, vid):
        return [w for w, d in enumerate(self.dims) if w != vid and d == self.dims[vid]
                and any(s[0] == "P" and s[1] == w for s in self.p["sources"])]

    def other_vocabs(self, vid):
        return [w for w, d in enumerate(self.dims) if w != vid
                and any(s[0] == "P" and s[1] == w for s in self.p["sources"])]

    def sides(self):
        return ["2", "R"] if self.alg == "vtb" else ["2", "L", "R"]

    def fixedop(self, vid, n):
        """a fixed operand for a pointer of vocabulary vid: symbolic expression, pointer with/without vocabulary"""
        r = self.rng.random()
        if r < 0.5:
            return self.symexpr(n)
        if r < 0.62:
            return special_leaf(self.alg, vid, self.dims[vid], self.rng.choice(["Identity", "Identity", "Zero"]))
        if r < 0.75:
            return ("F", vid, dyadic_vec(self.rng, self.dims[vid]))
        return ("N", shape_tok(self.alg, self.dims[vid]), dyadic_vec(self.rng, self.dims[vid]))

    def symexpr(self, n):
        rng = self.rng
        if n <= 0 or rng.random() < 0.45:
            return ("Y", rng.randrange(len(KEYS)))
        c = rng.choice(["neg", "add", "sub", "mul", "mulnum", "nummul", "div", "inv"])
        if c == "neg":
            return ("neg", self.symexpr(n - 1))
        if c in ("add", "sub", "mul"):
            return (c, self.symexpr(n - 1), self.symexpr(n - 1))
        if c == "mulnum":
            return ("mul", self.symexpr(n - 1), ("C", rng.choice(NUMS)))
        if c == "nummul":
            return ("mul", ("C", rng.choice(NUMS)), self.symexpr(n - 1))
        if c == "div":
            return ("div", self.symexpr(n - 1), rng.choice(DIVS))
        return ("inv", rng.choice(self.sides()), self.symexpr(n - 1))

    def pointer(self, vid, n):
        rng = self.rng
        if n <= 0:
            return self.psrc(vid)
        ops = ["neg", "inv", "addPP", "subPP", "addPX", "addXP", "subPX", "subXP", "mulPP", "mulPX", "mulXP",
               "mulPnum", "mulnumP", "div", "scalsym", "symscal", "leaf"]
        if self.other_vocabs_same_dim(vid):
            ops += ["rei", "reinone", "reinone"]
        if self.other_vocabs(vid):
            ops += ["tra", "tra"]
        c = rng.choice(ops)
        P = lambda: self.pointer(vid, n - 1)
        if c == "leaf":
            return self.psrc(vid)
        if c == "neg":
            return ("neg", P())
        if c == "inv":
            return ("inv", rng.choice(self.sides()), P())
        if c in ("addPP", "subPP", "mulPP"):
            return (c[:3], P(), P())
        if c in ("addPX", "subPX", "mulPX"):
            return (c[:3], P(), self.fixedop(vid, n - 1))
        if c in ("addXP", "subXP", "mulXP"):
            return (c[:3], self.fixedop(vid, n - 1), P())
        if c == "mulPnum":
            return ("mul", P(), ("C", rng.choice(NUMS)))
        if c == "mulnumP":
            return ("mul", ("C", rng.choice(NUMS)), P())
        if c == "div":
            return ("div", P(), rng.choice(DIVS))
        if c == "scalsym":
            return ("mul", self.scalar(n - 1), ("Z", rng.randrange(len(KEYS)), vid))
        if c == "symscal":
            return ("mul", ("Z", rng.randrange(len(KEYS)), vid), self.scalar(n - 1))
        if c == "rei":
            w = rng.choice(self.other_vocabs_same_dim(vid))
            return ("rei", self.pointer(w, n - 1), vid)
        if c == "reinone":   # reinterpret() is only usable next to a partner that brings the vocabulary
            w = rng.choice(self.other_vocabs_same_dim(vid))
            r = ("rei", self.pointer(w, n - 1), None)
            op = rng.choice(["add", "sub", "mul"])
            return (op, r, P()) if rng.random() < 0.5 else (op, P(), r)
        if c == "tra":
            w = rng.choice(self.other_vocabs(vid))
            return ("tra", self.pointer(w, n - 1), vid)
        raise ValueError(c)

    def scalar(self, n):
        rng = self.rng
        if n <= 0:
            return self.ssrc()
        c = rng.choice(["leaf", "neg", "addSS", "subSS", "addSn", "addnS", "subSn", "subnS", "mulSS", "mulSn", "mulnS",
                        "div", "dotPP", "dotPP", "dotPX", "dotXP"])
        S = lambda: self.scalar(n - 1)
        vid = rng.randrange(len(self.dims))
        if not any(s[0] == "P" and s[1] == vid for s in self.p["sources"]):
            vid = next(s[1] for s in self.p["sources"] if s[0] == "P")
        if c == "leaf":
            return self.ssrc()
        if c == "neg":
            return ("neg", S())
        if c in ("addSS", "subSS", "mulSS"):
            return (c[:3], S(), S())
        if c in ("addSn", "subSn", "mulSn"):
            return (c[:3], S(), ("C", rng.choice(NUMS)))
        if c in ("addnS", "subnS", "mulnS"):
            return (c[:3], ("C", rng.choice(NUMS)), S())
        if c == "div":
            return ("div", S(), rng.choice(DIVS))
        if c == "dotPP":
            return ("dot", self.pointer(vid, n - 1), self.pointer(vid, n - 1))
        if c == "dotPX":
            return ("dot", self.pointer(vid, n - 1), self.fixedop(vid, n - 1))
        return ("dot", self.fixedop(vid, n - 1), self.pointer(vid, n - 1))


SRC_FORMS = ["sp", "symstr", "psym", "exprstr", "ft_array", "ft_str", "ft_sp", "ftsp", "ftsp_arr", "ftsp_inv", "ftsp_own",
             "state"]


def make_context(rng, alg, dims, n_psrc=3, sink=None):
    """vocabularies (dims per vocab id), keys, sources, sink"""
    keys = []
    for d in dims:
        ks = []
        for _ in KEYS:
            v = dyadic_vec(rng, d, rng.choice(["dense", "dense", "basis", "sparse"]) if d > 1 else "dense")
            ks.append(v)
        keys.append(ks)
    sources = []
    for vid, d in enumerate(dims):
        for _ in range(n_psrc if vid == 0 else 2):
            f = rng.choice(SRC_FORMS)
            if f in ("symstr", "psym", "ft_str"):
                form = (f, rng.choice(KEYS))
            elif f == "exprstr":
                form = (f, rng.choice([0.5, -1.0, 2.0]), rng.choice(KEYS), rng.choice([1.0, -0.5]), rng.choice(KEYS))
            elif f in ("ftsp", "ftsp_arr"):
                form = (f, rng.choice([0.5, 2.0, -1.0]))
            else:
                form = (f,)
            sources.append(("P", vid, form, dyadic_vec(rng, d)))
    for _ in range(2):
        sources.append(("S", rng.choice([0.5, -0.75, 2.0, 0.0, 1.0, -1.5, 0.25])))
    if sink is None:
        sink = ("S",) if rng.random() < 0.3 else ("P", 0, rng.choice(["state", "state", "read", "pass"]))
    pairs = [(a, b) for a in range(len(dims)) for b in range(len(dims))]
    return {"alg": alg, "dims": list(dims), "keys": keys, "sources": sources, "sink": sink, "trans_pairs": pairs,
            "stmts": []}


def pick_dims(rng, alg, quick):
    if alg == "hrr":
        d = rng.choice([1, 2, 3, 4, 5, 6, 16] if not quick else [1, 2, 3, 4, 5, 6, 16, 4, 3])
        others = [d, rng.choice([2, 3, 4, 5, 8])]
    else:
        d = rng.choice([1, 4, 9, 16] if not quick else [1, 4, 4, 9, 16])
        others = [d, d]
    return [d] + others


LEAF_KINDS = ["P", "P2", "S", "Y", "Z", "F", "FI", "N", "C"]
UNARY = ["neg", "inv2", "invL", "invR", "div", "rei-", "reiV", "tra"]
BINARY = ["add", "sub", "mul", "dot"]


def small_leaf(kind, ctxp, rng):
    d0 = ctxp["dims"][0]
    if kind == "P":
        return ("P", 0, 0)
    if kind == "P2":     # source of the second vocabulary (same dimensionality as vocabulary 0)
        return ("P", next(i for i, s in enumerate(ctxp["sources"]) if s[0] == "P" and s[1] == 1), 1)
    if kind == "S":
        return ("S", next(i for i, s in enumerate(ctxp["sources"]) if s[0] == "S"))
    if kind == "Y":
        return ("Y", rng.randrange(3))
    if kind == "Z":
        return ("Z", rng.randrange(3), 0)
    if kind == "F":
        return ("F", 0, dyadic_vec(rng, d0, "dense"))
    if kind == "FI":     # the vocabulary's own identity element (an object of a SemanticPointer subclass)
        return special_leaf(ctxp["alg"], 0, d0, "Identity")
    if kind == "N":
        return ("N", shape_tok(ctxp["alg"], d0), dyadic_vec(rng, d0, "dense"))
    return ("C", rng.choice(NUMS))


def apply_unary(op, a):
    if op == "neg":
        return ("neg", a)
    if op.startswith("inv"):
        return ("inv", op[3], a)
    if op == "div":
        return ("div", a, 2.0)
    if op == "rei-":
        return ("rei", a, None)
    if op == "reiV":
        return ("rei", a, 0)
    return ("tra", a, 0)


def small_trees(ctxp, rng):
    """all trees with at most one operator over every leaf kind"""
    out = []
    for k in LEAF_KINDS:
        out.append((f"leaf-{k}", small_leaf(k, ctxp, rng)))
    for op in UNARY:
        for k in LEAF_KINDS:
            out.append((f"{op}({k})", apply_unary(op, small_leaf(k, ctxp, rng))))
    for op in BINARY:
        for a in LEAF_KINDS:
            for b in LEAF_KINDS:
                out.append((f"{op}({a},{b})", (op, small_leaf(a, ctxp, rng), small_leaf(b, ctxp, rng))))
    return out


def two_level_tree(ctxp, rng):
    def one(rng):
        r = rng.random()
        if r < 0.25:
            return small_leaf(rng.choice(LEAF_KINDS), ctxp, rng)
        if r < 0.5:
            return apply_unary(rng.choice(UNARY), small_leaf(rng.choice(LEAF_KINDS), ctxp, rng))
        return (rng.choice(BINARY), small_leaf(rng.choice(LEAF_KINDS), ctxp, rng), small_leaf(rng.choice(LEAF_KINDS), ctxp, rng))
    if rng.random() < 0.3:
        return apply_unary(rng.choice(UNARY), one(rng))
    return (rng.choice(BINARY), one(rng), one(rng))


# --------------------------------------------------------------------------------------------
# the check
# --------------------------------------------------------------------------------------------
def prog_request(prog, result):
    """driver request arguments for a program (needs the transform_to matrices of the real run)"""
    alg = prog["alg"]
    m = 0 if alg == "hrr" else math.isqrt(prog["dims"][0])
    vocs = ";".join((f"h:{d - 1}" if alg == "hrr" else f"{'v' if alg == 'vtb' else 't'}:{math.isqrt(d)}") for d in prog["dims"])
    keys = "&".join("|".join(common.qvec(prog["keys"][vid][k]) for vid in range(len(prog["dims"]))) for k in range(len(KEYS)))
    tr = "&".join(f"{a}>{b}=" + ";".join(common.qvec(r) for r in rows) for (a, b), rows in sorted(result["trans"].items())) or "-"
    env = "&".join(common.qvec(e) for e in result["expected_src"])
    sink = "S" if prog["sink"][0] == "S" else f"P{prog['sink'][1]}"
    stmts = "&".join("!".join(tokens(st)) for st in prog["stmts"])
    return [m, vocs, keys, tr, env, sink, stmts]


def lean_feasible(prog, tier):
    """The model's vectors are functions (no sharing), so its exact evaluation costs ~ d^depth: programs with
    large dimensionality x depth are checked against the oracle only (counted as `lean-skipped`)."""
    if any(contains(s, lambda x: x[0] == "T") for s in prog["stmts"]):
        return False          # sym('...') texts are not part of the model's expression language (oracle only)
    dmax = max(depth(s) for s in prog["stmts"])
    d = max(prog["dims"])
    cap = 6 if tier == "quick" else 9
    if d > 16:
        return False
    if d > cap:
        return dmax <= 1
    return dmax <= (3 if d > 4 else 4) or (d <= 2 and dmax <= 6)


def canon(prog):
    return repr((prog["alg"], prog["dims"], prog["keys"], prog["sources"], prog["sink"], prog["stmts"]))


def run(ctx):
    quick = ctx.tier == "quick"
    rng = ctx.rng
    progs = []   # (stream, label, prog)

    # ---- valid stream --------------------------------------------------------------------
    n_valid = 300 if quick else 1600
    algs = ["hrr", "hrr", "vtb", "tvtb"]
    for i in range(n_valid):
        alg = algs[i % len(algs)]
        dims = pick_dims(rng, alg, quick)
        p = make_context(rng, alg, dims)
        g = Gen(rng, p)
        nst = rng.choice([1, 1, 2, 3])
        dmax = rng.choice([1, 2, 2, 3, 3, 4, 5] if quick else [1, 2, 3, 3, 4, 4, 5, 6])
        for _ in range(nst):
            if p["sink"][0] == "S":
                st = g.scalar(dmax) if rng.random() < 0.9 else ("C", rng.choice(NUMS))
            else:
                r = rng.random()
                st = g.pointer(0, dmax) if r < 0.85 else (g.symexpr(min(dmax, 3)) if r < 0.95 else
                                                          ("F", 0, dyadic_vec(rng, dims[0])))
            p["stmts"].append(st)
        progs.append(("valid", f"valid-{alg}", p))

    # ---- fixed symbolic shapes: nested products/sums of symbols in both association orders ---------------
    Y0, Y1, Y2 = ("Y", 0), ("Y", 1), ("Y", 2)
    sym_shapes = [
        ("mul", Y0, ("mul", Y1, Y2)), ("mul", ("mul", Y0, Y1), Y2), ("mul", Y0, ("mul", Y1, ("mul", Y2, Y0))),
        ("sub", Y0, ("sub", Y1, Y2)), ("sub", Y0, ("add", Y1, Y2)), ("add", Y0, ("sub", Y1, Y2)),
        ("mul", Y0, ("add", Y1, Y2)), ("mul", ("add", Y0, Y1), ("sub", Y2, Y0)), ("neg", ("mul", Y0, ("mul", Y1, Y2))),
        ("mul", ("inv", "2", ("mul", Y0, Y1)), Y2),
    ]
    for ti in range(len(SYM_TEXTS)):
        T_ = ("T", ti)
        sym_shapes += [("inv", "2", T_), ("neg", T_), ("mul", Y0, T_), ("mul", T_, Y1), ("sub", Y2, T_)]
    for alg in ("hrr", "vtb", "tvtb"):
        dims = [4, 4, 4] if alg != "hrr" else [4, 4, 3]
        for t in sym_shapes:
            for wrap in (0, 1, 2):
                p = make_context(rng, alg, dims, sink=("P", 0, "state"))
                g = Gen(rng, p)
                if wrap == 0:
                    st = t                                   # sym-expression >> state
                elif wrap == 1:
                    st = ("mul", g.psrc(0), t)               # dynamic pointer * sym-expression
                else:
                    st = ("mul", t, g.psrc(0))               # sym-expression * dynamic pointer
                p["stmts"].append(st)
                progs.append(("valid", f"valid-symshape-{alg}", p))

    # ---- shared sub-expression objects across statements (history: an AST node used more than once) -------
    for alg in ("hrr", "vtb", "tvtb"):
        dims = [4, 4, 4] if alg != "hrr" else [4, 4, 3]
        for variant in range(6 if quick else 24):
            for sinkk in (("P", 0, "state"), ("S",)):
                p = make_context(rng, alg, dims, sink=sinkk)
                g = Gen(rng, p)
                if sinkk[0] == "P":
                    a, b, c = g.psrc(0), g.psrc(0), g.psrc(0)
                    base = rng.choice([("add", a, b), ("sub", a, b), ("add", ("add", a, b), c), ("add", a, ("neg", b))])
                    extra = lambda: rng.choice([("Y", rng.randrange(3)), ("neg", c), ("mul", c, ("Y", rng.randrange(3))),
                                                ("inv", "2", c)])
                else:
                    a, b = g.ssrc(), g.ssrc()
                    base = rng.choice([("add", a, b), ("sub", a, b), ("add", a, ("C", 0.5))])
                    extra = lambda: rng.choice([("C", rng.choice(NUMS)), ("neg", g.ssrc()), ("mul", g.ssrc(), ("C", 0.5))])
                shapes = [[("add", base, extra()), ("sub", base, extra()), base],
                          [("add", base, extra()), base],
                          [base, ("add", base, extra()), ("add", base, extra())],
                          [("sub", base, extra()), ("add", ("add", base, extra()), extra())]]
                p["stmts"] = rng.choice(shapes)
                p["share"] = True
                progs.append(("valid", f"valid-shared-{alg}", p))

    # ---- the vocabulary's identity / zero element as an operand on either side of every operator ------------
    for alg in ("hrr", "vtb", "tvtb"):
        for dims in ([4, 4, 4], [16, 16, 16]) if alg != "hrr" else ([4, 4, 3], [5, 5, 2]):
            p0 = make_context(rng, alg, dims, sink=("P", 0, "state"))
            g = Gen(rng, p0)
            for nm in ("Identity", "Zero"):
                e = special_leaf(alg, 0, dims[0], nm)
                a = g.psrc(0)
                for t in (("mul", e, a), ("mul", a, e), ("add", e, a), ("sub", a, e), ("mul", e, ("mul", a, e)),
                          ("mul", ("neg", e), a), ("mul", a, ("inv", "R", e)), ("dot", e, a), ("mul", e, ("Y", 0))):
                    if t[0] == "dot":
                        progs.append(("valid", f"valid-special-{alg}", dict(make_context(rng, alg, dims, sink=("S",)), stmts=[("dot", e, ("P", 0, 0))])))
                    else:
                        progs.append(("valid", f"valid-special-{alg}", dict(p0, stmts=[t])))

    # ---- all trees with at most one operator; sampled two-level trees ---------------------------
    small_ctxs = [("hrr", [4, 4, 3]), ("vtb", [4, 4, 4]), ("tvtb", [4, 4, 4]), ("hrr", [1, 1, 2])]
    if not quick:
        small_ctxs += [("hrr", [5, 5, 2]), ("vtb", [9, 9, 9]), ("tvtb", [1, 1, 1]), ("vtb", [1, 1, 1])]
    for ci, (alg, dims) in enumerate(small_ctxs):
        for sink in (("P", 0, "state"), ("S",)):
            base = make_context(rng, alg, dims, sink=sink)
            trees = small_trees(base, rng)
            if quick and (ci > 0 or sink[0] == "S"):
                trees = rng.sample(trees, 30 if ci > 0 else 80)   # first context/pointer sink exhaustive, else samples
            for label, t in trees:
                p = dict(base, stmts=[t])
                progs.append(("small", f"small-{label.split('(')[0]}", p))
            for _ in range(8 if quick else 100):
                p = dict(base, stmts=[two_level_tree(base, rng)])
                progs.append(("two-level", "two-level", p))

    # ---- every second program with a translate restricts it to a proper subset of the keys ("only requested
    #      keys are used"), alternately through spa.translate(...) and the .translate method of the operand ----
    def has_tra(t):
        return isinstance(t, tuple) and (t[0] == "tra" or any(has_tra(x) for x in t[1:]))
    subsets = [["A"], ["A", "C"], ["B", "C"], ["B"], ["C", "A"]]
    ntra = 0
    for i, (grp, label, p) in enumerate(progs):
        if any(has_tra(t) for t in p["stmts"]):
            ntra += 1
            if ntra % 2 == 0:
                progs[i] = (grp, label, dict(p, trans_keys=subsets[(ntra // 2) % len(subsets)], trans_method=(ntra // 2) % 2 == 0))

    # ---- run the real code (process pool; all randomness was drawn above) ----------------------
    nproc = int(os.environ.get("VERIF_JOBS_PY", "14"))
    with multiprocessing.get_context("fork").Pool(nproc) as pool:
        results = pool.map(run_program, [p for _, _, p in progs], chunksize=4)

    real_fail = ctx.fail
    pending = []
    ctx.fail = lambda case, observed, required, where="": pending.append(
        (sum(len(x) for x in case["stmts"]), len(pending), case, observed, required, where))
    stats = {"accepted": 0, "refused": 0, "oracle_undefined": 0, "outside_dsl": 0, "lean_skipped": 0, "refusal_order": 0, "degenerate_1x1_layout": 0,
             "refusal_same_class": 0, "value_agree": 0}
    for (stream, label, prog), res in zip(progs, results):
        case = {"stream": stream, "alg": prog["alg"], "dims": prog["dims"], "sink": list(prog["sink"]),
                "stmts": ["!".join(tokens(s)) for s in prog["stmts"]], "sources": [list(map(str, s)) for s in prog["sources"]],
                "keys": prog["keys"]}
        nontriv = any(depth(s) >= 1 for s in prog["stmts"]) and any(any(x != 0 for x in e) for e in res["expected_src"])
        branch = label + ("-ok" if res["status"] == "ok" else "-" + res.get("cls", "?"))
        ctx.count(canon(prog), nontrivial=nontriv, branch=branch)
        for st in prog["stmts"]:
            ctx.dist["op-" + st[0]] = ctx.dist.get("op-" + st[0], 0) + 1
        for s in prog["sources"]:
            if s[0] == "P":
                ctx.dist["src-" + s[2][0]] = ctx.dist.get("src-" + s[2][0], 0) + 1
        ctx.sample({"stmts": case["stmts"], "alg": prog["alg"], "dims": prog["dims"], "impl": res["status"],
                    "value": res.get("value")}, limit=6)

        if res["status"] == "ok":
            stats["accepted"] += 1
            val = np.array(res["value"])
            # sources injected through Transcode deliver the intended value
            for si, (sv, ev) in enumerate(zip(res["src_values"], res["expected_src"])):
                if not np.allclose(sv, ev, rtol=0, atol=1e-12 * max(1.0, np.abs(ev).max() if len(ev) else 1.0)):
                    ctx.fail(dict(case, source=si), sv, ev, where="transcode-source")
            if not res["converged"]:
                ctx.fail(case, "sink value still changing", "steady state", where="no-steady-state")
            if res["oracle"] == "ok":
                want = np.array(res["oracle_value"])
                scale = max(1.0, float(np.abs(want).max()))
                if val.shape != want.shape or not np.all(np.abs(val - want) <= 1e-9 * scale):
                    ctx.fail(case, res["value"], res["oracle_value"], where="sink-value")
                elif res.get("oracle2_value") is not None:
                    want2 = np.array(res["oracle2_value"])
                    stats["oracle2"] = stats.get("oracle2", 0) + 1
                    if val.shape != want2.shape or not np.all(np.abs(val - want2) <= 1e-9 * max(1.0, float(np.abs(want2).max()))):
                        ctx.fail(case, res["value"], res["oracle2_value"], where="sink-value-symbols-as-pointers")
            else:
                stats["oracle_undefined"] += 1
                if stream == "valid":
                    ctx.note(f"oracle undefined on a valid-stream program: {res['oracle']} {case['stmts']}")
        else:
            stats["refused"] += 1
            if stream == "valid":
                where = "refused-well-typed"
                if any(contains(s, is_scalar_times_typed_symbol) for s in prog["stmts"]) and res["cls"] == "ValidationError":
                    where = "scalar-times-typed-symbol"
                ctx.fail(case, f"{res['cls']}: {res['msg']}", "a network delivering the value of the expression(s)", where=where)

        if getattr(ctx, "no_driver", False):
            continue
        if not lean_feasible(prog, ctx.tier):
            stats["lean_skipped"] += 1
            continue

        def cb(st, payload, case=case, res=res, prog=prog, stream=stream):
            if st != "ok":
                ctx.diff(case, res["status"], f"{st} {payload}", op="prog")
                return
            parts = [x.split(";") for x in payload.split("&")]
            m = 0 if prog["alg"] == "hrr" else math.isqrt(prog["dims"][0])
            first_err = next((i for i, x in enumerate(parts) if x[0] == "err"), None)
            if first_err is not None:
                mcls = parts[first_err][1]
                if mcls == "outside":
                    stats["outside_dsl"] += 1
                    return
                if res["status"] != "refused":
                    if mcls == "ValidationError" and prog["alg"] != "hrr" and max(prog["dims"]) == 1:
                        # VTB/TVTB at d = 1: the concrete universe gives the 1x1 layout its own shape (`sq 1`), distinct
                        # from the scalar shape (`lin 0`), while nengo only compares sizes (1 = 1) and connects.  The
                        # accepted network is still judged by the Semantic Pointer oracle above; only the
                        # model/implementation tie is not available for this degenerate cell (counted in the evidence).
                        stats["degenerate_1x1_layout"] += 1
                        return
                    ctx.diff(case, "accepted", f"refused {mcls} at statement {first_err}", op="accept-refuse")
                elif res["cls"] != mcls or res["stmt"] not in (first_err, -1):
                    # The model raises connection-time faults (sizes, unresolved Summed, symbol without vocabulary)
                    # when the operand is wrapped; Python raises them when the statement is connected, so with two
                    # faults in one statement another class can surface first.  Only then may the classes differ.
                    if res["stmt"] in (first_err, -1) and mcls in ("ValidationError", "AttributeError", "SpaTypeError"):
                        stats["refusal_order"] += 1
                        return
                    ctx.diff(case, f"{res['cls']} at {res['stmt']}", f"{mcls} at {first_err}", op="refusal-class")
                else:
                    stats["refusal_same_class"] += 1
                return
            if res["status"] == "refused":
                ctx.diff(case, f"refused {res['cls']}: {res['msg']}", "accepted", op="accept-refuse")
                return
            tot_d, tot_s, cnt = None, None, [0, 0, 0, 0]
            for x in parts:
                d = [common.qs_float(t, m) for t in common.parse_qsvec(x[1])]
                tot_d = d if tot_d is None else [a + b for a, b in zip(tot_d, d)]
                if x[2] == "undefined":
                    ctx.diff(case, "accepted", "Spec.evalStmt undefined on an accepted program", op="spec-undefined")
                    return
                s = [common.qs_float(t, m) for t in common.parse_qsvec(x[2])]
                tot_s = s if tot_s is None else [a + b for a, b in zip(tot_s, s)]
                cnt = [a + int(b) for a, b in zip(cnt, x[3].split(","))]
            val = res["value"]
            scale = max(1.0, max(abs(v) for v in tot_s))
            if not common.vec_close(val, tot_d, scale):
                ctx.diff(case, val, tot_d, op="value-deliver")
            if not common.vec_close(val, tot_s, scale):
                ctx.diff(case, val, tot_s, op="value-spec")
            if cnt != res["counts"]:
                ctx.diff(case, res["counts"], cnt, op="fingerprint")
            stats["value_agree"] += 1
        ctx.ask("prog", prog_request(prog, res), cb)

    ctx.fail = real_fail
    for _, _, case, observed, required, where in sorted(pending, key=lambda x: x[:2]):
        ctx.fail(case, observed, required, where=where)     # smallest failing program first
    if not getattr(ctx, "no_driver", False):
        ctx.flush(DRIVER)
    ctx.extra["stream_stats"] = stats
    ctx.extra["programs"] = len(progs)


def search(ctx):
    """deeper oracle-only search (the value comparison against Semantic Pointer arithmetic is the property oracle)"""
    if getattr(ctx, "searched", False):
        return
    ctx.searched = True
    rng = ctx.rng
    progs = []
    for i in range(600):
        alg = ["hrr", "vtb", "tvtb"][i % 3]
        p = make_context(rng, alg, pick_dims(rng, alg, False))
        g = Gen(rng, p)
        p["stmts"] = [g.scalar(3) if p["sink"][0] == "S" else g.pointer(0, rng.choice([1, 2, 3]))]
        progs.append(p)
    with multiprocessing.get_context("fork").Pool(14) as pool:
        results = pool.map(run_program, progs, chunksize=4)
    for prog, res in zip(progs, results):
        case = {"stream": "search", "alg": prog["alg"], "dims": prog["dims"], "sink": list(prog["sink"]),
                "stmts": ["!".join(tokens(s)) for s in prog["stmts"]], "keys": prog["keys"],
                "sources": [list(map(str, s)) for s in prog["sources"]]}
        ctx.count(canon(prog), branch="search")
        if res["status"] != "ok":
            ctx.fail(case, f"{res['cls']}: {res['msg']}", "a network delivering the value", where="refused-well-typed")
        elif res["oracle"] == "ok":
            want = np.array(res["oracle_value"])
            val = np.array(res["value"])
            if val.shape != want.shape or not np.all(np.abs(val - want) <= 1e-9 * max(1.0, float(np.abs(want).max()))):
                ctx.fail(case, res["value"], res["oracle_value"], where="sink-value")

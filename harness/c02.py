"""C02 — binding and superposition equal their mathematical definition, bilinearly.

Tie: HrrAlgebra / VtbAlgebra / TvtbAlgebra `bind`, `superpose`, `invert`, `get_binding_matrix`
(both swap_inputs), `get_inversion_matrix`, `is_valid_dimensionality`, rejection of unequal
lengths, against the Lean model `Alg.*.Impl` executed exactly (ℚ, resp. ℚ(√m)).
Oracle (independent of the model): the published formulas written with `fractions` in this file.
"""
import math
import warnings

import numpy as np

import common
from common import Fraction as F
from nengo_spa.algebras import HrrAlgebra, TvtbAlgebra, VtbAlgebra
from nengo_spa.algebras.base import ElementSidedness

PROPERTY = "C02"
LEAN_MODULES = ["SpaModel.Props.C02", "SpaModel.Props.C12S"]
AUDIT = "SpaModel/Audit/C02.lean"
DRIVER = "drivers/C02.lean"
RULE = ("per algebra and dimensionality: all d*d basis pairs (d <= bound), structured vectors (zero, constant, "
        "alternating, spike, dyadic random, large magnitude), both swap_inputs values, inversion, validity of "
        "every integer d in a range, unequal lengths; non-trivial = not (both operands zero); distinct by token")
ASSUMPTIONS = ["NumPy fft/dot/kron and IEEE rounding: compared at 1e-9 relative to the operand norms",
               "HrrAlgebra.bind goes through rfft/irfft; the model is the convolution sum (modelled, tied numerically)"]

ALGS = {"hrr": HrrAlgebra(), "vtb": VtbAlgebra(), "tvtb": TvtbAlgebra()}


def oracle_bind(alg, a, b):
    """published formula with exact rationals; VTB/TVTB result is returned WITHOUT the sqrt(m) factor"""
    d = len(a)
    if alg == "hrr":
        return [sum(a[j] * b[(i - j) % d] for j in range(d)) for i in range(d)]
    m = math.isqrt(d)
    A = [[a[i * m + j] for j in range(m)] for i in range(m)]
    B = [[b[i * m + j] for j in range(m)] for i in range(m)]
    out = []
    for i in range(m):          # block i of x
        for j in range(m):      # row j of V_y (VTB) / V_y^T (TVTB)
            if alg == "vtb":
                out.append(sum(B[j][k] * A[i][k] for k in range(m)))
            else:
                out.append(sum(B[k][j] * A[i][k] for k in range(m)))
    return out


def dims(alg, tier):
    if alg == "hrr":
        return list(range(1, 17)) + ([24, 31, 32, 64] if tier == "quick" else list(range(17, 65)))
    return [1, 4, 9, 16] + ([25, 64] if tier == "quick" else [25, 36, 49, 64])


def structured(ctx, d):
    r = ctx.rng
    vs = [[0] * d, [1] * d, [(-1) ** i for i in range(d)], [1] + [0] * (d - 1)]
    vs.append([F(r.randint(-8, 8), 4) for _ in range(d)])
    vs.append([F(r.randint(-64, 64), 16) for _ in range(d)])
    vs.append([F(r.randint(-3, 3)) * 2 ** 40 for _ in range(d)])      # large magnitude
    vs.append([F(r.randint(-5, 5), 2 ** 30) for _ in range(d)])        # tiny magnitude
    return vs


def tiny_pairs(ctx, d):
    """operands scaled by exact powers of two far below machine epsilon: binding is bilinear over ALL scalars"""
    r = ctx.rng
    a = [F(r.randint(-8, 8), 4) for _ in range(d)]
    b = [F(r.randint(-8, 8), 4) for _ in range(d)]
    a[r.randrange(d)] = F(3, 4)
    b[r.randrange(d)] = F(-5, 4)
    out = []
    for ka, kb in ((40, 40), (100, 0), (0, 70), (60, 30)):
        out.append(([x / 2 ** ka for x in a], [x / 2 ** kb for x in b], "tiny-scaled"))
    return out


def fl(v):
    return np.array([float(x) for x in v], dtype=float)


def run(ctx):
    warnings.simplefilter("ignore")
    nd = getattr(ctx, "no_driver", False)
    for alg, A in ALGS.items():
        for d in dims(alg, ctx.tier):
            m = math.isqrt(d)
            scale_s = 1.0 if alg == "hrr" else math.sqrt(m)
            basis = [[1 if i == k else 0 for i in range(d)] for k in range(d)]
            pairs = []
            if d <= (16 if ctx.tier == "quick" else 36):
                pairs += [(basis[i], basis[j], "basis") for i in range(d) for j in range(d)]
            else:
                for _ in range(3 * d):
                    pairs.append((basis[ctx.rng.randrange(d)], basis[ctx.rng.randrange(d)], "basis-sampled"))
            sv = structured(ctx, d)
            pairs += [(x, y, "structured") for x in sv[:6] for y in sv[:6]]
            pairs += [(sv[6], sv[4], "magnitude"), (sv[4], sv[7], "magnitude"), (sv[6], sv[7], "magnitude")]
            pairs += tiny_pairs(ctx, d)
            for a, b, kind in pairs:
                fa, fb = fl(a), fl(b)
                ea, eb = [F(float(x)) for x in fa], [F(float(x)) for x in fb]
                y = A.bind(fa, fb)
                case = {"op": "bind", "alg": alg, "d": d, "a": common.qvec(fa), "b": common.qvec(fb)}
                nontriv = any(ea) or any(eb)
                ctx.count(f"bind {alg} {case['a']} {case['b']}", nontrivial=nontriv, branch=f"bind-{alg}-{kind}")
                ctx.sample({k: case[k] for k in ("op", "alg", "d")} | {"a": case["a"][:60], "b": case["b"][:60]}, limit=4)
                want = oracle_bind(alg, ea, eb)
                sc = float(np.linalg.norm(fa) * np.linalg.norm(fb)) * scale_s
                if not (len(y) == d and all(common.close(yi, float(w) * scale_s, sc) for yi, w in zip(y, want))):
                    ctx.fail(case, [float(v) for v in y][:16], [float(w) * scale_s for w in want][:16], where=f"bind-formula-{alg}")
                elif kind == "tiny-scaled" and not all(abs(float(yi) - float(w) * scale_s) <= 1e-9 * sc for yi, w in zip(y, want)):
                    # relative to the operands' own magnitude (the absolute floor of 1e-9 would hide everything here)
                    ctx.fail(dict(case, relative=True), [float(v) for v in y][:16], [float(w) * scale_s for w in want][:16],
                             where=f"bind-formula-tiny-{alg}")

                # integer-typed operands (same vectors, dtype int): the result must not depend on the array dtype
                if kind in ("basis", "structured") and all(float(x).is_integer() for x in list(fa) + list(fb)) and d <= 16:
                    yi = A.bind(np.array(fa, dtype=int), np.array(fb, dtype=np.int64))
                    ctx.count(f"bind-int {alg} {case['a']} {case['b']}", nontrivial=nontriv, branch=f"bind-{alg}-int-dtype")
                    if not (len(yi) == d and np.allclose(np.asarray(yi, float), np.asarray(y, float), rtol=0, atol=1e-9 * max(1.0, sc))):
                        ctx.fail(dict(case, dtype="int"), [float(v) for v in yi][:16], [float(v) for v in y][:16],
                                 where=f"bind-int-dtype-{alg}")

                def cb(st, payload, case=case, y=y, sc=sc, m=m):
                    if st != "ok":
                        ctx.diff(case, "value", f"{st} {payload}", op="bind")
                        return
                    r = [common.qs_float(p, m) for p in common.parse_qsvec(payload)]
                    if not common.vec_close(y, r, sc):
                        ctx.diff(case, [float(v) for v in y][:16], r[:16], op="bind")
                if not nd:
                    ctx.ask("bind", [alg, case["a"], case["b"]], cb)
            # --- bilinearity probes on the implementation -----------------------------
            for _ in range(3):
                a, a2, b = sv[4], sv[5], [F(ctx.rng.randint(-8, 8), 8) for _ in range(d)]
                c = F(ctx.rng.randint(-9, 9), 4)
                fa, fa2, fb = fl(a), fl(a2), fl(b)
                sc = float((np.linalg.norm(fa) + np.linalg.norm(fa2)) * np.linalg.norm(fb) * (abs(float(c)) + 1)) * scale_s
                checks = [("add-left", A.bind(fa + fa2, fb), A.bind(fa, fb) + A.bind(fa2, fb)),
                          ("add-right", A.bind(fb, fa + fa2), A.bind(fb, fa) + A.bind(fb, fa2)),
                          ("smul-left", A.bind(float(c) * fa, fb), float(c) * A.bind(fa, fb)),
                          ("smul-right", A.bind(fa, float(c) * fb), float(c) * A.bind(fa, fb)),
                          ("superpose", A.superpose(fa, fb), fa + fb)]
                if alg == "hrr":
                    checks += [("comm", A.bind(fa, fb), A.bind(fb, fa)),
                               ("assoc", A.bind(A.bind(fa, fa2), fb), A.bind(fa, A.bind(fa2, fb)))]
                    sc *= float(np.linalg.norm(fa2)) + 1
                for name, l, r in checks:
                    ctx.count(f"law {alg} {d} {name} {common.qvec(fa)[:40]}", branch=f"law-{name}")
                    if not np.allclose(l, r, rtol=0, atol=1e-9 * max(1.0, sc)):
                        ctx.fail({"op": "law", "law": name, "alg": alg, "d": d, "a": common.qvec(fa), "a2": common.qvec(fa2),
                                  "b": common.qvec(fb), "c": str(c)}, list(map(float, l))[:8], list(map(float, r))[:8],
                                 where=f"law-{name}-{alg}")
            # --- matrices ----------------------------------------------------------------
            kept = []          # (matrix object as returned, copy taken at once, case): checked again after later calls
            for v in (sv[4], sv[3], sv[2]):
                fv = fl(v)
                for swap in (False, True):
                    M = A.get_binding_matrix(fv, swap_inputs=swap)
                    case = {"op": "mat", "alg": alg, "d": d, "v": common.qvec(fv), "swap": int(swap)}
                    kept.append((M, np.array(M, copy=True), case))
                    if all(float(x).is_integer() for x in fv):
                        Mi = np.asarray(A.get_binding_matrix(np.array(fv, dtype=int), swap_inputs=swap), float)
                        if Mi.shape != np.asarray(M).shape or not np.allclose(Mi, M, rtol=0, atol=1e-12 * (1 + float(np.abs(fv).max()))):
                            ctx.fail(dict(case, dtype="int"), "matrix for the int-typed vector differs", "same matrix as for the "
                                     "float-typed vector", where=f"binding-matrix-int-dtype-{alg}")
                    ctx.count(f"mat {alg} {case['v']} {swap}", nontrivial=any(v), branch=f"mat-{alg}-swap{int(swap)}")
                    # oracle: M @ a equals the direct operation for probe vectors
                    for a in (sv[5], basis[d // 2], basis[0]):
                        fa_ = fl(a)
                        direct = A.bind(fv, fa_) if swap else A.bind(fa_, fv)
                        sc = float(np.linalg.norm(fv) * np.linalg.norm(fa_)) * scale_s
                        if M.shape != (d, d) or not np.allclose(M @ fa_, direct, rtol=0, atol=1e-9 * max(1.0, sc)):
                            ctx.fail(dict(case, a=common.qvec(fa_)), "M @ a != bind", "matrix gives the direct operation",
                                     where=f"binding-matrix-{alg}-swap{int(swap)}")
                            break

                    def cbm(st, payload, case=case, M=M, m=m, fv=fv):
                        if st != "ok":
                            ctx.diff(case, "matrix", f"{st} {payload}", op="mat")
                            return
                        R = [[common.qs_float(p, m) for p in row] for row in common.parse_qsmat(payload)]
                        sc = float(np.abs(fv).max()) * math.sqrt(max(m, 1)) if len(fv) else 1.0
                        if len(R) != M.shape[0] or not all(common.vec_close(M[i], R[i], sc) for i in range(len(R))):
                            ctx.diff(case, "matrix entries", "differ", op="mat")
                    if not nd and d <= 36:
                        ctx.ask("mat", [alg, case["v"], int(swap)], cbm)
                # inversion
                sides = [ElementSidedness.TWO_SIDED, ElementSidedness.RIGHT] + ([ElementSidedness.LEFT] if alg != "vtb" else [])
                for side in sides:
                    iv = A.invert(fv, sidedness=side)
                    IM = A.get_inversion_matrix(d, sidedness=side)
                    case = {"op": "inv", "alg": alg, "d": d, "v": common.qvec(fv), "side": side.name}
                    ctx.count(f"inv {alg} {case['v']} {side.name}", nontrivial=any(v), branch=f"inv-{alg}")
                    if not np.array_equal(IM @ fv, iv):
                        ctx.fail(case, "inversion matrix @ v != invert(v)", "equal", where=f"inversion-matrix-{alg}")
                    if alg == "hrr":
                        want = [float(fv[(-i) % d]) for i in range(d)]
                    else:
                        want = [float(fv[(k % m) * m + k // m]) for k in range(d)]
                    if list(map(float, iv)) != want:
                        ctx.fail(case, list(map(float, iv))[:8], want[:8], where=f"invert-formula-{alg}")

                    def cbi(st, payload, case=case, iv=iv):
                        if st != "ok" or [float(x) for x in common.parse_qvec(payload)] != list(map(float, iv)):
                            ctx.diff(case, list(map(float, iv))[:8], f"{st} {payload[:80]}", op="inv")
                    if not nd:
                        ctx.ask("inv", [alg, case["v"]], cbi)

                def cbim(st, payload, IM=A.get_inversion_matrix(d, sidedness=ElementSidedness.RIGHT), d=d, alg=alg):
                    R = [[float(x) for x in common.parse_qvec(r)] for r in payload.split(";")] if st == "ok" else None
                    if R is None or not np.array_equal(np.array(R), IM):
                        ctx.diff({"op": "invmat", "alg": alg, "d": d}, "matrix", f"{st}", op="invmat")
                if not nd and d <= 36 and v is sv[4]:
                    ctx.ask("invmat", [alg, d], cbim)
            # a matrix handed out for a fixed vector keeps giving that vector's operation after later calls
            A.bind(fl(sv[5]), fl(sv[4]))
            for M, M0, case in kept:
                ctx.count(f"mat-kept {alg} {case['v']} {case['swap']}", branch=f"mat-{alg}-kept")
                if not np.array_equal(np.asarray(M), M0):
                    ctx.fail(dict(case, history="later get_binding_matrix / bind calls"), "the returned matrix changed afterwards",
                             "the matrix for a fixed vector is a value of its own", where=f"binding-matrix-aliased-{alg}")
            # --- unequal lengths ------------------------------------------------------------
            for d2 in {d + 1, max(1, d - 1), d * 4, 4 * d + 5} - {d}:
                case = {"op": "bind-len", "alg": alg, "da": d, "db": d2}
                ctx.count(f"len {alg} {d} {d2}", branch="unequal-length")
                try:
                    A.bind(np.ones(d), np.ones(d2))
                    impl = "accepted"
                    ctx.fail(case, "accepted", "ValueError for unequal lengths", where=f"unequal-length-{alg}")
                except ValueError:
                    impl = "rejected"

                def cbl(st, payload, case=case, impl=impl):
                    if (st == "err") != (impl == "rejected"):
                        ctx.diff(case, impl, f"{st} {payload}", op="bind-len")
                if not nd:
                    ctx.ask("bind", [alg, common.qvec([1.0] * d), common.qvec([1.0] * d2)], cbl)
    # --- dimensionality validation -------------------------------------------------------
    hi = 4200 if ctx.tier == "quick" else 200000
    rng_d = list(range(-3, hi)) + [10 ** 6, 10 ** 6 + 1, 2 ** 31, 999 ** 2, 999 ** 2 + 1, 999 ** 2 - 1]
    for alg in ("vtb", "tvtb"):
        A = ALGS[alg]
        for d in rng_d:
            got = bool(A.is_valid_dimensionality(d))
            want = d >= 1 and math.isqrt(d) ** 2 == d
            ctx.count(f"valid {alg} {d}", nontrivial=True, branch="valid-dim")
            if got != want:
                ctx.fail({"op": "valid", "alg": alg, "d": d}, got, want, where=f"valid-dimensionality-{alg}")

            def cbv(st, payload, d=d, got=got, alg=alg):
                if st != "ok" or (payload == "1") != got:
                    ctx.diff({"op": "valid", "alg": alg, "d": d}, got, f"{st} {payload}", op="valid")
            if not nd and (d < 700 or d > 10 ** 5) and alg == "vtb":
                ctx.ask("valid", [d], cbv)
            if not got and 1 <= d <= 40:
                # an invalid dimensionality is rejected whatever the VALUES are (zero operands included)
                for za, zb in ((np.zeros(d), np.ones(d)), (np.ones(d), np.zeros(d)), (np.zeros(d), np.zeros(d))):
                    try:
                        A.bind(za, zb)
                        ctx.fail({"op": "bind-invalid-d", "alg": alg, "d": d, "a": za.tolist()[:4], "b": zb.tolist()[:4]},
                                 "a vector was returned", "ValueError (d is not a valid dimensionality)",
                                 where=f"valid-dimensionality-{alg}")
                    except ValueError:
                        pass
            if got and d <= 900:
                # a dimensionality declared valid must be usable
                try:
                    A.bind(np.ones(d), np.ones(d))
                except ValueError as e:
                    ctx.fail({"op": "valid-usable", "alg": alg, "d": d}, f"valid but bind raises {e}", "usable", where=f"valid-dimensionality-{alg}")
    # the same questions with the dimensionality given as a NumPy integer (len() of nothing: a shape entry,
    # an element of np.arange, a vocabulary's `dimensions` computed with NumPy): same answers, same matrices
    NPK = [("int64", np.int64), ("int32", np.int32), ("intp", np.intp), ("uint16", np.uint16), ("arange", lambda x: np.arange(x, x + 1)[0])]
    for alg in ("hrr", "vtb", "tvtb"):
        A = ALGS[alg]
        for d in range(-3, 140 if ctx.tier == "quick" else 1100):
            want = d >= 1 and (alg == "hrr" or math.isqrt(d) ** 2 == d)
            for kname, kf in NPK:
                if d < 0 and kname == "uint16":
                    continue
                nd_ = kf(d)
                case = {"op": "valid-numpy-int", "alg": alg, "d": d, "kind": kname}
                ctx.count(f"valid-np {alg} {d} {kname}", branch="valid-dim-numpy-int")
                try:
                    got = bool(A.is_valid_dimensionality(nd_))
                except Exception as e:  # noqa: BLE001
                    got = f"{type(e).__name__}"
                if got != want:
                    ctx.fail(case, got, want, where=f"valid-dimensionality-{alg}")
                    continue
                if want and d <= 100:
                    for mname, call in (("inversion", lambda x: A.get_inversion_matrix(x)),
                                        ("identity", lambda x: A.identity_element(x, sidedness=ElementSidedness.RIGHT)),
                                        ("zero", lambda x: A.zero_element(x))):
                        try:
                            with warnings.catch_warnings():
                                warnings.simplefilter("ignore")
                                a_np, a_py = call(nd_), call(d)
                            ok = np.array_equal(np.asarray(a_np), np.asarray(a_py))
                            obs = "differs from the result for the Python int"
                        except Exception as e:  # noqa: BLE001
                            ok, obs = False, f"{type(e).__name__}: {e}"[:90]
                        if not ok:
                            ctx.fail(dict(case, method=mname), obs, "the same element / matrix as for int(d)",
                                     where=f"numpy-int-dimensionality-{alg}")
    for d in range(-3, 70):
        if bool(HrrAlgebra().is_valid_dimensionality(d)) != (d > 0):
            ctx.fail({"op": "valid", "alg": "hrr", "d": d}, "wrong", d > 0, where="valid-dimensionality-hrr")
    import time as _t
    t0 = _t.time()
    if not nd:
        ctx.flush(DRIVER)
    ctx.note(f'driver wall {_t.time() - t0:.1f}s for the batched requests')

"""C07 — Semantic Pointer operators are the algebra lifted to immutable values.

Tie: every operator / method of `SemanticPointer` x {HRR, VTB, TVTB} x operand orders (direct and
reflected dunder methods, Python operators from both sides) x scalar kinds (int, float, bool,
np.float32/64, np.int64, np.bool_, 0-d arrays, arrays, lists, str) x pointer kinds (with / without
vocabulary, named / unnamed, mixed vocabularies and algebras) x vectors (zero, basis, non-unit,
dyadic random, large), d in {4, 9, 16}, against the Lean model `C07.Impl` (drivers/C07.lean) executed
exactly (Q resp. Q(sqrt m)).

Oracles (independent of the model), all in this file:
  * elementary vector formulas with `fractions` (sum, difference, scaling, quotient, dot, mean squared
    difference, cosine through math.sqrt of exact squares, circular convolution / VTB / TVTB block formulas,
    index permutations of the inverses);
  * "the corresponding operation of the pointer's own algebra": the same method of `p.algebra` called
    directly on copies of the vectors IN OPERAND ORDER (bitwise equal), and a recording proxy algebra
    (`Spy`) whose log must show exactly the expected call with the expected argument order - also for a
    deliberately non-commutative, non-additive custom algebra no shipped default could imitate;
  * object identity of `.vocab` / `.algebra` of results;
  * snapshots (bytes of `.v`, `.vocab`, `.algebra`, `.name`, `.type`, write flag) of every operand
    before / after every operation;
  * write attempts (`v[0] = x`, `v += 1`, `v.fill`, `np.add(out=v)`) on every vector handed out.
"""
import math
import warnings

import numpy as np

import common
from common import Fraction as F
from nengo_spa.algebras import HrrAlgebra, TvtbAlgebra, VtbAlgebra
from nengo_spa.algebras.base import AbstractAlgebra, ElementSidedness
from nengo_spa.ast import expr_tree as ET
from nengo_spa.ast.symbolic import FixedScalar
from nengo_spa.exceptions import SpaTypeError
from nengo_spa.semantic_pointer import SemanticPointer as SP
from nengo_spa.vocabulary import Vocabulary

PROPERTY = "C07"
LEAN_MODULES = ["SpaModel.Props.C07"]
AUDIT = "SpaModel/Audit/C07.lean"
DRIVER = "drivers/C07.lean"
RULE = ("one case = (operation, algebra, d, pointer kinds, operand vectors / scalar kind and value, call form); "
        "non-trivial = at least one operand vector is non-zero and the case is not a pure error-class case; "
        "distinct = distinct canonical case string (exact rational tokens of the vectors)")
ASSUMPTIONS = [
    "IEEE rounding of NumPy (+, *, /, fft, dot, norm): compared at 1e-9 relative to the operand magnitudes",
    "np.linalg.norm is modelled by an abstract `nrm` with nrm>=0 and nrm^2 = sum v^2; the driver uses a 2^-80 "
    "rational approximation of the square root (exact on rational roots)",
    "HrrAlgebra.bind/binding_power go through rfft/irfft: modelled by the convolution ring (tied numerically)",
    "make_unitary, abs (all algebras) and fractional HRR powers are uninterpreted in the model: their pointer-level "
    "delegation is proved, their values are tied by the direct-call and recording-proxy oracles only",
    "SciPy is absent: fractional VTB/TVTB powers raise ImportError (observed and modelled)",
    "names are shorter than MAX_NAME (limit_str_length is the identity)",
    "operands of one operation have equal dimensionality (typed in the model; unequal lengths: malformed stream, oracle only)",
]

ALG = {"hrr": HrrAlgebra(), "vtb": VtbAlgebra(), "tvtb": TvtbAlgebra()}
ALG_ID = {"hrr": 0, "vtb": 1, "tvtb": 2}
SIDES = {"two": ElementSidedness.TWO_SIDED, "left": ElementSidedness.LEFT, "right": ElementSidedness.RIGHT}


# ----------------------------------------------------------------------------------------------
# helpers: tokens
# ----------------------------------------------------------------------------------------------
def codes(s):
    s = str(s)
    return "e" if s == "" else ".".join(str(ord(c)) for c in s)


def name_tok(t):
    if t is None:
        return "-"
    if isinstance(t, ET.Leaf):
        return "L;" + codes(t.value)
    if isinstance(t, ET.UnaryOperator):
        return "U;" + codes(t.value) + ";" + name_tok(t.children[0])
    if isinstance(t, ET.BinaryOperator):
        return "B;" + codes(t.value) + ";" + name_tok(t.children[0]) + ";" + name_tok(t.children[1])
    if isinstance(t, ET.FunctionCall) and len(t.value) == 0 and isinstance(t.children[0], ET.AttributeAccess):
        a = t.children[0]
        return "M;" + codes(a.value) + ";" + name_tok(a.children[0])
    return "?" + type(t).__name__


class World:
    """identities of algebra and vocabulary objects by first appearance"""

    def __init__(self):
        self.algs = {id(a): ALG_ID[k] for k, a in ALG.items()}
        self.vocs = {}
        self.keep = []

    def alg_id(self, a):
        return self.algs.get(id(a), 99)

    def voc_tok(self, v):
        if v is None:
            return "-"
        if id(v) not in self.vocs:
            self.vocs[id(v)] = len(self.vocs)
            self.keep.append(v)
        return f"{self.vocs[id(v)]}:{self.alg_id(v.algebra)}"

    def ptr_tok(self, p):
        return f"{common.qvec(p.v)}|{self.voc_tok(p.vocab)}|{self.alg_id(p.algebra)}|{name_tok(p._expr_tree)}"


def err_name(e):
    for cls, n in ((SpaTypeError, "SpaTypeError"), (ZeroDivisionError, "ZeroDivisionError"),
                   (ImportError, "ImportError"), (NotImplementedError, "NotImplementedError"),
                   (AttributeError, "AttributeError"), (TypeError, "TypeError"), (ValueError, "ValueError")):
        if isinstance(e, cls):
            return n
    return type(e).__name__


def snapshot(x):
    if isinstance(x, SP):
        return ("P", x.v.tobytes(), x.v.flags.writeable, id(x.vocab), id(x.algebra), x.name, id(x.type), id(x.v))
    if isinstance(x, np.ndarray):
        return ("A", x.tobytes(), x.flags.writeable, x.shape)
    if isinstance(x, list):
        return ("L", repr(x))
    return ("O", repr(x) if not isinstance(x, FixedScalar) else x.value)


WRITES = [
    ("setitem", lambda v: v.__setitem__(0, 99.5)),
    ("iadd", lambda v: v.__iadd__(1.0)),
    ("fill", lambda v: v.fill(7.0)),
    ("ufunc-out", lambda v: np.add(v, 1.0, out=v)),
    ("slice", lambda v: v.__setitem__(slice(None), 0.25)),
]


def check_frozen(ctx, case, v, what):
    """`v` is a vector handed out by a pointer: it must refuse every in-place write and keep its bytes"""
    if not isinstance(v, np.ndarray):
        ctx.fail(case, f"{what}: {type(v).__name__}", "ndarray", where="vector-type")
        return
    before = v.tobytes()
    if v.flags.writeable:
        ctx.fail(dict(case, vector=what), "flags.writeable is True", "vectors of pointers cannot be written to",
                 where="vector-writeable")
        return
    for wname, w in WRITES:
        try:
            w(v)
            raised = None
        except ValueError:
            raised = "ValueError"
        except Exception as e:  # noqa
            raised = type(e).__name__
        if raised != "ValueError" or v.tobytes() != before:
            ctx.fail(dict(case, vector=what, write=wname), f"raised={raised} changed={v.tobytes() != before}",
                     "ValueError and unchanged data", where="vector-write-refused")
            return


# ----------------------------------------------------------------------------------------------
# exact oracles
# ----------------------------------------------------------------------------------------------
def ex(v):
    return [F(float(x)) for x in v]


def o_bind(alg, a, b):
    """published formulas; returns (exact list, float factor)"""
    d = len(a)
    if alg == "hrr":
        return [sum(a[j] * b[(i - j) % d] for j in range(d)) for i in range(d)], 1.0
    m = math.isqrt(d)
    A = [[a[i * m + j] for j in range(m)] for i in range(m)]
    B = [[b[i * m + j] for j in range(m)] for i in range(m)]
    out = []
    for i in range(m):
        for j in range(m):
            if alg == "vtb":
                out.append(sum(B[j][k] * A[i][k] for k in range(m)))
            else:
                out.append(sum(B[k][j] * A[i][k] for k in range(m)))
    return out, math.sqrt(m)


def o_inv(alg, v):
    d = len(v)
    if alg == "hrr":
        return [v[(-i) % d] for i in range(d)]
    m = math.isqrt(d)
    return [v[(k % m) * m + k // m] for k in range(d)]


def fl(v):
    return np.array([float(x) for x in v], dtype=float)


# ----------------------------------------------------------------------------------------------
# recording proxy / custom algebra
# ----------------------------------------------------------------------------------------------
class Spy(AbstractAlgebra):
    """Records every call.  With `base=None` it is a custom algebra: superpose(a,b) = a + 2b,
    bind(a,b) = a*b + a (element-wise; neither commutative), invert(v) = reversed v (LEFT: 3v, RIGHT: 5v)."""

    def __init__(self, base=None):
        self.base = base
        self.log = []

    def _rec(self, name, *args):
        self.log.append((name,) + tuple(a.tobytes() if isinstance(a, np.ndarray) else a for a in args))

    def is_valid_dimensionality(self, d):
        return d > 0

    def superpose(self, a, b):
        self._rec("superpose", a, b)
        return self.base.superpose(a, b) if self.base else a + 2 * b

    def bind(self, a, b):
        self._rec("bind", a, b)
        return self.base.bind(a, b) if self.base else a * b + a

    def invert(self, v, sidedness=ElementSidedness.TWO_SIDED):
        self._rec("invert", v, sidedness.name)
        if self.base:
            return self.base.invert(v, sidedness=sidedness)
        return {"TWO_SIDED": v[::-1].copy(), "LEFT": 3 * v, "RIGHT": 5 * v}[sidedness.name]

    def binding_power(self, v, exponent):
        self._rec("binding_power", v, float(exponent))
        return self.base.binding_power(v, exponent) if self.base else v * float(exponent)

    def make_unitary(self, v):
        self._rec("make_unitary", v)
        return self.base.make_unitary(v) if self.base else v + 11.0

    def abs(self, v):
        self._rec("abs", v)
        return self.base.abs(v) if self.base else np.abs(v) + 13.0

    def sign(self, v):
        self._rec("sign", v)
        return self.base.sign(v)

    def get_binding_matrix(self, v, swap_inputs=False):
        self._rec("get_binding_matrix", v, bool(swap_inputs))
        if self.base:
            return self.base.get_binding_matrix(v, swap_inputs=swap_inputs)
        return np.diag(v) * (2.0 if swap_inputs else 1.0)

    def create_vector(self, d, properties, *, rng=None):
        return (rng or np.random).randn(d)


# ----------------------------------------------------------------------------------------------
# case generation
# ----------------------------------------------------------------------------------------------
def vectors(ctx, d, tier):
    r = ctx.rng
    vs = [("zero", [F(0)] * d),
          ("basis", [F(1) if i == r.randrange(d) else F(0) for i in range(d)]),
          ("nonunit", [F((-1) ** i * (1 + i % 3)) for i in range(d)]),
          ("dyadic", [F(r.randint(-16, 16), 8) for _ in range(d)]),
          ("dyadic2", [F(r.randint(-40, 40), 16) for _ in range(d)])]
    b = [F(0)] * d
    b[r.randrange(d)] = F(1)
    vs[1] = ("basis", b)
    t70 = [F(r.randint(-5, 5), 2 ** 70) for _ in range(d)]
    t70[r.randrange(d)] = F(3, 2 ** 70)
    vs.append(("tiny70", t70))          # norm far below machine epsilon, exactly representable: v/|v| is still a unit vector
    if tier != "quick":
        vs.append(("large", [F(r.randint(-3, 3)) * 2 ** 20 for _ in range(d)]))
        vs.append(("tiny", [F(r.randint(-5, 5), 2 ** 20) for _ in range(d)]))
        vs.append(("positive", [F(r.randint(1, 9), 4) for _ in range(d)]))
    return vs


SCALARS = {
    # kind -> (constructor, admissible values)
    "pyInt": (lambda x, d: int(x), [0, 1, 2, -3]),
    "pyFloat": (lambda x, d: float(x), [0.0, -0.0, 0.5, -1.25, 3.0]),
    "pyBool": (lambda x, d: bool(x), [0, 1]),
    "npFloat32": (lambda x, d: np.float32(x), [0.0, 0.5, -1.25, 2.0]),
    "npFloat64": (lambda x, d: np.float64(x), [0.0, -0.0, 0.5, -1.25, 2.0]),
    "npInt64": (lambda x, d: np.int64(x), [0, 2, -3]),
    "npBool": (lambda x, d: np.bool_(x), [0, 1]),
    "zeroDimNum": (lambda x, d: np.array(x), [0.0, 0.5, -1.25, 2, 0]),
    "zeroDimBool": (lambda x, d: np.array(bool(x)), [0, 1]),
    "ndarray": (lambda x, d: np.full(d, float(x)), [0.0, 2.0]),
    "listOrTuple": (lambda x, d: [float(x)] * d, [2.0]),
    "other": (lambda x, d: "abc", [0]),
}
NUMBER_KINDS = {"pyInt", "pyFloat", "pyBool", "npFloat32", "npFloat64", "npInt64", "zeroDimNum"}
ARRAY_KINDS = {"npBool", "zeroDimBool", "ndarray"}


class Run:
    def __init__(self, ctx):
        self.ctx = ctx
        self.W = World()
        self.nd = getattr(ctx, "no_driver", False)
        self.vocabs = {}
        self.sampled = set()

    def vocab(self, alg, d, idx=0):
        key = (alg, d, idx)
        if key not in self.vocabs:
            self.vocabs[key] = Vocabulary(d, algebra=ALG[alg], pointer_gen=np.random.RandomState(idx))
        return self.vocabs[key]

    def mkp(self, vec, alg, kind, name=None, vidx=0):
        """kind: 'n' no vocabulary / 'v' vocabulary; name None or str"""
        data = fl(vec)
        if kind == "v":
            return SP(data, vocab=self.vocab(alg, len(vec), vidx), name=name)
        return SP(data, algebra=ALG[alg], name=name)

    # ------------------------------------------------------------------------------------------
    def execute(self, fn):
        with warnings.catch_warnings(record=True) as wl:
            warnings.simplefilter("always")
            try:
                r = fn()
                out = ("notimpl",) if r is NotImplemented else ("ok", r)
            except Exception as e:  # noqa
                out = ("err", err_name(e), str(e)[:80])
        dep = any(issubclass(w.category, DeprecationWarning) and "VtbAlgebra" in str(w.message) for w in wl)
        return out, dep

    def op(self, case, fn, operands, expect=None, ask=None, kind="ptr", selfp=None, nontrivial=True, branch=None,
           unary_vocab=True):
        """Run one operation of the real code; check oracle `expect`; queue the model request `ask`.

        expect: None | {"err": cls} | {"v": floats, "scale": s, "vocab": obj, "alg": obj} | {"val": float, "scale": s}
                | {"same": ndarray/float}  (bitwise equality with a direct call of the algebra)"""
        ctx = self.ctx
        before = [snapshot(x) for x in operands]
        out, dep = self.execute(fn)
        after = [snapshot(x) for x in operands]
        key = " ".join(f"{k}={v}" for k, v in case.items())
        ctx.count(key, nontrivial=nontrivial, branch=branch or case["op"])
        br = branch or case["op"]
        if nontrivial and br not in self.sampled and len(self.sampled) < 14 and self.ctx.rng.random() < 0.02:
            self.sampled.add(br)
            ctx.sample({k: (v if len(str(v)) < 70 else str(v)[:70] + "...") for k, v in case.items()}
                       | {"impl": out[0] if out[0] != "err" else out[1]}, limit=14)
        # --- operands never modified ------------------------------------------------------------
        if before != after:
            i = [k for k in range(len(before)) if before[k] != after[k]][0]
            fields = ["kind", "v-bytes", "writeable", "vocab", "algebra", "name", "type", "v-object"]
            ch = [fields[j] for j in range(min(len(before[i]), len(fields))) if before[i][j] != after[i][j]]
            ctx.fail(dict(case, operand=i, changed=ch), f"operand {i} changed: {ch}", "operands are never modified",
                     where="operand-modified")
        # --- result vector frozen ----------------------------------------------------------------
        if out[0] == "ok" and isinstance(out[1], SP):
            r = out[1]
            check_frozen(ctx, case, r.v, "result.v")
            for k, x in enumerate(operands):
                if isinstance(x, SP) and x.v is r.v and x is not r:
                    pass  # sharing a frozen array is harmless; writability is what is checked
        # --- oracle ---------------------------------------------------------------------------------
        if expect is not None:
            self.judge(case, out, expect, selfp)
        # --- model ------------------------------------------------------------------------------------
        if ask is not None and not self.nd:
            opn, args = ask

            def cb(st, payload, case=case, out=out, kind=kind, dep=dep):
                self.compare_model(case, out, st, payload, kind, dep)
            ctx.ask(opn, args, cb)
        return out

    def judge(self, case, out, expect, selfp):
        ctx = self.ctx
        if "err" in expect:
            got = out[1] if out[0] == "err" else out[0]
            if got != expect["err"]:
                ctx.fail(case, got, expect["err"], where=f"error-class-{case['op']}")
            return
        if out[0] != "ok":
            ctx.fail(case, list(out), "a value", where=f"unexpected-error-{case['op']}")
            return
        r = out[1]
        if "val" in expect:
            try:
                ok = common.close(float(r), expect["val"], expect.get("scale", 1.0))
            except Exception:  # noqa
                ok = False
            if not ok:
                ctx.fail(case, repr(r)[:60], expect["val"], where=f"value-{case['op']}")
            return
        if "same" in expect:
            rv = r.v if isinstance(r, SP) else r
            if not (np.shape(rv) == np.shape(expect["same"]) and np.array_equal(rv, expect["same"], equal_nan=True)):
                ctx.fail(case, np.asarray(rv).ravel()[:8].tolist(), np.asarray(expect["same"]).ravel()[:8].tolist(),
                         where=f"own-algebra-{case['op']}")
        if "v" in expect:
            if not isinstance(r, SP):
                ctx.fail(case, type(r).__name__, "SemanticPointer", where=f"result-type-{case['op']}")
                return
            if not common.vec_close(list(r.v), expect["v"], expect.get("scale", 1.0)):
                ctx.fail(case, [float(x) for x in r.v][:16], [float(x) for x in expect["v"]][:16],
                         where=f"value-{case['op']}")
        if isinstance(r, SP) and selfp is not None:
            if r.algebra is not selfp.algebra:
                ctx.fail(case, type(r.algebra).__name__, "the algebra object of self", where=f"result-algebra-{case['op']}")
            if "vocab" in expect and r.vocab is not expect["vocab"]:
                ctx.fail(case, "other vocab" if r.vocab is not None else "None",
                         "None" if expect["vocab"] is None else "the operands' vocabulary", where=f"result-vocab-{case['op']}")

    def compare_model(self, case, out, st, payload, kind, dep):
        ctx = self.ctx
        impl = out[0] if out[0] != "err" else out[1]
        if st == "err":
            model = {"NotImplemented": "notimpl"}.get(payload, payload)
            if model != impl:
                ctx.diff(case, impl if out[0] != "err" else list(out[1:]), f"err {payload}", op=case["op"])
            return
        if out[0] != "ok":
            ctx.diff(case, list(out), f"ok {payload[:80]}", op=case["op"])
            return
        r = out[1]
        d = case.get("d", 1)
        m = math.isqrt(d)
        if kind == "ptr":
            parts = payload.split("|")
            vec = [common.qs_float(p, m) for p in common.parse_qsvec(parts[0])]
            sc = max([1.0] + [abs(x) for x in vec])
            if not isinstance(r, SP) or not common.vec_close(list(r.v), vec, sc):
                ctx.diff(case, [float(x) for x in getattr(r, "v", [])][:16], vec[:16], op=case["op"] + "-v")
                return
            meta = [self.W.voc_tok(r.vocab), str(self.W.alg_id(r.algebra)), name_tok(r._expr_tree)]
            if parts[1:4] != meta:
                ctx.diff(case, meta, parts[1:4], op=case["op"] + "-meta")
            if len(parts) > 4 and (parts[4] == "1") != dep:
                ctx.diff(case, f"deprecation-warning={dep}", parts[4], op=case["op"] + "-warn")
        elif kind == "rat":
            x = float(F(payload))
            if not common.close(float(r), x, max(1.0, abs(x))):
                ctx.diff(case, float(r), x, op=case["op"])
        elif kind == "mat":
            R = [[common.qs_float(p, m) for p in row] for row in common.parse_qsmat(payload)]
            M = np.asarray(r)
            sc = float(np.abs(M).max()) if M.size else 1.0
            if M.shape != (len(R), len(R)) or not all(common.vec_close(M[i], R[i], sc) for i in range(len(R))):
                ctx.diff(case, "matrix entries", "differ", op=case["op"])
        elif kind == "int":
            if str(r) != payload:
                ctx.diff(case, r, payload, op=case["op"])


# ----------------------------------------------------------------------------------------------
# the streams
# ----------------------------------------------------------------------------------------------
def pointer_kinds():
    return [("n", None), ("n", "a"), ("v", None), ("v", "a")]


def unary_stream(R, alg, d, vs, tier):
    ctx, W = R.ctx, R.W
    A = ALG[alg]
    m = math.isqrt(d)
    sq = math.sqrt(m) if alg != "hrr" else 1.0
    for vname, vec in vs:
        nz = any(vec)
        for pk, nm in pointer_kinds():
            if tier == "quick" and ctx.rng.random() < 0.5 and vname not in ("zero",):
                continue
            p = R.mkp(vec, alg, pk, nm)
            tok = W.ptr_tok(p)
            e = ex(p.v)
            base = {"alg": alg, "d": d, "self": f"{pk}{'N' if nm else 'u'}", "vec": vname, "v": common.qvec(p.v)}
            mag = max([1.0] + [abs(float(x)) for x in e])
            common_exp = {"vocab": p.vocab, "scale": mag}
            # neg
            R.op(dict(base, op="neg"), lambda: -p, [p], dict(common_exp, v=[-x for x in e]), ("neg", [tok]), selfp=p,
                 nontrivial=nz)
            # copy
            out = R.op(dict(base, op="copy"), lambda: p.copy(), [p], dict(common_exp, v=e), ("copy", [tok]), selfp=p,
                       nontrivial=nz)
            if out[0] == "ok" and out[1] is p:
                ctx.fail(dict(base, op="copy"), "same object", "another pointer", where="copy-identity")
            # len / length
            R.op(dict(base, op="len"), lambda: len(p), [p], {"val": d}, ("len", [tok]), kind="int", nontrivial=nz)
            nrm = math.sqrt(sum(x * x for x in e))
            R.op(dict(base, op="length"), lambda: p.length(), [p], {"val": nrm, "scale": mag}, ("length", [tok]),
                 kind="rat", nontrivial=nz)
            # normalized
            want = e if nrm == 0 else [float(x) / nrm for x in e]
            R.op(dict(base, op="normalized"), lambda: p.normalized(), [p], dict(common_exp, v=want, scale=1.0 if nrm else mag),
                 ("normalized", [tok]), selfp=p, nontrivial=nz, branch="normalized-zero" if nrm == 0 else "normalized")
            # two-step histories: the length of a RESULT is the norm of the result's own vector (no stale state), and
            # asking twice gives the same answer
            for cname, mk in (("normalized", lambda: p.normalized()), ("copy", lambda: p.copy()), ("neg", lambda: -p),
                              ("half", lambda: p * 0.5), ("twice-normalized", lambda: p.normalized().normalized())):
                try:
                    q = mk()
                    got1, got2 = float(q.length()), float(q.length())
                except Exception as ex_:  # noqa: BLE001
                    ctx.fail(dict(base, op="length-of-result", chain=cname), f"{type(ex_).__name__}: {ex_}"[:100], "a length",
                             where="length-of-result")
                    continue
                want_len = math.sqrt(sum(float(x) * float(x) for x in q.v))
                ctx.count(f"chain {alg} {d} {base['self']} {vname} {cname}", nontrivial=nz, branch="length-of-result")
                if abs(got1 - want_len) > 1e-12 * max(1.0, want_len) or got1 != got2:
                    ctx.fail(dict(base, op="length-of-result", chain=cname), [got1, got2], want_len, where="length-of-result")
            # inverses
            for sname, fn in (("two", lambda: ~p), ("left", lambda: p.linv()), ("right", lambda: p.rinv())):
                if alg == "vtb" and sname == "left":
                    expct = {"err": "NotImplementedError"}
                else:
                    expct = dict(common_exp, v=o_inv(alg, e))
                with warnings.catch_warnings():
                    warnings.simplefilter("ignore")
                    try:
                        expct = dict(expct, same=A.invert(np.array(p.v), sidedness=SIDES[sname])) if "v" in expct else expct
                    except NotImplementedError:
                        pass
                R.op(dict(base, op="inv", side=sname), fn, [p], expct, ("inv", [tok, sname]), selfp=p, nontrivial=nz,
                     branch=f"inv-{alg}-{sname}")
            # binding matrix
            for swap in (False, True):
                Mwant = A.get_binding_matrix(np.array(p.v), swap_inputs=swap)
                out = R.op(dict(base, op="mat", swap=int(swap)), lambda: p.get_binding_matrix(swap_inputs=swap), [p],
                           {"same": Mwant}, ("mat", [tok, int(swap)]) if (pk, nm) == ("n", None) or tier != "quick" else None,
                           kind="mat", nontrivial=nz, branch=f"mat-swap{int(swap)}")
                M2 = p.get_binding_matrix(swap_inputs=swap) if out[0] == "ok" else None
                if isinstance(M2, np.ndarray) and M2.flags.writeable:
                    # a fresh matrix may be writable, but writing to it must not reach the pointer
                    snap = p.v.tobytes()
                    M2[...] = 5.0
                    if p.v.tobytes() != snap:
                        ctx.fail(dict(base, op="mat"), "writing to the matrix changed p.v", "unchanged", where="matrix-aliases-vector")
            # powers
            exps = [(-2, "pyInt"), (-1, "pyInt"), (0, "pyInt"), (1, "pyInt"), (2, "pyInt"), (3, "pyInt"),
                    (2.0, "pyFloat"), (-1.0, "npFloat64"), (2, "npInt64"), (3.0, "zeroDimNum"), (0.5, "pyFloat"),
                    (1.5, "npFloat64")]
            if tier == "quick":
                exps = [x for x in exps if ctx.rng.random() < 0.5] + [(0.5, "pyFloat")]
            for ev, ek in exps:
                eobj = SCALARS[ek][0](ev, d)
                direct, _ = R.execute(lambda: A.binding_power(np.array(p.v), eobj))
                if direct[0] == "ok":
                    expct = {"same": direct[1], "vocab": p.vocab}
                else:
                    expct = {"err": direct[1]}
                frac = int(ev) != ev
                ask = None
                if not (frac and alg == "hrr"):
                    ask = ("pow", [tok, "frac" if frac else int(ev), codes(str(eobj))])
                R.op(dict(base, op="pow", e=str(ev), ekind=ek), lambda: p ** eobj, [p], expct, ask, selfp=p, nontrivial=nz,
                     branch=f"pow-{alg}-{'frac' if frac else 'int'}")
            # unitary / abs: delegation (uninterpreted in the model)
            for mname, afn, pfn in (("unitary", A.make_unitary, lambda: p.unitary()), ("abs", A.abs, lambda: p.abs())):
                with np.errstate(all="ignore"):
                    direct, _ = R.execute(lambda: afn(np.array(p.v)))
                    expct = {"same": direct[1], "vocab": p.vocab} if direct[0] == "ok" else {"err": direct[1]}
                    R.op(dict(base, op=mname), pfn, [p], expct, None, selfp=p, nontrivial=nz, branch=f"{mname}-{alg}")


def scalar_stream(R, alg, d, vs, tier):
    ctx, W = R.ctx, R.W
    for vname, vec in vs:
        nz = any(vec)
        for pk, nm in pointer_kinds():
            if tier == "quick" and ctx.rng.random() < 0.6:
                continue
            p = R.mkp(vec, alg, pk, nm)
            tok = W.ptr_tok(p)
            e = ex(p.v)
            base = {"alg": alg, "d": d, "self": f"{pk}{'N' if nm else 'u'}", "vec": vname, "v": common.qvec(p.v)}
            mag = max([1.0] + [abs(float(x)) for x in e])
            for kind, (ctor, vals) in SCALARS.items():
                for x in vals:
                    if tier == "quick" and ctx.rng.random() < 0.5:
                        continue
                    obj = ctor(x, d)
                    xv = F(float(np.float32(x))) if kind == "npFloat32" else F(float(x)) if kind not in ("other",) else F(0)
                    c = dict(base, kind=kind, x=repr(x))
                    otok = f"O|{kind}|{common.q(xv)}|{codes(str(obj))}"
                    sc = mag * max(1.0, abs(float(xv)))
                    if kind in NUMBER_KINDS:
                        exp_mul = {"v": [a * xv for a in e], "scale": sc, "vocab": p.vocab}
                        exp_div = ({"err": "ZeroDivisionError"} if xv == 0 else
                                   {"v": [a / xv for a in e], "scale": mag / abs(float(xv)) + 1, "vocab": p.vocab})
                        exp_dunder_mul = exp_mul
                        exp_dunder_div = exp_div
                    elif kind in ARRAY_KINDS:
                        exp_mul = exp_div = exp_dunder_mul = exp_dunder_div = {"err": "TypeError"}
                    else:
                        exp_mul = exp_div = {"err": "TypeError"}      # via the operator
                        exp_dunder_mul = exp_dunder_div = None        # `NotImplemented` is not in the statement
                    br = "number" if kind in NUMBER_KINDS else "array" if kind in ARRAY_KINDS else "other"
                    R.op(dict(c, op="mul", form="p*x"), lambda: p * obj, [p, obj], exp_mul, None, selfp=p, nontrivial=nz,
                         branch=f"mul-{br}-operator")
                    R.op(dict(c, op="mul", form="x*p"), lambda: obj * p, [p, obj], exp_mul, None, selfp=p, nontrivial=nz,
                         branch=f"rmul-{br}-operator")
                    R.op(dict(c, op="mul", form="__mul__"), lambda: p.__mul__(obj), [p, obj], exp_dunder_mul,
                         ("mul", [tok, otok, 0]), selfp=p, nontrivial=nz, branch=f"mul-{br}-{kind}")
                    R.op(dict(c, op="mul", form="__rmul__"), lambda: p.__rmul__(obj), [p, obj], exp_dunder_mul,
                         ("mul", [tok, otok, 1]), selfp=p, nontrivial=nz, branch=f"rmul-{br}-{kind}")
                    R.op(dict(c, op="div", form="p/x"), lambda: p / obj, [p, obj], exp_div, None, selfp=p, nontrivial=nz,
                         branch=f"div-{br}-operator" + ("-zero" if xv == 0 and br == "number" else ""))
                    R.op(dict(c, op="div", form="__truediv__"), lambda: p.__truediv__(obj), [p, obj], exp_dunder_div,
                         ("div", [tok, kind, common.q(xv), codes(str(obj))]), selfp=p, nontrivial=nz,
                         branch=f"div-{br}-{kind}" + ("-zero" if xv == 0 and br == "number" else ""))
                    R.op(dict(c, op="rdiv", form="x/p"), lambda: obj / p, [p, obj], {"err": "TypeError"}, None, nontrivial=False,
                         branch="rdiv")
                    # + and - with non-pointers: never a value
                    for form, fn, ask in (("p+x", lambda: p + obj, None), ("x+p", lambda: obj + p, None),
                                          ("p-x", lambda: p - obj, ("sub", [tok, otok])),
                                          ("x-p", lambda: obj - p, ("rsub", [tok, otok]))):
                        if kind == "listOrTuple" and form in ("p-x",):
                            ask = ask  # `-list` raises TypeError too
                        R.op(dict(c, op="addsub", form=form), fn, [p, obj], {"err": "TypeError"}, ask, nontrivial=False,
                             branch="addsub-nonpointer")
                    for form, fn, sw in (("__add__", lambda: p.__add__(obj), 0), ("__radd__", lambda: p.__radd__(obj), 1)):
                        R.op(dict(c, op="add", form=form), fn, [p, obj], {"err": "TypeError"} if kind in ARRAY_KINDS | {
                            "npFloat32", "npFloat64", "npInt64", "zeroDimNum"} else None,
                             ("add", [tok, otok, sw]), nontrivial=False, branch="add-nonpointer-dunder")
            # FixedScalar operand
            fs = FixedScalar(2.5)
            ftok = f"F|5/2|{codes(str(fs))}"
            for form, fn, sw in (("__mul__", lambda: p.__mul__(fs), 0), ("__rmul__", lambda: p.__rmul__(fs), 1)):
                R.op(dict(base, op="mul", form=form, kind="FixedScalar"), fn, [p, fs],
                     {"v": [a * F(5, 2) for a in e], "scale": mag * 2.5, "vocab": p.vocab}, ("mul", [tok, ftok, sw]), selfp=p,
                     nontrivial=nz, branch="mul-fixedscalar")
            R.op(dict(base, op="add", form="__add__", kind="FixedScalar"), lambda: p.__add__(fs), [p, fs], None,
                 ("add", [tok, ftok, 0]), nontrivial=False, branch="add-fixedscalar")


def binary_stream(R, alg, d, vs, tier):
    ctx, W = R.ctx, R.W
    A = ALG[alg]
    m = math.isqrt(d)
    others = [a for a in ALG if a != alg]
    combos = []
    # (self kind, other kind, other algebra, other vocab index, label)
    for sk in pointer_kinds():
        for ok in pointer_kinds():
            combos.append((sk, ok, alg, 0, "same"))
    combos += [(("v", "a"), ("v", "b"), alg, 1, "different-vocab"),
               (("n", "a"), ("n", None), others[0], 0, "different-algebra"),
               (("n", None), ("n", "b"), others[1], 0, "different-algebra"),
               (("v", "a"), ("n", "b"), others[0], 0, "vocab-vs-foreign-algebra"),
               (("n", "a"), ("v", "b"), others[0], 0, "foreign-vocab"),
               (("v", None), ("v", "b"), others[1], 0, "different-vocab-and-algebra")]
    pairs = [(a, b) for a in vs for b in vs]
    for (sk, ok, oalg, vidx, label) in combos:
        sel = pairs if tier != "quick" else [pq for pq in pairs if ctx.rng.random() < (0.22 if label == "same" else 0.12)]
        for (an, av), (bn, bv) in sel:
            p = R.mkp(av, alg, sk[0], sk[1])
            q = R.mkp(bv, oalg, ok[0], "b" if ok[1] else None, vidx)
            ptok, qtok = W.ptr_tok(p), W.ptr_tok(q)
            ea, eb = ex(p.v), ex(q.v)
            nz = any(ea) or any(eb)
            base = {"alg": alg, "d": d, "self": f"{sk[0]}{'N' if sk[1] else 'u'}", "other": f"{ok[0]}{'N' if ok[1] else 'u'}",
                    "rel": label, "a": common.qvec(p.v), "b": common.qvec(q.v)}
            if label != "same":
                base["oalg"] = oalg
            na, nb = math.sqrt(sum(x * x for x in ea)), math.sqrt(sum(x * x for x in eb))
            mag = max(1.0, na, nb)
            okc = label == "same"
            vocab = p.vocab if p.vocab is not None else q.vocab
            ce = {"vocab": vocab}
            bf, s = o_bind(alg, ea, eb)
            bfr, _ = o_bind(alg, eb, ea)
            bsc = max(1.0, na * nb * s)

            def E(d_):
                return d_ if okc else None
            rows = [
                ("add", "__add__", lambda: p.__add__(q), E(dict(ce, v=[x + y for x, y in zip(ea, eb)], scale=mag)), ("add", [ptok, "P|" + qtok, 0]), "ptr"),
                ("add", "p+q", lambda: p + q, E(dict(ce, v=[x + y for x, y in zip(ea, eb)], scale=mag)), None, "ptr"),
                ("add", "__radd__", lambda: p.__radd__(q), E(dict(ce, v=[x + y for x, y in zip(ea, eb)], scale=mag)), ("add", [ptok, "P|" + qtok, 1]), "ptr"),
                ("sub", "__sub__", lambda: p.__sub__(q), E(dict(ce, v=[x - y for x, y in zip(ea, eb)], scale=mag)), ("sub", [ptok, "P|" + qtok]), "ptr"),
                ("sub", "p-q", lambda: p - q, E(dict(ce, v=[x - y for x, y in zip(ea, eb)], scale=mag)), None, "ptr"),
                ("rsub", "__rsub__", lambda: p.__rsub__(q), E(dict(ce, v=[y - x for x, y in zip(ea, eb)], scale=mag)), ("rsub", [ptok, "P|" + qtok]), "ptr"),
                ("mul", "__mul__", lambda: p.__mul__(q), E(dict(ce, v=[float(x) * s for x in bf], scale=bsc, same=None)), ("mul", [ptok, "P|" + qtok, 0]), "ptr"),
                ("mul", "p*q", lambda: p * q, E(dict(ce, v=[float(x) * s for x in bf], scale=bsc)), None, "ptr"),
                ("rmul", "__rmul__", lambda: p.__rmul__(q), E(dict(ce, v=[float(x) * s for x in bfr], scale=bsc)), ("mul", [ptok, "P|" + qtok, 1]), "ptr"),
                ("bind", "bind", lambda: p.bind(q), E(dict(ce, v=[float(x) * s for x in bf], scale=bsc)), ("bind", [ptok, qtok]), "ptr"),
                ("rbind", "rbind", lambda: p.rbind(q), E(dict(ce, v=[float(x) * s for x in bfr], scale=bsc)), ("rbind", [ptok, qtok]), "ptr"),
            ]
            dotv = float(sum(x * y for x, y in zip(ea, eb)))
            cmpv = 0.0 if na * nb == 0 else dotv / (na * nb)
            msev = float(sum((x - y) ** 2 for x, y in zip(ea, eb)) / d)
            dsc = max(1.0, na * nb)
            rows += [
                ("dot", "dot", lambda: p.dot(q), E({"val": dotv, "scale": dsc}), ("dot", [ptok, "P|" + qtok]), "rat"),
                ("dot", "p@q", lambda: p @ q, E({"val": dotv, "scale": dsc}), None, "rat"),
                ("compare", "compare", lambda: p.compare(q), E({"val": cmpv, "scale": 1.0}), ("compare", [ptok, "P|" + qtok]), "rat"),
                ("distance", "distance", lambda: p.distance(q), E({"val": 1 - cmpv, "scale": 1.0}), ("distance", [ptok, "P|" + qtok]), "rat"),
                ("mse", "mse", lambda: p.mse(q), E({"val": msev, "scale": max(1.0, msev)}), ("mse", [ptok, "P|" + qtok]), "rat"),
            ]
            if okc and sk == ("n", None):
                rtok = "R|" + common.qvec(q.v)
                arr, lst = np.array(q.v), [float(x) for x in q.v]
                rows += [
                    ("dot", "dot(array)", lambda: p.dot(arr), {"val": dotv, "scale": dsc}, ("dot", [ptok, rtok]), "rat"),
                    ("dot", "dot(list)", lambda: p.dot(lst), {"val": dotv, "scale": dsc}, None, "rat"),
                    ("dot", "p@array", lambda: p @ arr, {"val": dotv, "scale": dsc}, None, "rat"),
                    ("compare", "compare(array)", lambda: p.compare(arr), {"val": cmpv}, ("compare", [ptok, rtok]), "rat"),
                    ("distance", "distance(array)", lambda: p.distance(arr), {"val": 1 - cmpv}, ("distance", [ptok, rtok]), "rat"),
                    ("mse", "mse(array)", lambda: p.mse(arr), {"val": msev, "scale": max(1.0, msev)}, ("mse", [ptok, rtok]), "rat"),
                ]
                operands_extra = [arr]
            else:
                operands_extra = []
            for opn, form, fn, expct, ask, kind in rows:
                if expct is not None and expct.get("same", 0) is None:
                    expct = dict(expct, same=A.bind(np.array(p.v), np.array(q.v)))
                zero_branch = opn in ("compare", "distance") and na * nb == 0
                R.op(dict(base, op=opn, form=form), fn, [p, q] + operands_extra, expct, ask, kind=kind, selfp=p,
                     nontrivial=nz and okc, branch=f"{opn}-{label}" + ("-zero" if zero_branch else ""))


def spy_stream(R, tier):
    """operand order and 'own algebra' by the call log of a recording proxy"""
    ctx = R.ctx
    rng = ctx.rng
    for basename in ("hrr", "vtb", "tvtb", None):
        for d in (4, 9):
            for rep in range(2 if tier == "quick" else 6):
                spy = Spy(ALG[basename] if basename else None)
                other_spy = Spy(ALG[basename] if basename else None)     # an equal but different algebra object
                a = np.array([rng.randint(-8, 8) / 4 for _ in range(d)]) + (0.25 if rep else 0)
                b = np.array([rng.randint(-8, 8) / 4 for _ in range(d)]) + 0.5
                use_vocab = rep % 2 == 1
                V = Vocabulary(d, algebra=spy) if use_vocab else None
                p = SP(a, vocab=V, name="a") if use_vocab else SP(a, algebra=spy, name="a")
                q = SP(b, algebra=spy)
                ab, bb, nab, nbb = a.tobytes(), b.tobytes(), (-a).tobytes(), (-b).tobytes()
                table = [
                    ("add", lambda: p + q, [("superpose", ab, bb)]),
                    ("radd", lambda: p.__radd__(q), [("superpose", bb, ab)]),
                    ("sub", lambda: p - q, [("superpose", ab, nbb)]),
                    ("rsub", lambda: p.__rsub__(q), [("superpose", nab, bb)]),
                    ("mul", lambda: p * q, [("bind", ab, bb)]),
                    ("rmul", lambda: p.__rmul__(q), [("bind", bb, ab)]),
                    ("bind", lambda: p.bind(q), [("bind", ab, bb)]),
                    ("rbind", lambda: p.rbind(q), [("bind", bb, ab)]),
                    ("invert", lambda: ~p, [("invert", ab, "TWO_SIDED")]),
                    ("linv", lambda: p.linv(), [("invert", ab, "LEFT")]),
                    ("rinv", lambda: p.rinv(), [("invert", ab, "RIGHT")]),
                    ("pow", lambda: p ** 2, [("binding_power", ab, 2.0)]),
                    ("pow-neg", lambda: p ** np.float64(-1.0), [("binding_power", ab, -1.0)]),
                    ("unitary", lambda: p.unitary(), [("make_unitary", ab)]),
                    ("abs", lambda: p.abs(), [("abs", ab)]),
                    ("mat", lambda: p.get_binding_matrix(), [("get_binding_matrix", ab, False)]),
                    ("mat-swap", lambda: p.get_binding_matrix(swap_inputs=True), [("get_binding_matrix", ab, True)]),
                    ("neg", lambda: -p, []), ("scale", lambda: p * 2.5, []), ("rscale", lambda: np.float32(2.5) * p, []),
                    ("div", lambda: p / 4, []), ("copy", lambda: p.copy(), []), ("normalized", lambda: p.normalized(), []),
                    ("dot", lambda: p.dot(q), []), ("compare", lambda: p.compare(q), []), ("mse", lambda: p.mse(q), []),
                    ("distance", lambda: p.distance(q), []), ("length", lambda: p.length(), []), ("len", lambda: len(p), []),
                ]
                for name, fn, want in table:
                    spy.log.clear()
                    other_spy.log.clear()
                    case = {"op": "spy-" + name, "base": basename or "custom", "d": d, "a": common.qvec(a), "b": common.qvec(b),
                            "vocab": use_vocab}
                    before = (snapshot(p), snapshot(q))
                    with warnings.catch_warnings():
                        warnings.simplefilter("ignore")
                        with np.errstate(all="ignore"):
                            try:
                                r = fn()
                                err = None
                            except Exception as e:  # noqa
                                r, err = None, e
                    ctx.count(" ".join(f"{k}={v}" for k, v in case.items()), branch="spy-" + (basename or "custom"))
                    # the algebra may call itself internally (abs -> bind ...): only top-level expectation: first call
                    log = [c for c in spy.log]
                    if want:
                        if not log or log[0] != want[0]:
                            ctx.fail(case, [c[0] for c in log][:3] + [_which(c, ab, bb, nab, nbb) for c in log[:1]],
                                     f"{want[0][0]} with operands in order {_which(want[0], ab, bb, nab, nbb)}",
                                     where=f"algebra-call-order-{name}")
                    elif log:
                        ctx.fail(case, [c[0] for c in log][:3], "no algebra call", where=f"algebra-call-unexpected-{name}")
                    if before != (snapshot(p), snapshot(q)):
                        ctx.fail(case, "operand changed", "operands are never modified", where="operand-modified")
                    if err is None and isinstance(r, SP):
                        if r.algebra is not spy:
                            ctx.fail(case, type(r.algebra).__name__, "the algebra object of self", where=f"result-algebra-{name}")
                        check_frozen(ctx, case, r.v, "result.v")
                        # value for the custom algebra (no shipped algebra gives these)
                        if basename is None:
                            wantv = {"add": a + 2 * b, "radd": b + 2 * a, "sub": a + 2 * (-b), "rsub": (-a) + 2 * b,
                                     "mul": a * b + a, "rmul": b * a + b, "bind": a * b + a, "rbind": b * a + b,
                                     "invert": a[::-1], "linv": 3 * a, "rinv": 5 * a, "pow": a * 2.0, "pow-neg": -a,
                                     "unitary": a + 11.0, "abs": np.abs(a) + 13.0}.get(name)
                            if wantv is not None and not np.array_equal(r.v, wantv):
                                ctx.fail(case, r.v.tolist()[:6], wantv.tolist()[:6], where=f"custom-algebra-value-{name}")
                # pointers of two different (equal-behaving) algebra objects must not be combined silently
                q2 = SP(b, algebra=other_spy)
                for name, fn in (("add", lambda: p + q2), ("mul", lambda: p * q2), ("dot", lambda: p.dot(q2))):
                    if use_vocab:
                        continue
                    try:
                        fn()
                        got = "value"
                    except TypeError:
                        got = "TypeError"
                    except Exception as e:  # noqa
                        got = type(e).__name__
                    ctx.count(f"spy-mismatch {name} {basename} {d} {rep}", branch="spy-algebra-mismatch")


def _which(call, ab, bb, nab, nbb):
    names = {ab: "a", bb: "b", nab: "-a", nbb: "-b"}
    return [names.get(x, x if not isinstance(x, bytes) else "?") for x in call[1:]]


def memory_stream(R, tier):
    """constructor copies and freezes; heap model `C07.Mem` against real arrays"""
    ctx = R.ctx
    rng = ctx.rng
    n = 60 if tier == "quick" else 400
    for it in range(n):
        d = rng.choice([2, 3, 4])
        arrs = [np.array([rng.randint(-4, 4) / 2 for _ in range(d)])]
        if rng.random() < 0.3:
            arrs[0].setflags(write=False)
        h0 = ";".join(f"{common.qvec(a)}:{int(a.flags.writeable)}" for a in arrs)
        acts, ptrs = [], []
        for _ in range(rng.randint(1, 8)):
            kind = rng.choice(["w", "w", "c", "c", "a"])
            if kind == "w":
                r_, i, x = rng.randrange(len(arrs)), rng.randrange(d), rng.randint(-9, 9) / 2
                acts.append(f"w:{r_}:{i}:{common.q(x)}")
                try:
                    arrs[r_][i] = x
                except ValueError:
                    pass
            elif kind == "c":
                r_ = rng.randrange(len(arrs))
                acts.append(f"c:{r_}")
                src = arrs[r_]
                p = SP(src, algebra=ALG[rng.choice(list(ALG))] if d == 4 else None)
                ptrs.append((p, p.v.tobytes()))
                if p.v is src or np.shares_memory(p.v, src):
                    ctx.fail({"op": "construct", "d": d, "actions": acts[:]}, "pointer vector aliases the argument",
                             "a copy", where="constructor-no-copy")
                arrs.append(p.v)
            else:
                v = np.array([rng.randint(-4, 4) / 2 for _ in range(d)])
                fl_ = rng.random() < 0.5
                v.setflags(write=fl_)
                acts.append(f"a:{common.qvec(v)}:{int(fl_)}")
                arrs.append(v)
        case = {"op": "mem", "h0": h0, "actions": ";".join(acts)}
        ctx.count(f"mem {h0} {case['actions']}", nontrivial=any(a.startswith("c") for a in acts), branch="heap-actions")
        ctx.sample(case, limit=9)
        for p, snap in ptrs:
            if p.v.tobytes() != snap:
                ctx.fail(case, "a constructed pointer's vector changed", "immutable", where="pointer-vector-changed")
            check_frozen(ctx, case, p.v, "p.v")
        final = ";".join(f"{common.qvec(a)}:{int(a.flags.writeable)}" for a in arrs)

        def cb(st, payload, case=case, final=final):
            if st != "ok" or payload != final:
                ctx.diff(case, final, f"{st} {payload}", op="mem")
        if not R.nd:
            ctx.ask("mem", [h0, case["actions"] or "-"], cb)
    # constructor forms
    for data, label in (([1.0, 2.0], "list"), ((1, 2, 3), "tuple-int"), (np.array([1, 2, 3]), "int-array"),
                        (np.array([1.5, 2.5], dtype=np.float32), "float32-array"), (np.arange(4.0)[::2], "strided-view")):
        case = {"op": "construct-form", "data": label}
        snap = snapshot(data) if isinstance(data, np.ndarray) else None
        p = SP(data)
        ctx.count(f"construct-form {label}", branch="constructor-forms")
        check_frozen(ctx, case, p.v, "p.v")
        if p.v.dtype != np.float64 or [float(x) for x in p.v] != [float(x) for x in data]:
            ctx.fail(case, str(p.v), "float copy of the data", where="constructor-value")
        if isinstance(data, np.ndarray):
            if snapshot(data) != snap or not data.flags.writeable:
                ctx.fail(case, "argument array changed or frozen", "the argument stays writable and unchanged",
                         where="constructor-freezes-argument")
            try:
                data[0] = 77
            except ValueError:
                pass
            if float(p.v[0]) == 77.0:
                ctx.fail(case, "later write to the argument reached the pointer", "independent copy", where="constructor-no-copy")
    # mk correspondence (vocab / algebra / default)
    for alg in ALG:
        V = R.vocab(alg, 4, 2)
        for vocab, algebra in ((None, None), (V, None), (None, ALG[alg]), (V, ALG[alg]), (V, ALG["hrr" if alg != "hrr" else "vtb"])):
            case = {"op": "mk", "alg": alg, "vocab": vocab is not None, "algebra": None if algebra is None else R.W.alg_id(algebra)}
            out, _ = R.execute(lambda: SP(np.array([1.0, 2.0, 3.0, 4.0]), vocab=vocab, algebra=algebra, name="n"))
            ctx.count(f"mk {case}", branch="constructor-vocab-algebra")

            def cb(st, payload, case=case, out=out):
                if st == "err":
                    if not (out[0] == "err" and out[1] == payload):
                        ctx.diff(case, list(out)[:2], f"err {payload}", op="mk")
                    return
                parts = payload.split("|")
                if out[0] != "ok" or [R.W.voc_tok(out[1].vocab), str(R.W.alg_id(out[1].algebra)), name_tok(out[1]._expr_tree)] != parts[1:4]:
                    ctx.diff(case, list(out)[:2], payload, op="mk")
            if not R.nd:
                ctx.ask("mk", [0, "1,2,3,4", R.W.voc_tok(vocab), "-" if algebra is None else R.W.alg_id(algebra), "L;110"], cb)


def kind_stream(R):
    from nengo_spa.typechecks import is_array, is_array_like, is_number
    ctx = R.ctx
    for kind, (ctor, vals) in SCALARS.items():
        for x in vals:
            obj = ctor(x, 3)
            bits = "".join("1" if f(obj) else "0" for f in (is_number, is_array, is_array_like))
            case = {"op": "kind", "kind": kind, "x": repr(x)}
            ctx.count(f"kind {kind} {x!r}", branch="typechecks")
            want_num = kind in NUMBER_KINDS
            if (bits[0] == "1") != want_num:
                ctx.fail(case, bits, f"is_number={want_num}", where="is-number")

            def cb(st, payload, case=case, bits=bits):
                if st != "ok" or payload != bits:
                    ctx.diff(case, bits, f"{st} {payload}", op="kind")
            if not R.nd:
                ctx.ask("kind", [kind], cb)


def malformed_stream(R):
    """unequal dimensionalities: never a value (oracle only; the model types this away)"""
    ctx = R.ctx
    for alg in ALG:
        p, q = R.mkp([1, 2, 3, 4], alg, "n"), R.mkp([1] * 9, alg, "n")
        for name, fn in (("add", lambda: p + q), ("sub", lambda: p - q), ("mul", lambda: p * q), ("dot", lambda: p.dot(q)),
                         ("mse", lambda: p.mse(q)), ("compare", lambda: p.compare(q))):
            out, _ = R.execute(fn)
            ctx.count(f"malformed {alg} {name}", nontrivial=False, branch="malformed-unequal-length")
            if out[0] == "ok":
                ctx.fail({"op": "malformed", "alg": alg, "method": name}, "a value", "an error for unequal lengths",
                         where="unequal-length-accepted")
        for data in (np.ones((2, 2)), 3.0):
            out, _ = R.execute(lambda: SP(data))
            ctx.count(f"malformed ctor {np.shape(data)}", nontrivial=False, branch="malformed-constructor")
            if out[0] == "ok":
                ctx.fail({"op": "malformed-ctor", "shape": str(np.shape(data))}, "accepted", "ValidationError",
                         where="constructor-non-vector")


def long_chain_stream(R, tier):
    """One operator applied n times in a row (n up to a few thousand) to pointers with and without vocabulary
    and name: every application still returns the algebra's result (no failure that depends on the HISTORY of the
    operand, such as an ever-growing name).  Exact oracles: negation and the inverses are sign changes /
    permutations, the scalar factor is a power of two."""
    ctx = R.ctx
    ns = (40, 520, 1300) if tier == "quick" else (40, 250, 520, 1300, 3000)
    ops = {
        "neg": (lambda p: -p, lambda a, v: [-x for x in v]),
        "inv": (lambda p: ~p, lambda a, v: o_inv(a, v)),
        "neg-inv": (lambda p: -(~p), lambda a, v: [-x for x in o_inv(a, v)]),
        "rinv": (lambda p: p.rinv(), lambda a, v: o_inv(a, v)),
        "half-double": (lambda p: (p * 0.5) * 2, lambda a, v: list(v)),
        "copy": (lambda p: p.copy(), lambda a, v: list(v)),
    }
    for alg in ALG:
        d = 4
        base_v = [F(1), F(-2), F(3, 4), F(5)]
        for kind, name in (("v", "A"), ("n", "a"), ("n", None)):
            for oname, (fn, orc) in ops.items():
                for n in ns:
                    case = {"op": "long-chain", "alg": alg, "d": d, "self": kind + ("+name" if name else ""), "operator": oname,
                            "applications": n}
                    ctx.count(" ".join(f"{k}={v}" for k, v in case.items()), branch="long-chain")
                    p = R.mkp(base_v, alg, kind, name=name)
                    want = list(base_v)
                    failed = None
                    with warnings.catch_warnings():
                        warnings.simplefilter("ignore")
                        for i in range(n):
                            try:
                                p = fn(p)
                            except BaseException as e:  # noqa: BLE001  (RecursionError is the interesting one)
                                if isinstance(e, (KeyboardInterrupt, SystemExit)):
                                    raise
                                failed = (i, f"{type(e).__name__}: {e}"[:90])
                                break
                            want = orc(alg, want)
                    if failed:
                        ctx.fail(dict(case, failed_at=failed[0]), failed[1], "the algebra's result, as for the first application",
                                 where="long-chain-raises")
                        continue
                    if [float(x) for x in p.v] != [float(x) for x in want]:
                        ctx.fail(case, [float(x) for x in p.v], [float(x) for x in want], where="long-chain-value")
                    try:
                        nm = p.name
                        _ = None if nm is None else len(nm)
                    except BaseException as e:  # noqa: BLE001
                        if isinstance(e, (KeyboardInterrupt, SystemExit)):
                            raise
                        ctx.fail(case, f"reading .name: {type(e).__name__}", "a name or None", where="long-chain-name-raises")


def special_receiver_stream(R, tier):
    """The special elements (instances of SemanticPointer SUBCLASSES: Identity, NegativeIdentity, AbsorbingElement,
    Zero — built directly and as handed out by a vocabulary) are Semantic Pointers: every operator and method gives
    on them what it gives on a plain pointer with the same vector, algebra and vocabulary."""
    from nengo_spa import semantic_pointer as spm
    from nengo_spa.algebras.base import ElementSidedness as ES
    ctx = R.ctx
    p_ops = {
        "copy": lambda p, q: p.copy(), "neg": lambda p, q: -p, "normalized": lambda p, q: p.normalized(),
        "length": lambda p, q: p.length(), "len": lambda p, q: len(p), "half": lambda p, q: p * 0.5,
        "div": lambda p, q: p / 4, "rhalf": lambda p, q: 0.5 * p, "add": lambda p, q: p + q, "radd": lambda p, q: q + p,
        "sub": lambda p, q: p - q, "rsub": lambda p, q: q - p, "mul": lambda p, q: p * q, "rmul": lambda p, q: q * p,
        "dot": lambda p, q: p.dot(q), "compare": lambda p, q: p.compare(q), "mse": lambda p, q: p.mse(q),
        "distance": lambda p, q: p.distance(q), "rinv": lambda p, q: p.rinv(), "pow2": lambda p, q: p ** 2,
        "mat": lambda p, q: p.get_binding_matrix(), "reinterpret": lambda p, q: p.reinterpret(p.vocab),
    }
    for alg, A in ALG.items():
        for d in (4, 9) if tier == "quick" else (4, 9, 16):
            vocab = R.vocab(alg, d)
            side = {"sidedness": ES.RIGHT} if alg == "vtb" else {}
            makers = [("Identity", lambda: spm.Identity(d, algebra=A, **side)), ("Zero", lambda: spm.Zero(d, algebra=A)),
                      ("NegativeIdentity", lambda: spm.NegativeIdentity(d, algebra=A, **side)),
                      ("Identity-of-vocab", lambda: spm.Identity(d, vocab=vocab, **side)),
                      ("vocab[Identity]", lambda: vocab["Identity"]), ("vocab[Zero]", lambda: vocab["Zero"]),
                      ("parse(Zero)", lambda: vocab.parse("Zero"))]
            if alg == "hrr":
                makers += [("AbsorbingElement", lambda: spm.AbsorbingElement(d, algebra=A)),
                           ("vocab[AbsorbingElement]", lambda: vocab["AbsorbingElement"])]
            other_v = fl([F(1), F(-2), F(3, 4)] + [F(1, 2)] * (d - 3))
            for rname, mk in makers:
                with warnings.catch_warnings():
                    warnings.simplefilter("ignore")
                    try:
                        r = mk()
                    except Exception as e:  # noqa: BLE001
                        ctx.fail({"op": "special-receiver", "alg": alg, "d": d, "receiver": rname}, f"{type(e).__name__}: {e}"[:80],
                                 "the special element", where="special-receiver-construct")
                        continue
                    plain = SP(np.array(r.v), vocab=r.vocab) if r.vocab is not None else SP(np.array(r.v), algebra=A)
                    q = SP(other_v, vocab=r.vocab) if r.vocab is not None else SP(other_v, algebra=A)
                    for oname, fn in p_ops.items():
                        case = {"op": "special-receiver", "alg": alg, "d": d, "receiver": rname, "operator": oname}
                        ctx.count(" ".join(f"{k}={v}" for k, v in case.items()), branch="special-receiver")
                        outs = []
                        for obj in (r, plain):
                            try:
                                outs.append(("ok", fn(obj, q)))
                            except Exception as e:  # noqa: BLE001
                                outs.append(("err", type(e).__name__))
                        (s1, a), (s2, b) = outs
                        same = s1 == s2 and (
                            (s1 == "err" and a == b) or
                            (s1 == "ok" and isinstance(a, SP) and isinstance(b, SP) and np.array_equal(a.v, b.v)
                             and a.algebra is b.algebra and a.vocab is b.vocab) or
                            (s1 == "ok" and not isinstance(a, SP) and not isinstance(b, SP)
                             and np.array_equal(np.asarray(a, dtype=float), np.asarray(b, dtype=float))))
                        if not same:
                            ctx.fail(case, [s1, a if s1 == "err" else type(a).__name__], [s2, b if s2 == "err" else "the plain pointer's result"],
                                     where="special-receiver-differs")


def run(ctx):
    R = Run(ctx)
    tier = ctx.tier
    dims = [4, 9] if tier == "quick" else [4, 9, 16]
    kind_stream(R)
    for alg in ALG:
        for d in dims:
            vs = vectors(ctx, d, tier)
            unary_stream(R, alg, d, vs, tier)
            scalar_stream(R, alg, d, vs if tier != "quick" else vs[:4], tier)
            binary_stream(R, alg, d, vs if tier != "quick" or d < 16 else vs[:3], tier)
        if tier == "quick":
            vs = vectors(ctx, 16, tier)[:4]
            unary_stream(R, alg, 16, vs[2:4], tier)
            binary_stream(R, alg, 16, vs[1:4], tier)
    spy_stream(R, tier)
    long_chain_stream(R, tier)
    special_receiver_stream(R, tier)
    memory_stream(R, tier)
    malformed_stream(R)
    import time as _t
    t0 = _t.time()
    if not R.nd:
        ctx.flush(DRIVER)
    ctx.note(f"driver wall {_t.time() - t0:.1f}s")
    ctx.extra["algebras"] = list(ALG) + ["recording proxy of each", "custom non-commutative non-additive algebra"]
    ctx.extra["dimensions"] = dims + ([16] if tier == "quick" else [])

"""C19 — vector generators deliver vectors with their advertised properties.

Tie: every vector yielded by AxisAlignedVectors, UnitLengthVectors, ExpectedUnitLengthVectors,
OrthonormalVectors, UnitaryVectors, VectorsWithProperties / create_vector (three algebras, all
property sets) and EquallySpacedPositiveUnitaryHrrVectors against the Lean model `C19.Impl`
(drivers/C19.lean): StopIteration positions, the orthogonalisation step (checked exact solve), the
create_vector outcome (vector kind / ValueError / ImportError / warning / number of draws), the
phase schedule of the equally spaced vectors (`rfft(v_k)[j]` against `exp(2πi·coefTurn)`), and the
exact residuals of the advertised properties.

Oracle (independent of the model): the advertised property evaluated *exactly* on the
implementation's floats with Python integers in this file (norm² − 1, Gram − I, u ⊛ ~u − δ,
m·UUᵀ − I, DC/Nyquist sign) ≤ 1e-9; the laws of the statement on the implementation itself (step law,
n-fold return, offset 0 = identity, refinement laws) at 1e-9; bitwise equality against a twin
RandomState.  Statements about random draws are per-draw certificates.
"""
import cmath
import itertools
import math
import warnings

import numpy as np

import common
from common import Fraction as F
from nengo_spa import vector_generation as vg
from nengo_spa.algebras import HrrAlgebra, TvtbAlgebra, VtbAlgebra

PROPERTY = "C19"
LEAN_MODULES = ["SpaModel.Props.C19", "SpaModel.Props.C19S"]
AUDIT = "SpaModel/Audit/C19.lean"
DRIVER = "drivers/C19.lean"
RULE = ("one case = one yielded vector (or one refused request) of one generator configuration "
        "(generator, algebra, d, n, offset, property set, seed, request number); non-trivial = d >= 2 "
        "(a 1-dimensional vector has no orthogonality/step structure); distinct by the configuration key "
        "including the request number")
ASSUMPTIONS = ["numpy.random.RandomState is a stream of draws; nothing is claimed about their distribution "
               "(statements about random draws are per-draw certificates)",
               "np.linalg.solve / norm / exp / complex power / irfft are modelled by their meaning (post-condition, "
               "phase schedule) and tied numerically at 1e-9",
               "SciPy is absent in the pinned environment: the SciPy branch of VTB/TVTB create_vector(positive) "
               "is modelled (createMat true) but cannot be exercised"]
TOL = 1e-9

ALGS = {"hrr": HrrAlgebra(), "vtb": VtbAlgebra(), "tvtb": TvtbAlgebra()}
OFFSETS = [0.0, 0.5, 1.0, 2.25, -1.0]


# ---------------------------------------------------------------- exact arithmetic on floats
def ints(v):
    """floats -> (integers, e) with v[i] == ints[i] / 2**e exactly"""
    fr = [F(float(x)) if math.isfinite(float(x)) else F(2) ** 600 for x in v]    # non-finite -> huge residual
    e = max([f.denominator.bit_length() - 1 for f in fr] + [0])
    return [f.numerator * (1 << e) // f.denominator for f in fr], e


def xdot(a, b):
    (ia, ea), (ib, eb) = a, b
    return F(sum(x * y for x, y in zip(ia, ib)), 1 << (ea + eb))


def gram_residual(vs):
    """max |<v_i, v_j> - delta_ij|, exact"""
    iv = [ints(v) for v in vs]
    worst = F(0)
    for i in range(len(iv)):
        for j in range(i, len(iv)):
            r = abs(xdot(iv[i], iv[j]) - (1 if i == j else 0))
            if r > worst:
                worst = r
    return worst


def hrr_unit_residual(u):
    """max |(u ⊛ ~u)[i] - delta_i|, exact: (u ⊛ ~u)[i] = sum_j u_j u_{(j-i) mod d}"""
    iu, e = ints(u)
    d = len(iu)
    worst = F(0)
    for i in range(d // 2 + 1):          # the autocorrelation is symmetric: r[i] == r[d-i]
        s = sum(iu[j] * iu[(j - i) % d] for j in range(d))
        r = abs(F(s, 1 << (2 * e)) - (1 if i == 0 else 0))
        if r > worst:
            worst = r
    return worst


def mat_unit_residual(u):
    """max |m (U U^T) - I|, exact"""
    d = len(u)
    m = math.isqrt(d)
    iu, e = ints(u)
    rows = [iu[i * m:(i + 1) * m] for i in range(m)]
    worst = F(0)
    for i in range(m):
        for j in range(i, m):
            s = sum(x * y for x, y in zip(rows[i], rows[j]))
            r = abs(m * F(s, 1 << (2 * e)) - (1 if i == j else 0))
            if r > worst:
                worst = r
    return worst


def unit_residual(alg, u):
    return hrr_unit_residual(u) if alg == "hrr" else mat_unit_residual(u)


def hrr_dc_nyq(u):
    iu, e = ints(u)
    return F(sum(iu), 1 << e), F(sum(x if i % 2 == 0 else -x for i, x in enumerate(iu)), 1 << e)


def circ_bind(a, b):
    """circular convolution by the circulant matrix (independent of HrrAlgebra.bind's FFT path)"""
    d = len(a)
    idx = (np.arange(d)[:, None] - np.arange(d)[None, :]) % d
    return a[idx] @ b


def vecs_tok(vs):
    return ";".join(common.qvec(v) for v in vs) if len(vs) else "-"


def fl(x):
    try:
        return float(x)
    except OverflowError:
        return math.inf


def finite(*vs):
    return all(np.all(np.isfinite(np.asarray(v, dtype=float))) for v in vs)


def root_tie(d):
    """direction of the float root -1 (model parameter `tie`): a fact about IEEE rounding of the
    expression `np.exp(2j*pi*idx/cc)`, evaluated here, not read off the generator"""
    cc = (d + 1) // 2
    if cc % 2:
        return 0
    z = np.exp(2.0j * np.pi * np.arange(start=cc, stop=d % 2 - 1, step=-1) / cc)
    return int(z[cc // 2].imag < 0)


class CountRng:
    """a RandomState that counts its randn calls"""

    def __init__(self, seed):
        self.rs = np.random.RandomState(seed)
        self.calls = 0

    def randn(self, *a):
        self.calls += 1
        return self.rs.randn(*a)


class StubRng:
    """deterministic 'draws' (vectors with vanishing Fourier coefficients never come out of randn)"""

    def __init__(self, rows):
        self.rows = [np.array(r, dtype=float) for r in rows]
        self.i = 0

    def randn(self, d):
        r = self.rows[self.i % len(self.rows)]
        self.i += 1
        assert len(r) == d
        return r.copy()


def hrr_dims(tier):
    return list(range(1, 33)) if tier == "quick" else list(range(1, 65))


def sq_dims(tier):
    return [1, 4, 9, 16, 25] + ([] if tier == "quick" else [36, 49, 64])


def seeds(ctx, k):
    return [ctx.rng.randrange(2 ** 31) for _ in range(k)]


# ---------------------------------------------------------------- the sections
def sec_axis(ctx, nd):
    for d in [0] + hrr_dims(ctx.tier):
        g = vg.AxisAlignedVectors(d)
        got, stop_at = [], None
        for t in range(d + 2):
            try:
                got.append(next(g))
            except StopIteration:
                stop_at = t
                break
        case = {"gen": "AxisAlignedVectors", "d": d}
        toks = []
        for t, v in enumerate(got):
            ctx.count(f"axis {d} {t}", nontrivial=d >= 2, branch="axis-vector")
            want = [1.0 if j == t else 0.0 for j in range(d)]
            if len(v) != d or [float(x) for x in v] != want:
                ctx.fail(dict(case, request=t), [float(x) for x in v], want, where="axis-aligned-order")
            toks.append(common.qvec(v))
        ctx.count(f"axis {d} stop", nontrivial=d >= 2, branch="axis-stop")
        if stop_at != d:
            ctx.fail(case, f"StopIteration at request {stop_at}", f"exactly {d} vectors", where="axis-aligned-exhaustion")
        impl = ";".join(toks + ["stop"])
        ctx.sample(dict(case, impl=impl[:60]), limit=2)

        def cb(st, payload, case=case, impl=impl):
            if st != "ok" or payload != impl:
                ctx.diff(case, impl[:200], f"{st} {payload[:200]}", op="axis")
        if not nd:
            ctx.ask("axis", [d], cb)


def sec_unit_length(ctx, nd):
    T = 3
    for d in hrr_dims(ctx.tier):
        for seed in seeds(ctx, 2):
            g = vg.UnitLengthVectors(d, rng=np.random.RandomState(seed))
            g2 = vg.UnitLengthVectors(d, rng=np.random.RandomState(seed))
            e = vg.ExpectedUnitLengthVectors(d, rng=np.random.RandomState(seed))
            e2 = vg.ExpectedUnitLengthVectors(d, rng=np.random.RandomState(seed))
            twin = np.random.RandomState(seed)
            g3 = vg.UnitLengthVectors(d, rng=np.random.RandomState(seed))
            e3 = vg.ExpectedUnitLengthVectors(d, rng=np.random.RandomState(seed))
            for t in range(T):
                draw = twin.randn(d)
                v, v2, w, w2 = next(g), next(g2), next(e), next(e2)
                # the generators' `.next()` method (where a class offers it) is another spelling of the same draw
                for gen3, ref, gname in ((g3, v, "UnitLengthVectors"), (e3, w, "ExpectedUnitLengthVectors")):
                    x3 = gen3.next() if (t % 2 == 0 and hasattr(gen3, "next")) else next(gen3)
                    if not np.array_equal(x3, ref):
                        ctx.fail({"gen": gname, "d": d, "seed": seed, "request": t, "drawn_with": ".next()" if t % 2 == 0 else "next()"},
                                 [float(z) for z in x3][:6], [float(z) for z in ref][:6], where="next-method-differs")
                case = {"gen": "UnitLengthVectors", "d": d, "seed": seed, "request": t}
                ctx.count(f"unitlength {d} {seed} {t}", nontrivial=d >= 2, branch="unit-length")
                res = gram_residual([v])
                if len(v) != d or res > TOL:
                    ctx.fail(case, f"len {len(v)}, |norm^2-1| = {fl(res):.3e}", "length d, unit norm", where="unit-length")
                if not np.array_equal(v, draw / np.linalg.norm(draw)):
                    ctx.fail(case, "differs from randn(d)/norm on a twin RandomState", "normalised Gaussian draw",
                             where="unit-length-draw")
                if not np.array_equal(v, v2):
                    ctx.fail(case, "two generators with equal RandomStates differ", "same sequence", where="reproducible")
                if t == 0 and not nd and finite(v):
                    def cb(st, payload, case=case, res=res):
                        if st != "ok" or F(payload) != res:
                            ctx.diff(case, str(res)[:80], f"{st} {payload[:80]}", op="gram")
                    ctx.ask("gram", [d, vecs_tok([v])], cb)
                case = {"gen": "ExpectedUnitLengthVectors", "d": d, "seed": seed, "request": t}
                ctx.count(f"expected {d} {seed} {t}", nontrivial=d >= 2, branch="expected-unit-length")
                # components scaled by 1/sqrt(d) of the standard normal draws: exact check of d*v_i^2 vs draw_i^2
                ok = len(w) == d and all(
                    abs(float(F(float(wi)) ** 2 * d - F(float(di)) ** 2)) <= 1e-12 * max(1.0, float(di) ** 2)
                    and (wi >= 0) == (di >= 0) for wi, di in zip(w, draw))
                if not ok:
                    ctx.fail(case, [float(x) for x in w][:8], "randn(d)/sqrt(d) of a twin RandomState", where="expected-unit-length")
                if not np.array_equal(w, draw / np.sqrt(d)):
                    ctx.diff(case, "value", "randn(d) / sqrt(d) bitwise", op="expected-unit-length")
                if not np.array_equal(w, w2):
                    ctx.fail(case, "two generators with equal RandomStates differ", "same sequence", where="reproducible")
            ctx.sample({"gen": "UnitLengthVectors", "d": d, "seed": seed, "norm2_minus_1": fl(res)}, limit=3)


def sec_orthonormal(ctx, nd):
    step_max = 6 if ctx.tier == "quick" else 9
    gram_driver = (lambda d: d <= 16 or d == 32) if ctx.tier == "quick" else (lambda d: d <= 32 or d in (48, 64))
    for d in hrr_dims(ctx.tier):
        for si, seed in enumerate(seeds(ctx, 2)):
            g = vg.OrthonormalVectors(d, rng=np.random.RandomState(seed))
            g2 = vg.OrthonormalVectors(d, rng=np.random.RandomState(seed))
            twin = np.random.RandomState(seed)
            vs, draws, stops = [], [], []
            for t in range(d + 2):
                draws.append(twin.randn(d))
                try:
                    v = next(g)
                    v2 = next(g2)
                    vs.append(np.array(v))
                    if not np.array_equal(v, v2):
                        ctx.fail({"gen": "OrthonormalVectors", "d": d, "seed": seed, "request": t},
                                 "two generators with equal RandomStates differ", "same sequence", where="reproducible")
                except StopIteration:
                    stops.append(t)
                    try:
                        next(g2)
                    except StopIteration:
                        pass
            case = {"gen": "OrthonormalVectors", "d": d, "seed": seed}
            # the same generator drawn with a mixed history (next, slices, for-loop: every `iter()` call included)
            g3 = vg.OrthonormalVectors(d, rng=np.random.RandomState(seed))
            mixed = []
            try:
                mixed.append(np.array(next(g3)))
                mixed += [np.array(x) for x in itertools.islice(g3, 2)]
                mixed += [np.array(x) for x in itertools.islice(iter(g3), 1)]
                for x in g3:
                    mixed.append(np.array(x))
                    if len(mixed) > d + 3:
                        break
            except StopIteration:
                pass
            ctx.count(f"ortho {d} {seed} mixed", nontrivial=d >= 2, branch="orthonormal-mixed-history")
            if len(mixed) != len(vs) or any(not np.array_equal(a, b) for a, b in zip(mixed, vs)):
                ctx.fail(dict(case, history="next, islice(2), islice(iter(g),1), for-loop"),
                         f"{len(mixed)} vectors; equal to the next()-only sequence: "
                         f"{[bool(np.array_equal(a, b)) for a, b in zip(mixed, vs)][:8]}",
                         f"the same {len(vs)} vectors whatever way they are drawn (orthonormal to all earlier ones, at most d)",
                         where="orthonormal-mixed-history")
            for t in range(len(vs)):
                ctx.count(f"ortho {d} {seed} {t}", nontrivial=d >= 2, branch="orthonormal-vector")
            ctx.count(f"ortho {d} {seed} stop", nontrivial=d >= 2, branch="orthonormal-stop")
            if stops != [d, d + 1] or len(vs) != d:
                ctx.fail(case, f"{len(vs)} vectors, StopIteration at requests {stops}", f"exactly {d} vectors, then StopIteration",
                         where="orthonormal-exhaustion")
            if any(len(v) != d for v in vs):
                ctx.fail(case, "wrong length", f"length {d}", where="orthonormal-length")
            res = gram_residual(vs)
            if res > TOL:
                ctx.fail(case, f"max |Gram - I| = {fl(res):.3e}", "<= 1e-9", where="orthonormal-gram")
            ctx.sample(dict(case, gram_residual=fl(res)), limit=5)
            # the draw is consumed by every request, also the stopping ones (model: request t uses draw t)
            if g.rng.randn() != twin.randn():
                ctx.diff(case, "rng position after d+2 requests", "d+2 draws consumed", op="ortho-draws")
            if nd or not finite(*vs):
                continue
            if gram_driver(d) and si == 0:
                def cb(st, payload, case=case, res=res):
                    if st != "ok" or F(payload) != res:
                        ctx.diff(case, str(fl(res)), f"{st} {payload[:80]}", op="gram")
                ctx.ask("gram", [d, vecs_tok(vs)], cb)
            if d <= step_max:
                for t in range(d + 1):
                    prev = vs[:t]

                    def cbs(st, payload, case=case, t=t, d=d, prev=prev, vs=vs):
                        c = dict(case, request=t)
                        if t >= d:
                            if (st, payload) != ("ok", "stop"):
                                ctx.diff(c, "StopIteration", f"{st} {payload[:80]}", op="ostep")
                            return
                        if st != "ok" or not payload.startswith("v:"):
                            ctx.diff(c, "vector", f"{st} {payload[:80]}", op="ostep")
                            return
                        x = common.parse_qvec(payload[2:])
                        n2 = sum(a * a for a in x)
                        nrm = math.sqrt(float(n2))
                        cond = float(np.linalg.cond(np.array(prev)[:t, :t])) if t else 1.0
                        if not all(abs(float(a) / nrm - float(b)) <= TOL * max(1.0, cond) for a, b in zip(x, vs[t])):
                            ctx.diff(c, [float(b) for b in vs[t]], [float(a) / nrm for a in x], op="ostep")
                    ctx.ask("ostep", [d, vecs_tok(prev), common.qvec(draws[t])], cbs)


VANISHING = [[1, 2, 1, 2, 1, 2], [1, 1, 1, 1, 1], [1, -1, 1, -1], [1, 2, 3, 1, 2, 3], [1, 0, 1, 0, 1, 0, 1, 0],
             [2, 2, 2], [1, 2, 3, 4, 1, 2, 3, 4], [0, 0, 0, 0, 0], [1, 2, 1, 2, 1, 2, 1, 2, 1, 2], [3, 1, 3, 1],
             [1, 2, 3, 1, 2, 3, 1, 2, 3], [5, 5], [1, 0, 0, 1, 0, 0, 1, 0, 0, 1, 0, 0]]


def check_unitary(ctx, nd, alg, u, case, where, to_driver):
    d = case["d"]
    res = unit_residual(alg, u)
    if len(u) != d or res > TOL:
        ctx.fail(case, f"len {len(u)}, unitarity residual {fl(res):.3e}", "length d, residual <= 1e-9", where=where)
    if to_driver and not nd and finite(u):
        def cb(st, payload, case=case, res=res):
            if st != "ok" or F(payload) != res:
                ctx.diff(case, str(fl(res)), f"{st} {payload[:80]}", op="unitres")
        ctx.ask("unitres", [alg, common.qvec(u)], cb)
    return res


def sec_unitary(ctx, nd):
    T = 3
    for alg, A in ALGS.items():
        dims = hrr_dims(ctx.tier) if alg == "hrr" else sq_dims(ctx.tier)
        for d in dims:
            for si, seed in enumerate(seeds(ctx, 2)):
                g = vg.UnitaryVectors(d, A, rng=np.random.RandomState(seed))
                g2 = vg.UnitaryVectors(d, A, rng=np.random.RandomState(seed))
                twin = np.random.RandomState(seed)
                for t in range(T):
                    u, u2 = next(g), next(g2)
                    case = {"gen": "UnitaryVectors", "alg": alg, "d": d, "seed": seed, "request": t}
                    ctx.count(f"unitary {alg} {d} {seed} {t}", nontrivial=d >= 2, branch=f"unitary-{alg}")
                    res = check_unitary(ctx, nd, alg, u, case, f"unitary-vectors-{alg}", to_driver=(t == 0 and si == 0))
                    if not np.array_equal(u, A.make_unitary(twin.randn(d))):
                        ctx.diff(case, "value", "make_unitary(randn(d)) on a twin RandomState", op="unitary-next")
                    if not np.array_equal(u, u2):
                        ctx.fail(case, "two generators with equal RandomStates differ", "same sequence", where="reproducible")
                ctx.sample({"gen": "UnitaryVectors", "alg": alg, "d": d, "seed": seed, "residual": fl(res)}, limit=8)
    # deterministic stream: draws with vanishing Fourier coefficients (never produced by randn)
    H = ALGS["hrr"]
    for row in VANISHING:
        d = len(row)
        for via in ("UnitaryVectors", "create_vector", "VectorsWithProperties"):
            if via == "UnitaryVectors":
                u = next(vg.UnitaryVectors(d, H, rng=StubRng([row])))
            elif via == "create_vector":
                if not any(row):
                    continue    # create_vector normalises first: 0/0
                u = H.create_vector(d, {"unitary"}, rng=StubRng([row]))
            else:
                if not any(row):
                    continue
                u = next(vg.VectorsWithProperties(d, {"unitary"}, H, rng=StubRng([row])))
            case = {"gen": via, "alg": "hrr", "d": d, "draw": row, "properties": ["unitary"]}
            ctx.count(f"vanishing {via} {row}", nontrivial=True, branch="unitary-hrr-vanishing-coefficient")
            check_unitary(ctx, nd, "hrr", u, case, "unitary-vectors-hrr-vanishing-coefficient", to_driver=True)


def prop_tok(p):
    return {"unitary": "U", "positive": "P"}.get(p, "x:" + (p or "empty"))


def reconstruct(alg, A, kind, d, draw_rng):
    """the vector of the model's kind, built from the implementation's own primitives on a twin rng"""
    if kind == "identity":
        return ALGS[alg].identity_element(d) if alg != "vtb" else (np.eye(math.isqrt(d)) / d ** 0.25).flatten()
    v = draw_rng.randn(d)
    if alg == "hrr":
        v = v / np.linalg.norm(v)
        if kind in ("positive", "positive-unitary"):
            v = A.abs(v)
        if kind in ("unitary", "positive-unitary"):
            v = A.make_unitary(v)
        return v
    if kind == "unitary":
        return A.make_unitary(v)
    if kind == "plain":
        return v / np.linalg.norm(v)
    return None


def sec_properties(ctx, nd):
    base_sets = [[], ["unitary"], ["positive"], ["unitary", "positive"], ["bogus"], ["unitary", "bogus"],
                 ["positive", "bogus"], ["unitary", "positive", "bogus"], ["bogus", "other"], ["Unitary"],
                 ["unitary", "unitary"], ["positive", "unitary", "positive"],
                 # an unknown property is unknown whatever its truth value (the empty string is falsy)
                 [""], ["", "unitary"], ["", "positive", "unitary"]]
    for alg, A in ALGS.items():
        if alg == "hrr":
            dims = list(range(1, 17)) + ([24, 32] if ctx.tier == "quick" else list(range(17, 65)))
        else:
            dims = sq_dims(ctx.tier) + [2, 3, 5, 8, 15, 17]
        for d in dims:
            square = math.isqrt(d) ** 2 == d
            for props in base_sets:
                want_u, want_p = "unitary" in props, "positive" in props
                valid = all(p in ("unitary", "positive") for p in props)
                for mode in ("create_vector", "VectorsWithProperties", "VectorsWithProperties-set"):
                    seed = ctx.rng.randrange(2 ** 31)
                    requests = 1 if mode == "create_vector" else 3
                    # the generator hands the SAME properties object to every request: a list and a real set
                    arg = {"create_vector": set(props), "VectorsWithProperties": list(props),
                           "VectorsWithProperties-set": set(props)}[mode]
                    arg_before = sorted(arg)
                    rng = CountRng(seed)
                    twin = np.random.RandomState(seed)
                    gen = vg.VectorsWithProperties(d, arg, A, rng=rng) if mode != "create_vector" else None
                    for t in range(requests):
                        calls0 = rng.calls
                        with warnings.catch_warnings(record=True) as wl:
                            warnings.simplefilter("always")
                            try:
                                v = A.create_vector(d, arg, rng=rng) if gen is None else next(gen)
                                impl = "vector"
                            except ValueError as e:
                                v = None
                                # sub-cause from the message when recognised, else from the inputs (a reworded message
                                # of the same exception class is not a difference)
                                impl = "invalid" if "Invalid properties" in str(e) else (
                                    "not-square" if "square" in str(e) else
                                    ("invalid" if not valid else ("not-square" if not square and alg != "hrr" else "valueerror")))
                            except ImportError:
                                v, impl = None, "needs-scipy"
                        if isinstance(v, np.ndarray):
                            # the caller owns what it was handed: after the value has been noted it scribbles over the
                            # array in place; every later vector (this generator, the next request, the next
                            # generator) must still have the requested properties
                            handed, v = v, np.array(v, copy=True)
                            if handed.flags.writeable:
                                handed *= -2.0
                                handed += 0.5
                        warned = any(issubclass(w.category, UserWarning) and "identity" in str(w.message) for w in wl)
                        ndraws = rng.calls - calls0
                        case = {"gen": mode, "alg": alg, "d": d, "properties": sorted(props), "seed": seed, "request": t}
                        if sorted(arg) != arg_before:
                            ctx.fail(case, f"the caller's properties collection became {sorted(arg)}", f"unchanged: {arg_before}",
                                     where=f"properties-argument-mutated-{alg}")
                            arg_before = sorted(arg)
                        key = f"props {mode} {alg} {d} {props} {t}"
                        ctx.count(key, nontrivial=d >= 2, branch=f"properties-{alg}-{impl}")
                        ctx.sample(dict(case, impl=impl, draws=ndraws, warned=warned), limit=14)
                        # ---------------- oracle: the statement
                        if not valid:
                            if v is not None:
                                ctx.fail(case, "a vector was returned", "unknown properties rejected", where=f"properties-unknown-accepted-{alg}")
                        elif v is not None:
                            if len(v) != d:
                                ctx.fail(case, f"length {len(v)}", f"length {d}", where=f"properties-length-{alg}")
                            elif want_u:
                                if not square and alg != "hrr":
                                    ctx.fail(case, "vector", "no unitary vector of a non-square dimensionality", where=f"properties-not-square-{alg}")
                                else:
                                    r = unit_residual(alg, v)
                                    if r > TOL:
                                        ctx.fail(case, f"unitarity residual {fl(r):.3e}", "<= 1e-9", where=f"properties-unitary-{alg}")
                            if want_p and len(v) == d:
                                if alg == "hrr":
                                    dc, nyq = hrr_dc_nyq(v)
                                    if not (dc > 0 and (d % 2 == 1 or nyq >= 0)):
                                        ctx.fail(case, f"DC {fl(dc):.3e}, Nyquist {fl(nyq):.3e}", "positive sign (DC > 0, Nyquist >= 0)",
                                                 where="properties-positive-hrr")
                                elif square:
                                    m = math.isqrt(d)
                                    M = np.array(v).reshape(m, m)
                                    if not (np.allclose(M, M.T, atol=1e-12) and np.all(np.linalg.eigvalsh((M + M.T) / 2) > 0)):
                                        ctx.fail(case, "not symmetric positive definite", "positive sign", where=f"properties-positive-{alg}")
                            if not want_u and not want_p and len(v) == d:
                                r = gram_residual([v])
                                if r > TOL:
                                    ctx.fail(case, f"|norm^2-1| = {fl(r):.3e}", "unit length", where=f"properties-plain-{alg}")
                        else:
                            # a documented set was refused: only acceptable where the statement allows it
                            scipy_case = alg != "hrr" and want_p and not want_u and impl == "needs-scipy"
                            notsq_case = alg != "hrr" and not square and impl == "not-square"
                            if not (scipy_case or notsq_case):
                                ctx.fail(case, impl, "a vector with the requested properties", where=f"properties-valid-refused-{alg}")

                        # ---------------- model
                        def cb(st, payload, case=case, impl=impl, ndraws=ndraws, warned=warned, v=v, alg=alg, A=A, d=d, twin=twin):
                            if st != "ok":
                                ctx.diff(case, impl, f"{st} {payload}", op="dispatch")
                                return
                            parts = payload.split(":")
                            if parts[0] == "vector":
                                model = ("vector", int(parts[2]), parts[3] == "1")
                            elif parts[0] == "invalid":
                                model = ("invalid", int(parts[1]), parts[2] == "1")
                            elif parts[0] == "not-square":
                                model = ("not-square", int(parts[1]), False)
                            else:
                                model = (parts[0], 0, False)
                            if model != (impl, ndraws, warned):
                                ctx.diff(case, [impl, ndraws, warned], list(model), op="dispatch")
                                return
                            # advance the twin by the model's number of draws; rebuild the vector of the model's kind
                            if parts[0] == "vector":
                                exp = reconstruct(alg, A, parts[1], d, twin)
                                if exp is None or not np.allclose(exp, v, rtol=0, atol=TOL):
                                    ctx.diff(case, "vector value", f"kind {parts[1]} rebuilt from the primitives differs", op="dispatch-kind")
                            else:
                                for _ in range(model[1]):
                                    twin.randn(d)
                        if not nd:
                            ctx.ask("dispatch", [alg, 0, d, ",".join(prop_tok(p) for p in props) or "-"], cb)
    # identity element of the model (VTB/TVTB positive unitary vector)
    for alg in ("vtb", "tvtb"):
        for d in sq_dims(ctx.tier):
            with warnings.catch_warnings():
                warnings.simplefilter("ignore")
                v = ALGS[alg].create_vector(d, {"unitary", "positive"})
            m = math.isqrt(d)
            case = {"gen": "create_vector", "alg": alg, "d": d, "properties": ["positive", "unitary"]}
            ctx.count(f"identity {alg} {d}", nontrivial=d >= 2, branch=f"properties-{alg}-identity")
            if not np.allclose(np.array(v).reshape(m, m) * math.sqrt(m), np.eye(m), rtol=0, atol=1e-12):
                ctx.fail(case, [float(x) for x in v][:8], "identity element", where=f"properties-identity-{alg}")

            def cbi(st, payload, case=case, v=v, m=m):
                if st != "ok" or not common.vec_close(v, [common.qs_float(p, m) for p in common.parse_qsvec(payload)]):
                    ctx.diff(case, [float(x) for x in v][:8], f"{st} {payload[:80]}", op="ident")
            if not nd:
                ctx.ask("ident", [alg, d], cbi)


def eq_vectors(d, n, off):
    return vg.EquallySpacedPositiveUnitaryHrrVectors(d=d, n=n, offset=off)


def sec_equally_spaced(ctx, nd):
    ns = list(range(1, 17))
    delta = {}
    for d in hrr_dims(ctx.tier):
        delta[d] = np.eye(d)[0]
        # extra offsets (dyadic and not exactly representable ones)
        extra = [ctx.rng.randint(-24, 24) / 8.0, 1.0 / 3.0] if d % 4 == 1 else []
        for n in ns:
            cache = {}

            def V(n_, o_):
                k_ = (n_, o_)
                if k_ not in cache:
                    cache[k_] = eq_vectors(d, n_, o_).vectors
                return cache[k_]
            step = V(n, 1.0)[0]
            for off in OFFSETS + extra:
                gen = eq_vectors(d, n, off)
                rows = list(iter(gen))
                it = iter(gen)
                cnt = 0
                for _ in range(n + 1):
                    try:
                        next(it)
                        cnt += 1
                    except StopIteration:
                        break
                case = {"gen": "EquallySpacedPositiveUnitaryHrrVectors", "d": d, "n": n, "offset": off}
                if cnt != n or len(rows) != n or gen.vectors.shape != (n, d):
                    ctx.fail(case, f"{cnt} vectors, shape {gen.vectors.shape}", f"n = {n} vectors of length {d}", where="equally-spaced-count")
                    continue
                if not np.array_equal(np.array(rows), eq_vectors(d, n, off).vectors):
                    ctx.fail(case, "two constructions differ", "same sequence", where="reproducible")
                # spectral tie (Props/C19S.lean): vector k is `C19.Spectral19.vector (d-1) e_k` with
                # e_k = (k + offset)*cc/n, evaluated from the definitions (explicit half-spectrum sum, no FFT)
                if d <= 24 or d in (31, 32, 63, 64):
                    cc_ = (d + 1) // 2
                    roots = [cmath.exp(2j * math.pi * (cc_ - w) / cc_) for w in range(d // 2 + 1)]
                    for k, u in enumerate(rows):
                        e_k = (k + off) * cc_ / n
                        hk = [r ** e_k for r in roots]
                        mv = []
                        for j in range(d):
                            acc = 0.0
                            for w in range(d // 2 + 1):
                                fw = 1.0 if (w == 0 or 2 * w == d) else 2.0
                                acc += fw * (hk[w] * cmath.exp(2j * math.pi * ((w * j) % d) / d)).real
                            mv.append(acc / d)
                        err = float(np.abs(np.array(mv) - u).max())
                        ctx.extra["spectral_vector_max_err"] = max(ctx.extra.get("spectral_vector_max_err", 0.0), err)
                        if err > TOL * max(1.0, abs(e_k)):
                            ctx.diff(dict(case, k=k, exponent=e_k), err, "C19.Spectral19.vector within 1e-9", op="spectral-vector")
                            break
                worst = F(0)
                for k, u in enumerate(rows):
                    ctx.count(f"eq {d} {n} {off} {k}", nontrivial=d >= 2, branch="equally-spaced-vector")
                    c = dict(case, k=k)
                    r = hrr_unit_residual(u)
                    worst = max(worst, r)
                    if r > TOL:
                        ctx.fail(c, f"unitarity residual {fl(r):.3e}", "<= 1e-9", where="equally-spaced-unitary")
                    dc, nyq = hrr_dc_nyq(u)
                    if not (dc > 0 and (d % 2 == 1 or nyq > 0)) or abs(fl(dc) - 1) > TOL or (d % 2 == 0 and abs(fl(nyq) - 1) > TOL):
                        ctx.fail(c, f"DC {fl(dc)!r}, Nyquist {fl(nyq)!r}", "positive sign (DC = Nyquist = 1)", where="equally-spaced-positive")
                    # one fixed step, returning to the first vector after n steps
                    nxt = rows[(k + 1) % n]
                    if not np.allclose(circ_bind(u, step), nxt, rtol=0, atol=TOL):
                        ctx.fail(c, "v_k ⊛ step != v_{k+1 mod n}", "fixed step; n steps return to the first vector",
                                 where="equally-spaced-step" if k + 1 < n else "equally-spaced-return")
                    # refinement law 2: V(n, o)[k] = V(n, o + k)[0]
                    if not np.allclose(u, V(n, off + k)[0], rtol=0, atol=TOL):
                        ctx.fail(c, "V(n,o)[k] != V(n,o+k)[0]", "position (k+o)/n on the hyper-circle", where="equally-spaced-offset-shift")
                # n-fold return stated directly: binding v_0 with the step n times
                w = rows[0]
                for _ in range(n):
                    w = circ_bind(w, step)
                if not np.allclose(w, rows[0], rtol=0, atol=TOL * max(1, n)):
                    ctx.fail(case, "v_0 ⊛ step^n != v_0", "returns to the first vector after n steps", where="equally-spaced-return")
                if off == 0.0 and not np.allclose(rows[0], delta[d], rtol=0, atol=TOL):
                    ctx.fail(case, [float(x) for x in rows[0]][:8], "offset 0: the first vector is the identity", where="equally-spaced-offset-zero")
                # refinement law 1: V(n, p/q)[k] = V(n q, 0)[(k q + p) mod n q]
                fo = F(off).limit_denominator(64)
                if abs(float(fo) - off) < 1e-15 and n * fo.denominator <= 256:
                    p, q = fo.numerator, fo.denominator
                    W = V(n * q, 0.0)
                    for k, u in enumerate(rows):
                        if not np.allclose(u, W[(k * q + p) % (n * q)], rtol=0, atol=TOL):
                            ctx.fail(dict(case, k=k, p=p, q=q), "V(n,p/q)[k] != V(nq,0)[kq+p]", "the first vector lies at the requested offset",
                                     where="equally-spaced-offset-refinement")
                            break
                ctx.sample(dict(case, worst_unitarity_residual=fl(worst)), limit=20)

                # ---------------- model: the phase schedule
                spec = np.fft.rfft(np.array(rows), axis=1)
                if not finite(spec.real, spec.imag):
                    continue

                def cb(st, payload, case=case, spec=spec, n=n, d=d):
                    if st != "ok":
                        ctx.diff(case, "table", f"{st} {payload[:80]}", op="sched")
                        return
                    rws = payload.split(";")
                    if len(rws) != n:
                        ctx.diff(case, f"{n} rows", f"{len(rws)} rows", op="sched")
                        return
                    for k, r in enumerate(rws):
                        turns = common.parse_qvec(r)
                        if len(turns) != d // 2 + 1:
                            ctx.diff(case, d // 2 + 1, len(turns), op="sched-width")
                            return
                        for j, tq in enumerate(turns):
                            ang = 2 * math.pi * float(tq - (tq.numerator // tq.denominator))
                            z = complex(math.cos(ang), math.sin(ang))
                            if abs(spec[k, j] - z) > TOL:
                                ctx.diff(dict(case, k=k, j=j), [spec[k, j].real, spec[k, j].imag], [z.real, z.imag], op="sched")
                                return
                if not nd:
                    ctx.ask("sched", [root_tie(d), d, n, common.q(off)], cb)
        # n = 0
        case = {"gen": "EquallySpacedPositiveUnitaryHrrVectors", "d": d, "n": 0, "offset": 0.0}
        ctx.count(f"eq {d} 0", nontrivial=False, branch="equally-spaced-n0")
        try:
            eq_vectors(d, 0, 0.0)
            impl0 = "ok"
        except ZeroDivisionError:
            impl0 = "zero-division"

        def cb0(st, payload, case=case, impl0=impl0):
            if (st == "err" and payload == "zero-division") != (impl0 == "zero-division"):
                ctx.diff(case, impl0, f"{st} {payload}", op="sched-n0")
        if not nd:
            ctx.ask("sched", [0, d, 0, 0], cb0)

            def cbx(st, payload, d=d):
                cc = (d + 1) // 2
                want = f"{cc} " + ",".join(str(i) for i in range(cc, d % 2 - 1, -1))
                if st != "ok" or payload != want:
                    ctx.diff({"op": "idx", "d": d}, want, f"{st} {payload}", op="idx")
            ctx.ask("idx", [d], cbx)


def run(ctx):
    nd = getattr(ctx, "no_driver", False)
    import time as _t
    for name, sec in (("axis", sec_axis), ("unit-length", sec_unit_length), ("orthonormal", sec_orthonormal),
                      ("unitary", sec_unitary), ("properties", sec_properties), ("equally-spaced", sec_equally_spaced)):
        t0 = _t.time()
        with np.errstate(all="ignore"):
            sec(ctx, nd)
        ctx.note(f"section {name}: {_t.time() - t0:.1f}s python")
    t0 = _t.time()
    if not nd:
        ctx.flush(DRIVER)
    ctx.note(f"driver wall {_t.time() - t0:.1f}s for the batched requests")
    ctx.extra["scipy_available"] = False
    ctx.extra["offsets"] = OFFSETS
